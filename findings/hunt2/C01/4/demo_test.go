package validate_test

import (
	"encoding/json"
	"testing"

	"github.com/go-openapi/spec"
	"github.com/go-openapi/strfmt"
	"github.com/go-openapi/validate"
)

// C01 finding 4 (borderline, see NOTE.md): a `default` annotation on a property satisfies `required` for an absent member.
func TestC01RequiredSatisfiedByDefault(t *testing.T) {
	verdicts := func(t *testing.T, rawSchema, rawInstance string) (bool, bool) {
		t.Helper()
		parse := func() *spec.Schema {
			sch := new(spec.Schema)
			if err := json.Unmarshal([]byte(rawSchema), sch); err != nil {
				t.Fatal(err)
			}
			return sch
		}
		var inst interface{}
		if err := json.Unmarshal([]byte(rawInstance), &inst); err != nil {
			t.Fatal(err)
		}
		oneShot := validate.AgainstSchema(parse(), inst, strfmt.Default) == nil
		object := validate.NewSchemaValidator(parse(), nil, "", strfmt.Default).Validate(inst).IsValid()
		return oneShot, object
	}

	for _, tc := range []struct {
		schema, instance string
		want             bool
	}{
		{`{"properties":{"a":{"type":"integer","default":1}},"required":["a"]}`, `{}`, false},
		// since 7c9adc3 also through a reference
		{`{"properties":{"a":{"$ref":"#/definitions/d"}},"required":["a"],"definitions":{"d":{"type":"integer","default":1}}}`, `{}`, false},
		// the default need not even be valid for the property
		{`{"properties":{"a":{"type":"integer","default":"x"}},"required":["a"]}`, `{}`, false},
		// in compositions the error is reversed: exactly one alternative holds for {}, the library counts two
		{`{"oneOf":[{"maxProperties":0},{"properties":{"a":{"default":0}},"required":["a"]}]}`, `{}`, true},
		{`{"not":{"properties":{"a":{"default":0}},"required":["a"]}}`, `{}`, true},
		// control
		{`{"properties":{"a":{"type":"integer"}},"required":["a"]}`, `{}`, false},
	} {
		oneShot, object := verdicts(t, tc.schema, tc.instance)
		if oneShot != tc.want || object != tc.want {
			t.Errorf("schema %s, instance %s: draft 4 says valid=%v, AgainstSchema says %v, SchemaValidator says %v",
				tc.schema, tc.instance, tc.want, oneShot, object)
		}
	}
}
