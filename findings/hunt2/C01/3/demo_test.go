package validate_test

import (
	"bytes"
	"encoding/json"
	"testing"

	"github.com/go-openapi/spec"
	"github.com/go-openapi/strfmt"
	"github.com/go-openapi/validate"
)

// C01 finding 3: the verdict on a JSON number depends on how the number is carried.
// Instances decoded with (*json.Decoder).UseNumber() carry their numbers as json.Number: the library has
// explicit support for them (schema.go, values.go numberOf, formats.go), yet many verdicts are wrong.
func TestC01JSONNumberInstances(t *testing.T) {
	verdicts := func(t *testing.T, rawSchema, rawInstance string, useNumber bool) (bool, bool) {
		t.Helper()
		parse := func() *spec.Schema {
			sch := new(spec.Schema)
			if err := json.Unmarshal([]byte(rawSchema), sch); err != nil {
				t.Fatal(err)
			}
			return sch
		}
		var inst interface{}
		dec := json.NewDecoder(bytes.NewReader([]byte(rawInstance)))
		if useNumber {
			dec.UseNumber()
		}
		if err := dec.Decode(&inst); err != nil {
			t.Fatal(err)
		}
		oneShot := validate.AgainstSchema(parse(), inst, strfmt.Default) == nil
		object := validate.NewSchemaValidator(parse(), nil, "", strfmt.Default).Validate(inst).IsValid()
		return oneShot, object
	}

	for _, tc := range []struct {
		schema, instance string
		want             bool
	}{
		{`{"type":["integer","number"]}`, `1.5`, true}, // rejected: "strconv.ParseInt: parsing "1.5": invalid syntax"
		{`{"type":"integer"}`, `1e2`, true},            // 100, rejected
		{`{"type":"integer"}`, `1.0`, true},            // accepted when carried by a float64, rejected as a json.Number
		{`{}`, `5`, true},                              // the empty schema rejects a number
		{`{"enum":[5]}`, `5`, true},                    // rejected although valuesEqual knows json.Number
		{`{"not":{"type":"string"}}`, `5`, true},       // a number "is a string"
		{`{"minLength":3}`, `5`, true},                 // string keywords applied to a number
		{`{"properties":{"a":{"enum":[1,2]}}}`, `{"a":1}`, true},
		{`{"type":"number","maximum":3}`, `5`, false}, // control (correct)
		{`{"type":"integer"}`, `5`, true},             // control (correct)
	} {
		for _, useNumber := range []bool{false, true} {
			oneShot, object := verdicts(t, tc.schema, tc.instance, useNumber)
			if oneShot != tc.want || object != tc.want {
				t.Errorf("schema %s, instance %s (UseNumber=%v): draft 4 says valid=%v, AgainstSchema says %v, SchemaValidator says %v",
					tc.schema, tc.instance, useNumber, tc.want, oneShot, object)
			}
		}
	}
}
