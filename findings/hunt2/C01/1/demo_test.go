package validate_test

import (
	"encoding/json"
	"testing"

	"github.com/go-openapi/spec"
	"github.com/go-openapi/strfmt"
	"github.com/go-openapi/validate"
)

// C01 finding 1: oneOf with exactly one matching alternative is reported invalid when an alternative
// that comes AFTER the matching one fails with an error message starting with "IMPORTANT!".
func TestC01OneOfImportantLeak(t *testing.T) {
	verdicts := func(t *testing.T, rawSchema, rawInstance string) (bool, bool) {
		t.Helper()
		parse := func() *spec.Schema {
			sch := new(spec.Schema)
			if err := json.Unmarshal([]byte(rawSchema), sch); err != nil {
				t.Fatal(err)
			}
			return sch
		}
		var inst interface{}
		if err := json.Unmarshal([]byte(rawInstance), &inst); err != nil {
			t.Fatal(err)
		}
		oneShot := validate.AgainstSchema(parse(), inst, strfmt.Default) == nil
		object := validate.NewSchemaValidator(parse(), nil, "", strfmt.Default).Validate(inst).IsValid()
		return oneShot, object
	}

	for _, tc := range []struct {
		name, schema, instance string
		want                   bool
	}{
		{
			// alternative 0 holds, alternative 1 does not: exactly one => valid
			name:     "headers/pass-then-fail",
			schema:   `{"oneOf":[{"required":["headers"]},{"additionalProperties":false}]}`,
			instance: `{"headers":{"h":{"$ref":"#/x"}}}`,
			want:     true,
		},
		{
			// same alternatives, other order: the library gets this one right
			name:     "headers/fail-then-pass",
			schema:   `{"oneOf":[{"additionalProperties":false},{"required":["headers"]}]}`,
			instance: `{"headers":{"h":{"$ref":"#/x"}}}`,
			want:     true,
		},
		{
			// a root-level member whose name starts with IMPORTANT! : every message about it is "important"
			name:     "member-name/pass-then-fail",
			schema:   `{"oneOf":[{"type":"object"},{"properties":{"IMPORTANT!x":{"type":"string"}}}]}`,
			instance: `{"IMPORTANT!x":1}`,
			want:     true,
		},
		{
			// and the wrong verdict propagates: not(oneOf(...)) must be invalid here
			name:     "under-not",
			schema:   `{"not":{"oneOf":[{"required":["headers"]},{"additionalProperties":false}]}}`,
			instance: `{"headers":{"h":{"$ref":"#/x"}}}`,
			want:     false,
		},
	} {
		t.Run(tc.name, func(t *testing.T) {
			oneShot, object := verdicts(t, tc.schema, tc.instance)
			if oneShot != tc.want || object != tc.want {
				t.Errorf("schema %s, instance %s: draft 4 says valid=%v, AgainstSchema says %v, SchemaValidator says %v",
					tc.schema, tc.instance, tc.want, oneShot, object)
			}
		})
	}
}
