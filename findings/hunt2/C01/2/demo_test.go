package validate_test

import (
	"encoding/json"
	"testing"

	"github.com/go-openapi/spec"
	"github.com/go-openapi/strfmt"
	"github.com/go-openapi/validate"
)

// C01 finding 2: {"type":"integer"} accepts numbers with a fractional part as soon as they are large enough
// (>= ~2.5e8): the integer test is a relative-tolerance test, not an exact one.
func TestC01IntegerTypeAcceptsFractions(t *testing.T) {
	verdicts := func(t *testing.T, rawSchema, rawInstance string) (bool, bool) {
		t.Helper()
		parse := func() *spec.Schema {
			sch := new(spec.Schema)
			if err := json.Unmarshal([]byte(rawSchema), sch); err != nil {
				t.Fatal(err)
			}
			return sch
		}
		var inst interface{}
		if err := json.Unmarshal([]byte(rawInstance), &inst); err != nil {
			t.Fatal(err)
		}
		oneShot := validate.AgainstSchema(parse(), inst, strfmt.Default) == nil
		object := validate.NewSchemaValidator(parse(), nil, "", strfmt.Default).Validate(inst).IsValid()
		return oneShot, object
	}

	for _, tc := range []struct {
		schema, instance string
		want             bool
	}{
		{`{"type":"integer"}`, `250000001.5`, false},                        // 10 significant digits
		{`{"type":"integer"}`, `1000000000.5`, false},                       // 11 significant digits
		{`{"type":"integer"}`, `1000000000.25`, false},                      // 12 significant digits
		{`{"type":["integer","string"]}`, `99999999999.5`, false},           // 12 significant digits
		{`{"not":{"type":"integer"}}`, `1000000000.5`, true},                // the reverse error
		{`{"oneOf":[{"type":"integer"},{"type":"number"}]}`, `1000000000.5`, true}, // two alternatives counted instead of one
		{`{"items":{"type":"integer"}}`, `[1, 2, 1000000000.5]`, false},
		{`{"type":"integer"}`, `-1000000000.5`, false}, // control: the negative value is (correctly) rejected
		{`{"type":"integer"}`, `1.5`, false},           // control
	} {
		oneShot, object := verdicts(t, tc.schema, tc.instance)
		if oneShot != tc.want || object != tc.want {
			t.Errorf("schema %s, instance %s: draft 4 says valid=%v, AgainstSchema says %v, SchemaValidator says %v",
				tc.schema, tc.instance, tc.want, oneShot, object)
		}
	}
}
