package validate_test

import (
	"encoding/json"
	"fmt"
	"testing"

	"github.com/go-openapi/loads"
	"github.com/go-openapi/strfmt"
	"github.com/go-openapi/validate"
)

// Property C07: for every document accepted by the loader, spec validation returns its two results
// normally, in both continue-on-errors modes, whatever the document contains (references to nowhere included).
//
// A $ref whose JSON pointer designates an OPTIONAL, ABSENT member of the document (an operation the path
// item does not declare, a response without schema, a schema without items / not / additionalProperties,
// info without contact...) is a reference to nowhere. Every one of the documents below is accepted by the
// loader, and every one makes (*SpecValidator).Validate / validate.Spec panic.
func TestC07_RefToAbsentOptionalMemberPanics(t *testing.T) {
	const head = `{"swagger":"2.0","info":{"title":"t","version":"1"},`
	docs := map[string]string{
		// schema reference to an operation the path item does not have
		"schema $ref -> absent operation": head + `"paths":{"/a":{"get":{"responses":{"200":{"description":"ok","schema":{"$ref":"#/paths/~1a/put"}}}}}}}`,
		// schema reference to the default response of an operation which has none
		"schema $ref -> absent default response": head + `"paths":{"/a":{"get":{"responses":{"200":{"description":"ok","schema":{"$ref":"#/paths/~1a/get/responses/default"}}}}}}}`,
		// definition aliasing a keyword the target schema does not declare
		"definition $ref -> absent items":                head + `"paths":{},"definitions":{"a":{"type":"string"},"b":{"$ref":"#/definitions/a/items"}}}`,
		"definition $ref -> absent not":                  head + `"paths":{},"definitions":{"a":{"type":"string"},"b":{"$ref":"#/definitions/a/not"}}}`,
		"definition $ref -> absent additionalProperties": head + `"paths":{},"definitions":{"a":{"type":"string"},"b":{"$ref":"#/definitions/a/additionalProperties"}}}`,
		"definition $ref -> absent info.contact":         head + `"paths":{},"definitions":{"b":{"$ref":"#/info/contact"}}}`,
		// parameter / response / path item references
		"parameter $ref -> absent operation":     head + `"paths":{"/a":{"get":{"parameters":[{"$ref":"#/paths/~1a/put"}],"responses":{"200":{"description":"ok"}}}}}}`,
		"parameter $ref -> absent schema":        head + `"parameters":{"q":{"name":"q","in":"query","type":"string"}},"paths":{"/a":{"get":{"parameters":[{"$ref":"#/parameters/q/schema"}],"responses":{"200":{"description":"ok"}}}}}}`,
		"response $ref -> absent schema":         head + `"responses":{"r":{"description":"d"}},"paths":{"/a":{"get":{"responses":{"200":{"$ref":"#/responses/r/schema"}}}}}}`,
		"path item $ref -> absent operation":     head + `"paths":{"/a":{"get":{"responses":{"200":{"description":"ok"}}}},"/b":{"$ref":"#/paths/~1a/post"}}}`,
		"definition $ref -> absent paths object": `{"swagger":"2.0","info":{"title":"t","version":"1"},"definitions":{"b":{"$ref":"#/paths"}}}`,
	}

	for name, raw := range docs {
		for _, continueOnErrors := range []bool{false, true} {
			name, raw, continueOnErrors := name, raw, continueOnErrors
			t.Run(fmt.Sprintf("%s/continue=%t", name, continueOnErrors), func(t *testing.T) {
				doc, err := loads.Analyzed(json.RawMessage(raw), "")
				if err != nil {
					t.Skipf("not in the domain of the property: the loader rejects the document: %v", err)
				}

				defer func() {
					if r := recover(); r != nil {
						t.Errorf("spec validation panicked on a document that loads: %v", r)
					}
				}()

				v := validate.NewSpecValidator(doc.Schema(), strfmt.Default)
				v.SetContinueOnErrors(continueOnErrors)
				errs, warns := v.Validate(doc)
				if errs == nil || warns == nil {
					t.Errorf("expected two results, got %v, %v", errs, warns)
				}
			})
		}
	}
}

// Same thing through the one-call entry point.
func TestC07_SpecEntryPointPanics(t *testing.T) {
	raw := `{"swagger":"2.0","info":{"title":"t","version":"1"},
  "paths":{"/a":{"get":{"responses":{"200":{"description":"ok","schema":{"$ref":"#/paths/~1a/put"}}}}}}}`
	doc, err := loads.Analyzed(json.RawMessage(raw), "")
	if err != nil {
		t.Fatal(err)
	}
	defer func() {
		if r := recover(); r != nil {
			t.Errorf("validate.Spec panicked on a document that loads: %v", r)
		}
	}()
	_ = validate.Spec(doc, strfmt.Default) // must return an error (unresolved reference), not panic
}
