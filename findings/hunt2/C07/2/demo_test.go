package validate_test

import (
	"encoding/json"
	"fmt"
	"os"
	"os/exec"
	"runtime/debug"
	"strings"
	"testing"
	"time"

	"github.com/go-openapi/loads"
	"github.com/go-openapi/strfmt"
	"github.com/go-openapi/validate"
)

// A property (not a top-level definition) whose allOf refers back to itself, and which declares a default
// (or an example). The document loads, and none of the phases that precede the check of default values
// reports anything (the circular-ancestry check only looks at top-level definitions), so that the check of
// default values runs in BOTH continue-on-errors modes.
const c07NestedAllOfCycle = `{"swagger":"2.0","info":{"title":"t","version":"1"},"paths":{},
 "definitions":{"a":{"type":"object","properties":{
    "p":{"allOf":[{"$ref":"#/definitions/a/properties/p"}],"default":1}}}}}`

const c07ChildEnv = "C07_NESTED_ALLOF_CHILD"

// The failure is a fatal "stack overflow" (not a recoverable panic): it kills the process. The validation is
// therefore run in a child process (this same test binary), and the parent asserts that the child returned.
func TestC07_NestedAllOfCycleWithDefault(t *testing.T) {
	if mode := os.Getenv(c07ChildEnv); mode != "" {
		// child: the Go runtime aborts at 1GB of stack by default, which takes a while and a lot of memory to
		// reach; the recursion is unbounded, a smaller limit only makes the demonstration quicker.
		debug.SetMaxStack(64 << 20)

		doc, err := loads.Analyzed(json.RawMessage(c07NestedAllOfCycle), "")
		if err != nil {
			fmt.Println("NOTLOADED", err)
			return
		}
		v := validate.NewSpecValidator(doc.Schema(), strfmt.Default)
		v.SetContinueOnErrors(mode == "true")
		errs, warns := v.Validate(doc)
		fmt.Printf("RETURNED errs=%d warns=%d\n", len(errs.Errors), len(warns.Warnings))
		return
	}

	for _, mode := range []string{"false", "true"} {
		mode := mode
		t.Run("continue="+mode, func(t *testing.T) {
			cmd := exec.Command(os.Args[0], "-test.run=^TestC07_NestedAllOfCycleWithDefault$", "-test.count=1")
			cmd.Env = append(os.Environ(), c07ChildEnv+"="+mode)
			done := make(chan struct{})
			var out []byte
			var err error
			go func() { out, err = cmd.CombinedOutput(); close(done) }()
			select {
			case <-done:
			case <-time.After(5 * time.Minute):
				_ = cmd.Process.Kill()
				t.Fatalf("spec validation did not return within 5 minutes")
			}
			s := string(out)
			if strings.Contains(s, "NOTLOADED") {
				t.Skipf("outside the domain of the property: %s", s)
			}
			if err != nil || !strings.Contains(s, "RETURNED") {
				if i := strings.Index(s, "runtime stack:"); i > 0 {
					s = s[:i] // keep the header of the crash report only
				}
				if len(s) > 600 {
					s = s[:600]
				}
				t.Errorf("spec validation did not return its two results on a document that loads: %v\n%s", err, s)
			}
		})
	}
}
