package validate

import (
	"testing"

	"github.com/go-openapi/spec"
	"github.com/go-openapi/strfmt"
)

// C16 finding 6 (borderline: pointer kinds are not listed in the quantifier, the nil clause is in the statement):
// a typed nil pointer is a nil value, yet it is validated - and panics; a non-nil pointer passes the type check
// (the pointer is followed) and then skips every other constraint.
func TestC16Demo6_NilPointerPanics(t *testing.T) {
	s := spec.SimpleSchema{Type: "integer"}
	p := &spec.Parameter{ParamProps: spec.ParamProps{Name: "p", In: "query"}, SimpleSchema: s}
	h := &spec.Header{SimpleSchema: s}
	arr := &spec.Parameter{ParamProps: spec.ParamProps{Name: "p", In: "query"},
		SimpleSchema: spec.SimpleSchema{Type: "array", Items: &spec.Items{SimpleSchema: s}}}

	run := func(name string, f func() *Result) {
		defer func() {
			if e := recover(); e != nil {
				t.Errorf("%s: panic: %v", name, e)
			}
		}()
		if res := f(); res != nil && !res.IsValid() {
			t.Errorf("%s: a nil value is not validated, got %v", name, res.Errors)
		}
	}
	run("param", func() *Result { return NewParamValidator(p, strfmt.Default).Validate((*int64)(nil)) })
	run("header", func() *Result { return NewHeaderValidator("h", h, strfmt.Default).Validate((*int64)(nil)) })
	run("items", func() *Result { return NewParamValidator(arr, strfmt.Default).Validate([]*int64{nil}) })
}

func TestC16Demo6_PointerSkipsConstraints(t *testing.T) {
	three := 3.0
	five := int64(5)
	p := &spec.Parameter{ParamProps: spec.ParamProps{Name: "p", In: "query"},
		SimpleSchema: spec.SimpleSchema{Type: "integer"}, CommonValidations: spec.CommonValidations{Maximum: &three}}
	if res := NewParamValidator(p, strfmt.Default).Validate(five); res.IsValid() {
		t.Fatalf("premise: 5 > 3")
	}
	if res := NewParamValidator(p, strfmt.Default).Validate(&five); res.IsValid() {
		t.Errorf("*int64 -> 5 accepted against maximum 3: the type check followed the pointer, the number check did not run")
	}
}
