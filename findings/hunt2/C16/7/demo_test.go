package validate

import (
	"testing"

	"github.com/go-openapi/spec"
	"github.com/go-openapi/strfmt"
)

// C16 finding 7: []uint8 is a slice of integers (the quantifier covers slices of all integer widths), but
// type inference maps it to string/byte before looking at its kind: it is refused where an array of integers is
// declared, at any nesting level, and accepted as a string on which no string constraint is enforced.
func TestC16Demo7_Uint8Slice(t *testing.T) {
	ints := &spec.Items{SimpleSchema: spec.SimpleSchema{Type: "integer"}}
	arr := spec.SimpleSchema{Type: "array", Items: ints}
	p := &spec.Parameter{ParamProps: spec.ParamProps{Name: "p", In: "query"}, SimpleSchema: arr}
	h := &spec.Header{SimpleSchema: arr}

	for _, v := range []interface{}{[]int8{1, 2}, []uint16{1, 2}, []uint8{1, 2}} {
		if res := NewParamValidator(p, strfmt.Default).Validate(v); !res.IsValid() {
			t.Errorf("param <- %T: %v", v, res.Errors)
		}
		if res := NewHeaderValidator("h", h, strfmt.Default).Validate(v); !res.IsValid() {
			t.Errorf("header <- %T: %v", v, res.Errors)
		}
	}
	nested := &spec.Parameter{ParamProps: spec.ParamProps{Name: "p", In: "query"},
		SimpleSchema: spec.SimpleSchema{Type: "array", Items: &spec.Items{SimpleSchema: arr}}}
	if res := NewParamValidator(nested, strfmt.Default).Validate([][]uint8{{1, 2}}); !res.IsValid() {
		t.Errorf("nested <- [][]uint8: %v", res.Errors)
	}

	// conversely: taken for a string, and then none of the string constraints is looked at
	one := int64(1)
	str := &spec.Parameter{ParamProps: spec.ParamProps{Name: "p", In: "query"},
		SimpleSchema: spec.SimpleSchema{Type: "string"}, CommonValidations: spec.CommonValidations{MaxLength: &one, Pattern: "^x$"}}
	if res := NewParamValidator(str, strfmt.Default).Validate([]uint8{1, 2, 3}); res.IsValid() {
		t.Errorf("[]uint8{1,2,3} accepted for {type: string, maxLength: 1, pattern: ^x$}")
	}
}
