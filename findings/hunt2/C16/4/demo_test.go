package validate

import (
	"testing"

	"github.com/go-openapi/spec"
	"github.com/go-openapi/strfmt"
)

type c16Name string

// C16 finding 4: a value whose Go kind is string, but whose type is a named one (strfmt.Email, strfmt.UUID,
// a user-defined `type Name string`) passes the type check (type.go infers string / email for it), matches
// enum members by content (valuesEqual), and is then refused by the string and format validators with
// "must be of type string".
func TestC16Demo4_NamedStringTypes(t *testing.T) {
	two := int64(2)
	cases := []struct {
		name  string
		s     spec.SimpleSchema
		cv    spec.CommonValidations
		value interface{}
		valid bool
	}{
		{"user-defined string type", spec.SimpleSchema{Type: "string"}, spec.CommonValidations{}, c16Name("abc"), true},
		{"user-defined string type in enum", spec.SimpleSchema{Type: "string"}, spec.CommonValidations{Enum: []interface{}{"abc"}}, c16Name("abc"), true},
		{"strfmt.Email for format email", spec.SimpleSchema{Type: "string", Format: "email"}, spec.CommonValidations{}, strfmt.Email("a@b.co"), true},
		{"strfmt.UUID for format uuid", spec.SimpleSchema{Type: "string", Format: "uuid"}, spec.CommonValidations{}, strfmt.UUID("550e8400-e29b-41d4-a716-446655440000"), true},
		{"control: too long", spec.SimpleSchema{Type: "string"}, spec.CommonValidations{MaxLength: &two}, c16Name("abc"), false},
	}
	for _, c := range cases {
		p := &spec.Parameter{ParamProps: spec.ParamProps{Name: "p", In: "query"}, SimpleSchema: c.s, CommonValidations: c.cv}
		h := &spec.Header{SimpleSchema: c.s, CommonValidations: c.cv}
		arr := &spec.Parameter{ParamProps: spec.ParamProps{Name: "p", In: "query"},
			SimpleSchema: spec.SimpleSchema{Type: "array", Items: &spec.Items{SimpleSchema: c.s, CommonValidations: c.cv}}}
		if res := NewParamValidator(p, strfmt.Default).Validate(c.value); res.IsValid() != c.valid {
			t.Errorf("param, %s: valid=%t, want %t: %v", c.name, res.IsValid(), c.valid, res.Errors)
		}
		if res := NewHeaderValidator("h", h, strfmt.Default).Validate(c.value); res.IsValid() != c.valid {
			t.Errorf("header, %s: valid=%t, want %t: %v", c.name, res.IsValid(), c.valid, res.Errors)
		}
		if res := NewParamValidator(arr, strfmt.Default).Validate([]interface{}{c.value}); res.IsValid() != c.valid {
			t.Errorf("items, %s: valid=%t, want %t: %v", c.name, res.IsValid(), c.valid, res.Errors)
		}
	}
}
