package validate

import (
	"testing"

	"github.com/go-openapi/spec"
	"github.com/go-openapi/strfmt"
)

// C16 finding 1: a header of type string rejects the empty string, whatever the declared constraints.
func TestC16Demo1_HeaderEmptyStringIsRequired(t *testing.T) {
	zero := int64(0)
	cases := []struct {
		name   string
		header *spec.Header
	}{
		{"no constraint", &spec.Header{SimpleSchema: spec.SimpleSchema{Type: "string"}}},
		{"minLength 0", &spec.Header{SimpleSchema: spec.SimpleSchema{Type: "string"}, CommonValidations: spec.CommonValidations{MinLength: &zero}}},
		{"enum holds the empty string", &spec.Header{SimpleSchema: spec.SimpleSchema{Type: "string"}, CommonValidations: spec.CommonValidations{Enum: []interface{}{"", "a"}}}},
		{"pattern ^$", &spec.Header{SimpleSchema: spec.SimpleSchema{Type: "string"}, CommonValidations: spec.CommonValidations{Pattern: "^$"}}},
	}
	for _, c := range cases {
		res := NewHeaderValidator("X-Tag", c.header, strfmt.Default).Validate("")
		if res == nil || !res.IsValid() {
			t.Errorf("%s: \"\" has the declared type and meets every declared constraint, yet: %v", c.name, res.Errors)
		}
	}

	// the same value as an item of an array header is accepted: the verdict depends on the nesting level
	arr := &spec.Header{SimpleSchema: spec.SimpleSchema{Type: "array", Items: &spec.Items{SimpleSchema: spec.SimpleSchema{Type: "string"}}}}
	if res := NewHeaderValidator("X-Tag", arr, strfmt.Default).Validate([]string{""}); !res.IsValid() {
		t.Errorf("unexpected: %v", res.Errors)
	}
	// and the same definition as a (non required) parameter accepts it too
	p := &spec.Parameter{ParamProps: spec.ParamProps{Name: "X-Tag", In: "header"}, SimpleSchema: spec.SimpleSchema{Type: "string"}}
	if res := NewParamValidator(p, strfmt.Default).Validate(""); !res.IsValid() {
		t.Errorf("unexpected: %v", res.Errors)
	}
}
