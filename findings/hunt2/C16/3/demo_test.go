package validate

import (
	"math"
	"testing"

	"github.com/go-openapi/spec"
	"github.com/go-openapi/strfmt"
)

// C16 finding 3: minimum: -9223372036854775808 (math.MinInt64, exactly representable as a float64 and
// the natural lower bound of an int64) is declared "not an int64" and every instance fails.
func TestC16Demo3_MinInt64Bound(t *testing.T) {
	minInt64 := float64(math.MinInt64)
	for _, format := range []string{"", "int64"} {
		s := spec.SimpleSchema{Type: "integer", Format: format}
		cv := spec.CommonValidations{Minimum: &minInt64}
		p := &spec.Parameter{ParamProps: spec.ParamProps{Name: "p", In: "query"}, SimpleSchema: s, CommonValidations: cv}
		h := &spec.Header{SimpleSchema: s, CommonValidations: cv}
		arr := &spec.Parameter{ParamProps: spec.ParamProps{Name: "p", In: "query"},
			SimpleSchema: spec.SimpleSchema{Type: "array", Items: &spec.Items{SimpleSchema: s, CommonValidations: cv}}}

		for _, v := range []interface{}{int64(5), int32(-7), int64(math.MinInt64), uint8(0)} {
			if res := NewParamValidator(p, strfmt.Default).Validate(v); !res.IsValid() {
				t.Errorf("format %q, param <- %v (%T): %v", format, v, v, res.Errors)
			}
			if res := NewHeaderValidator("h", h, strfmt.Default).Validate(v); !res.IsValid() {
				t.Errorf("format %q, header <- %v (%T): %v", format, v, v, res.Errors)
			}
			if res := NewParamValidator(arr, strfmt.Default).Validate([]interface{}{v}); !res.IsValid() {
				t.Errorf("format %q, items <- [%v] (%T): %v", format, v, v, res.Errors)
			}
		}
	}

	// the root cause
	if err := IsValueValidAgainstRange(minInt64, "integer", "int64", "Minimum boundary", "p"); err != nil {
		t.Errorf("math.MinInt64 is an int64: %v", err)
	}
}
