package validate

import (
	"math"
	"testing"

	"github.com/go-openapi/spec"
	"github.com/go-openapi/strfmt"
)

// C16 finding 2: a bound of 2^63 or 2^64 (legal for type number, and what maximum: 9223372036854775807 /
// 18446744073709551615 become once parsed as float64) is compared with float64(value): the integers that
// round up to the bound get the verdict of the bound itself.
func TestC16Demo2_BoundBeyondIntegerRange(t *testing.T) {
	two63, two64 := 9223372036854775808.0, 18446744073709551616.0
	num := spec.SimpleSchema{Type: "number"}

	check := func(name string, cv spec.CommonValidations, value interface{}, wantValid bool) {
		t.Helper()
		p := &spec.Parameter{ParamProps: spec.ParamProps{Name: "p", In: "query"}, SimpleSchema: num, CommonValidations: cv}
		h := &spec.Header{SimpleSchema: num, CommonValidations: cv}
		arr := &spec.Parameter{ParamProps: spec.ParamProps{Name: "p", In: "query"},
			SimpleSchema: spec.SimpleSchema{Type: "array", Items: &spec.Items{SimpleSchema: num, CommonValidations: cv}}}
		if got := NewParamValidator(p, strfmt.Default).Validate(value).IsValid(); got != wantValid {
			t.Errorf("param %s <- %v (%T): valid=%t, want %t", name, value, value, got, wantValid)
		}
		if got := NewHeaderValidator("h", h, strfmt.Default).Validate(value).IsValid(); got != wantValid {
			t.Errorf("header %s <- %v (%T): valid=%t, want %t", name, value, value, got, wantValid)
		}
		if got := NewParamValidator(arr, strfmt.Default).Validate([]interface{}{value}).IsValid(); got != wantValid {
			t.Errorf("items %s <- [%v] (%T): valid=%t, want %t", name, value, value, got, wantValid)
		}
	}

	// 2^64-1 < 2^64: below the minimum, so invalid; below the exclusive maximum, so valid
	check("minimum 2^64", spec.CommonValidations{Minimum: &two64}, uint64(math.MaxUint64), false)
	check("exclusiveMaximum 2^64", spec.CommonValidations{Maximum: &two64, ExclusiveMaximum: true}, uint64(math.MaxUint64), true)
	// 2^63-1 < 2^63
	check("minimum 2^63", spec.CommonValidations{Minimum: &two63}, int64(math.MaxInt64), false)
	check("exclusiveMaximum 2^63", spec.CommonValidations{Maximum: &two63, ExclusiveMaximum: true}, int64(math.MaxInt64), true)
	check("exclusiveMinimum 2^63", spec.CommonValidations{Minimum: &two63, ExclusiveMinimum: true}, int64(math.MaxInt64), false) // control: already right
}
