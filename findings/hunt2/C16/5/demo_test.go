package validate

import (
	"testing"

	"github.com/go-openapi/spec"
	"github.com/go-openapi/strfmt"
)

// C16 finding 5: a nil slice is validated as an array of length 0 by the type, minItems and maxItems checks,
// but the enum and uniqueItems checks (valuesEqual) do not take it for the empty array.
func TestC16Demo5_NilSliceIsNotTheEmptyArray(t *testing.T) {
	ints := &spec.Items{SimpleSchema: spec.SimpleSchema{Type: "integer"}}
	one := int64(1)

	// the library does validate a nil slice, as an empty array
	p := &spec.Parameter{ParamProps: spec.ParamProps{Name: "p", In: "query"},
		SimpleSchema: spec.SimpleSchema{Type: "array", Items: ints}, CommonValidations: spec.CommonValidations{MinItems: &one}}
	if res := NewParamValidator(p, strfmt.Default).Validate([]int(nil)); res == nil || res.IsValid() {
		t.Fatalf("premise: a nil slice is an empty array for minItems")
	}

	// enum: [[]] admits the empty array only
	p = &spec.Parameter{ParamProps: spec.ParamProps{Name: "p", In: "query"},
		SimpleSchema: spec.SimpleSchema{Type: "array", Items: ints}, CommonValidations: spec.CommonValidations{Enum: []interface{}{[]interface{}{}}}}
	if res := NewParamValidator(p, strfmt.Default).Validate([]int{}); !res.IsValid() {
		t.Errorf("[]int{}: %v", res.Errors)
	}
	if res := NewParamValidator(p, strfmt.Default).Validate([]int(nil)); !res.IsValid() {
		t.Errorf("[]int(nil): %v", res.Errors)
	}
	h := &spec.Header{SimpleSchema: p.SimpleSchema, CommonValidations: p.CommonValidations}
	if res := NewHeaderValidator("h", h, strfmt.Default).Validate([]int(nil)); !res.IsValid() {
		t.Errorf("header, []int(nil): %v", res.Errors)
	}

	// the other way round: an enum member that is a nil slice (e.g. built in Go) and an empty value
	p.Enum = []interface{}{[]interface{}(nil)}
	if res := NewParamValidator(p, strfmt.Default).Validate([]int{}); !res.IsValid() {
		t.Errorf("enum [nil slice] <- []int{}: %v", res.Errors)
	}

	// one level down: enum [[[]]] and the value [][]int{nil}
	nested := &spec.Parameter{ParamProps: spec.ParamProps{Name: "p", In: "query"},
		SimpleSchema:      spec.SimpleSchema{Type: "array", Items: &spec.Items{SimpleSchema: spec.SimpleSchema{Type: "array", Items: ints}}},
		CommonValidations: spec.CommonValidations{Enum: []interface{}{[]interface{}{[]interface{}{}}}}}
	if res := NewParamValidator(nested, strfmt.Default).Validate([][]int{nil}); !res.IsValid() {
		t.Errorf("[][]int{nil}: %v", res.Errors)
	}

	// uniqueItems: two empty arrays are duplicates
	nested.Enum = nil
	nested.UniqueItems = true
	if res := NewParamValidator(nested, strfmt.Default).Validate([][]int{{}, {}}); res.IsValid() {
		t.Errorf("premise: [[],[]] holds duplicates")
	}
	if res := NewParamValidator(nested, strfmt.Default).Validate([][]int{nil, {}}); res.IsValid() {
		t.Errorf("[][]int{nil, {}} holds two empty arrays but passes uniqueItems")
	}
}
