package validate_test

import (
	"encoding/json"
	"testing"

	"github.com/go-openapi/loads"
	"github.com/go-openapi/strfmt"
	"github.com/go-openapi/validate"
)

// C09 / finding 2: a response header {type: string, default: ""} is reported as carrying an invalid default
// ("X-A in response is required"): the header schema (type: string, no minLength, no pattern, no enum) accepts "".

func TestC09F2_HeaderEmptyStringDefault(t *testing.T) {
	const raw = `{"swagger":"2.0","info":{"title":"t","version":"1"},
"paths":{"/p":{"get":{"operationId":"op","responses":{"200":{"description":"ok",
  "headers":{"X-A":{"type":"string","default":""}}}}}}}}`

	doc, err := loads.Analyzed(json.RawMessage(raw), "")
	if err != nil {
		t.Fatalf("cannot load spec: %v", err)
	}
	errs, warns := validate.NewSpecValidator(doc.Schema(), strfmt.Default).Validate(doc)
	if len(errs.Errors) > 0 || len(warns.Errors) > 0 {
		t.Errorf(`"" is a string: no report expected for this default, got:
 errors:   %v
 warnings: %v`, errs.Errors, warns.Errors)
	}

	// control: the same header with a non-empty default is accepted, and an invalid one is rejected
	const bad = `{"swagger":"2.0","info":{"title":"t","version":"1"},
"paths":{"/p":{"get":{"operationId":"op","responses":{"200":{"description":"ok",
  "headers":{"X-A":{"type":"string","minLength":1,"default":""}}}}}}}}`
	doc, err = loads.Analyzed(json.RawMessage(bad), "")
	if err != nil {
		t.Fatalf("cannot load spec: %v", err)
	}
	errs, _ = validate.NewSpecValidator(doc.Schema(), strfmt.Default).Validate(doc)
	if len(errs.Errors) == 0 {
		t.Errorf("control: minLength: 1 rejects the empty default, an error is expected")
	}
}
