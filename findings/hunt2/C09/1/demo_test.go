package validate_test

import (
	"encoding/json"
	"fmt"
	"testing"

	"github.com/go-openapi/loads"
	"github.com/go-openapi/spec"
	"github.com/go-openapi/strfmt"
	"github.com/go-openapi/validate"
)

// C09 / finding 1: the swagger-only "shape" rules (an array must have items, items requires type: array)
// are applied to the VALUE of a default or an example during the meta-schema pass of spec validation.
// A default (example) that its own schema accepts is reported as an error.

func c09f1Validate(t *testing.T, raw string) (errs, warns []string) {
	t.Helper()
	doc, err := loads.Analyzed(json.RawMessage(raw), "")
	if err != nil {
		t.Fatalf("cannot load spec: %v", err)
	}
	e, w := validate.NewSpecValidator(doc.Schema(), strfmt.Default).Validate(doc)
	for _, x := range e.Errors {
		errs = append(errs, x.Error())
	}
	for _, x := range w.Errors {
		warns = append(warns, x.Error())
	}
	return errs, warns
}

func c09f1SchemaAccepts(t *testing.T, schemaJSON string, value interface{}) {
	t.Helper()
	var sch spec.Schema
	if err := json.Unmarshal([]byte(schemaJSON), &sch); err != nil {
		t.Fatal(err)
	}
	if err := validate.AgainstSchema(&sch, value, strfmt.Default); err != nil {
		t.Fatalf("precondition: the schema is expected to accept the value: %v", err)
	}
}

const c09f1Tpl = `{"swagger":"2.0","info":{"title":"t","version":"1"},
"paths":{"/p":{"get":{"operationId":"op","parameters":[{"name":"b","in":"body","schema":{"$ref":"#/definitions/A"}}],"responses":{"200":{"description":"ok"}}}}},
"definitions":{"A":%s}}`

func TestC09F1_ShapeRulesOnValues(t *testing.T) {
	for _, tc := range []struct {
		name   string
		schema string // definition A
		probe  string // the schema that carries the value
		value  interface{}
	}{
		{
			name:   "default object has a member type: array",
			schema: `{"type":"object","default":{"type":"array"}}`,
			probe:  `{"type":"object"}`,
			value:  map[string]interface{}{"type": "array"},
		},
		{
			name:   "example object has a member type: array",
			schema: `{"type":"object","example":{"type":"array"}}`,
			probe:  `{"type":"object"}`,
			value:  map[string]interface{}{"type": "array"},
		},
		{
			name:   "property named default, default object has a member items",
			schema: `{"type":"object","properties":{"default":{"type":"object","default":{"items":1}}}}`,
			probe:  `{"type":"object"}`,
			value:  map[string]interface{}{"items": 1.0},
		},
		{
			name:   "property named example, example object has a member items",
			schema: `{"type":"object","properties":{"example":{"type":"object","example":{"items":1}}}}`,
			probe:  `{"type":"object"}`,
			value:  map[string]interface{}{"items": 1.0},
		},
	} {
		tc := tc
		t.Run(tc.name, func(t *testing.T) {
			c09f1SchemaAccepts(t, tc.probe, tc.value)

			errs, warns := c09f1Validate(t, fmt.Sprintf(c09f1Tpl, tc.schema))
			if len(errs) > 0 || len(warns) > 0 {
				t.Errorf("the value is accepted by its schema, yet spec validation reports:\n errors:   %q\n warnings: %q", errs, warns)
			}
		})
	}
}
