package validate_test

import (
	"encoding/json"
	"fmt"
	"testing"

	"github.com/go-openapi/loads"
	"github.com/go-openapi/strfmt"
	"github.com/go-openapi/validate"
)

// C09 / finding 3: the default of the items of an array parameter (or header) is judged against the
// format of the ENCLOSING parameter when the items declare no format of their own. The items schema
// {type: string} accepts "abc", yet an error is reported (with the message " is an invalid type name").

func c09f3Validate(t *testing.T, raw string) (errs, warns []string) {
	t.Helper()
	doc, err := loads.Analyzed(json.RawMessage(raw), "")
	if err != nil {
		t.Fatalf("cannot load spec: %v", err)
	}
	e, w := validate.NewSpecValidator(doc.Schema(), strfmt.Default).Validate(doc)
	for _, x := range e.Errors {
		errs = append(errs, x.Error())
	}
	for _, x := range w.Errors {
		warns = append(warns, x.Error())
	}
	return errs, warns
}

func TestC09F3_ItemsDefaultJudgedWithParentFormat(t *testing.T) {
	const tpl = `{"swagger":"2.0","info":{"title":"t","version":"1"},
"paths":{"/p":{"get":{"operationId":"op","parameters":[%s],"responses":{"200":{"description":"ok"%s}}}}}}`

	for _, tc := range []struct{ name, params, resp string }{
		{
			name:   "items default, array query parameter with a format",
			params: `{"name":"q","in":"query","type":"array","format":"date","items":{"type":"string","default":"abc"}}`,
		},
		{
			name:   "array default, array query parameter with a format",
			params: `{"name":"q","in":"query","type":"array","format":"date","items":{"type":"string"},"default":["abc"]}`,
		},
		{
			name: "items default, array header with a format",
			resp: `,"headers":{"X":{"type":"array","format":"uuid","items":{"type":"string","default":"abc"}}}`,
		},
		{ // control: same thing without the format on the array
			name:   "control: no format on the array",
			params: `{"name":"q","in":"query","type":"array","items":{"type":"string","default":"abc"}}`,
		},
	} {
		tc := tc
		t.Run(tc.name, func(t *testing.T) {
			errs, warns := c09f3Validate(t, fmt.Sprintf(tpl, tc.params, tc.resp))
			if len(errs) > 0 || len(warns) > 0 {
				t.Errorf("the items schema {type: string} accepts \"abc\": no report expected, got:\n errors:   %q\n warnings: %q", errs, warns)
			}
		})
	}
}
