package validate_test

import (
	"encoding/json"
	"strings"
	"testing"

	"github.com/go-openapi/loads"
	"github.com/go-openapi/strfmt"
	"github.com/go-openapi/validate"
)

// C09 / finding 5: some places that carry a default are never visited:
//   - the shared parameters (#/parameters) and shared responses (#/responses) that no operation references,
//   - the parameters of a path item that has no operation, or that an operation overrides.

func TestC09F5_UnvisitedLocations(t *testing.T) {
	const head = `{"swagger":"2.0","info":{"title":"t","version":"1"},`
	for _, tc := range []struct{ name, raw string }{
		{
			name: "shared simple parameter, not referenced",
			raw: head + `"paths":{"/p":{"get":{"responses":{"200":{"description":"ok"}}}}},
"parameters":{"P":{"name":"q","in":"query","type":"integer","default":"x"}}}`,
		},
		{
			name: "shared body parameter, not referenced",
			raw: head + `"paths":{"/p":{"get":{"responses":{"200":{"description":"ok"}}}}},
"parameters":{"P":{"name":"b","in":"body","schema":{"type":"integer","default":"x"}}}}`,
		},
		{
			name: "shared response schema, not referenced",
			raw: head + `"paths":{"/p":{"get":{"responses":{"200":{"description":"ok"}}}}},
"responses":{"R":{"description":"r","schema":{"type":"integer","default":"x"}}}}`,
		},
		{
			name: "shared response header, not referenced",
			raw: head + `"paths":{"/p":{"get":{"responses":{"200":{"description":"ok"}}}}},
"responses":{"R":{"description":"r","headers":{"X":{"type":"integer","default":"x"}}}}}`,
		},
		{
			name: "parameter of a path item without operation",
			raw:  head + `"paths":{"/p":{"parameters":[{"name":"q","in":"query","type":"integer","default":"x"}]}}}`,
		},
		{
			name: "parameter of a path item, overridden by the operation",
			raw: head + `"paths":{"/p":{"parameters":[{"name":"q","in":"query","type":"integer","default":"x"}],
"get":{"parameters":[{"name":"q","in":"query","type":"integer","default":1}],"responses":{"200":{"description":"ok"}}}}}}`,
		},
	} {
		tc := tc
		t.Run(tc.name, func(t *testing.T) {
			doc, err := loads.Analyzed(json.RawMessage(tc.raw), "")
			if err != nil {
				t.Fatalf("cannot load spec: %v", err)
			}
			errs, warns := validate.NewSpecValidator(doc.Schema(), strfmt.Default).Validate(doc)
			for _, e := range errs.Errors {
				if strings.Contains(e.Error(), "must be of type integer") {
					return
				}
			}
			t.Errorf(`default "x" is rejected by {type: integer}: an error is expected, got:
 errors:   %v
 warnings: %v`, errs.Errors, warns.Errors)
		})
	}
}
