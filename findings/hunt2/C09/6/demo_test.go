package validate_test

import (
	"encoding/json"
	"fmt"
	"testing"

	"github.com/go-openapi/loads"
	"github.com/go-openapi/spec"
	"github.com/go-openapi/strfmt"
	"github.com/go-openapi/validate"
)

// C09 / finding 6: a default (example) that is explicitly null is never judged: {"type":"integer","default":null}
// passes, although the schema rejects null (validate.AgainstSchema says so).

func TestC09F6_NullDefault(t *testing.T) {
	const tpl = `{"swagger":"2.0","info":{"title":"t","version":"1"},
"paths":{"/p":{"get":{"operationId":"op","parameters":[{"name":"b","in":"body","schema":{"$ref":"#/definitions/A"}}],"responses":{"200":{"description":"ok"}}}}},
"definitions":{"A":%s}}`

	// precondition: the schema rejects null
	var sch spec.Schema
	if err := json.Unmarshal([]byte(`{"type":"integer"}`), &sch); err != nil {
		t.Fatal(err)
	}
	if err := validate.AgainstSchema(&sch, nil, strfmt.Default); err == nil {
		t.Fatalf("precondition: {type: integer} is expected to reject null")
	}

	run := func(def string) (*validate.Result, *validate.Result) {
		doc, err := loads.Analyzed(json.RawMessage(fmt.Sprintf(tpl, def)), "")
		if err != nil {
			t.Fatalf("cannot load spec: %v", err)
		}
		return validate.NewSpecValidator(doc.Schema(), strfmt.Default).Validate(doc)
	}

	// control: a null inside a default is judged
	errs, _ := run(`{"type":"object","properties":{"p":{"type":"integer"}},"default":{"p":null}}`)
	if len(errs.Errors) == 0 {
		t.Errorf("control: default {p: null} with p integer: an error is expected")
	}

	errs, warns := run(`{"type":"integer","default":null}`)
	if len(errs.Errors) == 0 {
		t.Errorf("default null is rejected by {type: integer}: an error is expected, got errors=%v warnings=%v", errs.Errors, warns.Errors)
	}

	errs, warns = run(`{"type":"integer","example":null}`)
	if len(warns.Errors) == 0 {
		t.Errorf("example null is rejected by {type: integer}: a warning is expected, got errors=%v warnings=%v", errs.Errors, warns.Errors)
	}
}
