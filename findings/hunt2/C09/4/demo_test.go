package validate_test

import (
	"os"
	"path/filepath"
	"testing"

	"github.com/go-openapi/loads"
	"github.com/go-openapi/strfmt"
	"github.com/go-openapi/validate"
)

// C09 / finding 4: the default (or example) of a recursive definition that also holds a reference into another file
// is never judged, at no location, and nothing tells so.

func c09f4Validate(t *testing.T, dir, defA string) (errs, warns []string) {
	t.Helper()
	main := `{"swagger":"2.0","info":{"title":"t","version":"1"},
"paths":{"/p":{"get":{"operationId":"op","parameters":[{"name":"b","in":"body","schema":{"$ref":"#/definitions/A"}}],"responses":{"200":{"description":"ok"}}}}},
"definitions":{"A":` + defA + `}}`
	if err := os.WriteFile(filepath.Join(dir, "main.json"), []byte(main), 0o600); err != nil {
		t.Fatal(err)
	}
	doc, err := loads.Spec(filepath.Join(dir, "main.json"))
	if err != nil {
		t.Fatalf("cannot load spec: %v", err)
	}
	e, w := validate.NewSpecValidator(doc.Schema(), strfmt.Default).Validate(doc)
	for _, x := range e.Errors {
		errs = append(errs, x.Error())
	}
	for _, x := range w.Errors {
		warns = append(warns, x.Error())
	}
	return errs, warns
}

func TestC09F4_RecursiveDefinitionWithExternalRef(t *testing.T) {
	dir := t.TempDir()
	if err := os.WriteFile(filepath.Join(dir, "other.json"), []byte(`{"definitions":{"B":{"type":"integer"}}}`), 0o600); err != nil {
		t.Fatal(err)
	}

	// control 1: not recursive: the bad default {"q": 1} (q must be a string) is reported
	errs, _ := c09f4Validate(t, dir, `{"type":"object","properties":{
	  "p":{"$ref":"other.json#/definitions/B"},"q":{"type":"string"}},"default":{"q":1}}`)
	if len(errs) == 0 {
		t.Errorf("control (external reference only): an error is expected for default {q: 1}")
	}
	// control 2: recursive, no other file: reported
	errs, _ = c09f4Validate(t, dir, `{"type":"object","properties":{
	  "self":{"$ref":"#/definitions/A"},"q":{"type":"string"}},"default":{"q":1}}`)
	if len(errs) == 0 {
		t.Errorf("control (recursive only): an error is expected for default {q: 1}")
	}

	// recursive and external: default
	errs, warns := c09f4Validate(t, dir, `{"type":"object","properties":{
	  "self":{"$ref":"#/definitions/A"},"p":{"$ref":"other.json#/definitions/B"},"q":{"type":"string"}},"default":{"q":1}}`)
	if len(errs) == 0 {
		t.Errorf("default {q: 1} is rejected by its schema (q must be a string): an error is expected, got errors=%q warnings=%q", errs, warns)
	}
	// recursive and external: example
	errs, warns = c09f4Validate(t, dir, `{"type":"object","properties":{
	  "self":{"$ref":"#/definitions/A"},"p":{"$ref":"other.json#/definitions/B"},"q":{"type":"string"}},"example":{"q":1}}`)
	if len(warns) == 0 {
		t.Errorf("example {q: 1} is rejected by its schema (q must be a string): a warning is expected, got errors=%q warnings=%q", errs, warns)
	}
}
