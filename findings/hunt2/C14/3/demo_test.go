package validate_test

import (
	"encoding/json"
	"testing"

	"github.com/go-openapi/validate"
)

// C14: "EnumCase additionally folds case for strings": the case-insensitive mode may only add matches that differ
// by letter case. Here a *number* (json.Number is a number for Enum/UniqueItems since commit 85b4004) is declared a
// member of an enum of *strings*, only when caseSensitive is false, although no case difference is involved.
func TestC14_EnumCaseInsensitiveMatchesNumberWithString(t *testing.T) {
	enum := []interface{}{"1", "abc"}
	data := json.Number("1") // the number 1

	// reference: the case-sensitive verdict (correct: a number is never equal to a string)
	if err := validate.EnumCase("p", "body", data, enum, true); err == nil {
		t.Fatalf("precondition: the number 1 is not a member of [\"1\" \"abc\"]")
	}
	// no letters are involved, so folding case cannot change the verdict
	if err := validate.EnumCase("p", "body", data, enum, false); err == nil {
		t.Errorf("EnumCase(caseSensitive=false) accepts the number 1 as a member of the string enum [\"1\" \"abc\"]")
	}
	// symmetric: string data, numeric enum
	if err := validate.EnumCase("p", "body", "2.50", []interface{}{json.Number("2.50")}, false); err == nil {
		t.Errorf("EnumCase(caseSensitive=false) accepts the string \"2.50\" as a member of the numeric enum [2.50]")
	}
	// and the same helper agrees elsewhere that they are different values
	if err := validate.UniqueItems("p", "body", []interface{}{json.Number("1"), "1"}); err != nil {
		t.Errorf("UniqueItems: %v", err)
	}
}
