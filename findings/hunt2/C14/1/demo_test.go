package validate_test

import (
	"encoding/json"
	"testing"

	"github.com/go-openapi/validate"
)

// C14: Enum / UniqueItems must treat numerically equal numbers of different Go types as equal,
// and (deep value equality) numerically different numbers as different.
// json.Number values that do not fit an int64 are rounded through float64 by numberOf.
func TestC14_JSONNumberBeyondInt64IsRounded(t *testing.T) {
	// 1. equal numbers, different Go types: must be accepted
	if err := validate.Enum("p", "body", uint64(18446744073709551615),
		[]interface{}{json.Number("18446744073709551615")}); err != nil {
		t.Errorf("uint64(MaxUint64) is numerically equal to json.Number(18446744073709551615), got: %v", err)
	}
	if err := validate.Enum("p", "body", json.Number("9223372036854775809"),
		[]interface{}{uint64(9223372036854775809)}); err != nil {
		t.Errorf("json.Number(2^63+1) is numerically equal to uint64(2^63+1), got: %v", err)
	}
	if err := validate.Enum("p", "body", json.Number("9007199254740993.0"),
		[]interface{}{int64(9007199254740993)}); err != nil {
		t.Errorf("json.Number(9007199254740993.0) is numerically equal to int64(9007199254740993), got: %v", err)
	}

	// 2. different numbers: must be rejected
	if err := validate.Enum("p", "body", json.Number("9223372036854775809"),
		[]interface{}{json.Number("9223372036854775808")}); err == nil {
		t.Errorf("2^63+1 is not a member of enum [2^63], but Enum returned no error")
	}
	if err := validate.Enum("p", "body", uint64(9223372036854775808),
		[]interface{}{json.Number("9223372036854775809")}); err == nil {
		t.Errorf("uint64(2^63) is not a member of enum [2^63+1], but Enum returned no error")
	}
	if err := validate.Enum("p", "body", json.Number("0.10000000000000001"),
		[]interface{}{json.Number("0.1")}); err == nil {
		t.Errorf("0.10000000000000001 is not a member of enum [0.1], but Enum returned no error")
	}

	// 3. distinct items reported as duplicates
	if err := validate.UniqueItems("p", "body",
		[]interface{}{json.Number("9223372036854775808"), json.Number("9223372036854775809")}); err != nil {
		t.Errorf("2^63 and 2^63+1 are distinct items, got: %v", err)
	}
	if err := validate.UniqueItems("p", "body",
		[]interface{}{json.Number("18446744073709551614"), json.Number("18446744073709551615")}); err != nil {
		t.Errorf("2^64-2 and 2^64-1 are distinct items, got: %v", err)
	}
}
