package validate_test

import (
	"os"
	"os/exec"
	"testing"

	"github.com/go-openapi/validate"
)

// C14: helpers answer for every input ("nested slices and maps"); UniqueItems/Enum use deep value equality.
// reflect.DeepEqual (used until commit 85b4004) terminates on self-referential values; valuesEqual does not:
// the process dies with "fatal error: stack overflow", which cannot be recovered.
//
// The crashing call runs in a child process so that this test fails cleanly instead of killing the test binary.
func TestC14_CyclicValuesOverflowTheStack(t *testing.T) {
	if os.Getenv("C14_CHILD") == "1" {
		a := []interface{}{nil, 1}
		a[0] = a
		b := []interface{}{nil, 2}
		b[0] = b
		// a and b are two different values (a[1] != b[1]): no duplicates, expected result nil.
		if err := validate.UniqueItems("p", "body", []interface{}{a, b}); err != nil {
			os.Exit(3)
		}
		m := map[string]interface{}{"n": 1}
		m["self"] = m
		n := map[string]interface{}{"n": 2}
		n["self"] = n
		// m is not a member of [n]: expected an error.
		if err := validate.Enum("p", "body", m, []interface{}{n}); err == nil {
			os.Exit(4)
		}
		os.Exit(0)
	}

	cmd := exec.Command(os.Args[0], "-test.run", "^TestC14_CyclicValuesOverflowTheStack$")
	cmd.Env = append(os.Environ(), "C14_CHILD=1")
	out, err := cmd.CombinedOutput()
	if err != nil {
		if len(out) > 600 {
			out = out[:600]
		}
		t.Fatalf("UniqueItems/Enum on self-referential values did not return: %v\n%s", err, out)
	}
}
