package validate_test

import (
	"encoding/json"
	"reflect"
	"testing"

	"github.com/go-openapi/spec"
	"github.com/go-openapi/strfmt"
	"github.com/go-openapi/validate"
	"github.com/go-openapi/validate/post"
)

// C18: after validating valid data and applying defaults, every absent member for which an
// applicable schema declares a default holds that default.
//
// The schema is a root-level $ref into its own definitions, and the definition is recursive
// (the classical linked list / tree). "next" is absent, its schema (#/definitions/node)
// declares the default {"v":0}.
const c18RootRefSchema = `{
  "$ref": "#/definitions/node",
  "definitions": {
    "node": {
      "default": {"v": 0},
      "properties": {
        "v":    {"default": 1},
        "next": {"$ref": "#/definitions/node"}
      }
    }
  }
}`

func c18Defaulted(t *testing.T, v *validate.SchemaValidator, data string) interface{} {
	t.Helper()
	var d interface{}
	if err := json.Unmarshal([]byte(data), &d); err != nil {
		t.Fatal(err)
	}
	res := v.Validate(d)
	if !res.IsValid() {
		t.Fatalf("the data is valid, got %v", res.Errors)
	}
	post.ApplyDefaults(res)

	return res.Data()
}

func c18JSON(t *testing.T, s string) interface{} {
	t.Helper()
	var d interface{}
	if err := json.Unmarshal([]byte(s), &d); err != nil {
		t.Fatal(err)
	}

	return d
}

// The same *spec.Schema is used to build two validators, one after the other (one validator per
// request is the usual pattern). The first one is right, the second one silently loses the default.
func TestC18_RootRefSchema_SecondValidator(t *testing.T) {
	schema := new(spec.Schema)
	if err := json.Unmarshal([]byte(c18RootRefSchema), schema); err != nil {
		t.Fatal(err)
	}
	want := c18JSON(t, `{"v":1,"next":{"v":0}}`)

	first := c18Defaulted(t, validate.NewSchemaValidator(schema, nil, "", strfmt.Default), `{}`)
	if !reflect.DeepEqual(want, first) {
		t.Fatalf("first validator: want %v, got %v", want, first)
	}

	second := c18Defaulted(t, validate.NewSchemaValidator(schema, nil, "", strfmt.Default), `{}`)
	if !reflect.DeepEqual(want, second) {
		b, _ := json.Marshal(schema)
		t.Errorf("second validator on the same schema: want %v, got %v\nthe caller's schema is now: %s", want, second, b)
	}
}

// Same schema, the member is present this time: the second validator panics.
func TestC18_RootRefSchema_SecondValidator_PresentMember(t *testing.T) {
	schema := new(spec.Schema)
	if err := json.Unmarshal([]byte(c18RootRefSchema), schema); err != nil {
		t.Fatal(err)
	}
	want := c18JSON(t, `{"v":1,"next":{"v":1,"next":{"v":0}}}`)

	first := c18Defaulted(t, validate.NewSchemaValidator(schema, nil, "", strfmt.Default), `{"next":{}}`)
	if !reflect.DeepEqual(want, first) {
		t.Fatalf("first validator: want %v, got %v", want, first)
	}

	defer func() {
		if r := recover(); r != nil {
			t.Errorf("second validator on the same schema panicked: %v", r)
		}
	}()
	second := c18Defaulted(t, validate.NewSchemaValidator(schema, nil, "", strfmt.Default), `{"next":{}}`)
	if !reflect.DeepEqual(want, second) {
		t.Errorf("second validator on the same schema: want %v, got %v", want, second)
	}
}

// Single call: the schema is explicitly given as its own root document.
func TestC18_RootRefSchema_ExplicitRoot(t *testing.T) {
	schema := new(spec.Schema)
	if err := json.Unmarshal([]byte(c18RootRefSchema), schema); err != nil {
		t.Fatal(err)
	}
	want := c18JSON(t, `{"v":1,"next":{"v":0}}`)

	got := c18Defaulted(t, validate.NewSchemaValidator(schema, schema, "", strfmt.Default), `{}`)
	if !reflect.DeepEqual(want, got) {
		t.Errorf("want %v, got %v", want, got)
	}
}
