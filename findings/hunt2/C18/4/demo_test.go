package validate_test

import (
	"encoding/json"
	"reflect"
	"testing"

	"github.com/go-openapi/spec"
	"github.com/go-openapi/strfmt"
	"github.com/go-openapi/validate"
	"github.com/go-openapi/validate/post"
)

// C18 below an array: with the tuple form of "items", the elements after the tuple are governed by
// "additionalItems". An empty tuple is a tuple: every element comes after it.
func TestC18_EmptyTuple_AdditionalItemsDefaults(t *testing.T) {
	schema := new(spec.Schema)
	if err := json.Unmarshal([]byte(`{"items": [], "additionalItems": {"type": "object", "properties": {"a": {"default": 1}}}}`), schema); err != nil {
		t.Fatal(err)
	}
	var d interface{}
	_ = json.Unmarshal([]byte(`[{}, {"a": 2}]`), &d)

	res := validate.NewSchemaValidator(schema, nil, "", strfmt.Default).Validate(d)
	if !res.IsValid() {
		t.Fatalf("the data is valid, got %v", res.Errors)
	}
	post.ApplyDefaults(res)

	var want interface{}
	_ = json.Unmarshal([]byte(`[{"a": 1}, {"a": 2}]`), &want)
	if !reflect.DeepEqual(want, d) {
		g, _ := json.Marshal(d)
		t.Errorf(`want [{"a":1},{"a":2}], got %s`, g)
	}
}

// Control: the same with a tuple of one works.
func TestC18_TupleOfOne_AdditionalItemsDefaults(t *testing.T) {
	schema := new(spec.Schema)
	_ = json.Unmarshal([]byte(`{"items": [{}], "additionalItems": {"type": "object", "properties": {"a": {"default": 1}}}}`), schema)
	var d interface{}
	_ = json.Unmarshal([]byte(`[0, {}, {"a": 2}]`), &d)
	res := validate.NewSchemaValidator(schema, nil, "", strfmt.Default).Validate(d)
	post.ApplyDefaults(res)
	var want interface{}
	_ = json.Unmarshal([]byte(`[0, {"a": 1}, {"a": 2}]`), &want)
	if !reflect.DeepEqual(want, d) {
		t.Errorf("control failed: %v", d)
	}
}

// The cause, seen from the verdict: additionalItems is not enforced after an empty tuple.
func TestC18_EmptyTuple_AdditionalItemsVerdict(t *testing.T) {
	for _, schemaJSON := range []string{
		`{"items": [], "additionalItems": {"type": "object"}}`,
		`{"items": [], "additionalItems": false}`,
	} {
		schema := new(spec.Schema)
		_ = json.Unmarshal([]byte(schemaJSON), schema)
		var d interface{}
		_ = json.Unmarshal([]byte(`[1]`), &d)
		if res := validate.NewSchemaValidator(schema, nil, "", strfmt.Default).Validate(d); res.IsValid() {
			t.Errorf("%s must reject [1]", schemaJSON)
		}
	}
}
