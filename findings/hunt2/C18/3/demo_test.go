package validate_test

import (
	"encoding/json"
	"reflect"
	"testing"

	"github.com/go-openapi/spec"
	"github.com/go-openapi/strfmt"
	"github.com/go-openapi/validate"
	"github.com/go-openapi/validate/post"
)

// C18: "... every member that was absent and for which an applicable schema (through properties,
// every allOf member, ...) declares a default now holds a default declared by one of those schemas".
//
// Here the schema of the member is the usual swagger 2.0 idiom to decorate a reference:
// {"description": ..., "allOf": [{"$ref": ...}]}. The allOf member applies to "x" whatever its value,
// and declares a default.
func TestC18_DefaultInAllOfOfAbsentMember(t *testing.T) {
	for name, schemaJSON := range map[string]string{
		"ref":    `{"definitions": {"D": {"type": "integer", "default": 5}}, "properties": {"x": {"description": "a D", "allOf": [{"$ref": "#/definitions/D"}]}}}`,
		"inline": `{"properties": {"x": {"allOf": [{"type": "integer", "default": 5}]}}}`,
	} {
		t.Run(name, func(t *testing.T) {
			schema := new(spec.Schema)
			if err := json.Unmarshal([]byte(schemaJSON), schema); err != nil {
				t.Fatal(err)
			}
			var d interface{}
			_ = json.Unmarshal([]byte(`{}`), &d)

			res := validate.NewSchemaValidator(schema, nil, "", strfmt.Default).Validate(d)
			if !res.IsValid() {
				t.Fatalf("the data is valid, got %v", res.Errors)
			}
			post.ApplyDefaults(res)

			var want interface{}
			_ = json.Unmarshal([]byte(`{"x": 5}`), &want)
			if !reflect.DeepEqual(want, d) {
				g, _ := json.Marshal(d)
				t.Errorf(`want {"x":5}, got %s`, g)
			}
		})
	}
}

// For comparison: when the member is present, the library does consider the allOf member as one of
// the schemata of (object, "x") - the bookkeeping only misses it for absent members.
func TestC18_DefaultInAllOfOfPresentMember_IsListed(t *testing.T) {
	schema := new(spec.Schema)
	_ = json.Unmarshal([]byte(`{"properties": {"x": {"allOf": [{"type": "integer", "default": 5}]}}}`), schema)
	var d interface{}
	_ = json.Unmarshal([]byte(`{"x": 1}`), &d)
	res := validate.NewSchemaValidator(schema, nil, "", strfmt.Default).Validate(d)
	found := false
	for k, schemata := range res.FieldSchemata() {
		if k.Field() != "x" {
			continue
		}
		for _, s := range schemata {
			if s.Default != nil {
				found = true
			}
		}
	}
	if !found {
		t.Errorf("expected the allOf member to be listed for the present member")
	}
}
