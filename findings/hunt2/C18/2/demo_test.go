package validate_test

import (
	"encoding/json"
	"reflect"
	"testing"

	"github.com/go-openapi/spec"
	"github.com/go-openapi/strfmt"
	"github.com/go-openapi/validate"
	"github.com/go-openapi/validate/post"
)

func c18RootPointer(t *testing.T, schemaJSON, dataJSON string) (interface{}, *validate.Result) {
	t.Helper()
	schema := new(spec.Schema)
	if err := json.Unmarshal([]byte(schemaJSON), schema); err != nil {
		t.Fatal(err)
	}
	var d interface{}
	if err := json.Unmarshal([]byte(dataJSON), &d); err != nil {
		t.Fatal(err)
	}
	res := validate.NewSchemaValidator(schema, nil, "", strfmt.Default).Validate(d)

	return d, res
}

// C18 with a member whose schema is the root pointer {"$ref": "#"} (recursive document, first case
// of the JSON-schema test suite for $ref).

// "self" is present and is an object: the root schema applies to it, "v" is absent in it and the
// root schema declares the default 1 for "v".
func TestC18_RootPointerRef_PresentObject(t *testing.T) {
	d, res := c18RootPointer(t,
		`{"properties": {"self": {"$ref": "#"}, "v": {"type": "integer", "default": 1}}}`,
		`{"self": {"self": {}}}`)
	if !res.IsValid() {
		t.Fatalf("the data is valid, got %v", res.Errors)
	}
	post.ApplyDefaults(res)

	var want interface{}
	_ = json.Unmarshal([]byte(`{"v": 1, "self": {"v": 1, "self": {"v": 1}}}`), &want)
	if !reflect.DeepEqual(want, d) {
		g, _ := json.Marshal(d)
		t.Errorf("want every object to receive v=1, got %s", g)
	}
}

// "self" is absent and the schema it refers to (the root) declares a default.
func TestC18_RootPointerRef_AbsentMember(t *testing.T) {
	d, res := c18RootPointer(t,
		`{"default": {"k": 1}, "properties": {"self": {"$ref": "#"}, "v": {"type": "integer", "default": 1}}}`,
		`{}`)
	if !res.IsValid() {
		t.Fatalf("the data is valid, got %v", res.Errors)
	}
	post.ApplyDefaults(res)

	var want interface{}
	_ = json.Unmarshal([]byte(`{"v": 1, "self": {"k": 1}}`), &want)
	if !reflect.DeepEqual(want, d) {
		g, _ := json.Marshal(d)
		t.Errorf(`want {"v":1,"self":{"k":1}}, got %s`, g)
	}
}

// The cause, seen from the verdict: the root pointer is not followed at all.
func TestC18_RootPointerRef_NotFollowed(t *testing.T) {
	_, res := c18RootPointer(t,
		`{"properties": {"self": {"$ref": "#"}, "v": {"type": "integer", "default": 1}}}`,
		`{"self": {"v": "not an integer"}}`)
	if res.IsValid() {
		t.Errorf("self.v is a string, the schema of self (the root) wants an integer: expected an error")
	}
}
