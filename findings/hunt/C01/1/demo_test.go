package validate_test

import (
	"bytes"
	"encoding/json"
	"testing"

	"github.com/go-openapi/spec"
	"github.com/go-openapi/strfmt"
	"github.com/go-openapi/validate"
)

// c01f1Check compares the draft-4 verdict with those of the one-shot entry point and of a validator object,
// each built from a fresh copy of the schema. A panic counts as "no verdict" and fails the test.
func c01f1Check(t *testing.T, schemaJSON, dataJSON string, useNumber, want bool) {
	t.Helper()
	defer func() {
		if r := recover(); r != nil {
			t.Errorf("schema=%s instance=%s: draft-4 verdict valid=%v, but validation panicked: %v", schemaJSON, dataJSON, want, r)
		}
	}()
	dec := json.NewDecoder(bytes.NewBufferString(dataJSON))
	if useNumber {
		dec.UseNumber()
	}
	var data interface{}
	if err := dec.Decode(&data); err != nil {
		t.Fatalf("bad instance %s: %v", dataJSON, err)
	}
	mk := func() *spec.Schema {
		s := new(spec.Schema)
		if err := json.Unmarshal([]byte(schemaJSON), s); err != nil {
			t.Fatalf("bad schema %s: %v", schemaJSON, err)
		}
		return s
	}
	oneShot := validate.AgainstSchema(mk(), data, strfmt.Default) == nil
	object := validate.NewSchemaValidator(mk(), nil, "", strfmt.Default).Validate(data).IsValid()
	if oneShot != want || object != want {
		t.Errorf("schema=%s instance=%s: draft-4 verdict valid=%v, AgainstSchema valid=%v, SchemaValidator valid=%v",
			schemaJSON, dataJSON, want, oneShot, object)
	}
}

func TestC01Finding1NullSkipsComposition(t *testing.T) {
	for _, c := range []struct {
		schema, instance string
		want             bool // the draft-4 verdict
	}{
		{`{"not":{}}`, `null`, false},
		{`{"not":{"type":"null"}}`, `null`, false},
		{`{"allOf":[{"type":"string"}]}`, `null`, false},
		{`{"anyOf":[{"type":"string"},{"type":"integer"}]}`, `null`, false},
		{`{"oneOf":[{"type":"null"},{}]}`, `null`, false},
		{`{"oneOf":[{"type":"string"}]}`, `null`, false},
		{`{"properties":{"a":{"not":{}}}}`, `{"a":null}`, false},
		{`{"items":{"allOf":[{"type":"string"}]}}`, `[null]`, false},
		{`{"allOf":[{"$ref":"#/definitions/s"}],"definitions":{"s":{"type":"string"}}}`, `null`, false},
		{`{"allOf":[{"type":"null"}]}`, `null`, true},
	} {
		c01f1Check(t, c.schema, c.instance, false, c.want)
	}
}
