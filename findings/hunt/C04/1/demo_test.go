package validate_test

import (
	"sync"
	"testing"

	"github.com/go-openapi/spec"
	"github.com/go-openapi/strfmt"
	"github.com/go-openapi/validate"
)

// AgainstSchema appends its two recycling options to the caller's variadic slice: when that slice has
// spare capacity, the options are written into the caller's backing array, where they replace the options
// of every other slice that shares it. A later validation then runs with options that come from an
// earlier validation.

func c04Options() (base, relaxed []validate.Option) {
	base = make([]validate.Option, 0, 4)
	base = append(base, validate.SwaggerSchema(true))                  // swagger rules on
	relaxed = append(base, validate.EnableObjectArrayTypeCheck(false)) // ... but not this one
	return base, relaxed
}

func c04Schema() *spec.Schema { return spec.MapProperty(nil) }

// an object with a key "items" and no "type: array": only rejected by the swagger "object array type check"
var c04Data = map[string]interface{}{"items": "x"}

func TestC04_AgainstSchemaOutcomeDependsOnEarlierCall(t *testing.T) {
	// the validation alone
	_, relaxed := c04Options()
	alone := validate.AgainstSchema(c04Schema(), c04Data, strfmt.Default, relaxed...)

	// the same validation, after one unrelated call to AgainstSchema
	base, relaxed := c04Options()
	_ = validate.AgainstSchema(c04Schema(), map[string]interface{}{}, strfmt.Default, base...)
	after := validate.AgainstSchema(c04Schema(), c04Data, strfmt.Default, relaxed...)

	if (alone == nil) != (after == nil) {
		t.Fatalf("the outcome depends on an earlier validation:\nalone: %v\nafter: %v", alone, after)
	}
}

// run with -race
func TestC04_AgainstSchemaWritesToSharedOptions(t *testing.T) {
	base, _ := c04Options()
	var wg sync.WaitGroup
	for i := 0; i < 4; i++ {
		wg.Add(1)
		go func() {
			defer wg.Done()
			for j := 0; j < 100; j++ {
				_ = validate.AgainstSchema(c04Schema(), map[string]interface{}{}, strfmt.Default, base...) // base is only read by the caller
			}
		}()
	}
	wg.Wait()
}

// NOTE: keep this test last: it leaves the pools holding objects that are still in use.
func TestC04_PlainValidatorSilentlyBecomesRecycling(t *testing.T) {
	base, relaxed := c04Options()
	_ = validate.AgainstSchema(c04Schema(), map[string]interface{}{}, strfmt.Default, base...)

	// no WithRecycleValidators here: this validator may be used as many times as wanted
	v := validate.NewSchemaValidator(c04Schema(), nil, "", strfmt.Default, relaxed...)
	defer func() {
		if r := recover(); r != nil {
			t.Fatalf("a validator built without WithRecycleValidators was recycled after its first use "+
				"(WithRecycleValidators(true) was injected in the caller's options by an earlier AgainstSchema): panic: %v", r)
		}
	}()
	for i := 0; i < 2; i++ {
		if res := v.Validate(c04Data); !res.IsValid() {
			t.Errorf("use %d: expected a valid outcome, got %v", i, res.Errors)
		}
	}
}
