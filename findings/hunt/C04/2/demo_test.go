package validate_test

import (
	"testing"

	"github.com/go-openapi/spec"
	"github.com/go-openapi/strfmt"
	"github.com/go-openapi/validate"
)

func TestC04_SharedEmptyResultCarriesEarlierErrors(t *testing.T) {
	// alone: a string validates against {type: string}
	if err := validate.AgainstSchema(spec.StringProperty(), "ok", strfmt.Default); err != nil {
		t.Fatalf("unexpected: %v", err)
	}

	// an earlier, unrelated piece of work: two values are validated and their outcomes aggregated with Merge
	var noSchema *spec.Schema // "no constraint": explicitly supported, always valid
	total := validate.NewSchemaValidator(noSchema, nil, "", strfmt.Default).Validate("anything")
	total.Merge(validate.NewSchemaValidator(spec.StringProperty(), nil, "other", strfmt.Default).Validate(12))
	if total.IsValid() {
		t.Fatal("expected the aggregate to be invalid")
	}

	// the same validation as above now fails, with the error of the earlier validation
	if err := validate.AgainstSchema(spec.StringProperty(), "ok", strfmt.Default); err != nil {
		t.Errorf("AgainstSchema reports an error that originates from an earlier validation: %v", err)
	}
	res := validate.NewSchemaValidator(spec.StringProperty(), nil, "", strfmt.Default, validate.WithRecycleValidators(true)).Validate("ok")
	if !res.IsValid() {
		t.Errorf("recycling validator reports an error that originates from an earlier validation: %v", res.Errors)
	}
}
