package validate_test

import (
	"testing"

	"github.com/go-openapi/spec"
	"github.com/go-openapi/strfmt"
	"github.com/go-openapi/validate"
)

// C13 finding 1: multipleOf rejects ordinary decimal multiples (quotient lands a few ulps BELOW an integer),
// and the verdict depends on the sign of the instance.
func TestC13_1_MultipleOfFalseNegativeOnPlainDecimals(t *testing.T) {
	// every data value below is k * factor exactly, as decimal numbers with at most 6 fractional digits
	for _, c := range []struct{ data, factor float64 }{
		{0.29, 0.01},   // 29 * 0.01
		{0.57, 0.01},   // 57 * 0.01
		{1.15, 0.01},   // 115 * 0.01
		{4.35, 0.01},   // 435 * 0.01
		{3.3, 1.1},     // 3 * 1.1
		{41.9, 4.19},   // 10 * 4.19
		{561.68, 0.07}, // 8024 * 0.07
		{9, 0.00001},   // 900000 * 0.00001
		{0.000462, 0.000462},
		{-0.07, 0.01}, // +0.07 is accepted, -0.07 is not
		{-1.1, 0.01},  // +1.10 is accepted, -1.10 is not
	} {
		if err := validate.MultipleOf("v", "body", c.data, c.factor); err != nil {
			t.Errorf("MultipleOf(%v, %v): %v", c.data, c.factor, err)
		}
		if err := validate.MultipleOfNativeType("v", "body", c.data, c.factor); err != nil {
			t.Errorf("MultipleOfNativeType(float64 %v, %v): %v", c.data, c.factor, err)
		}
		factor := c.factor
		sch := &spec.Schema{}
		sch.Type = spec.StringOrArray{"number"}
		sch.MultipleOf = &factor
		if err := validate.AgainstSchema(sch, c.data, strfmt.Default); err != nil {
			t.Errorf("AgainstSchema(multipleOf %v, %v): %v", c.factor, c.data, err)
		}
		p := spec.QueryParam("v")
		p.Type = "number"
		p.MultipleOf = &factor
		if res := validate.NewParamValidator(p, strfmt.Default).Validate(c.data); res != nil && res.HasErrors() {
			t.Errorf("ParamValidator(multipleOf %v, %v): %v", c.factor, c.data, res.Errors)
		}
	}

	// integer carriers with a fractional factor take the same path
	for _, v := range []interface{}{int(9), int8(9), int16(9), int32(9), int64(9), uint(9), uint8(9), uint16(9), uint32(9), uint64(9), float32(9), float64(9)} {
		if err := validate.MultipleOfNativeType("v", "body", v, 0.00001); err != nil {
			t.Errorf("MultipleOfNativeType(%T(9), 0.00001): %v", v, err)
		}
	}

	// same magnitude, opposite sign: the verdict must be the same
	pos := validate.MultipleOf("v", "body", 0.07, 0.01) == nil
	neg := validate.MultipleOf("v", "body", -0.07, 0.01) == nil
	if pos != neg {
		t.Errorf("0.07 multipleOf 0.01 -> %v but -0.07 multipleOf 0.01 -> %v", pos, neg)
	}
}
