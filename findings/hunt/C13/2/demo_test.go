package validate_test

import (
	"testing"

	"github.com/go-openapi/spec"
	"github.com/go-openapi/strfmt"
	"github.com/go-openapi/validate"
)

// C13 finding 2: multipleOf accepts non-multiples once the quotient is large (relative tolerance 1e-9),
// so the verdict for the same number depends on the Go type that carries it.
func TestC13_2_MultipleOfFalsePositiveDependsOnGoType(t *testing.T) {
	two := 2.0
	sch := &spec.Schema{}
	sch.MultipleOf = &two

	// 1000000001 is odd
	asInt := validate.AgainstSchema(sch, int64(1000000001), strfmt.Default)
	asFloat := validate.AgainstSchema(sch, float64(1000000001), strfmt.Default)
	if asInt == nil {
		t.Errorf("int64(1000000001) multipleOf 2 must be rejected")
	}
	if asFloat == nil {
		t.Errorf("float64(1000000001) multipleOf 2 must be rejected (the int64 carrier is rejected: %v)", asInt)
	}

	for _, c := range []struct {
		v      interface{}
		factor float64
	}{
		{float64(1000000001), 2},            // quotient 500000000.5
		{float64(9007199254740991), 2},      // 2^53-1 is odd
		{float64(1000000000000000), 3},      // 1e15 = 3*333333333333333 + 1
		{float64(1000000000.5), 1},          // exactly representable, not an integer
		{float64(2097152.0009765625), 0.25}, // 2^21 + 2^-10, exactly representable
		{float64(1000000.001), 1000},        // quotient 1000.000001
		{float32(1e10), 3},                  // float32(1e10) == 10000000000 exactly
		{int32(2147483647), 2.5},            // quotient 858993458.8
		{int64(9007199254740991), 2.5},      // not a multiple of 5
		{uint64(9007199254740991), 7.5},     // not a multiple of 15
	} {
		if err := validate.MultipleOfNativeType("v", "body", c.v, c.factor); err == nil {
			t.Errorf("MultipleOfNativeType(%T(%v), %v) = nil, but the value is not a multiple", c.v, c.v, c.factor)
		}
		factor := c.factor
		p := spec.QueryParam("v")
		p.Type = "number"
		p.MultipleOf = &factor
		if res := validate.NewParamValidator(p, strfmt.Default).Validate(c.v); res == nil || !res.HasErrors() {
			t.Errorf("ParamValidator(number, multipleOf %v).Validate(%T(%v)) has no error, but the value is not a multiple", c.factor, c.v, c.v)
		}
	}
	if err := validate.MultipleOf("v", "body", 1000000001, 2); err == nil {
		t.Errorf("MultipleOf(1000000001, 2) = nil")
	}
}
