package validate_test

import (
	"encoding/json"
	"testing"

	"github.com/go-openapi/spec"
	"github.com/go-openapi/strfmt"
	"github.com/go-openapi/validate"
)

// C13 finding 6: parameter / header validation and the *NativeType helpers do not understand json.Number:
// the validators reject every json.Number as "string", the helpers silently read it as 0.
func TestC13_6_ParamHeaderAndHelpersIgnoreJSONNumber(t *testing.T) {
	five := 5.0
	for _, typ := range []string{"integer", "number"} {
		p := spec.QueryParam("v")
		p.Type = typ
		p.Maximum = &five
		h := spec.ResponseHeader()
		h.Type = typ
		h.Maximum = &five

		for _, c := range []struct {
			lit   string
			typed interface{}
		}{{"3", int64(3)}, {"10", int64(10)}} {
			rt := validate.NewParamValidator(p, strfmt.Default).Validate(c.typed)
			rn := validate.NewParamValidator(p, strfmt.Default).Validate(json.Number(c.lit))
			if rt.HasErrors() != rn.HasErrors() {
				t.Errorf("param %s maximum 5: %T(%v) -> %v ; json.Number(%q) -> %v", typ, c.typed, c.typed, rt.Errors, c.lit, rn.Errors)
			}
			rt = validate.NewHeaderValidator("v", h, strfmt.Default).Validate(c.typed)
			rn = validate.NewHeaderValidator("v", h, strfmt.Default).Validate(json.Number(c.lit))
			if rt.HasErrors() != rn.HasErrors() {
				t.Errorf("header %s maximum 5: %T(%v) -> %v ; json.Number(%q) -> %v", typ, c.typed, c.typed, rt.Errors, c.lit, rn.Errors)
			}
		}
	}

	// helpers: 10 > 5, 10 >= 5, 7 is not a multiple of 5
	if err := validate.MaximumNativeType("v", "body", json.Number("10"), 5, false); err == nil {
		t.Errorf("MaximumNativeType(json.Number(10), 5) = nil ; with int64(10): %v", validate.MaximumNativeType("v", "body", int64(10), 5, false))
	}
	if err := validate.MinimumNativeType("v", "body", json.Number("10"), 5, false); err != nil {
		t.Errorf("MinimumNativeType(json.Number(10), 5) = %v ; with int64(10): nil", err)
	}
	if err := validate.MultipleOfNativeType("v", "body", json.Number("7"), 5); err == nil {
		t.Errorf("MultipleOfNativeType(json.Number(7), 5) = nil ; with int64(7): %v", validate.MultipleOfNativeType("v", "body", int64(7), 5))
	}
}
