package validate_test

import (
	"encoding/json"
	"testing"

	"github.com/go-openapi/spec"
	"github.com/go-openapi/strfmt"
	"github.com/go-openapi/validate"
)

// C13 finding 5: through schema validation the verdict for a json.Number differs from the verdict for the
// same number carried by float64 / int64 / uint64.
func TestC13_5_SchemaJSONNumberVerdictDiffers(t *testing.T) {
	five := 5.0
	zero := 0.0
	mk := func(format string, types ...string) *spec.Schema {
		s := &spec.Schema{}
		s.Type = spec.StringOrArray(types)
		s.Format = format
		s.Maximum = &five
		return s
	}

	for _, c := range []struct {
		name   string
		schema *spec.Schema
		lit    string
		typed  interface{}
	}{
		// no declared type: numeric keywords still apply to numbers
		{"untyped, 3 <= 5", mk(""), "3", float64(3)},
		{"untyped, 10 > 5", mk(""), "10", float64(10)},
		{"untyped, 2.5 <= 5", mk(""), "2.5", float64(2.5)},
		// both numeric types allowed: 2.5 is a valid number
		{"[integer,number], 2.5 <= 5", mk("", "integer", "number"), "2.5", float64(2.5)},
		{"[number,integer], 2.5 <= 5", mk("", "number", "integer"), "2.5", float64(2.5)},
		// integer written with a fraction or an exponent: float64(3) is accepted as integer
		{"integer, 3.0 <= 5", mk("", "integer"), "3.0", float64(3)},
		{"integer, 1e0 <= 5", mk("", "integer"), "1e0", float64(1)},
	} {
		errTyped := validate.AgainstSchema(c.schema, c.typed, strfmt.Default)
		errNum := validate.AgainstSchema(c.schema, json.Number(c.lit), strfmt.Default)
		if (errTyped == nil) != (errNum == nil) {
			t.Errorf("%s: %T(%v) -> %v ; json.Number(%q) -> %v", c.name, c.typed, c.typed, errTyped, c.lit, errNum)
		}
	}

	// nested, untyped property
	prop := spec.Schema{}
	prop.Maximum = &five
	obj := &spec.Schema{}
	obj.Type = spec.StringOrArray{"object"}
	obj.Properties = map[string]spec.Schema{"a": prop}
	if err := validate.AgainstSchema(obj, map[string]interface{}{"a": json.Number("2")}, strfmt.Default); err != nil {
		t.Errorf("{a: json.Number(2)} against a.maximum 5: %v (float64(2) -> %v)", err,
			validate.AgainstSchema(obj, map[string]interface{}{"a": float64(2)}, strfmt.Default))
	}

	// a value inside the declared uint64 format
	u := &spec.Schema{}
	u.Type = spec.StringOrArray{"integer"}
	u.Format = "uint64"
	u.Minimum = &zero
	errU := validate.AgainstSchema(u, uint64(18446744073709551615), strfmt.Default)
	errN := validate.AgainstSchema(u, json.Number("18446744073709551615"), strfmt.Default)
	if (errU == nil) != (errN == nil) {
		t.Errorf("integer/uint64 minimum 0: uint64 max -> %v ; json.Number -> %v", errU, errN)
	}
}
