package validate_test

import (
	"testing"

	"github.com/go-openapi/spec"
	"github.com/go-openapi/strfmt"
	"github.com/go-openapi/validate"
)

// C13 finding 3: multipleOf rejects true multiples whenever the quotient is >= 2^53
// (swag.IsFloat64AJSONInteger refuses anything above 2^53-1), so the verdict depends on the carrier type
// and on the magnitude of value/factor.
func TestC13_3_MultipleOfFalseNegativeOnLargeQuotient(t *testing.T) {
	one := 1.0
	sch := &spec.Schema{}
	sch.MultipleOf = &one
	if err := validate.AgainstSchema(sch, int64(1<<53), strfmt.Default); err != nil {
		t.Errorf("int64(2^53) multipleOf 1: %v", err)
	}
	if err := validate.AgainstSchema(sch, float64(1<<53), strfmt.Default); err != nil {
		t.Errorf("float64(2^53) multipleOf 1: %v", err)
	}
	if err := validate.AgainstSchema(sch, float64(-(1 << 53)), strfmt.Default); err != nil {
		t.Errorf("float64(-2^53) multipleOf 1: %v", err)
	}

	for _, c := range []struct {
		v      interface{}
		factor float64
	}{
		{float64(100000000000000), 0.01},  // 1e14 / 0.01 = 1e16
		{float64(10000000000), 0.000001},  // 1e10 / 1e-6 = 1e16
		{float64(9000000000000000), 0.5},  // 1.8e16, all three exactly representable
		{float64(4503599627370496.5), 0.5}, // 2^52 + 0.5, quotient 2^53 + 1
		{int64(9000000000000000), 0.5},
		{uint64(9000000000000000), 0.25},
		{int64(100000000000000), 0.01},
		{float32(1e10), 0.000001}, // float32(1e10) is exactly 10000000000
	} {
		if err := validate.MultipleOfNativeType("v", "body", c.v, c.factor); err != nil {
			t.Errorf("MultipleOfNativeType(%T(%v), %v): %v", c.v, c.v, c.factor, err)
		}
		factor := c.factor
		s := &spec.Schema{}
		s.Type = spec.StringOrArray{"number"}
		s.MultipleOf = &factor
		if err := validate.AgainstSchema(s, c.v, strfmt.Default); err != nil {
			t.Errorf("AgainstSchema(number, multipleOf %v) with %T(%v): %v", c.factor, c.v, c.v, err)
		}
	}
	if err := validate.MultipleOf("v", "body", 1e14, 0.01); err != nil {
		t.Errorf("MultipleOf(1e14, 0.01): %v", err)
	}
}
