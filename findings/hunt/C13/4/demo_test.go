package validate_test

import (
	"testing"

	"github.com/go-openapi/spec"
	"github.com/go-openapi/strfmt"
	"github.com/go-openapi/validate"
)

// C13 finding 4: through parameter / header / items validation, a constraint value that does not itself
// fit the declared type/format (fractional bound on an integer, bound beyond int32, negative bound on an
// unsigned format, fractional multipleOf on an integer) makes EVERY instance invalid, whereas schema
// validation and the exported helpers give the arithmetic verdict for the same numbers.
func TestC13_4_ParamHeaderVerdictDiffersFromSchemaAndArithmetic(t *testing.T) {
	for _, c := range []struct {
		typ, format, kw string
		c               float64
		v               interface{}
	}{
		{"integer", "", "max", 2.5, int64(2)},          // 2 <= 2.5
		{"integer", "", "min", 2.5, int64(3)},          // 3 >= 2.5
		{"integer", "int64", "min", -0.5, int64(0)},    // 0 >= -0.5
		{"integer", "int32", "max", 3e9, int32(5)},     // 5 <= 3000000000
		{"integer", "int32", "min", -3e9, int32(5)},    // 5 >= -3000000000
		{"integer", "uint32", "min", -1, uint32(5)},    // 5 >= -1
		{"integer", "uint64", "min", -1, uint64(5)},    // 5 >= -1
		{"integer", "", "mul", 1.5, int64(3)},          // 3 = 2 * 1.5
		{"integer", "", "mul", 0.5, int64(3)},          // 3 = 6 * 0.5
		{"number", "float", "max", 1e39, float32(1.5)}, // 1.5 <= 1e39
	} {
		bound := c.c
		sch := &spec.Schema{}
		sch.Type = spec.StringOrArray{c.typ}
		p := spec.QueryParam("v")
		p.Type, p.Format = c.typ, c.format
		h := spec.ResponseHeader()
		h.Type, h.Format = c.typ, c.format
		var helper error
		switch c.kw {
		case "max":
			sch.Maximum, p.Maximum, h.Maximum = &bound, &bound, &bound
			if e := validate.MaximumNativeType("v", "query", c.v, bound, false); e != nil {
				helper = e
			}
		case "min":
			sch.Minimum, p.Minimum, h.Minimum = &bound, &bound, &bound
			if e := validate.MinimumNativeType("v", "query", c.v, bound, false); e != nil {
				helper = e
			}
		case "mul":
			sch.MultipleOf, p.MultipleOf, h.MultipleOf = &bound, &bound, &bound
			if e := validate.MultipleOfNativeType("v", "query", c.v, bound); e != nil {
				helper = e
			}
		}
		if helper != nil {
			t.Errorf("helper %s %v on %T(%v): %v", c.kw, c.c, c.v, c.v, helper)
		}
		if err := validate.AgainstSchema(sch, c.v, strfmt.Default); err != nil {
			t.Errorf("schema %s %s %v on %T(%v): %v", c.typ, c.kw, c.c, c.v, c.v, err)
		}
		if res := validate.NewParamValidator(p, strfmt.Default).Validate(c.v); res != nil && res.HasErrors() {
			t.Errorf("param %s/%s %s %v on %T(%v): %v", c.typ, c.format, c.kw, c.c, c.v, c.v, res.Errors)
		}
		if res := validate.NewHeaderValidator("v", h, strfmt.Default).Validate(c.v); res != nil && res.HasErrors() {
			t.Errorf("header %s/%s %s %v on %T(%v): %v", c.typ, c.format, c.kw, c.c, c.v, c.v, res.Errors)
		}
	}

	// items of an array parameter
	p := spec.QueryParam("v").CollectionOf(spec.NewItems().Typed("integer", "int32").WithMaximum(2.5, false), "csv")
	if res := validate.NewParamValidator(p, strfmt.Default).Validate([]int32{2}); res != nil && res.HasErrors() {
		t.Errorf("param items integer/int32 maximum 2.5 on []int32{2}: %v", res.Errors)
	}
}
