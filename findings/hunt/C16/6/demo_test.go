package validate

import (
	"encoding/json"
	"testing"

	"github.com/go-openapi/spec"
	"github.com/go-openapi/strfmt"
)

// A header of type string can never hold the empty string, whatever its declared constraints:
// HeaderValidator hard-wires Required=true, AllowEmptyValue=false in its string validator
// (spec.Header has no "required" attribute at all).
func TestC16F6_HeaderEmptyString(t *testing.T) {
	for _, js := range []string{
		`{"type":"string"}`,
		`{"type":"string","minLength":0}`,
		`{"type":"string","maxLength":0}`,
		`{"type":"string","enum":["","a"]}`,
		`{"type":"string","pattern":"^$"}`,
	} {
		var h spec.Header
		if err := json.Unmarshal([]byte(js), &h); err != nil {
			t.Fatal(err)
		}
		if res := NewHeaderValidator("X-Tag", &h, strfmt.Default).Validate(""); res != nil && !res.IsValid() {
			t.Errorf(`header %s: "" has the declared type and meets every declared constraint but is reported invalid: %v`, js, res.Errors)
		}
		// control: the same simple schema as a (non required) parameter or as header items accepts ""
		var p spec.Parameter
		if err := json.Unmarshal([]byte(`{"name":"p","in":"query",`+js[1:]), &p); err != nil {
			t.Fatal(err)
		}
		if res := NewParamValidator(&p, strfmt.Default).Validate(""); res != nil && !res.IsValid() {
			t.Fatalf("control param %s rejected: %v", js, res.Errors)
		}
	}
	var ha spec.Header
	if err := json.Unmarshal([]byte(`{"type":"array","items":{"type":"string"}}`), &ha); err != nil {
		t.Fatal(err)
	}
	if res := NewHeaderValidator("X-Tags", &ha, strfmt.Default).Validate([]string{""}); res != nil && !res.IsValid() {
		t.Fatalf("control header items rejected: %v", res.Errors)
	}
}
