package validate

import (
	"encoding/json"
	"math"
	"testing"

	"github.com/go-openapi/spec"
	"github.com/go-openapi/strfmt"
)

// {type: integer} without a format: unsigned values above MaxInt64 are rejected although they are integers
// and no constraint is declared.
func TestC16F7_IntegerNoFormatLargeUint(t *testing.T) {
	var p spec.Parameter
	if err := json.Unmarshal([]byte(`{"name":"n","in":"query","type":"integer"}`), &p); err != nil {
		t.Fatal(err)
	}
	if res := NewParamValidator(&p, strfmt.Default).Validate(uint64(math.MaxInt64)); res != nil && !res.IsValid() {
		t.Fatalf("control rejected: %v", res.Errors)
	}
	for _, v := range []interface{}{uint64(1 << 63), uint64(math.MaxUint64), uint(math.MaxUint64)} {
		if res := NewParamValidator(&p, strfmt.Default).Validate(v); res != nil && !res.IsValid() {
			t.Errorf("type integer (no format): %T(%v) is reported invalid: %v", v, v, res.Errors)
		}
	}
	var pm spec.Parameter
	if err := json.Unmarshal([]byte(`{"name":"n","in":"query","type":"array","items":{"type":"integer","minimum":0}}`), &pm); err != nil {
		t.Fatal(err)
	}
	if res := NewParamValidator(&pm, strfmt.Default).Validate([]uint64{1, math.MaxUint64}); res != nil && !res.IsValid() {
		t.Errorf("items type integer minimum 0: []uint64{1, MaxUint64} is reported invalid: %v", res.Errors)
	}
}
