package validate

import (
	"encoding/json"
	"testing"

	"github.com/go-openapi/spec"
	"github.com/go-openapi/strfmt"
)

// A bound or factor that is legal for the simple schema (maximum/minimum/multipleOf are JSON numbers)
// but is not itself representable in the integer type/format makes EVERY value invalid, including
// values that meet the constraint.
func TestC16F8_IntegerWithNonIntegerBound(t *testing.T) {
	cases := []struct {
		schema string
		good   interface{}
		bad    interface{}
	}{
		{`{"type":"integer","maximum":10.5}`, int64(3), int64(11)},
		{`{"type":"integer","minimum":0.5}`, uint8(1), uint8(0)},
		{`{"type":"integer","multipleOf":0.5}`, int32(3), nil},
		{`{"type":"integer","format":"int32","maximum":3000000000}`, int32(5), nil},
		{`{"type":"integer","maximum":1e19}`, int64(5), nil},
		{`{"type":"integer","format":"int32","minimum":-3000000000}`, int32(-5), nil},
	}
	for _, c := range cases {
		var p spec.Parameter
		if err := json.Unmarshal([]byte(`{"name":"n","in":"query",`+c.schema[1:]), &p); err != nil {
			t.Fatal(err)
		}
		if res := NewParamValidator(&p, strfmt.Default).Validate(c.good); res != nil && !res.IsValid() {
			t.Errorf("param %s: %T(%v) meets the constraint but is reported invalid: %v", c.schema, c.good, c.good, res.Errors)
		}
		var h spec.Header
		if err := json.Unmarshal([]byte(`{"type":"array","items":`+c.schema+`}`), &h); err != nil {
			t.Fatal(err)
		}
		if res := NewHeaderValidator("X-N", &h, strfmt.Default).Validate([]interface{}{c.good}); res != nil && !res.IsValid() {
			t.Errorf("header items %s: %T(%v) meets the constraint but is reported invalid: %v", c.schema, c.good, c.good, res.Errors)
		}
		if c.bad != nil {
			if res := NewParamValidator(&p, strfmt.Default).Validate(c.bad); res == nil || res.IsValid() {
				t.Fatalf("control %s: %v accepted", c.schema, c.bad)
			}
		}
	}
	// control: the very same bounds on type number are handled correctly for the same typed values
	var p spec.Parameter
	if err := json.Unmarshal([]byte(`{"name":"n","in":"query","type":"number","maximum":10.5}`), &p); err != nil {
		t.Fatal(err)
	}
	if res := NewParamValidator(&p, strfmt.Default).Validate(int64(3)); res != nil && !res.IsValid() {
		t.Fatalf("control number rejected: %v", res.Errors)
	}
}
