package validate

import (
	"encoding/json"
	"math"
	"testing"

	"github.com/go-openapi/spec"
	"github.com/go-openapi/strfmt"
)

// enum membership is decided after a lossy reflect.Convert of the value to the Go type of the enum member.
func TestC16F2_EnumLossyConversion(t *testing.T) {
	// 1. spec loaded from JSON: enum members are float64
	var p spec.Parameter
	if err := json.Unmarshal([]byte(`{"name":"id","in":"query","type":"integer","format":"int64","enum":[9007199254740992]}`), &p); err != nil {
		t.Fatal(err)
	}
	if res := NewParamValidator(&p, strfmt.Default).Validate(int64(9007199254740992)); res != nil && !res.IsValid() {
		t.Fatalf("control: member rejected: %v", res.Errors)
	}
	if res := NewParamValidator(&p, strfmt.Default).Validate(int64(9007199254740994)); res == nil || res.IsValid() {
		t.Fatalf("control: 9007199254740994 accepted")
	}
	if res := NewParamValidator(&p, strfmt.Default).Validate(int64(9007199254740993)); res == nil || res.IsValid() {
		t.Errorf("int64(9007199254740993) is not in enum [9007199254740992] but is reported valid")
	}
	var h spec.Header
	if err := json.Unmarshal([]byte(`{"type":"array","items":{"type":"integer","format":"int64","enum":[9007199254740992]}}`), &h); err != nil {
		t.Fatal(err)
	}
	if res := NewHeaderValidator("X-Ids", &h, strfmt.Default).Validate([]uint64{9007199254740993}); res == nil || res.IsValid() {
		t.Errorf("header items: uint64(9007199254740993) is not in enum [9007199254740992] but is reported valid")
	}

	// 2. spec built in Go: enum members are typed Go values
	q := spec.QueryParam("ratio").Typed("number", "").WithEnum(1, 2, 3)
	if res := NewParamValidator(q, strfmt.Default).Validate(float64(2)); res != nil && !res.IsValid() {
		t.Fatalf("control: 2 rejected: %v", res.Errors)
	}
	if res := NewParamValidator(q, strfmt.Default).Validate(float64(2.5)); res == nil || res.IsValid() {
		t.Errorf("float64(2.5) is not in enum [1 2 3] but is reported valid")
	}
	q = spec.QueryParam("n").Typed("integer", "").WithEnum(int8(1))
	if res := NewParamValidator(q, strfmt.Default).Validate(int64(257)); res == nil || res.IsValid() {
		t.Errorf("int64(257) is not in enum [int8(1)] but is reported valid")
	}
	q = spec.QueryParam("n").Typed("integer", "").WithEnum(int32(-1))
	if res := NewParamValidator(q, strfmt.Default).Validate(uint32(math.MaxUint32)); res == nil || res.IsValid() {
		t.Errorf("uint32(MaxUint32) is not in enum [int32(-1)] but is reported valid")
	}
}
