package validate

import (
	"encoding/json"
	"testing"

	"github.com/go-openapi/spec"
	"github.com/go-openapi/strfmt"
)

// An enum declared on an array (parameter, header or array-typed items) never matches a typed Go slice.
func TestC16F3_ArrayEnumTypedSlices(t *testing.T) {
	var p spec.Parameter
	if err := json.Unmarshal([]byte(`{"name":"sort","in":"query","type":"array","items":{"type":"string"},"enum":[["a","b"],["b","a"]]}`), &p); err != nil {
		t.Fatal(err)
	}
	// control: the untyped form of the very same value is accepted, another value is rejected
	if res := NewParamValidator(&p, strfmt.Default).Validate([]interface{}{"a", "b"}); res != nil && !res.IsValid() {
		t.Fatalf("control rejected: %v", res.Errors)
	}
	if res := NewParamValidator(&p, strfmt.Default).Validate([]string{"a", "c"}); res == nil || res.IsValid() {
		t.Fatalf("control accepted")
	}
	if res := NewParamValidator(&p, strfmt.Default).Validate([]string{"a", "b"}); res != nil && !res.IsValid() {
		t.Errorf(`[]string{"a","b"} is in the enum but is reported invalid: %v`, res.Errors)
	}

	var pi spec.Parameter
	if err := json.Unmarshal([]byte(`{"name":"ids","in":"query","type":"array","items":{"type":"integer"},"enum":[[1,2]]}`), &pi); err != nil {
		t.Fatal(err)
	}
	if res := NewParamValidator(&pi, strfmt.Default).Validate([]int64{1, 2}); res != nil && !res.IsValid() {
		t.Errorf(`[]int64{1,2} is in the enum [[1,2]] but is reported invalid: %v`, res.Errors)
	}
	if res := NewParamValidator(&pi, strfmt.Default).Validate([]interface{}{int64(1), int64(2)}); res != nil && !res.IsValid() {
		t.Errorf(`[]interface{}{int64(1),int64(2)} is in the enum [[1,2]] but is reported invalid (a scalar int64(1) does match enum [1]): %v`, res.Errors)
	}

	// nested: enum on items of type array
	var h spec.Header
	if err := json.Unmarshal([]byte(`{"type":"array","items":{"type":"array","items":{"type":"string"},"enum":[["x"]]}}`), &h); err != nil {
		t.Fatal(err)
	}
	if res := NewHeaderValidator("X-H", &h, strfmt.Default).Validate([][]string{{"x"}}); res != nil && !res.IsValid() {
		t.Errorf(`header [][]string{{"x"}}: items enum [["x"]] is met but the value is reported invalid: %v`, res.Errors)
	}
}
