package validate

import (
	"encoding/json"
	"testing"

	"github.com/go-openapi/spec"
	"github.com/go-openapi/strfmt"
)

func c16f1Param(t *testing.T, js string) *spec.Parameter {
	t.Helper()
	var p spec.Parameter
	if err := json.Unmarshal([]byte(js), &p); err != nil {
		t.Fatal(err)
	}
	return &p
}

func c16f1Header(t *testing.T, js string) *spec.Header {
	t.Helper()
	var h spec.Header
	if err := json.Unmarshal([]byte(js), &h); err != nil {
		t.Fatal(err)
	}
	return &h
}

// A float64 value that is a (decimal) multiple of the declared multipleOf must be valid.
func TestC16F1_MultipleOfRejectsDecimalMultiples(t *testing.T) {
	p := c16f1Param(t, `{"name":"price","in":"query","type":"number","multipleOf":0.01}`)
	h := c16f1Header(t, `{"type":"number","multipleOf":0.01}`)
	// control: these are accepted
	for _, v := range []float64{0.28, 0.30, 1.12} {
		if res := NewParamValidator(p, strfmt.Default).Validate(v); res != nil && !res.IsValid() {
			t.Fatalf("control %v rejected: %v", v, res.Errors)
		}
	}
	for _, v := range []float64{0.29, 0.57, 0.58, 1.13, 1.14, 1.15, 1.16, 2.01, 4.10, 5.10} {
		if res := NewParamValidator(p, strfmt.Default).Validate(v); res != nil && !res.IsValid() {
			t.Errorf("param multipleOf 0.01: %v is a multiple of 0.01 but is reported invalid: %v", v, res.Errors)
		}
		if res := NewHeaderValidator("X-Price", h, strfmt.Default).Validate(v); res != nil && !res.IsValid() {
			t.Errorf("header multipleOf 0.01: %v is a multiple of 0.01 but is reported invalid: %v", v, res.Errors)
		}
	}
	// also inside items
	pa := c16f1Param(t, `{"name":"prices","in":"query","type":"array","items":{"type":"array","items":{"type":"number","multipleOf":0.01}}}`)
	if res := NewParamValidator(pa, strfmt.Default).Validate([][]float64{{0.28}, {0.29}}); res != nil && !res.IsValid() {
		t.Errorf("items multipleOf 0.01: [[0.28] [0.29]] reported invalid: %v", res.Errors)
	}
}

// A multiple whose quotient exceeds 2^53 is rejected (exactly representable values).
func TestC16F1_MultipleOfRejectsLargeMultiples(t *testing.T) {
	p := c16f1Param(t, `{"name":"n","in":"query","type":"number","multipleOf":10}`)
	if res := NewParamValidator(p, strfmt.Default).Validate(float64(1e15)); res != nil && !res.IsValid() {
		t.Fatalf("control 1e15 rejected: %v", res.Errors)
	}
	if res := NewParamValidator(p, strfmt.Default).Validate(float64(1e17)); res != nil && !res.IsValid() {
		t.Errorf("1e17 is a multiple of 10 but is reported invalid: %v", res.Errors)
	}
	// typed integer value with a fractional multipleOf on a number
	p = c16f1Param(t, `{"name":"n","in":"query","type":"number","multipleOf":0.5}`)
	if res := NewParamValidator(p, strfmt.Default).Validate(int64(10000000000000000)); res != nil && !res.IsValid() {
		t.Errorf("int64(1e16) is a multiple of 0.5 but is reported invalid: %v", res.Errors)
	}
}

// A value that is NOT a multiple is accepted (relative tolerance of 1e-9 on the quotient).
func TestC16F1_MultipleOfAcceptsNonMultiples(t *testing.T) {
	p := c16f1Param(t, `{"name":"n","in":"query","type":"number","multipleOf":1}`)
	if res := NewParamValidator(p, strfmt.Default).Validate(float64(10.5)); res == nil || res.IsValid() {
		t.Fatalf("control 10.5 accepted")
	}
	for _, v := range []float64{1000000000.5, 500000.0005} { // both exactly distinguishable from an integer in float64
		if res := NewParamValidator(p, strfmt.Default).Validate(v); res == nil || res.IsValid() {
			t.Errorf("%v is not a multiple of 1 but is reported valid", v)
		}
	}
	h := c16f1Header(t, `{"type":"array","items":{"type":"number","multipleOf":0.01}}`)
	if res := NewHeaderValidator("X-P", h, strfmt.Default).Validate([]float64{12345678.905}); res == nil || res.IsValid() {
		t.Errorf("12345678.905 is not a multiple of 0.01 but is reported valid")
	}
}
