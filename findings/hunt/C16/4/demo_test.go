package validate

import (
	"encoding/json"
	"testing"

	"github.com/go-openapi/spec"
	"github.com/go-openapi/strfmt"
)

// []uint8 (one of "all integer widths") is always inferred as string/byte: an array of integers
// passed as []uint8 is rejected, at the top level and in nested items.
func TestC16F4_Uint8SliceIsNotAnArray(t *testing.T) {
	var p spec.Parameter
	if err := json.Unmarshal([]byte(`{"name":"ids","in":"query","type":"array","items":{"type":"integer","maximum":3}}`), &p); err != nil {
		t.Fatal(err)
	}
	// controls: every other width is accepted, and the constraint is enforced
	for _, v := range []interface{}{[]int8{1, 2}, []uint16{1, 2}, []uint32{1, 2}, []uint64{1, 2}, []int{1, 2}} {
		if res := NewParamValidator(&p, strfmt.Default).Validate(v); res != nil && !res.IsValid() {
			t.Fatalf("control %T rejected: %v", v, res.Errors)
		}
	}
	if res := NewParamValidator(&p, strfmt.Default).Validate([]uint16{1, 4}); res == nil || res.IsValid() {
		t.Fatalf("control []uint16{1,4} accepted")
	}
	if res := NewParamValidator(&p, strfmt.Default).Validate([]uint8{1, 2}); res != nil && !res.IsValid() {
		t.Errorf("[]uint8{1,2} is an array of integers <= 3 but is reported invalid: %v", res.Errors)
	}

	var h spec.Header
	if err := json.Unmarshal([]byte(`{"type":"array","items":{"type":"array","items":{"type":"integer","maximum":3}}}`), &h); err != nil {
		t.Fatal(err)
	}
	if res := NewHeaderValidator("X-Ids", &h, strfmt.Default).Validate([][]uint16{{1, 2}}); res != nil && !res.IsValid() {
		t.Fatalf("control [][]uint16 rejected: %v", res.Errors)
	}
	if res := NewHeaderValidator("X-Ids", &h, strfmt.Default).Validate([][]uint8{{1, 2}}); res != nil && !res.IsValid() {
		t.Errorf("[][]uint8{{1,2}} is an array of arrays of integers <= 3 but is reported invalid: %v", res.Errors)
	}
}
