package validate

import (
	"encoding/json"
	"testing"

	"github.com/go-openapi/spec"
	"github.com/go-openapi/strfmt"
)

type c16f5Name string

// Values whose Go kind is string but whose type is not exactly `string` (the strfmt string types that
// typeValidator.schemaInfoForType explicitly recognises, or any named string type) pass the type check
// and are then rejected by the string validator with "must be of type string".
func TestC16F5_NamedStringTypesRejected(t *testing.T) {
	mk := func(js string) *spec.Parameter {
		var p spec.Parameter
		if err := json.Unmarshal([]byte(js), &p); err != nil {
			t.Fatal(err)
		}
		return &p
	}
	cases := []struct {
		schema string
		val    interface{}
	}{
		{`{"name":"p","in":"query","type":"string","format":"email"}`, strfmt.Email("a@b.co")},
		{`{"name":"p","in":"query","type":"string","format":"uuid"}`, strfmt.UUID("a8098c1a-f86e-11da-bd1a-00112444be1e")},
		{`{"name":"p","in":"query","type":"string","format":"password","minLength":1}`, strfmt.Password("secret")},
		{`{"name":"p","in":"query","type":"string","format":"hostname"}`, strfmt.Hostname("example.com")},
		{`{"name":"p","in":"query","type":"string","maxLength":3}`, c16f5Name("abc")},
		{`{"name":"p","in":"query","type":"array","items":{"type":"string","format":"email"}}`, []strfmt.Email{"a@b.co"}},
	}
	for _, c := range cases {
		res := NewParamValidator(mk(c.schema), strfmt.Default).Validate(c.val)
		if res != nil && !res.IsValid() {
			t.Errorf("%s: %T(%v) has the declared type and meets every constraint but is reported invalid: %v", c.schema, c.val, c.val, res.Errors)
		}
	}
	// control: the struct-kinded strfmt types are fine
	if res := NewParamValidator(mk(`{"name":"p","in":"query","type":"string","format":"date"}`), strfmt.Default).Validate(strfmt.Date{}); res != nil && !res.IsValid() {
		t.Fatalf("control strfmt.Date rejected: %v", res.Errors)
	}

	var h spec.Header
	if err := json.Unmarshal([]byte(`{"type":"string","format":"email"}`), &h); err != nil {
		t.Fatal(err)
	}
	if res := NewHeaderValidator("X-Mail", &h, strfmt.Default).Validate(strfmt.Email("a@b.co")); res != nil && !res.IsValid() {
		t.Errorf("header: strfmt.Email reported invalid: %v", res.Errors)
	}
}
