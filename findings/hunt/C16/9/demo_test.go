package validate

import (
	"encoding/json"
	"testing"

	"github.com/go-openapi/spec"
	"github.com/go-openapi/strfmt"
)

// With a nil format registry (documented elsewhere as "use strfmt.Default": see FormatOf), the declared
// string format is silently not validated at all.
func TestC16F9_NilRegistrySkipsFormat(t *testing.T) {
	var p spec.Parameter
	if err := json.Unmarshal([]byte(`{"name":"d","in":"query","type":"string","format":"date"}`), &p); err != nil {
		t.Fatal(err)
	}
	if res := NewParamValidator(&p, strfmt.Default).Validate("not-a-date"); res == nil || res.IsValid() {
		t.Fatalf("control accepted")
	}
	if res := NewParamValidator(&p, nil).Validate("not-a-date"); res == nil || res.IsValid() {
		t.Errorf(`NewParamValidator(p, nil): "not-a-date" does not meet format date but is reported valid`)
	}
	var h spec.Header
	if err := json.Unmarshal([]byte(`{"type":"array","items":{"type":"string","format":"uuid"}}`), &h); err != nil {
		t.Fatal(err)
	}
	if res := NewHeaderValidator("X-Ids", &h, nil).Validate([]string{"zzz"}); res == nil || res.IsValid() {
		t.Errorf(`NewHeaderValidator(.., nil): items "zzz" does not meet format uuid but is reported valid`)
	}
}
