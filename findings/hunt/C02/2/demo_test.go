package validate_test

import (
	"encoding/json"
	"strings"
	"testing"

	"github.com/go-openapi/loads"
	"github.com/go-openapi/strfmt"
	"github.com/go-openapi/validate"
)

// C02 finding 2: a JSON null is never checked against allOf / anyOf / oneOf / not.
//
// Wherever the Swagger 2.0 schema describes a value only through a combinator (no "type" next to
// it), a null value is accepted, although null satisfies none of the alternatives:
//
//   - schema.type                 anyOf [simpleTypes enum, array]          (draft-04 #/properties/type)
//   - schema.additionalProperties anyOf [schema, boolean]
//   - minLength/minItems/minProperties   allOf [positiveInteger, {default: 0}]  (draft-04 positiveIntegerDefault0)
//   - responses.<code>            oneOf [response, jsonReference]          (#/definitions/responseValue)
//   - parameters.<name>           oneOf [bodyParameter, nonBodyParameter]  (#/definitions/parameter)
//   - response.schema             oneOf [schema, fileSchema]
//   - consumes / produces         allOf [mediaTypeList]
//
// Every branch of these combinators has an explicit "type" (object, array, string, boolean, integer),
// so null is invalid against all of them under draft 4.

func nbErrors(t *testing.T, raw string, continueOnErrors bool) int {
	t.Helper()
	doc, err := loads.Analyzed(json.RawMessage(raw), "")
	if err != nil {
		t.Fatalf("the document is expected to load: %v\n%s", err, raw)
	}
	v := validate.NewSpecValidator(doc.Schema(), strfmt.Default)
	v.SetContinueOnErrors(continueOnErrors)
	errs, _ := v.Validate(doc)
	return len(errs.Errors)
}

func TestC02_NullEscapesCombinators(t *testing.T) {
	const tpl = `{
  "swagger": "2.0",
  "info": {"title": "t", "version": "1"},
  "consumes": %CONSUMES%,
  "parameters": {"p": %PARAMETER%},
  "definitions": {
    "A": {"type": %TYPE%, "additionalProperties": %ADDPROPS%, "minProperties": %MINPROPS%,
          "properties": {"s": {"type": "string", "minLength": %MINLENGTH%}}}
  },
  "paths": {
    "/a": {
      "get": {
        "produces": %PRODUCES%,
        "parameters": [{"name": "q", "in": "query", "type": "array", "items": {"type": "string"}, "minItems": %MINITEMS%}],
        "responses": {
          "200": {"description": "ok", "schema": %RSCHEMA%},
          "404": %RESPONSE%
        }
      }
    }
  }
}`
	// slot -> [valid value, a non-null invalid value which still loads ("" when there is none)]
	slots := map[string][2]string{
		"%CONSUMES%":  {`["application/json"]`, ``},
		"%PRODUCES%":  {`["application/json"]`, ``},
		"%PARAMETER%": {`{"name": "p", "in": "query", "type": "string"}`, `{}`},
		"%TYPE%":      {`"object"`, `"nothing"`},
		"%ADDPROPS%":  {`true`, `"yes"`},
		"%MINPROPS%":  {`0`, `-1`},
		"%MINLENGTH%": {`0`, `-1`},
		"%MINITEMS%":  {`0`, `-1`},
		"%RSCHEMA%":   {`{"type": "object"}`, `{"type": "nothing"}`},
		"%RESPONSE%":  {`{"description": "nf"}`, `{}`},
	}
	build := func(slot, value string) string {
		out := tpl
		for s, v := range slots {
			if s == slot {
				out = strings.ReplaceAll(out, s, value)
			} else {
				out = strings.ReplaceAll(out, s, v[0])
			}
		}
		return out
	}

	// sanity: the template itself is a valid specification
	if n := nbErrors(t, build("", ""), false); n != 0 {
		t.Fatalf("the unmodified document should be valid, got %d errors", n)
	}

	for slot, v := range slots {
		for _, continueOnErrors := range []bool{false, true} {
			if v[1] != "" {
				// control: another invalid value at the same place is reported
				if n := nbErrors(t, build(slot, v[1]), continueOnErrors); n == 0 {
					t.Fatalf("control: %s = %s should be reported", slot, v[1])
				}
			}
			if n := nbErrors(t, build(slot, "null"), continueOnErrors); n == 0 {
				t.Errorf("%s = null (continueOnErrors=%t): the document violates the Swagger 2.0 schema "+
					"but spec validation reports no error", slot, continueOnErrors)
			}
		}
	}
}
