package validate_test

import (
	"encoding/json"
	"strings"
	"testing"

	"github.com/go-openapi/loads"
	"github.com/go-openapi/strfmt"
	"github.com/go-openapi/validate"
)

// C02 finding 1: properties named "id" or "$schema" escape every "additionalProperties": false
// of the Swagger 2.0 JSON schema.
//
// None of the objects of the Swagger 2.0 schema declares a property "id" or "$schema", and all of
// them are closed ("additionalProperties": false, only "^x-" allowed as patternProperties).
// A document carrying such a key therefore violates the schema, exactly like the control
// documents (same shape, key "idx") which are correctly reported as "forbidden property".

func validateDoc(t *testing.T, raw string, continueOnErrors bool) (nbErrors int) {
	t.Helper()
	doc, err := loads.Analyzed(json.RawMessage(raw), "")
	if err != nil {
		t.Fatalf("the document is expected to load: %v", err)
	}
	v := validate.NewSpecValidator(doc.Schema(), strfmt.Default)
	v.SetContinueOnErrors(continueOnErrors)
	errs, _ := v.Validate(doc)
	return len(errs.Errors)
}

func TestC02_IDAndDollarSchemaEscapeAdditionalPropertiesFalse(t *testing.T) {
	const tpl = `{
  "swagger": "2.0",
  %ROOT%
  "info": {"title": "t", "version": "1" %INFO%},
  "paths": {
    %PATHS%
    "/a": {
      "get": {
        "parameters": [{"name": "q", "in": "query", "type": "string" %PARAM%}],
        "responses": {"200": {"description": "ok" %RESPONSE%, "schema": {"type": "object" %SCHEMA%}}}
      }
    }
  }
}`
	build := func(slot, key string) string {
		out := tpl
		for _, s := range []string{"%ROOT%", "%INFO%", "%PATHS%", "%PARAM%", "%RESPONSE%", "%SCHEMA%"} {
			repl := ""
			if s == slot {
				switch s {
				case "%ROOT%", "%PATHS%":
					repl = `"` + key + `": "whatever",`
				default:
					repl = `, "` + key + `": "whatever"`
				}
			}
			out = strings.ReplaceAll(out, s, repl)
		}
		return out
	}

	// sanity: the template itself is a valid specification
	if n := validateDoc(t, build("", ""), false); n != 0 {
		t.Fatalf("the unmodified document should be valid, got %d errors", n)
	}

	for _, slot := range []string{"%ROOT%", "%INFO%", "%PATHS%", "%PARAM%", "%RESPONSE%", "%SCHEMA%"} {
		for _, continueOnErrors := range []bool{false, true} {
			// control: any other undeclared key is reported
			if n := validateDoc(t, build(slot, "idx"), continueOnErrors); n == 0 {
				t.Fatalf("control: undeclared key \"idx\" at %s should be reported", slot)
			}
			for _, key := range []string{"id", "$schema"} {
				if n := validateDoc(t, build(slot, key), continueOnErrors); n == 0 {
					t.Errorf("key %q at %s (continueOnErrors=%t): the document violates the Swagger 2.0 schema "+
						"(additionalProperties: false) but spec validation reports no error", key, slot, continueOnErrors)
				}
			}
		}
	}
}
