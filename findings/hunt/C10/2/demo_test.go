package validate_test

import (
	"encoding/json"
	"regexp"
	"sort"
	"strings"
	"testing"

	"github.com/go-openapi/loads"
	"github.com/go-openapi/strfmt"
	"github.com/go-openapi/validate"
)

// C10 finding 2: validateDuplicatePropertyNames returns as soon as the first definition (in map
// iteration order) with a circular ancestry is met. What is reported about all the OTHER definitions
// (duplicate properties, another - unrelated - cycle) depends on the iteration order.

// one cycle A <-> B, and an unrelated definition Q which redeclares property x of its parent P
const c10f2CyclePlusDup = `{
 "swagger":"2.0","info":{"title":"t","version":"1"},"paths":{},
 "definitions":{
  "A":{"allOf":[{"$ref":"#/definitions/B"}]},
  "B":{"allOf":[{"$ref":"#/definitions/A"}]},
  "P":{"type":"object","properties":{"x":{"type":"string"}}},
  "Q":{"allOf":[{"$ref":"#/definitions/P"},{"type":"object","properties":{"x":{"type":"string"}}}]},
  "F1":{"type":"string"},"F2":{"type":"string"},"F3":{"type":"string"},"F4":{"type":"string"},
  "F5":{"type":"string"},"F6":{"type":"string"},"F7":{"type":"string"},"F8":{"type":"string"}
 }}`

// two independent cycles A <-> B and C <-> D
const c10f2TwoCycles = `{
 "swagger":"2.0","info":{"title":"t","version":"1"},"paths":{},
 "definitions":{
  "A":{"allOf":[{"$ref":"#/definitions/B"}]},
  "B":{"allOf":[{"$ref":"#/definitions/A"}]},
  "C":{"allOf":[{"$ref":"#/definitions/D"}]},
  "D":{"allOf":[{"$ref":"#/definitions/C"}]},
  "F1":{"type":"string"},"F2":{"type":"string"},"F3":{"type":"string"},"F4":{"type":"string"},
  "F5":{"type":"string"},"F6":{"type":"string"},"F7":{"type":"string"},"F8":{"type":"string"}
 }}`

// the property tolerates that a circular-ancestry message names any member of the cycle:
// rewrite such messages so that they only tell WHICH cycle is reported.
var c10f2Circular = regexp.MustCompile(`^definition "([A-D])" has circular ancestry: \[#/definitions/([A-D])\]$`)

func c10f2Normalize(msg string) string {
	m := c10f2Circular.FindStringSubmatch(msg)
	if m == nil {
		return msg
	}
	cycle := map[string]string{"A": "{A,B}", "B": "{A,B}", "C": "{C,D}", "D": "{C,D}"}
	if cycle[m[1]] != cycle[m[2]] {
		return msg
	}

	return "circular ancestry in cycle " + cycle[m[1]]
}

func c10f2Set(in []error) string {
	m := map[string]struct{}{}
	for _, e := range in {
		m[c10f2Normalize(e.Error())] = struct{}{}
	}
	out := make([]string, 0, len(m))
	for k := range m {
		out = append(out, k)
	}
	sort.Strings(out)

	return strings.Join(out, "\n")
}

func c10f2Validate(t *testing.T, raw string, continueOnErrors bool) (bool, string, string) {
	t.Helper()
	doc, err := loads.Analyzed(json.RawMessage(raw), "")
	if err != nil {
		t.Fatalf("document must load: %v", err)
	}
	v := validate.NewSpecValidator(doc.Schema(), strfmt.Default)
	v.SetContinueOnErrors(continueOnErrors)
	res, _ := v.Validate(doc)

	return res.IsValid(), c10f2Set(res.Errors), c10f2Set(res.Warnings)
}

func c10f2Repeat(t *testing.T, raw string) {
	t.Helper()
	for _, cont := range []bool{false, true} {
		valid0, errs0, warns0 := c10f2Validate(t, raw, cont)
		for i := 1; i < 40; i++ {
			valid, errs, warns := c10f2Validate(t, raw, cont)
			if valid != valid0 || errs != errs0 || warns != warns0 {
				t.Fatalf("continue-on-errors=%t: validating the same document again (run %d) gave another set of errors "+
					"(circular-ancestry messages reduced to the cycle they report):\nfirst: [%s]\nnow:   [%s]",
					cont, i, errs0, errs)
			}
		}
	}
}

func TestC10_CircularAncestry_DoesNotHideOtherDefinitions(t *testing.T) {
	c10f2Repeat(t, c10f2CyclePlusDup)
}

func TestC10_CircularAncestry_TwoIndependentCycles(t *testing.T) {
	c10f2Repeat(t, c10f2TwoCycles)
}

// Every error reported when stopping early must also be reported with continue-on-errors.
func TestC10_CircularAncestry_Monotone(t *testing.T) {
	for i := 0; i < 40; i++ {
		_, early, _ := c10f2Validate(t, c10f2TwoCycles, false)
		_, full, _ := c10f2Validate(t, c10f2TwoCycles, true)
		have := map[string]bool{}
		for _, e := range strings.Split(full, "\n") {
			have[e] = true
		}
		for _, e := range strings.Split(early, "\n") {
			if !have[e] {
				t.Fatalf("run %d: %q is reported when stopping early but not with continue-on-errors, which reports [%s]", i, e, full)
			}
		}
	}
}
