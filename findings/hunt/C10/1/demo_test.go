package validate_test

import (
	"encoding/json"
	"sort"
	"strings"
	"testing"

	"github.com/go-openapi/loads"
	"github.com/go-openapi/strfmt"
	"github.com/go-openapi/validate"
)

// C10 finding 1: the verdict on a document depends on map iteration order when a property name
// containing a dot ("a.b") spells the path of a nested property ("a" -> "b").
//
// The default (and example) validators remember "visited" dotted paths; both properties map to
// "definitions.X.a.b", so whichever is walked first shadows the other one.

const c10DottedSpec = `{
 "swagger":"2.0","info":{"title":"t","version":"1"},"paths":{},
 "definitions":{"X":{"type":"object","properties":{
   "a":   {"type":"object","properties":{"b":{"type":"string","default":1}}},
   "a.b": {"type":"integer","default":1},
   "p1":{"type":"string"},"p2":{"type":"string"},"p3":{"type":"string"},"p4":{"type":"string"},
   "p5":{"type":"string"},"p6":{"type":"string"},"p7":{"type":"string"},"p8":{"type":"string"}
 }}}}`

const c10DottedExampleSpec = `{
 "swagger":"2.0","info":{"title":"t","version":"1"},"paths":{},
 "definitions":{"X":{"type":"object","properties":{
   "a":   {"type":"object","properties":{"b":{"type":"string","example":1}}},
   "a.b": {"type":"integer","example":1},
   "p1":{"type":"string"},"p2":{"type":"string"},"p3":{"type":"string"},"p4":{"type":"string"},
   "p5":{"type":"string"},"p6":{"type":"string"},"p7":{"type":"string"},"p8":{"type":"string"}
 }}}}`

func c10f1Validate(t *testing.T, raw string, continueOnErrors bool) (valid bool, errs, warns string) {
	t.Helper()
	doc, err := loads.Analyzed(json.RawMessage(raw), "")
	if err != nil {
		t.Fatalf("document must load: %v", err)
	}
	v := validate.NewSpecValidator(doc.Schema(), strfmt.Default)
	v.SetContinueOnErrors(continueOnErrors)
	res, _ := v.Validate(doc)

	return res.IsValid(), c10f1Set(res.Errors), c10f1Set(res.Warnings)
}

func c10f1Set(in []error) string {
	m := map[string]struct{}{}
	for _, e := range in {
		m[e.Error()] = struct{}{}
	}
	out := make([]string, 0, len(m))
	for k := range m {
		out = append(out, k)
	}
	sort.Strings(out)

	return strings.Join(out, "\n")
}

func TestC10_DottedPropertyName_DefaultVerdictIsDeterministic(t *testing.T) {
	valid0, errs0, warns0 := c10f1Validate(t, c10DottedSpec, true)
	for i := 1; i < 40; i++ {
		valid, errs, warns := c10f1Validate(t, c10DottedSpec, true)
		if valid != valid0 || errs != errs0 || warns != warns0 {
			t.Fatalf("validating the same document again (run %d) gave another result:\n"+
				"first: valid=%t errors=[%s]\nnow:   valid=%t errors=[%s]", i, valid0, errs0, valid, errs)
		}
	}
}

func TestC10_DottedPropertyName_ExampleWarningsAreDeterministic(t *testing.T) {
	valid0, errs0, warns0 := c10f1Validate(t, c10DottedExampleSpec, true)
	for i := 1; i < 40; i++ {
		valid, errs, warns := c10f1Validate(t, c10DottedExampleSpec, true)
		if valid != valid0 || errs != errs0 || warns != warns0 {
			t.Fatalf("validating the same document again (run %d) gave other warnings:\nfirst: [%s]\nnow:   [%s]", i, warns0, warns)
		}
	}
}
