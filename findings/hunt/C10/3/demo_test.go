package validate_test

import (
	"encoding/json"
	"sort"
	"strings"
	"testing"

	"github.com/go-openapi/loads"
	"github.com/go-openapi/strfmt"
	"github.com/go-openapi/validate"
)

// C10 finding 3: with several unresolvable $ref, the single "some references could not be resolved
// in spec. First found: ..." error quotes whichever reference the expander happened to visit first.

const c10f3TwoUnresolved = `{
 "swagger":"2.0","info":{"title":"t","version":"1"},"paths":{},
 "definitions":{
  "A":{"type":"object","properties":{"x":{"$ref":"#/definitions/Nope1"}}},
  "B":{"type":"object","properties":{"y":{"$ref":"#/definitions/Nope2"}}},
  "F1":{"type":"string"},"F2":{"type":"string"},"F3":{"type":"string"},"F4":{"type":"string"},
  "F5":{"type":"string"},"F6":{"type":"string"},"F7":{"type":"string"},"F8":{"type":"string"}
 }}`

func c10f3Set(in []error) string {
	m := map[string]struct{}{}
	for _, e := range in {
		m[e.Error()] = struct{}{}
	}
	out := make([]string, 0, len(m))
	for k := range m {
		out = append(out, k)
	}
	sort.Strings(out)

	return strings.Join(out, "\n")
}

func c10f3Validate(t *testing.T, raw string, continueOnErrors bool) (bool, string, string) {
	t.Helper()
	doc, err := loads.Analyzed(json.RawMessage(raw), "")
	if err != nil {
		t.Fatalf("document must load: %v", err)
	}
	v := validate.NewSpecValidator(doc.Schema(), strfmt.Default)
	v.SetContinueOnErrors(continueOnErrors)
	res, _ := v.Validate(doc)

	return res.IsValid(), c10f3Set(res.Errors), c10f3Set(res.Warnings)
}

func TestC10_UnresolvedReferences_SameMessageEveryTime(t *testing.T) {
	for _, cont := range []bool{false, true} {
		valid0, errs0, warns0 := c10f3Validate(t, c10f3TwoUnresolved, cont)
		for i := 1; i < 40; i++ {
			valid, errs, warns := c10f3Validate(t, c10f3TwoUnresolved, cont)
			if valid != valid0 || errs != errs0 || warns != warns0 {
				t.Fatalf("continue-on-errors=%t: validating the same document again (run %d) gave another set of errors:\nfirst: [%s]\nnow:   [%s]",
					cont, i, errs0, errs)
			}
		}
	}
}
