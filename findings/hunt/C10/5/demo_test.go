package validate_test

import (
	"encoding/json"
	"sort"
	"strings"
	"testing"

	"github.com/go-openapi/loads"
	"github.com/go-openapi/strfmt"
	"github.com/go-openapi/validate"
)

// C10 finding 5: with three (or more) paths which only differ by the name of a path parameter,
// the "path X overlaps with Y" errors pair every path with whichever of them came first in map
// iteration order: the set of messages changes from one validation to the next.

func c10f5Spec() string {
	op := func(id, param string) string {
		return `{"get":{"operationId":"` + id + `","parameters":[{"name":"` + param +
			`","in":"path","required":true,"type":"string"}],"responses":{"200":{"description":"ok"}}}}`
	}
	paths := []string{
		`"/a/{x}":` + op("getX", "x"),
		`"/a/{y}":` + op("getY", "y"),
		`"/a/{z}":` + op("getZ", "z"),
	}
	// inert, non overlapping paths: only there to get a well-mixed map order
	for _, f := range []string{"f1", "f2", "f3", "f4", "f5", "f6", "f7", "f8"} {
		paths = append(paths, `"/`+f+`":{"get":{"operationId":"`+f+`","responses":{"200":{"description":"ok"}}}}`)
	}

	return `{"swagger":"2.0","info":{"title":"t","version":"1"},"paths":{` + strings.Join(paths, ",") + `}}`
}

func c10f5Set(in []error) string {
	m := map[string]struct{}{}
	for _, e := range in {
		m[e.Error()] = struct{}{}
	}
	out := make([]string, 0, len(m))
	for k := range m {
		out = append(out, k)
	}
	sort.Strings(out)

	return strings.Join(out, "\n")
}

func c10f5Validate(t *testing.T, raw string, continueOnErrors bool) (bool, string, string) {
	t.Helper()
	doc, err := loads.Analyzed(json.RawMessage(raw), "")
	if err != nil {
		t.Fatalf("document must load: %v", err)
	}
	v := validate.NewSpecValidator(doc.Schema(), strfmt.Default)
	v.SetContinueOnErrors(continueOnErrors)
	res, _ := v.Validate(doc)

	return res.IsValid(), c10f5Set(res.Errors), c10f5Set(res.Warnings)
}

func TestC10_OverlappingPaths_SameMessagesEveryTime(t *testing.T) {
	raw := c10f5Spec()
	for _, cont := range []bool{false, true} {
		valid0, errs0, warns0 := c10f5Validate(t, raw, cont)
		for i := 1; i < 40; i++ {
			valid, errs, warns := c10f5Validate(t, raw, cont)
			if valid != valid0 || errs != errs0 || warns != warns0 {
				t.Fatalf("continue-on-errors=%t: validating the same document again (run %d) gave another set of errors:\nfirst: [%s]\nnow:   [%s]",
					cont, i, errs0, errs)
			}
		}
	}
}

// Every error reported when stopping early must also be reported with continue-on-errors.
func TestC10_OverlappingPaths_Monotone(t *testing.T) {
	raw := c10f5Spec()
	for i := 0; i < 40; i++ {
		_, early, _ := c10f5Validate(t, raw, false)
		_, full, _ := c10f5Validate(t, raw, true)
		have := map[string]bool{}
		for _, e := range strings.Split(full, "\n") {
			have[e] = true
		}
		for _, e := range strings.Split(early, "\n") {
			if !have[e] {
				t.Fatalf("run %d: %q is reported when stopping early but not with continue-on-errors, which reports [%s]", i, e, full)
			}
		}
	}
}
