package validate_test

import (
	"encoding/json"
	"sort"
	"strings"
	"testing"

	"github.com/go-openapi/loads"
	"github.com/go-openapi/strfmt"
	"github.com/go-openapi/validate"
)

// C10 finding 4: with continue-on-errors, validating a document that holds an unresolvable $ref
// rewrites the caller's parsed document (doc.Spec()): parameters are replaced by their expanded
// version, unresolvable ones are dropped. Validating the very same document again therefore gives
// other errors and other warnings.

const c10f4Spec = `{
 "swagger":"2.0","info":{"title":"t","version":"1"},
 "paths":{"/a":{"post":{"operationId":"postA",
   "parameters":[
     {"$ref":"#/parameters/p"},
     {"$ref":"#/parameters/nope"},
     {"name":"b","in":"body","schema":{"$ref":"#/definitions/A"}}],
   "responses":{"200":{"description":"ok"}}}}},
 "parameters":{"p":{"name":"p","in":"query","type":"string"}},
 "definitions":{"A":{"type":"object"}}}`

func c10f4Set(in []error) string {
	m := map[string]struct{}{}
	for _, e := range in {
		m[e.Error()] = struct{}{}
	}
	out := make([]string, 0, len(m))
	for k := range m {
		out = append(out, k)
	}
	sort.Strings(out)

	return strings.Join(out, "\n")
}

func TestC10_ValidatingAgainTheSameDocument(t *testing.T) {
	doc, err := loads.Analyzed(json.RawMessage(c10f4Spec), "")
	if err != nil {
		t.Fatalf("document must load: %v", err)
	}
	before, _ := json.Marshal(doc.Spec())

	validateOnce := func() (bool, string, string) {
		v := validate.NewSpecValidator(doc.Schema(), strfmt.Default)
		v.SetContinueOnErrors(true)
		res, _ := v.Validate(doc)

		return res.IsValid(), c10f4Set(res.Errors), c10f4Set(res.Warnings)
	}

	valid1, errs1, warns1 := validateOnce()
	valid2, errs2, warns2 := validateOnce()

	if valid1 != valid2 || errs1 != errs2 {
		t.Errorf("second validation of the same document reports other errors:\nfirst:  [%s]\nsecond: [%s]", errs1, errs2)
	}
	if warns1 != warns2 {
		t.Errorf("second validation of the same document reports other warnings:\nfirst:  [%s]\nsecond: [%s]", warns1, warns2)
	}

	// the cause (not part of the property, shown for diagnosis only)
	if after, _ := json.Marshal(doc.Spec()); string(before) != string(after) {
		t.Logf("Validate modified the caller's document:\nbefore: %s\nafter:  %s", before, after)
	}
}
