package validate_test

import (
	"encoding/json"
	"strings"
	"testing"

	"github.com/go-openapi/errors"
	"github.com/go-openapi/spec"
	"github.com/go-openapi/strfmt"
	"github.com/go-openapi/validate"
)

// With the public options SwaggerSchema(true) / EnableArrayMustHaveItemsCheck /
// EnableObjectArrayTypeCheck, the object validator emits "required" errors whose Name is the
// bare keyword ("items" / "type") and whose In is the path: the error is not named by the
// caller's root path nor by an extension of it.
func TestC17_F3_SwaggerRuleErrorsAreNotNamedByThePath(t *testing.T) {
	var s spec.Schema
	if err := json.Unmarshal([]byte(`{"type":"object","properties":{"p":{"type":"object"},"q":{"type":"object"}}}`), &s); err != nil {
		t.Fatal(err)
	}
	var d interface{}
	if err := json.Unmarshal([]byte(`{"p":{"type":"array"},"q":{"items":{}}}`), &d); err != nil {
		t.Fatal(err)
	}

	const root = "root"
	res := validate.NewSchemaValidator(&s, nil, root, strfmt.Default, validate.SwaggerSchema(true)).Validate(d)
	if res.IsValid() {
		t.Fatalf("expected an invalid result")
	}
	for _, e := range res.Errors {
		v, ok := e.(*errors.Validation)
		if !ok {
			continue
		}
		if v.Name != root && !strings.HasPrefix(v.Name, root+".") {
			t.Errorf("error %q: Name=%q In=%q is neither the root path %q nor an extension of it", e, v.Name, v.In, root)
		}
	}
}
