package validate_test

import (
	"encoding/json"
	"sort"
	"testing"

	"github.com/go-openapi/errors"
	"github.com/go-openapi/spec"
	"github.com/go-openapi/strfmt"
	"github.com/go-openapi/validate"
)

// A schema dependency ("dependencies": {"a": {<schema>}}) applies <schema> to the WHOLE object
// holding "a". Its errors must therefore be located relative to that object, not under ".a".
func TestC17_F2_SchemaDependencyMislocatesErrors(t *testing.T) {
	var s spec.Schema
	if err := json.Unmarshal([]byte(`{
	  "type":"object",
	  "properties":{"o":{
	    "dependencies":{"a":{"required":["b"],"properties":{"c":{"type":"integer"}}}}
	  }}
	}`), &s); err != nil {
		t.Fatal(err)
	}
	var d interface{}
	if err := json.Unmarshal([]byte(`{"o":{"a":1,"c":"x"}}`), &d); err != nil {
		t.Fatal(err)
	}

	res := validate.NewSchemaValidator(&s, nil, "root", strfmt.Default).Validate(d)
	got := []string{}
	for _, e := range res.Errors {
		if v, ok := e.(*errors.Validation); ok {
			got = append(got, v.Name)
		}
	}
	sort.Strings(got)

	// offending member: root.o.c (a string, must be an integer); missing required member: root.o.b
	want := []string{"root.o.b", "root.o.c"}
	if len(got) != len(want) || got[0] != want[0] || got[1] != want[1] {
		t.Errorf("error names %v, want %v (messages: %v)", got, want, res.Errors)
	}
}
