package validate_test

import (
	"encoding/json"
	"fmt"
	"testing"

	"github.com/go-openapi/errors"
	"github.com/go-openapi/spec"
	"github.com/go-openapi/strfmt"
	"github.com/go-openapi/validate"
)

type c17f4Payload struct {
	A string `json:"a"`
}

func c17f4Against(schemaJSON string, data interface{}) (err error, panicked interface{}) {
	var s spec.Schema
	if e := json.Unmarshal([]byte(schemaJSON), &s); e != nil {
		panic(e)
	}
	defer func() { panicked = recover() }()
	err = validate.AgainstSchema(&s, data, strfmt.Default)
	return err, nil
}

// AgainstSchema must return nil or a composite error (code 422); on typed nil pointers it panics.
func TestC17_F4_TypedNilPointersPanic(t *testing.T) {
	var nilStruct *c17f4Payload
	var nilInt *int

	for _, tc := range []struct {
		label, schema string
		data          interface{}
	}{
		// (*T)(nil) is turned into a JSON null by swag.ToDynamicJSON, then schemaPropsValidator
		// calls reflect.TypeOf(nil).Kind() because the schema has dependencies.
		{"nil *struct, schema with dependencies", `{"type":"object","dependencies":{"a":["b"]}}`, nilStruct},
		// a nil pointer as a member value: typeValidator.schemaInfoForType dereferences it.
		{"nil *int member", `{"properties":{"a":{"type":"integer"}}}`, map[string]interface{}{"a": nilInt}},
	} {
		err, p := c17f4Against(tc.schema, tc.data)
		if p != nil {
			t.Errorf("%s: AgainstSchema panicked: %v", tc.label, p)
			continue
		}
		if err == nil {
			continue
		}
		ce, ok := err.(*errors.CompositeError)
		if !ok || ce.Code() != 422 || len(ce.Errors) == 0 {
			t.Errorf("%s: not a composite 422 error: %s", tc.label, fmt.Sprintf("%T %v", err, err))
		}
	}
}
