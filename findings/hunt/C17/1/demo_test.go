package validate_test

import (
	"encoding/json"
	"sort"
	"testing"

	"github.com/go-openapi/errors"
	"github.com/go-openapi/spec"
	"github.com/go-openapi/strfmt"
	"github.com/go-openapi/validate"
)

func c17f1Schema(t *testing.T, js string) *spec.Schema {
	t.Helper()
	var s spec.Schema
	if err := json.Unmarshal([]byte(js), &s); err != nil {
		t.Fatal(err)
	}
	return &s
}

func c17f1Data(t *testing.T, js string) interface{} {
	t.Helper()
	var d interface{}
	if err := json.Unmarshal([]byte(js), &d); err != nil {
		t.Fatal(err)
	}
	return d
}

func c17f1Names(res *validate.Result) []string {
	names := []string{}
	for _, e := range res.Errors {
		if v, ok := e.(*errors.Validation); ok {
			names = append(names, v.Name)
		}
	}
	sort.Strings(names)
	return names
}

func c17f1Equal(a, b []string) bool {
	if len(a) != len(b) {
		return false
	}
	for i := range a {
		if a[i] != b[i] {
			return false
		}
	}
	return true
}

// Errors raised on the elements of an array validated by a single "items" schema
// must be named <array path>.<index>[...]: the index is dropped.
func TestC17_F1_ListItemsLoseTheirIndex(t *testing.T) {
	for _, tc := range []struct {
		label, schema, data string
		want                []string
	}{
		{
			label:  "element of a list",
			schema: `{"type":"array","items":{"type":"integer"}}`,
			data:   `[1,"x",3]`,
			want:   []string{"root.1"},
		},
		{
			label:  "properties > list > properties/required",
			schema: `{"properties":{"l":{"type":"array","items":{"type":"object","required":["b"],"properties":{"a":{"type":"integer"}}}}}}`,
			data:   `{"l":[{"a":1,"b":1},{"a":"x"}]}`,
			want:   []string{"root.l.1.a", "root.l.1.b"},
		},
		{
			label:  "tuple item > list",
			schema: `{"items":[{"type":"array","items":{"type":"integer"}}]}`,
			data:   `[[1,"x"]]`,
			want:   []string{"root.0.1"},
		},
		{
			label:  "additionalProperties > list > tuple",
			schema: `{"additionalProperties":{"type":"array","items":{"type":"array","items":[{"type":"string"},{"type":"integer"}]}}}`,
			data:   `{"k":[["s",1],["s","x"]]}`,
			want:   []string{"root.k.1.1"},
		},
	} {
		res := validate.NewSchemaValidator(c17f1Schema(t, tc.schema), nil, "root", strfmt.Default).Validate(c17f1Data(t, tc.data))
		got := c17f1Names(res)
		if !c17f1Equal(got, tc.want) {
			t.Errorf("%s: schema=%s data=%s: error names %v, want %v (messages: %v)", tc.label, tc.schema, tc.data, got, tc.want, res.Errors)
		}
	}
}

// Same root cause seen from the public API: (*SchemaValidator).SetPath changes the
// caller's root path, but errors keep being named by the path given at construction time.
func TestC17_F1_SetPathIsNotHonoured(t *testing.T) {
	v := validate.NewSchemaValidator(c17f1Schema(t, `{"type":"object","required":["b"],"properties":{"a":{"type":"integer"}}}`), nil, "x", strfmt.Default)
	v.SetPath("y")
	res := v.Validate(c17f1Data(t, `{"a":"s"}`))
	got := c17f1Names(res)
	want := []string{"y.a", "y.b"}
	if !c17f1Equal(got, want) {
		t.Errorf("after SetPath(\"y\"): error names %v, want %v", got, want)
	}
}
