package validate_test

import (
	"encoding/json"
	"sync"
	"testing"

	"github.com/go-openapi/spec"
	"github.com/go-openapi/strfmt"
	"github.com/go-openapi/validate"
)

// C12: "Validating [...] never modifies a schema that contains no references".
//
// The schemas below contain no $ref at all: they merely declare an "id", which is a legal
// (and common) keyword of JSON schema draft 4.
//
// Each test shares ONE such schema between goroutines which do nothing but validate. The tests never
// write to the schema themselves: every write to it is the library's (newSchemaValidator calls
// spec.ExpandSchema on the caller's schema as soon as it has an "id", and the expander re-assigns
// every entry of schema.Properties, schema.Definitions, ..., *schema.Items.Schema, in place).
//
// Run with:
//
//	go test -race -run 'TestC12_' -count=1 .
//
// With -race, the detector reports the library's writes to the shared schema (runtime.mapassign from
// spec.expandSchema <- spec.ExpandSchema <- validate.newSchemaValidator) and the tests FAIL.
// Without -race, the run dies most of the time with "fatal error: concurrent map writes" or
// "fatal error: concurrent map read and map write", which cannot happen if the schema is only read.
//
// TestC12_Control_NoID is the same scenario without "id": it passes, with or without -race.

const c12SchemaWithRootID = `{
  "id": "http://example.com/schemas/person.json",
  "type": "object",
  "properties": {
    "name": {"type": "string"},
    "age":  {"type": "integer", "minimum": 0},
    "tags": {"type": "array", "items": {"type": "string"}}
  },
  "required": ["name"]
}`

// no id at the root: only on a nested schema, reached through "items" (a pointer into the caller's schema)
const c12SchemaWithNestedID = `{
  "type": "object",
  "properties": {
    "name": {"type": "string"},
    "age":  {"type": "integer", "minimum": 0},
    "tags": {"type": "array", "items": {"id": "tag", "type": "object", "properties": {"k": {"type": "string"}, "v": {"type": "string"}}}}
  },
  "required": ["name"]
}`

const c12SchemaWithoutID = `{
  "type": "object",
  "properties": {
    "name": {"type": "string"},
    "age":  {"type": "integer", "minimum": 0},
    "tags": {"type": "array", "items": {"type": "object", "properties": {"k": {"type": "string"}, "v": {"type": "string"}}}}
  },
  "required": ["name"]
}`

func c12Hammer(t *testing.T, schemaJSON string, data interface{}) {
	t.Helper()

	schema := new(spec.Schema)
	if err := json.Unmarshal([]byte(schemaJSON), schema); err != nil {
		t.Fatal(err)
	}

	var wg sync.WaitGroup
	for g := 0; g < 8; g++ {
		wg.Add(1)
		go func() {
			defer wg.Done()
			for i := 0; i < 2000; i++ {
				if err := validate.AgainstSchema(schema, data, strfmt.Default); err != nil {
					t.Errorf("unexpected validation error: %v", err)

					return
				}
			}
		}()
	}
	wg.Wait()
}

func TestC12_SchemaWithRootIDIsWrittenInPlace(t *testing.T) {
	c12Hammer(t, c12SchemaWithRootID,
		map[string]interface{}{"name": "fred", "age": 12.0, "tags": []interface{}{"a", "b"}},
	)
}

func TestC12_SchemaWithNestedIDIsWrittenInPlace(t *testing.T) {
	c12Hammer(t, c12SchemaWithNestedID,
		map[string]interface{}{"name": "fred", "age": 12.0, "tags": []interface{}{
			map[string]interface{}{"k": "a", "v": "b"}, map[string]interface{}{"k": "c", "v": "d"},
		}},
	)
}

func TestC12_Control_NoID(t *testing.T) {
	c12Hammer(t, c12SchemaWithoutID,
		map[string]interface{}{"name": "fred", "age": 12.0, "tags": []interface{}{
			map[string]interface{}{"k": "a", "v": "b"}, map[string]interface{}{"k": "c", "v": "d"},
		}},
	)
}
