package validate_test

import (
	"encoding/json"
	"fmt"
	"strings"
	"testing"

	"github.com/go-openapi/loads"
	"github.com/go-openapi/strfmt"
	"github.com/go-openapi/validate"
)

// C09 finding 3: of the per-media-type examples of a response, only the one under the exact key "application/json"
// is ever judged against the response schema.

func c09f3Validate(t *testing.T, doc string) (errs, warns []string) {
	t.Helper()
	d, err := loads.Analyzed(json.RawMessage(doc), "")
	if err != nil {
		t.Fatalf("cannot load: %v", err)
	}
	res, _ := validate.NewSpecValidator(d.Schema(), strfmt.Default).Validate(d)
	for _, e := range res.Errors {
		errs = append(errs, e.Error())
	}
	for _, w := range res.Warnings {
		if strings.Contains(w.Error(), "is not used anywhere") {
			continue
		}
		warns = append(warns, w.Error())
	}
	return errs, warns
}

func c09f3Doc(defs, params, responses string) string {
	if defs == "" {
		defs = "{}"
	}
	if params == "" {
		params = "[]"
	}
	if responses == "" {
		responses = `{"200":{"description":"ok"}}`
	}
	return fmt.Sprintf(`{"swagger":"2.0","info":{"title":"t","version":"1"},`+
		`"paths":{"/p":{"get":{"operationId":"op","parameters":%s,"responses":%s}}},"definitions":%s}`, params, responses, defs)
}

func TestC09F3_ResponseExamplesOtherMediaTypes(t *testing.T) {
	resp := func(examples string) string {
		return c09f3Doc("", "", `{"200":{"description":"ok","schema":{"type":"object","required":["id"],"properties":{"id":{"type":"integer"}}},"examples":`+examples+`}}`)
	}

	t.Run("control: application/json example rejected by the schema", func(t *testing.T) {
		_, warns := c09f3Validate(t, resp(`{"application/json":{"id":"bad"}}`))
		if len(warns) == 0 {
			t.Errorf("expected a warning, got none")
		}
	})

	t.Run("control: application/json example accepted by the schema", func(t *testing.T) {
		errs, warns := c09f3Validate(t, resp(`{"application/json":{"id":1}}`))
		if len(errs)+len(warns) != 0 {
			t.Errorf("expected no report, got %q %q", errs, warns)
		}
	})

	// the second example is rejected by the schema, and nothing at all is reported
	for _, mime := range []string{"application/vnd.api+json", "application/json; charset=utf-8", "application/hal+json", "text/json"} {
		mime := mime
		t.Run("good application/json example plus bad "+mime+" example", func(t *testing.T) {
			errs, warns := c09f3Validate(t, resp(`{"application/json":{"id":1},"`+mime+`":{"id":"bad"}}`))
			if len(errs) != 0 {
				t.Errorf("unexpected errors: %q", errs)
			}
			if len(warns) == 0 {
				t.Errorf("the %s example {id: \"bad\"} is rejected by the response schema: expected a warning, got none", mime)
			}
		})
	}

	// when application/json is absent, the same "no validation attempt" warning is raised whether the schema
	// accepts the example or not: the example is not judged
	t.Run("only another media type: report must depend on the value", func(t *testing.T) {
		_, warnsBad := c09f3Validate(t, resp(`{"application/vnd.api+json":{"id":"bad"}}`))
		_, warnsGood := c09f3Validate(t, resp(`{"application/vnd.api+json":{"id":1}}`))
		if strings.Join(warnsBad, "|") == strings.Join(warnsGood, "|") {
			t.Errorf("an example rejected by the schema and one accepted by it get the same report: %q", warnsBad)
		}
		if len(warnsGood) != 0 {
			t.Errorf("an example accepted by its schema raised: %q", warnsGood)
		}
	})
}
