package validate_test

import (
	"encoding/json"
	"fmt"
	"strings"
	"testing"

	"github.com/go-openapi/loads"
	"github.com/go-openapi/strfmt"
	"github.com/go-openapi/validate"
)

// C09 finding 1: the "suffix overlap" heuristic of isVisited (default_validator.go) makes the default/example
// walkers skip every schema whose dotted path ends with a segment sequence that also ends its parent path.

func c09f1Validate(t *testing.T, doc string) (errs, warns []string) {
	t.Helper()
	d, err := loads.Analyzed(json.RawMessage(doc), "")
	if err != nil {
		t.Fatalf("cannot load: %v", err)
	}
	res, _ := validate.NewSpecValidator(d.Schema(), strfmt.Default).Validate(d)
	for _, e := range res.Errors {
		errs = append(errs, e.Error())
	}
	for _, w := range res.Warnings {
		if strings.Contains(w.Error(), "is not used anywhere") {
			continue
		}
		warns = append(warns, w.Error())
	}
	return errs, warns
}

func c09f1Doc(defs, params, responses string) string {
	if defs == "" {
		defs = "{}"
	}
	if params == "" {
		params = "[]"
	}
	if responses == "" {
		responses = `{"200":{"description":"ok"}}`
	}
	return fmt.Sprintf(`{"swagger":"2.0","info":{"title":"t","version":"1"},`+
		`"paths":{"/p":{"get":{"operationId":"op","parameters":%s,"responses":%s}}},"definitions":%s}`, params, responses, defs)
}

func TestC09F1_SuffixHeuristicSkipsSchemas(t *testing.T) {
	// every document below carries exactly one default (or example) that its own schema rejects:
	// "bad" for {type: integer}
	for _, tc := range []struct {
		name, defs, params, responses string
		example                       bool
	}{
		// control: reported
		{name: "control", defs: `{"x":{"type":"object","properties":{"p":{"type":"integer","default":"bad"}}}}`},
		// array of arrays: path definitions.x.items.default.items.default
		{name: "array of arrays (definition)", defs: `{"x":{"type":"array","items":{"type":"array","items":{"type":"integer","default":"bad"}}}}`},
		{name: "array of arrays (response)", responses: `{"200":{"description":"ok","schema":{"type":"array","items":{"type":"array","items":{"type":"integer","default":"bad"}}}}}`},
		{name: "array of arrays (body parameter)", params: `[{"name":"b","in":"body","schema":{"type":"array","items":{"type":"array","items":{"type":"integer","default":"bad"}}}}]`},
		// map of maps: path definitions.x.additionalProperties.additionalProperties
		{name: "map of maps", defs: `{"x":{"type":"object","additionalProperties":{"type":"object","additionalProperties":{"type":"integer","default":"bad"}}}}`},
		// allOf in allOf: path definitions.x.allOf[0].allOf[0]
		{name: "allOf[0] of allOf[0]", defs: `{"x":{"allOf":[{"allOf":[{"type":"integer","default":"bad"}]}]}}`},
		// tuple in tuple
		{name: "items[0] of items[0]", defs: `{"x":{"type":"array","items":[{"type":"array","items":[{"type":"integer","default":"bad"}]}]}}`},
		// property named like its definition
		{name: "property a of definition a", defs: `{"a":{"type":"object","properties":{"a":{"type":"integer","default":"bad"}}}}`},
		// property whose name is a mere suffix of the definition name
		{name: "property s of definition things", defs: `{"things":{"type":"object","properties":{"s":{"type":"integer","default":"bad"}}}}`},
		// property named like its parent property
		{name: "property node.node", defs: `{"x":{"type":"object","properties":{"node":{"type":"object","properties":{"node":{"type":"integer","default":"bad"}}}}}}`},
		{name: "property a.b.a.b", defs: `{"x":{"type":"object","properties":{"a":{"type":"object","properties":{"b":{"type":"object","properties":{"a":{"type":"object","properties":{"b":{"type":"integer","default":"bad"}}}}}}}}}}`},
		// property "default" of the items of an array: path definitions.x.items.default.default
		{name: "property default of array items", defs: `{"x":{"type":"array","items":{"type":"object","properties":{"default":{"type":"integer","default":"bad"}}}}}`},
		// the root schema itself, skipped because of its name
		{name: "definition named d.d", defs: `{"d.d":{"type":"integer","default":"bad"}}`},
		{name: "definition named definitions", defs: `{"definitions":{"type":"integer","default":"bad"}}`},
		{name: "body parameter named q.q", params: `[{"name":"q.q","in":"body","schema":{"type":"integer","default":"bad"}}]`},
		{name: "body parameter body, property body", params: `[{"name":"body","in":"body","schema":{"type":"object","properties":{"body":{"type":"integer","default":"bad"}}}}]`},
		{name: "response 200, property 0", responses: `{"200":{"description":"ok","schema":{"type":"object","properties":{"0":{"type":"integer","default":"bad"}}}}}`},
		{name: "default response, property default", responses: `{"default":{"description":"ok","schema":{"type":"object","properties":{"default":{"type":"integer","default":"bad"}}}}}`},
		// same thing for examples
		{name: "example: control", example: true, defs: `{"x":{"type":"object","properties":{"p":{"type":"integer","example":"bad"}}}}`},
		{name: "example: array of arrays", example: true, defs: `{"x":{"type":"array","items":{"type":"array","items":{"type":"integer","example":"bad"}}}}`},
		{name: "example: property a of definition a", example: true, defs: `{"a":{"type":"object","properties":{"a":{"type":"integer","example":"bad"}}}}`},
		{name: "example: definition named a.a", example: true, defs: `{"a.a":{"type":"integer","example":"bad"}}`},
	} {
		tc := tc
		t.Run(tc.name, func(t *testing.T) {
			errs, warns := c09f1Validate(t, c09f1Doc(tc.defs, tc.params, tc.responses))
			if tc.example {
				if len(errs) != 0 {
					t.Errorf("unexpected errors: %q", errs)
				}
				if len(warns) == 0 {
					t.Errorf("the example \"bad\" is rejected by its schema {type: integer}: expected a warning, got none")
				}
				return
			}
			if len(errs) == 0 {
				t.Errorf("the default \"bad\" is rejected by its schema {type: integer}: expected an error, got none")
			}
		})
	}
}
