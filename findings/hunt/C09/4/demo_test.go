package validate_test

import (
	"encoding/json"
	"fmt"
	"strings"
	"testing"

	"github.com/go-openapi/loads"
	"github.com/go-openapi/strfmt"
	"github.com/go-openapi/validate"
)

// C09 finding 4: a null element inside the default array of a simple parameter, of a header, or of their items,
// is not judged at all, while the equivalent schema rejects it.

func c09f4Validate(t *testing.T, doc string) (errs, warns []string) {
	t.Helper()
	d, err := loads.Analyzed(json.RawMessage(doc), "")
	if err != nil {
		t.Fatalf("cannot load: %v", err)
	}
	res, _ := validate.NewSpecValidator(d.Schema(), strfmt.Default).Validate(d)
	for _, e := range res.Errors {
		errs = append(errs, e.Error())
	}
	for _, w := range res.Warnings {
		if strings.Contains(w.Error(), "is not used anywhere") {
			continue
		}
		warns = append(warns, w.Error())
	}
	return errs, warns
}

func c09f4Doc(defs, params, responses string) string {
	if defs == "" {
		defs = "{}"
	}
	if params == "" {
		params = "[]"
	}
	if responses == "" {
		responses = `{"200":{"description":"ok"}}`
	}
	return fmt.Sprintf(`{"swagger":"2.0","info":{"title":"t","version":"1"},`+
		`"paths":{"/p":{"get":{"operationId":"op","parameters":%s,"responses":%s}}},"definitions":%s}`, params, responses, defs)
}

func TestC09F4_NullElementsInSimpleDefaults(t *testing.T) {
	q := func(s string) string { return `[{"name":"q","in":"query",` + s + `}]` }
	h := func(s string) string { return `{"200":{"description":"ok","headers":{"X-H":{` + s + `}}}}` }

	for _, tc := range []struct {
		name, defs, params, responses string
		wantErr                       bool
	}{
		// how a schema judges the value
		{name: "control: schema array of strings, default [null]", defs: `{"x":{"type":"array","items":{"type":"string"},"default":[null]}}`, wantErr: true},
		{name: "control: parameter, default [1]", params: q(`"type":"array","items":{"type":"string"},"default":[1]`), wantErr: true},
		{name: "control: parameter, default [\"a\"]", params: q(`"type":"array","items":{"type":"string"},"default":["a"]`)},
		// same declaration as a simple parameter / header / items
		{name: "parameter array of strings, default [null]", params: q(`"type":"array","items":{"type":"string"},"default":[null]`), wantErr: true},
		{name: "parameter array of enum strings, default [null]", params: q(`"type":"array","items":{"type":"string","enum":["a"]},"default":[null]`), wantErr: true},
		{name: "parameter array of arrays, default [null]", params: q(`"type":"array","items":{"type":"array","items":{"type":"string"}},"default":[null]`), wantErr: true},
		{name: "parameter array of arrays, default [[null]]", params: q(`"type":"array","items":{"type":"array","items":{"type":"string"}},"default":[[null]]`), wantErr: true},
		{name: "parameter items default [null]", params: q(`"type":"array","items":{"type":"array","items":{"type":"string"},"default":[null]}`), wantErr: true},
		{name: "header array of strings, default [null]", responses: h(`"type":"array","items":{"type":"string"},"default":[null]`), wantErr: true},
	} {
		tc := tc
		t.Run(tc.name, func(t *testing.T) {
			errs, _ := c09f4Validate(t, c09f4Doc(tc.defs, tc.params, tc.responses))
			if tc.wantErr && len(errs) == 0 {
				t.Errorf("null is not a string (nor an array): the default is rejected by its declaration, expected an error, got none")
			}
			if !tc.wantErr && len(errs) != 0 {
				t.Errorf("unexpected errors: %q", errs)
			}
		})
	}
}
