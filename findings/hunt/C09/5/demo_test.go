package validate_test

import (
	"encoding/json"
	"fmt"
	"strings"
	"testing"

	"github.com/go-openapi/loads"
	"github.com/go-openapi/strfmt"
	"github.com/go-openapi/validate"
)

// C09 finding 5: defaults and examples are only looked for in what operations reach. The shared "parameters" and
// "responses" sections of the document are legal places for defaults/examples too, and so are the parameters of a
// path item: when no operation references them, their values are never judged.

func c09f5Validate(t *testing.T, doc string) (errs, warns []string) {
	t.Helper()
	d, err := loads.Analyzed(json.RawMessage(doc), "")
	if err != nil {
		t.Fatalf("cannot load: %v", err)
	}
	res, _ := validate.NewSpecValidator(d.Schema(), strfmt.Default).Validate(d)
	for _, e := range res.Errors {
		errs = append(errs, e.Error())
	}
	for _, w := range res.Warnings {
		if strings.Contains(w.Error(), "is not used anywhere") {
			continue
		}
		warns = append(warns, w.Error())
	}
	return errs, warns
}

const c09f5Head = `{"swagger":"2.0","info":{"title":"t","version":"1"},`

func c09f5Doc(defs, params, responses string) string {
	if defs == "" {
		defs = "{}"
	}
	if params == "" {
		params = "[]"
	}
	if responses == "" {
		responses = `{"200":{"description":"ok"}}`
	}
	return fmt.Sprintf(`{"swagger":"2.0","info":{"title":"t","version":"1"},`+
		`"paths":{"/p":{"get":{"operationId":"op","parameters":%s,"responses":%s}}},"definitions":%s}`, params, responses, defs)
}

func TestC09F5_UnreferencedSharedParametersAndResponses(t *testing.T) {
	const op = `"paths":{"/p":{"get":{"operationId":"op","responses":{"200":{"description":"ok"}}}}}`
	for _, tc := range []struct {
		name, doc string
		example   bool
	}{
		// controls: same objects, referenced by an operation
		{name: "control: referenced shared parameter", doc: c09f5Head + `"parameters":{"q":{"name":"q","in":"query","type":"integer","default":"bad"}},"paths":{"/p":{"get":{"operationId":"op","parameters":[{"$ref":"#/parameters/q"}],"responses":{"200":{"description":"ok"}}}}}}`},
		{name: "control: referenced shared response", doc: c09f5Head + `"responses":{"r":{"description":"d","schema":{"type":"integer","default":"bad"}}},"paths":{"/p":{"get":{"operationId":"op","responses":{"200":{"$ref":"#/responses/r"}}}}}}`},
		{name: "control: path item parameter with an operation", doc: c09f5Head + `"paths":{"/p":{"parameters":[{"name":"q","in":"query","type":"integer","default":"bad"}],"get":{"operationId":"op","responses":{"200":{"description":"ok"}}}}}}`},
		// not referenced
		{name: "shared simple parameter", doc: c09f5Head + `"parameters":{"q":{"name":"q","in":"query","type":"integer","default":"bad"}},` + op + `}`},
		{name: "shared simple parameter items", doc: c09f5Head + `"parameters":{"q":{"name":"q","in":"query","type":"array","items":{"type":"integer","default":"bad"}}},` + op + `}`},
		{name: "shared body parameter schema", doc: c09f5Head + `"parameters":{"b":{"name":"b","in":"body","schema":{"type":"object","properties":{"k":{"type":"integer","default":"bad"}}}}},` + op + `}`},
		{name: "shared response schema", doc: c09f5Head + `"responses":{"r":{"description":"d","schema":{"type":"integer","default":"bad"}}},` + op + `}`},
		{name: "shared response header", doc: c09f5Head + `"responses":{"r":{"description":"d","headers":{"X-H":{"type":"integer","default":"bad"}}}},` + op + `}`},
		{name: "path item parameter, path item without operation", doc: c09f5Head + `"paths":{"/p":{"parameters":[{"name":"q","in":"query","type":"integer","default":"bad"}]}}}`},
		{name: "example: shared response schema", example: true, doc: c09f5Head + `"responses":{"r":{"description":"d","schema":{"type":"integer","example":"bad"}}},` + op + `}`},
		{name: "example: shared response examples", example: true, doc: c09f5Head + `"responses":{"r":{"description":"d","schema":{"type":"integer"},"examples":{"application/json":"bad"}}},` + op + `}`},
	} {
		tc := tc
		t.Run(tc.name, func(t *testing.T) {
			errs, warns := c09f5Validate(t, tc.doc)
			if tc.example {
				// c09f5Validate drops the "... is not used anywhere" warnings
				if len(warns) == 0 {
					t.Errorf("the example \"bad\" is rejected by its schema {type: integer}: expected a warning, got none")
				}
				return
			}
			if len(errs) == 0 {
				t.Errorf("the default \"bad\" is rejected by its declaration {type: integer}: expected an error, got none")
			}
		})
	}
}
