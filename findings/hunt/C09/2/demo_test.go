package validate_test

import (
	"encoding/json"
	"fmt"
	"strings"
	"testing"

	"github.com/go-openapi/loads"
	"github.com/go-openapi/strfmt"
	"github.com/go-openapi/validate"
)

// C09 finding 2: the default/example walkers key their "visited" set by a dotted path string built from keyword-derived
// segments ("additionalProperties", "allOf[0]", "items.default", ...) and raw property names: two different schemas may
// spell the same path, and the second one is skipped.

func c09f2Validate(t *testing.T, doc string) (errs, warns []string) {
	t.Helper()
	d, err := loads.Analyzed(json.RawMessage(doc), "")
	if err != nil {
		t.Fatalf("cannot load: %v", err)
	}
	res, _ := validate.NewSpecValidator(d.Schema(), strfmt.Default).Validate(d)
	for _, e := range res.Errors {
		errs = append(errs, e.Error())
	}
	for _, w := range res.Warnings {
		if strings.Contains(w.Error(), "is not used anywhere") {
			continue
		}
		warns = append(warns, w.Error())
	}
	return errs, warns
}

func c09f2Doc(defs, params, responses string) string {
	if defs == "" {
		defs = "{}"
	}
	if params == "" {
		params = "[]"
	}
	if responses == "" {
		responses = `{"200":{"description":"ok"}}`
	}
	return fmt.Sprintf(`{"swagger":"2.0","info":{"title":"t","version":"1"},`+
		`"paths":{"/p":{"get":{"operationId":"op","parameters":%s,"responses":%s}}},"definitions":%s}`, params, responses, defs)
}

func TestC09F2_PathCollisionsSkipSchemas(t *testing.T) {
	// every document below carries exactly one default (or example) that its own schema rejects: "bad" for {type: integer}
	for _, tc := range []struct {
		name, defs string
		example    bool
		repeat     int
	}{
		// control: reported
		{name: "control", defs: `{"x":{"type":"object","properties":{"other":{"type":"string"}},"additionalProperties":{"type":"integer","default":"bad"}}}`},
		// a property named additionalProperties is walked first and takes the path of the additionalProperties schema
		{name: "property additionalProperties hides additionalProperties", defs: `{"x":{"type":"object","properties":{"additionalProperties":{"type":"string"}},"additionalProperties":{"type":"integer","default":"bad"}}}`},
		// a property named allOf[0] takes the path of the first allOf member
		{name: "property allOf[0] hides allOf member", defs: `{"x":{"properties":{"allOf[0]":{"type":"string"}},"allOf":[{"type":"integer","default":"bad"}]}}`},
		// items is walked before properties: the items schema takes the path of a property named items.default
		{name: "control for the next one", defs: `{"x":{"type":"array","properties":{"other":{"type":"integer","default":"bad"}},"items":{"type":"string"}}}`},
		{name: "items hides property items.default", defs: `{"x":{"type":"array","properties":{"items.default":{"type":"integer","default":"bad"}},"items":{"type":"string"}}}`},
		{name: "example: property additionalProperties hides additionalProperties", example: true, defs: `{"x":{"type":"object","properties":{"additionalProperties":{"type":"string"}},"additionalProperties":{"type":"integer","example":"bad"}}}`},
		// property "a.b" and property b of property a: whichever comes first in map order hides the other (not deterministic: repeated)
		{name: "property a.b vs a>b (bad default in a.b)", repeat: 20, defs: `{"x":{"type":"object","properties":{"a.b":{"type":"integer","default":"bad"},"a":{"type":"object","properties":{"b":{"type":"string"}}}}}}`},
		{name: "property a.b vs a>b (bad default in a>b)", repeat: 20, defs: `{"x":{"type":"object","properties":{"a.b":{"type":"string"},"a":{"type":"object","properties":{"b":{"type":"integer","default":"bad"}}}}}}`},
	} {
		tc := tc
		t.Run(tc.name, func(t *testing.T) {
			n := tc.repeat
			if n == 0 {
				n = 1
			}
			for i := 0; i < n; i++ {
				errs, warns := c09f2Validate(t, c09f2Doc(tc.defs, "", ""))
				if tc.example {
					if len(errs) != 0 {
						t.Errorf("unexpected errors: %q", errs)
					}
					if len(warns) == 0 {
						t.Errorf("the example \"bad\" is rejected by its schema {type: integer}: expected a warning, got none")
					}
					continue
				}
				if len(errs) == 0 {
					t.Errorf("run %d: the default \"bad\" is rejected by its schema {type: integer}: expected an error, got none", i)
				}
			}
		})
	}
}
