package validate_test

import (
	"encoding/json"
	"fmt"
	"sort"
	"testing"

	"github.com/go-openapi/spec"
	"github.com/go-openapi/strfmt"
	"github.com/go-openapi/validate"
)

// C08 finding 1: a long-lived (non recycled) schema validator whose schema contains a
// root self-reference {"$ref":"#"} below items / additionalProperties / additionalItems /
// dependencies / a composition under items, changes its verdict between identical calls.

func c08f1Schema(t *testing.T, js string) *spec.Schema {
	t.Helper()
	s := new(spec.Schema)
	if err := json.Unmarshal([]byte(js), s); err != nil {
		t.Fatal(err)
	}
	return s
}

func c08f1Value(t *testing.T, js string) interface{} {
	t.Helper()
	var v interface{}
	if err := json.Unmarshal([]byte(js), &v); err != nil {
		t.Fatal(err)
	}
	return v
}

func c08f1Outcome(r *validate.Result) string {
	msgs := make([]string, 0, len(r.Errors))
	for _, e := range r.Errors {
		msgs = append(msgs, e.Error())
	}
	sort.Strings(msgs)
	return fmt.Sprintf("valid=%t errors=%q", r.IsValid(), msgs)
}

func TestC08RootRefReuse(t *testing.T) {
	cases := []struct{ name, schema, value string }{
		{
			"items",
			`{"type":"object","properties":{"v":{"type":"integer"},"children":{"type":"array","items":{"$ref":"#"}}}}`,
			`{"children":[{"v":"not an integer"}]}`,
		},
		{
			"additionalProperties",
			`{"type":"object","properties":{"v":{"type":"integer"}},"additionalProperties":{"$ref":"#"}}`,
			`{"child":{"v":"not an integer"}}`,
		},
		{
			"additionalItems",
			`{"type":["object","array"],"properties":{"v":{"type":"integer"}},"items":[{}],"additionalItems":{"$ref":"#"}}`,
			`[1,{"v":"not an integer"}]`,
		},
		{
			"dependencies",
			`{"properties":{"v":{"type":"integer"},"k":{"dependencies":{"v":{"$ref":"#"}}}}}`,
			`{"k":{"v":"not an integer"}}`,
		},
		{
			"not-under-items (verdict flips from invalid to valid)",
			`{"type":["object","array"],"properties":{"v":{"type":"integer"}},"items":{"not":{"$ref":"#"}}}`,
			`[{"v":"not an integer"}]`,
		},
	}

	for _, tc := range cases {
		t.Run(tc.name, func(t *testing.T) {
			fresh := func() *validate.SchemaValidator {
				return validate.NewSchemaValidator(c08f1Schema(t, tc.schema), nil, "", strfmt.Default)
			}
			longLived := fresh()

			for call := 1; call <= 3; call++ {
				want := c08f1Outcome(fresh().Validate(c08f1Value(t, tc.value)))
				got := c08f1Outcome(longLived.Validate(c08f1Value(t, tc.value)))
				if got != want {
					t.Errorf("call #%d on the long-lived validator differs from a freshly built validator on the same value %s\n  fresh     : %s\n  long-lived: %s",
						call, tc.value, want, got)
				}
			}
		})
	}
}

// The same with a realistic schema: the JSON-schema draft 4 meta-schema, less its "id".
func TestC08RootRefReuseMetaSchema(t *testing.T) {
	raw, err := json.Marshal(spec.MustLoadJSONSchemaDraft04())
	if err != nil {
		t.Fatal(err)
	}
	var asMap map[string]interface{}
	if err = json.Unmarshal(raw, &asMap); err != nil {
		t.Fatal(err)
	}
	delete(asMap, "id")
	delete(asMap, "$schema")
	raw, _ = json.Marshal(asMap)

	v := validate.NewSchemaValidator(c08f1Schema(t, string(raw)), nil, "", strfmt.Default)
	const doc = `{"additionalProperties":{"additionalProperties":{"not":{"type":"no-such-type"}}}}`

	first := c08f1Outcome(v.Validate(c08f1Value(t, doc)))
	for call := 2; call <= 4; call++ {
		again := c08f1Outcome(v.Validate(c08f1Value(t, doc)))
		if again != first {
			t.Fatalf("call #%d returns a different outcome than call #1 for the same document\n  #1: %s\n  #%d: %s", call, first, call, again)
		}
	}
}
