package validate_test

import (
	"encoding/json"
	"sync"
	"testing"

	"github.com/go-openapi/spec"
	"github.com/go-openapi/strfmt"
	"github.com/go-openapi/validate"
)

// C08 finding 3 (schedule): a long-lived validator writes to the schema it holds while validating,
// so using it from several goroutines is a data race (go test -race), and even a hard
// "fatal error: concurrent map read and map write" crash without the race detector.
//
//   go test -race -run TestC08ConcurrentReuseItemsRef -count=1 .     -> DATA RACE reported
//   go test       -run TestC08ConcurrentReuseNestedID -count=1 .     -> process dies with "fatal error: concurrent map ..."
//   go test -race -run TestC08ConcurrentReuseNestedID -count=1 .     -> DATA RACE reported

func c08f3Schema(t *testing.T, js string) *spec.Schema {
	t.Helper()
	s := new(spec.Schema)
	if err := json.Unmarshal([]byte(js), s); err != nil {
		t.Fatal(err)
	}
	return s
}

func c08f3Hammer(t *testing.T, schema, value string, validators, goroutines, calls int) {
	t.Helper()
	for n := 0; n < validators; n++ {
		v := validate.NewSchemaValidator(c08f3Schema(t, schema), nil, "", strfmt.Default)
		start := make(chan struct{})
		var wg sync.WaitGroup
		for g := 0; g < goroutines; g++ {
			wg.Add(1)
			go func() {
				defer wg.Done()
				<-start
				for i := 0; i < calls; i++ {
					var data interface{}
					_ = json.Unmarshal([]byte(value), &data) // every goroutine owns its data
					_ = v.Validate(data)
				}
			}()
		}
		close(start)
		wg.Wait()
	}
}

// a plain local $ref below "items": expanded in place by the first calls
func TestC08ConcurrentReuseItemsRef(t *testing.T) {
	c08f3Hammer(t,
		`{"type":"array","items":{"$ref":"#/definitions/x"},
		  "definitions":{"x":{"type":"object","required":["a"],"properties":{"a":{"type":"string"}}}}}`,
		`[{"a":"1"},{"a":2},{}]`,
		50, 8, 5,
	)
}

// no $ref at all, only a nested "id": spec.ExpandSchema is re-run at every call and re-assigns
// the entries of the shared Properties map
func TestC08ConcurrentReuseNestedID(t *testing.T) {
	c08f3Hammer(t,
		`{"type":"object","properties":{"a":{"id":"http://example.com/a","type":"object",
		  "properties":{"b":{"type":"integer"},"c":{"type":"string"}}}}}`,
		`{"a":{"b":1,"c":"x"}}`,
		1, 8, 500,
	)
}
