package validate_test

import (
	"encoding/json"
	"fmt"
	"sort"
	"testing"

	"github.com/go-openapi/spec"
	"github.com/go-openapi/strfmt"
	"github.com/go-openapi/validate"
)

// C08 finding 2: validating an array rewrites (expands in place) the "items" schema held by the
// long-lived validator. A "$ref" whose JSON pointer goes through that location is resolved
// differently before and after: the outcome for a value depends on which values were validated before.

func c08f2Schema(t *testing.T, js string) *spec.Schema {
	t.Helper()
	s := new(spec.Schema)
	if err := json.Unmarshal([]byte(js), s); err != nil {
		t.Fatal(err)
	}
	return s
}

func c08f2Value(t *testing.T, js string) interface{} {
	t.Helper()
	var v interface{}
	if err := json.Unmarshal([]byte(js), &v); err != nil {
		t.Fatal(err)
	}
	return v
}

func c08f2Outcome(v *validate.SchemaValidator, data interface{}) (out string) {
	defer func() {
		if e := recover(); e != nil {
			out = fmt.Sprintf("panic: %v", e)
		}
	}()
	r := v.Validate(data)
	msgs := make([]string, 0, len(r.Errors))
	for _, e := range r.Errors {
		msgs = append(msgs, e.Error())
	}
	sort.Strings(msgs)
	return fmt.Sprintf("valid=%t errors=%q", r.IsValid(), msgs)
}

func TestC08PointerThroughExpandedItems(t *testing.T) {
	cases := []struct{ name, schema string }{
		{
			// "b" points to the sibling of a $ref ({"type":"string"}) until "a.items" is expanded in place,
			// then to the property of the $ref'ed definition ({"type":"integer"})
			"pointer resolves both before and after, to different schemas",
			`{"type":"object",
			  "properties":{
			    "a":{"type":"array","items":{"$ref":"#/definitions/x","properties":{"q":{"type":"string"}}}},
			    "b":{"$ref":"#/properties/a/items/properties/q"}},
			  "definitions":{"x":{"type":"object","properties":{"q":{"type":"integer"}}}}}`,
		},
		{
			// "b" cannot be resolved (panic) until "a.items" is expanded in place, then it can
			"pointer resolves only after",
			`{"type":"object",
			  "properties":{
			    "a":{"type":"array","items":{"$ref":"#/definitions/x"}},
			    "b":{"$ref":"#/properties/a/items/properties/q"}},
			  "definitions":{"x":{"type":"object","properties":{"q":{"type":"integer"}}}}}`,
		},
	}

	for _, tc := range cases {
		t.Run(tc.name, func(t *testing.T) {
			fresh := func() *validate.SchemaValidator {
				return validate.NewSchemaValidator(c08f2Schema(t, tc.schema), nil, "", strfmt.Default)
			}
			longLived := fresh()

			history := []string{`{"b":"s"}`, `{"a":[{}]}`, `{"b":"s"}`}
			var first string
			for i, js := range history {
				want := c08f2Outcome(fresh(), c08f2Value(t, js))
				got := c08f2Outcome(longLived, c08f2Value(t, js))
				if got != want {
					t.Errorf("call #%d %s: long-lived validator differs from a freshly built one\n  fresh     : %s\n  long-lived: %s", i+1, js, want, got)
				}
				if i == 0 {
					first = got
				}
				if i == 2 && got != first {
					t.Errorf("call #3 repeats call #1 (%s) but returns another outcome\n  #1: %s\n  #3: %s", js, first, got)
				}
			}
		})
	}
}
