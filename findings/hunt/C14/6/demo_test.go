package validate

import (
	"encoding/json"
	"testing"
)

// C14 finding 6: the "numerically equal numbers of different Go types" rule of Enum only works for a top-level
// scalar: it is not deep, and it does not cover json.Number.
func TestC14_6_EnumNumericEqualityIsNotDeep(t *testing.T) {
	// control: top-level works
	if err := Enum("p", "body", int64(1), []interface{}{float64(1)}); err != nil {
		t.Fatalf("control: %v", err)
	}
	if err := Enum("p", "body", []interface{}{int64(1)}, []interface{}{[]interface{}{float64(1)}}); err != nil {
		t.Errorf("[int64 1] vs [[float64 1]]: %v", err)
	}
	if err := Enum("p", "body", map[string]interface{}{"a": int64(1)}, []interface{}{map[string]interface{}{"a": float64(1)}}); err != nil {
		t.Errorf("{a:int64 1} vs [{a:float64 1}]: %v", err)
	}
	if err := Enum("p", "body", []int{1}, []interface{}{[]interface{}{1}}); err != nil {
		t.Errorf("[]int{1} vs [[]interface{}{1}]: %v", err)
	}
	if err := Enum("p", "body", json.Number("1"), []interface{}{float64(1)}); err != nil {
		t.Errorf("json.Number(1) vs [float64 1]: %v", err)
	}
	if err := Enum("p", "body", float64(1), []interface{}{json.Number("1")}); err != nil {
		t.Errorf("float64 1 vs [json.Number(1)]: %v", err)
	}
}
