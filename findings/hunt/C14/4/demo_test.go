package validate

import "testing"

// C14 finding 4: UniqueItems does not treat numerically equal numbers of different Go types as equal.
func TestC14_4_UniqueItemsMissesNumericallyEqualItems(t *testing.T) {
	cases := map[string]interface{}{
		"int64(1), float64(1)":    []interface{}{int64(1), float64(1)},
		"int(1), int64(1)":        []interface{}{1, int64(1)},
		"uint8(2), float32(2)":    []interface{}{"x", uint8(2), float32(2)},
		"nested [1] and [1.0]":    []interface{}{[]interface{}{1}, []interface{}{1.0}},
		"nested {a:1} and {a:1.}": []interface{}{map[string]interface{}{"a": int64(1)}, map[string]interface{}{"a": float64(1)}},
	}
	for name, data := range cases {
		if err := UniqueItems("p", "body", data); err == nil {
			t.Errorf("%s: UniqueItems returned nil, duplicates not reported", name)
		}
	}
	// control: the asymmetry with Enum, which does accept the same pair as equal
	if err := Enum("p", "body", int64(1), []interface{}{float64(1)}); err != nil {
		t.Errorf("control: Enum(int64 1, [float64 1]) = %v", err)
	}
}
