package validate

import "testing"

// C14 finding 3: a nil value is never a member of an enum, even when the enum lists nil (JSON null).
func TestC14_3_EnumRejectsNilThatIsListed(t *testing.T) {
	if err := Enum("p", "body", nil, []interface{}{nil}); err != nil {
		t.Errorf("Enum(nil, [nil]) = %v, want nil (nil deep-equals nil)", err)
	}
	if err := Enum("p", "body", nil, []interface{}{"a", nil, 1}); err != nil {
		t.Errorf("Enum(nil, [a nil 1]) = %v, want nil", err)
	}
	if err := EnumCase("p", "body", nil, []interface{}{nil}, false); err != nil {
		t.Errorf("EnumCase(nil, [nil], insensitive) = %v, want nil", err)
	}
	// control: nil is rejected when it is not listed
	if err := Enum("p", "body", nil, []interface{}{"a"}); err == nil {
		t.Errorf("control: Enum(nil, [a]) must fail")
	}
}
