package validate

import "testing"

// C14 finding 2: Enum panics (instead of returning an error) when data is a slice and an enum
// member is an array (or pointer to array) longer than the slice.
func TestC14_2_EnumPanicsOnSliceVersusArrayMember(t *testing.T) {
	for name, enum := range map[string]interface{}{
		"array member":            []interface{}{[2]int{1, 2}},
		"pointer-to-array member": []interface{}{&[2]int{1, 2}},
		"typed enum of arrays":    [][2]int{{1, 2}},
	} {
		func() {
			defer func() {
				if r := recover(); r != nil {
					t.Errorf("%s: Enum panicked: %v", name, r)
				}
			}()
			if err := Enum("p", "body", []int{1}, enum); err == nil {
				t.Errorf("%s: []int{1} is not a member, expected an error", name)
			}
		}()
	}
}
