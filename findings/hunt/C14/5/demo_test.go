package validate

import "testing"

type c14Stringer string

func (c14Stringer) String() string { return "constant" }

// C14 finding 5: EnumCase(caseSensitive=false) accepts strings that differ by more than case.
func TestC14_5_EnumCaseInsensitiveAcceptsDifferentStrings(t *testing.T) {
	// (a) distinct invalid UTF-8 strings: strings.EqualFold decodes every bad byte as U+FFFD
	if err := EnumCase("p", "body", "\xff", []string{"\xfe"}, false); err == nil {
		t.Errorf(`EnumCase("\xff", ["\xfe"], insensitive) returned nil`)
	}
	if err := EnumCase("p", "body", "id-\xc3", []string{"ID-\xe9"}, false); err == nil {
		t.Errorf(`EnumCase("id-\xc3", ["ID-\xe9"], insensitive) returned nil`)
	}
	if err := EnumCase("p", "body", "a\xff", []string{"A�"}, false); err == nil {
		t.Errorf(`EnumCase("a\xff", ["A�"], insensitive) returned nil`)
	}
	// (b) string kinds implementing fmt.Stringer: fmt.Sprintf("%v") is compared, not the string value
	if err := EnumCase("p", "body", c14Stringer("a"), []c14Stringer{"b"}, false); err == nil {
		t.Errorf(`EnumCase(c14Stringer("a"), [c14Stringer("b")], insensitive) returned nil`)
	}
	// controls: the case-sensitive variant gets all of them right
	if err := Enum("p", "body", "\xff", []string{"\xfe"}); err == nil {
		t.Errorf("control a")
	}
	if err := Enum("p", "body", c14Stringer("a"), []c14Stringer{"b"}); err == nil {
		t.Errorf("control b")
	}
}
