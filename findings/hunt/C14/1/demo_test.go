package validate

import (
	"encoding/json"
	"math"
	"testing"
)

// C14 finding 1: Enum's "conversion fallback" uses reflect.Value.Convert, which is lossy
// (float->int truncation, integer wrap-around, float64->float32 rounding, int64->float64 rounding)
// and is not even numeric (int -> string yields the rune, string -> []byte, struct -> struct ignoring tags).
// Values that are NOT members of the enum are accepted.
func TestC14_1_EnumAcceptsNonMembersThroughLossyConversion(t *testing.T) {
	type tagged struct {
		A int `json:"a"`
	}
	cases := []struct {
		name string
		data interface{}
		enum interface{}
	}{
		{"1.5 is not in [int64 1]", 1.5, []interface{}{int64(1)}},
		{"97 is not in [\"a\"]", 97, []string{"a"}},
		{"49 is not in [json.Number 1]", 49, []interface{}{json.Number("1")}},
		{"256 is not in [uint8 0]", 256, []uint8{0}},
		{"-1 is not in [MaxUint64]", -1, []uint64{math.MaxUint64}},
		{"2^53+1 is not in [float64 2^53]", int64(1<<53 + 1), []float64{1 << 53}},
		{"float64(0.1) is not in [float32(0.1)]", float64(0.1), []float32{0.1}},
		{"string abc is not in [[]byte abc]", "abc", []interface{}{[]byte("abc")}},
		{"[]int{1,2} is not in [[2]int{1,2}]", []int{1, 2}, []interface{}{[2]int{1, 2}}},
		{"struct of another type", struct{ A int }{1}, []interface{}{tagged{1}}},
	}
	for _, c := range cases {
		if err := Enum("p", "body", c.data, c.enum); err == nil {
			t.Errorf("%s: Enum returned nil (value accepted as a member)", c.name)
		}
		if err := EnumCase("p", "body", c.data, c.enum, false); err == nil {
			t.Errorf("%s: EnumCase(insensitive) returned nil (value accepted as a member)", c.name)
		}
	}
}
