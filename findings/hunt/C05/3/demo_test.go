package validate

// Run with:  go test -run 'TestC05_EmptyResult' -count=1 .       (deterministic)
//            go test -race -run 'TestC05_EmptyResult' -count=1 . (also reports the data race)

import (
	"encoding/json"
	"fmt"
	"sync"
	"testing"

	"github.com/go-openapi/spec"
	"github.com/go-openapi/strfmt"
)

// A validator built on a nil schema is nil, and (*SchemaValidator)(nil).Validate is explicitly
// supported: it returns "an empty result". That result is the process-wide emptyResult, which the
// type validator also hands to every other validation.
func TestC05_EmptyResult_Pollution(t *testing.T) {
	defer func() { emptyResult.Errors, emptyResult.Warnings, emptyResult.MatchCount = nil, nil, 1 }()

	sch := new(spec.Schema)
	if err := json.Unmarshal([]byte(`{"type":"integer"}`), sch); err != nil {
		t.Fatal(err)
	}

	// B, run alone
	if err := AgainstSchema(sch, int64(1), strfmt.Default); err != nil {
		t.Fatalf("alone: %v", err)
	}

	// A: validates something against "no schema" and annotates ITS OWN result
	ra := NewSchemaValidator(nil, nil, "", strfmt.Default).Validate("anything")
	ra.AddErrors(fmt.Errorf("a remark private to A"))

	// B again, same call, same input
	if err := AgainstSchema(sch, int64(1), strfmt.Default); err != nil {
		t.Errorf("one-shot validation no longer returns what it returns alone: %v", err)
	}
	if rb := NewSchemaValidator(sch, nil, "", strfmt.Default).Validate(int64(1)); !rb.IsValid() {
		t.Errorf("long-lived validator no longer returns what it returns alone: %v", rb.Errors)
	}
}

func TestC05_EmptyResult_Race(t *testing.T) {
	defer func() { emptyResult.Errors, emptyResult.Warnings, emptyResult.MatchCount = nil, nil, 1 }()

	var wg sync.WaitGroup
	for g := 0; g < 4; g++ {
		wg.Add(1)
		go func(g int) {
			defer wg.Done()
			for i := 0; i < 100; i++ {
				r := NewSchemaValidator(nil, nil, "", strfmt.Default).Validate(g) // per-goroutine instance
				r.Inc()                                                          // each goroutine only touches the result it was given
			}
		}(g)
	}
	wg.Wait()
	if emptyResult.MatchCount != 1 {
		t.Errorf("the results handed to the 4 goroutines were one and the same object (MatchCount=%d)", emptyResult.MatchCount)
	}
}
