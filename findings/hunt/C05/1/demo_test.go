package validate_test

// Run with:  go test -race -run 'TestC05_IDSchema' -count=1 .
// (without -race the first test usually dies with
//  "fatal error: concurrent map read and map write" / "concurrent map writes")

import (
	"encoding/json"
	"sync"
	"testing"

	"github.com/go-openapi/spec"
	"github.com/go-openapi/strfmt"
	"github.com/go-openapi/validate"
)

func c05Schema(t testing.TB, js string) *spec.Schema {
	t.Helper()
	s := new(spec.Schema)
	if err := json.Unmarshal([]byte(js), s); err != nil {
		t.Fatal(err)
	}
	return s
}

func c05Data(t testing.TB, js string) interface{} {
	t.Helper()
	var v interface{}
	if err := json.Unmarshal([]byte(js), &v); err != nil {
		t.Fatal(err)
	}
	return v
}

// One-shot validation of per-goroutine instances against a shared schema that contains
// no $ref at all, only an "id".
func TestC05_IDSchema_AgainstSchema(t *testing.T) {
	sch := c05Schema(t, `{
		"id": "http://example.com/root.json",
		"type": "object",
		"properties": {
			"a": {"type": "integer"}, "b": {"type": "string"}, "c": {"type": "string"},
			"d": {"type": "string"},  "e": {"type": "string"}, "f": {"type": "string"},
			"g": {"type": "string"},  "h": {"type": "string"}, "i": {"type": "string"}
		}
	}`)
	// even a first, serial, validation does not help: the schema is re-"expanded" on every call
	if err := validate.AgainstSchema(sch, c05Data(t, `{"a":1}`), strfmt.Default); err != nil {
		t.Fatal(err)
	}

	var wg sync.WaitGroup
	for g := 0; g < 8; g++ {
		wg.Add(1)
		go func() {
			defer wg.Done()
			for i := 0; i < 500; i++ {
				if err := validate.AgainstSchema(sch, c05Data(t, `{"a":1,"b":"x"}`), strfmt.Default); err != nil {
					t.Errorf("unexpected: %v", err)
					return
				}
			}
		}()
	}
	wg.Wait()
}

// A shared, long-lived, NON recycled validator: the sub-schema under "items" has an "id"
// (no $ref anywhere). The validator writes to the schema it was built from on every Validate.
func TestC05_IDSchema_SharedValidator(t *testing.T) {
	sch := c05Schema(t, `{
		"type": "array",
		"items": {
			"id": "http://example.com/item.json",
			"type": "object",
			"properties": {"a": {"type": "integer"}}
		}
	}`)
	v := validate.NewSchemaValidator(sch, nil, "", strfmt.Default)

	var wg sync.WaitGroup
	for g := 0; g < 8; g++ {
		wg.Add(1)
		go func() {
			defer wg.Done()
			for i := 0; i < 300; i++ {
				res := v.Validate(c05Data(t, `[{"a":1},{"a":"x"}]`))
				if len(res.Errors) != 1 {
					t.Errorf("expected exactly 1 error, got %v", res.Errors)
					return
				}
			}
		}()
	}
	wg.Wait()
}
