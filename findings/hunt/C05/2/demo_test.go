package validate_test

// Run with:  go test -race -run 'TestC05_SharedOptionsSlice' -count=1 .

import (
	"encoding/json"
	"sync"
	"testing"

	"github.com/go-openapi/spec"
	"github.com/go-openapi/strfmt"
	"github.com/go-openapi/validate"
)

// The caller keeps its validation options in one slice (built once, e.g. at init time, with
// some spare capacity) and passes it to every one-shot validation: AgainstSchema(..., opts...).
// Nothing but the library writes to that slice.
func TestC05_SharedOptionsSlice(t *testing.T) {
	sch := new(spec.Schema)
	if err := json.Unmarshal([]byte(`{"type":"object","properties":{"a":{"type":"integer"}}}`), sch); err != nil {
		t.Fatal(err)
	}

	opts := make([]validate.Option, 0, 4)
	opts = append(opts, validate.EnableObjectArrayTypeCheck(false)) // len 1, cap 4

	var wg sync.WaitGroup
	for g := 0; g < 8; g++ {
		wg.Add(1)
		go func() {
			defer wg.Done()
			for i := 0; i < 300; i++ {
				data := map[string]interface{}{"a": int64(i)}
				if err := validate.AgainstSchema(sch, data, strfmt.Default, opts...); err != nil {
					t.Errorf("unexpected: %v", err)
					return
				}
			}
		}()
	}
	wg.Wait()

	// deterministic side of the same defect: the library has scribbled its private options
	// into the caller's backing array
	if spare := opts[:cap(opts)]; spare[1] != nil || spare[2] != nil {
		t.Errorf("AgainstSchema wrote into the caller's options slice beyond its length")
	}
}
