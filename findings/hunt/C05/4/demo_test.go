package validate_test

// Run with:  go test -race -run 'TestC05_SharedSpecValidator' -count=1 .
// (also fails without -race, with high probability: a valid document is reported invalid,
//  or the run panics)

import (
	"path/filepath"
	"sync"
	"testing"

	"github.com/go-openapi/loads"
	"github.com/go-openapi/strfmt"
	"github.com/go-openapi/validate"
)

// One long-lived *SpecValidator shared by goroutines, each validating ITS OWN document.
func TestC05_SharedSpecValidator(t *testing.T) {
	good := filepath.Join("fixtures", "validation", "valid-ref.json")
	bad := filepath.Join("fixtures", "validation", "invalid-ref.json")

	d0, err := loads.Spec(good)
	if err != nil {
		t.Fatal(err)
	}
	sv := validate.NewSpecValidator(d0.Schema(), strfmt.Default)

	// alone (and serially reused), the validator answers correctly
	for i, f := range []string{good, bad, good} {
		d, err := loads.Spec(f)
		if err != nil {
			t.Fatal(err)
		}
		if e, _ := sv.Validate(d); e.IsValid() != (i != 1) {
			t.Fatalf("serial: %s valid=%v", f, e.IsValid())
		}
	}

	var wg sync.WaitGroup
	for g := 0; g < 6; g++ {
		wg.Add(1)
		go func(g int) {
			defer wg.Done()
			defer func() {
				if r := recover(); r != nil {
					t.Errorf("g=%d panicked: %v", g, r)
				}
			}()
			f := good
			if g%2 == 1 {
				f = bad
			}
			for i := 0; i < 3; i++ {
				d, err := loads.Spec(f) // per-goroutine document
				if err != nil {
					t.Error(err)
					return
				}
				e, _ := sv.Validate(d)
				if e.IsValid() != (g%2 == 0) {
					t.Errorf("g=%d %s: valid=%v, alone it is %v: %v", g, f, e.IsValid(), g%2 == 0, e.Errors)
				}
			}
		}(g)
	}
	wg.Wait()
}
