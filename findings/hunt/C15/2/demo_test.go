package validate

import (
	"encoding/json"
	"regexp"
	"strings"
	"testing"

	"github.com/go-openapi/spec"
	"github.com/go-openapi/strfmt"
)

// C15, finding 2: an invalid "pattern" keyword is reported by Pattern() as an ordinary
// validation failure; under not / anyOf / oneOf that failure is absorbed (or inverted), so
// AgainstSchema accepts the document and the invalid pattern is never reported.
func TestC15_InvalidPatternUnderCombinatorsIsReported(t *testing.T) {
	const pattern = "^(?!forbidden)" // look-ahead: legal in ECMA-262, invalid for Go's regexp
	if _, err := regexp.Compile(pattern); err == nil {
		t.Fatal("test setup: pattern is expected to be invalid")
	}
	pj, _ := json.Marshal(pattern)

	// reference: at top level the very same keyword is reported as invalid
	top := new(spec.Schema)
	_ = json.Unmarshal([]byte(`{"pattern":`+string(pj)+`}`), top)
	if err := AgainstSchema(top, "abc", strfmt.Default); err == nil || !strings.Contains(err.Error(), "pattern is invalid") {
		t.Fatalf("top-level invalid pattern not reported: %v", err)
	}

	for _, js := range []string{
		`{"not":{"pattern":` + string(pj) + `}}`,
		`{"anyOf":[{"pattern":` + string(pj) + `},{"type":"string"}]}`,
		`{"oneOf":[{"pattern":` + string(pj) + `},{"type":"string"}]}`,
		`{"properties":{"name":{"not":{"pattern":` + string(pj) + `}}}}`,
	} {
		schema := new(spec.Schema)
		if err := json.Unmarshal([]byte(js), schema); err != nil {
			t.Fatal(err)
		}
		var data interface{} = "abc"
		if strings.HasPrefix(js, `{"properties"`) {
			data = map[string]interface{}{"name": "abc"}
		}
		err := AgainstSchema(schema, data, strfmt.Default)
		if err == nil || !strings.Contains(err.Error(), "invalid") {
			t.Errorf("schema %s: the invalid pattern was used on %v but not reported as invalid (err=%v)", js, data, err)
		}
	}
}
