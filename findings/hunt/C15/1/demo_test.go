package validate

import (
	"encoding/json"
	"regexp"
	"strings"
	"testing"

	"github.com/go-openapi/spec"
	"github.com/go-openapi/strfmt"
)

// C15, finding 1: an invalid regular expression used as a patternProperties key is never
// reported as invalid by AgainstSchema: objectValidator drops the compile error.
func TestC15_InvalidPatternPropertiesKeyIsReported(t *testing.T) {
	for _, addl := range []string{
		``,
		`,"additionalProperties":true`,
		`,"additionalProperties":{"type":"integer"}`,
		`,"additionalProperties":false`,
	} {
		for _, pattern := range []string{"(", "^(?!x-)", "[a", "a{1001}", `\1`} {
			if _, err := regexp.Compile(pattern); err == nil {
				t.Fatalf("test setup: %q is expected to be an invalid Go regexp", pattern)
			}

			// reference behaviour, same library, same (invalid) pattern: the "pattern" keyword and
			// validate.Pattern do report it
			if e := Pattern("k", "body", "abc", pattern); e == nil || !strings.Contains(e.Error(), "pattern is invalid") {
				t.Fatalf("validate.Pattern did not report %q as invalid: %v", pattern, e)
			}

			pj, _ := json.Marshal(pattern)
			schema := new(spec.Schema)
			if err := json.Unmarshal([]byte(`{"type":"object","patternProperties":{`+string(pj)+`:{"type":"string"}}`+addl+`}`), schema); err != nil {
				t.Fatal(err)
			}

			// the pattern is "used": the object has a key that must be matched against it
			err := AgainstSchema(schema, map[string]interface{}{"abc": 1}, strfmt.Default)
			if err == nil {
				t.Errorf("patternProperties key %q (schema suffix %q): invalid pattern not reported, document accepted", pattern, addl)

				continue
			}
			if !strings.Contains(err.Error(), "invalid") {
				t.Errorf("patternProperties key %q (schema suffix %q): invalid pattern not reported as invalid, got only: %v", pattern, addl, err)
			}
		}
	}
}
