package validate

// C07 finding 2: spec validation panics ("Invalid schema provided to SchemaValidator: open <cwd>/other.json:
// no such file or directory") on a VALID multi-file specification: a schema with a default (or example)
// value which holds a $ref relative to the location of the specification.
//
// Drop this file in the repository root (package validate) and run:
//
//	go test -run 'TestC07F2' -count=1 .

import (
	"os"
	"path/filepath"
	"runtime/debug"
	"sort"
	"testing"

	"github.com/go-openapi/loads"
	"github.com/go-openapi/strfmt"
)

func TestC07F2PanicOnRelativeFileRefWithDefault(t *testing.T) {
	const head = `{"swagger":"2.0","info":{"title":"t","version":"1"},`
	other := `{"definitions":{
	  "bar":{"type":"object","properties":{"x":{"type":"string"}}},
	  "node":{"type":"object","properties":{"next":{"$ref":"#/definitions/node"},"v":{"type":"string"}}}}}`

	docs := map[string]string{
		// a perfectly valid specification: no $ref sibling, every reference resolves
		"property-ref-to-file--parent-default": head + `"paths":{},"definitions":{
		   "a":{"type":"object","properties":{"p":{"$ref":"other.json#/definitions/bar"}},"default":{"p":{"x":"y"}}}}}`,
		"property-ref-to-file--parent-example": head + `"paths":{},"definitions":{
		   "a":{"type":"object","properties":{"p":{"$ref":"other.json#/definitions/bar"}},"example":{"p":{"x":"y"}}}}}`,
		"allOf-ref-to-file--default": head + `"paths":{},"definitions":{
		   "a":{"allOf":[{"$ref":"other.json#/definitions/bar"}],"default":{"x":"y"}}}}`,
		"items-ref-to-file--default": head + `"paths":{},"definitions":{
		   "a":{"type":"array","items":{"$ref":"other.json#/definitions/bar"},"default":[{"x":"y"}]}}}`,
		// $ref with a sibling (named by the property's statement)
		"ref-to-file-with-default-sibling": head + `"paths":{},"definitions":{
		   "a":{"$ref":"other.json#/definitions/bar","default":{"x":"y"}}}}`,
		// in an operation: the circular $ref that remains after the expansion of the document still points to the file
		"response-schema-circular-ref-to-file--default": head + `"paths":{"/p":{"get":{"operationId":"op","responses":{"200":{"description":"ok",
		   "schema":{"type":"object","properties":{"n":{"$ref":"other.json#/definitions/node"}},"default":{"n":{"next":{"next":{"v":"x"}}}}}}}}}}}`,
	}

	dir := t.TempDir() // anywhere but the current working directory
	if err := os.WriteFile(filepath.Join(dir, "other.json"), []byte(other), 0o600); err != nil {
		t.Fatal(err)
	}

	names := make([]string, 0, len(docs))
	for name := range docs {
		names = append(names, name)
	}
	sort.Strings(names)

	for _, name := range names {
		main := filepath.Join(dir, name+".json")
		if err := os.WriteFile(main, []byte(docs[name]), 0o600); err != nil {
			t.Fatal(err)
		}
		doc, err := loads.Spec(main)
		if err != nil {
			t.Fatalf("%s: the document is expected to load: %v", name, err)
		}
		if _, err = doc.Expanded(); err != nil {
			t.Fatalf("%s: all references are expected to resolve: %v", name, err)
		}

		for _, cont := range []bool{false, true} {
			func() {
				defer func() {
					if r := recover(); r != nil {
						t.Errorf("%s continueOnErrors=%t: Validate panicked instead of returning its two results: %v\n%.1800s", name, cont, r, debug.Stack())
					}
				}()
				v := NewSpecValidator(doc.Schema(), strfmt.Default)
				v.SetContinueOnErrors(cont)
				errs, warns := v.Validate(doc)
				if errs == nil || warns == nil {
					t.Errorf("%s continueOnErrors=%t: nil result", name, cont)
				}
			}()
		}
	}
}
