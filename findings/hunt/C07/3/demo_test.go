package validate

// C07 finding 3: spec validation panics ("Invalid schema provided to SchemaValidator: nil value has no field
// "Cat": JSON pointer error") on a loadable, single-file document: a schema carrying the "id" keyword and a local
// $ref in one of its sub-schemas, as soon as a default / example value is checked against it.
// fixtures/petstore/swagger.json (which declares "id": "Pet", ...) is one "default" away from the panic.
//
// Drop this file in the repository root (package validate) and run:
//
//	go test -run 'TestC07F3' -count=1 .

import (
	"encoding/json"
	"os"
	"runtime/debug"
	"sort"
	"testing"

	"github.com/go-openapi/loads"
	"github.com/go-openapi/strfmt"
)

func c07f3Validate(t *testing.T, name string, doc *loads.Document) {
	t.Helper()
	if _, err := doc.Expanded(); err != nil {
		t.Fatalf("%s: all references are expected to resolve: %v", name, err)
	}
	for _, cont := range []bool{false, true} {
		func() {
			defer func() {
				if r := recover(); r != nil {
					t.Errorf("%s continueOnErrors=%t: Validate panicked instead of returning its two results: %v\n%.1800s", name, cont, r, debug.Stack())
				}
			}()
			v := NewSpecValidator(doc.Schema(), strfmt.Default)
			v.SetContinueOnErrors(cont)
			errs, warns := v.Validate(doc)
			if errs == nil || warns == nil {
				t.Errorf("%s continueOnErrors=%t: nil result", name, cont)
			}
		}()
	}
}

func TestC07F3PanicOnSchemaIDWithLocalRef(t *testing.T) {
	const head = `{"swagger":"2.0","info":{"title":"t","version":"1"},`
	const cat = `"Cat":{"type":"object","properties":{"n":{"type":"string"}}}`
	const node = `"Node":{"type":"object","properties":{"next":{"$ref":"#/definitions/Node"},"v":{"type":"string"}}}`

	docs := map[string]string{
		"definition-with-id--own-default": head + `"paths":{},"definitions":{` + cat + `,
		   "Pet":{"id":"Pet","type":"object","properties":{"cat":{"$ref":"#/definitions/Cat"}},"default":{"cat":{"n":"x"}}}}}`,
		"definition-with-id--own-example": head + `"paths":{},"definitions":{` + cat + `,
		   "Pet":{"id":"Pet","type":"object","properties":{"cat":{"$ref":"#/definitions/Cat"}},"example":{"cat":{"n":"x"}}}}}`,
		"definition-with-url-id--default-on-allOf-user": head + `"paths":{},"definitions":{` + cat + `,
		   "Pet":{"id":"http://example.com/schemas/pet","type":"object","properties":{"cat":{"$ref":"#/definitions/Cat"}}},
		   "New":{"allOf":[{"$ref":"#/definitions/Pet"}],"default":{"cat":{"n":"x"}}}}}`,
		"definition-with-id--default-on-property-user": head + `"paths":{},"definitions":{` + cat + `,
		   "Pet":{"id":"Pet","type":"object","properties":{"cat":{"$ref":"#/definitions/Cat"}}},
		   "New":{"type":"object","properties":{"p":{"$ref":"#/definitions/Pet"}},"default":{"p":{"cat":{"n":"x"}}}}}}`,
		"id-on-inline-property": head + `"paths":{},"definitions":{` + cat + `,
		   "A":{"type":"object","properties":{"q":{"id":"Q","type":"object","properties":{"c":{"$ref":"#/definitions/Cat"}}}},"default":{"q":{"c":{"n":"x"}}}}}}`,
		// in operations: a circular $ref is left in place by the expansion of the document
		"response-examples--recursive-definition-with-id": head + `"paths":{"/p":{"get":{"operationId":"op","responses":{"200":{"description":"ok",
		   "schema":{"$ref":"#/definitions/Node"},"examples":{"application/json":{"next":{"next":{"v":"x"}}}}}}}}},
		   "definitions":{"Node":{"id":"Node","type":"object","properties":{"next":{"$ref":"#/definitions/Node"},"v":{"type":"string"}}}}}`,
		"response-default--inline-id-over-recursive-definition": head + `"paths":{"/p":{"get":{"operationId":"op","responses":{"200":{"description":"ok",
		   "schema":{"id":"X","type":"object","properties":{"p":{"$ref":"#/definitions/Node"}},"default":{"p":{"next":{"next":{"v":"x"}}}}}}}}}},
		   "definitions":{` + node + `}}`,
		"body-param-example--inline-id-over-recursive-definition": head + `"paths":{"/p":{"get":{"operationId":"op","parameters":[{"name":"b","in":"body",
		   "schema":{"id":"X","type":"object","properties":{"p":{"$ref":"#/definitions/Node"}},"example":{"p":{"next":{"next":{"v":"x"}}}}}}],
		   "responses":{"200":{"description":"ok"}}}}},
		   "definitions":{` + node + `}}`,
	}

	names := make([]string, 0, len(docs))
	for name := range docs {
		names = append(names, name)
	}
	sort.Strings(names)

	for _, name := range names {
		doc, err := loads.Analyzed(json.RawMessage(docs[name]), "")
		if err != nil {
			t.Fatalf("%s: the document is expected to load: %v", name, err)
		}
		c07f3Validate(t, name, doc)
	}
}

// The repository's own petstore fixture, with one default value added to definition "newPet".
func TestC07F3PanicOnPetstoreFixtureWithDefault(t *testing.T) {
	raw, err := os.ReadFile("fixtures/petstore/swagger.json")
	if err != nil {
		t.Fatal(err)
	}
	var tree map[string]interface{}
	if err = json.Unmarshal(raw, &tree); err != nil {
		t.Fatal(err)
	}
	tree["definitions"].(map[string]interface{})["newPet"].(map[string]interface{})["default"] = map[string]interface{}{"id": 1, "name": "rex"}
	edited, err := json.Marshal(tree)
	if err != nil {
		t.Fatal(err)
	}
	doc, err := loads.Analyzed(json.RawMessage(edited), "")
	if err != nil {
		t.Fatalf("the document is expected to load: %v", err)
	}
	c07f3Validate(t, "petstore+default", doc)
}
