package validate

// C07 finding 4: spec validation never returns (endless loop, 100% CPU) on a loadable document in which a
// definition lists, in its allOf, a $ref to a definition that is nothing but a $ref to itself (or a $ref cycle).
//
// Drop this file in the repository root (package validate) and run:
//
//	go test -run 'TestC07F4' -count=1 .
//
// Every case is run in a child process (this very test binary), killed after 20 seconds.

import (
	"context"
	"encoding/json"
	"fmt"
	"os"
	"os/exec"
	"sort"
	"strings"
	"testing"
	"time"

	"github.com/go-openapi/loads"
	"github.com/go-openapi/strfmt"
)

const c07f4Head = `{"swagger":"2.0","info":{"title":"t","version":"1"},"paths":{},`

var c07f4Docs = map[string]string{
	"allOf-to-self-referencing-definition": c07f4Head + `"definitions":{
		"a":{"allOf":[{"$ref":"#/definitions/b"}]},
		"b":{"$ref":"#/definitions/b"}}}`,
	"allOf-to-two-definitions-referencing-each-other": c07f4Head + `"definitions":{
		"a":{"allOf":[{"$ref":"#/definitions/b"}]},
		"b":{"$ref":"#/definitions/c"},
		"c":{"$ref":"#/definitions/b"}}}`,
}

func TestC07F4Child(t *testing.T) {
	name := os.Getenv("C07F4_CASE")
	if name == "" {
		t.Skip("helper process")
	}
	doc, err := loads.Analyzed(json.RawMessage(c07f4Docs[name]), "")
	if err != nil {
		fmt.Println("C07F4: DOES-NOT-LOAD", err)
		return
	}
	fmt.Println("C07F4: LOADED")
	v := NewSpecValidator(doc.Schema(), strfmt.Default)
	v.SetContinueOnErrors(os.Getenv("C07F4_CONTINUE") == "1")
	errs, warns := v.Validate(doc)
	if errs != nil && warns != nil {
		fmt.Println("C07F4: RETURNED")
	}
}

func TestC07F4EndlessLoopOnSelfReferencingAncestor(t *testing.T) {
	names := make([]string, 0, len(c07f4Docs))
	for name := range c07f4Docs {
		names = append(names, name)
	}
	sort.Strings(names)

	for _, name := range names {
		for _, cont := range []string{"0", "1"} {
			ctx, cancel := context.WithTimeout(context.Background(), 20*time.Second)
			cmd := exec.CommandContext(ctx, os.Args[0], "-test.run", "^TestC07F4Child$", "-test.count=1")
			cmd.Env = append(os.Environ(), "C07F4_CASE="+name, "C07F4_CONTINUE="+cont)
			out, err := cmd.CombinedOutput()
			killed := ctx.Err() != nil
			cancel()
			so := string(out)
			if !strings.Contains(so, "C07F4: LOADED") {
				t.Fatalf("%s: the document is expected to load:\n%.500s", name, so)
			}
			if err != nil || !strings.Contains(so, "C07F4: RETURNED") {
				t.Errorf("%s continueOnErrors=%s: Validate did not return its two results (killed after 20s: %t, %v)", name, cont, killed, err)
			}
		}
	}
}
