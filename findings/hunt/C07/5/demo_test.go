package validate

// C07 finding 5: when continuing on errors, spec validation recurses without end (until the goroutine stack is
// exhausted: "fatal error: stack overflow", after minutes of quadratic work) on a loadable document in which a
// schema lists itself as a schema dependency, as soon as a default / example value holds the depending key.
//
// Drop this file in the repository root (package validate) and run:
//
//	go test -run 'TestC07F5' -count=1 .
//
// The case is run in a child process (this very test binary), with a 16 MB stack limit, killed after 60 seconds.

import (
	"context"
	"encoding/json"
	"fmt"
	"os"
	"os/exec"
	"runtime/debug"
	"strings"
	"testing"
	"time"

	"github.com/go-openapi/loads"
	"github.com/go-openapi/strfmt"
)

const c07f5Doc = `{"swagger":"2.0","info":{"title":"t","version":"1"},"paths":{},"definitions":{
	"a":{"type":"object","dependencies":{"p":{"$ref":"#/definitions/a"}},"default":{"p":1}}}}`

func TestC07F5Child(t *testing.T) {
	if os.Getenv("C07F5_CHILD") == "" {
		t.Skip("helper process")
	}
	debug.SetMaxStack(16 << 20)
	doc, err := loads.Analyzed(json.RawMessage(c07f5Doc), "")
	if err != nil {
		fmt.Println("C07F5: DOES-NOT-LOAD", err)
		return
	}
	fmt.Println("C07F5: LOADED")
	v := NewSpecValidator(doc.Schema(), strfmt.Default)
	v.SetContinueOnErrors(true) // "dependencies" is reported as a forbidden property first
	errs, warns := v.Validate(doc)
	if errs != nil && warns != nil {
		fmt.Println("C07F5: RETURNED")
	}
}

func TestC07F5EndlessRecursionOnSelfDependency(t *testing.T) {
	ctx, cancel := context.WithTimeout(context.Background(), 60*time.Second)
	defer cancel()
	cmd := exec.CommandContext(ctx, os.Args[0], "-test.run", "^TestC07F5Child$", "-test.count=1")
	cmd.Env = append(os.Environ(), "C07F5_CHILD=1")
	out, err := cmd.CombinedOutput()
	killed := ctx.Err() != nil
	so := string(out)
	if !strings.Contains(so, "C07F5: LOADED") {
		t.Fatalf("the document is expected to load:\n%.500s", so)
	}
	if err != nil || !strings.Contains(so, "C07F5: RETURNED") {
		reason := ""
		if i := strings.Index(so, "fatal error:"); i >= 0 {
			reason = strings.SplitN(so[i:], "\n", 2)[0]
		}
		t.Errorf("continueOnErrors=true: Validate did not return its two results (killed after 60s: %t, %v) %s", killed, err, reason)
	}
}
