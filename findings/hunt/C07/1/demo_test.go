package validate

// C07 finding 1: spec validation dies with "fatal error: stack overflow" (not even a recoverable panic)
// on a loadable document in which an allOf member refers, through a JSON pointer, to the schema it is
// a member of, as soon as a default / example value has to be checked against that schema.
//
// Drop this file in the repository root (package validate) and run:
//
//	go test -run 'TestC07F1' -count=1 .
//
// A stack overflow cannot be recovered, so every case is run in a child process (this very test binary).

import (
	"context"
	"encoding/json"
	"fmt"
	"os"
	"os/exec"
	"runtime/debug"
	"sort"
	"strings"
	"testing"
	"time"

	"github.com/go-openapi/loads"
	"github.com/go-openapi/strfmt"
)

const c07f1Head = `{"swagger":"2.0","info":{"title":"t","version":"1"},`

var c07f1Docs = map[string]string{
	// passes the swagger meta-schema, every $ref resolves: reaches the default validator in BOTH modes
	"allOf-self-in-property-default": c07f1Head + `"paths":{},"definitions":{
		"a":{"type":"object",
		     "properties":{"p":{"allOf":[{"$ref":"#/definitions/a/properties/p"}]}},
		     "default":{"p":1}}}}`,
	"allOf-self-in-property-example": c07f1Head + `"paths":{},"definitions":{
		"a":{"type":"object",
		     "properties":{"p":{"allOf":[{"$ref":"#/definitions/a/properties/p"}]}},
		     "example":{"p":1}}}}`,
	"allOf-self-response-examples": c07f1Head + `"paths":{"/p":{"get":{"operationId":"op","responses":{"200":{"description":"ok",
		     "schema":{"$ref":"#/definitions/a"},"examples":{"application/json":{"p":1}}}}}}},
		"definitions":{"a":{"type":"object","properties":{"p":{"allOf":[{"$ref":"#/definitions/a/properties/p"}]}}}}}`,
	"allOf-self-items": c07f1Head + `"paths":{},"definitions":{
		"a":{"type":"array","items":{"allOf":[{"$ref":"#/definitions/a/items"}]},"default":[1]}}}`,
	// reported as errors first (circular ancestry / forbidden keyword): only reached when continuing on errors
	"top-level-allOf-self (continue only)": c07f1Head + `"paths":{},"definitions":{
		"a":{"allOf":[{"$ref":"#/definitions/a"}],"default":{"x":1}}}}`,
	"anyOf-self (continue only)": c07f1Head + `"paths":{},"definitions":{
		"a":{"anyOf":[{"$ref":"#/definitions/a"}],"default":{"x":1}}}}`,
	"not-self (continue only)": c07f1Head + `"paths":{},"definitions":{
		"a":{"not":{"$ref":"#/definitions/a"},"default":{"x":1}}}}`,
}

func TestC07F1Child(t *testing.T) {
	name := os.Getenv("C07F1_CASE")
	if name == "" {
		t.Skip("helper process")
	}
	debug.SetMaxStack(16 << 20) // fail fast: a sound validation of a 10-line document needs nothing like this
	doc, err := loads.Analyzed(json.RawMessage(c07f1Docs[name]), "")
	if err != nil {
		fmt.Println("C07F1: DOES-NOT-LOAD", err)
		return
	}
	fmt.Println("C07F1: LOADED")
	v := NewSpecValidator(doc.Schema(), strfmt.Default)
	v.SetContinueOnErrors(os.Getenv("C07F1_CONTINUE") == "1")
	errs, warns := v.Validate(doc)
	if errs != nil && warns != nil {
		fmt.Println("C07F1: RETURNED")
	}
}

func TestC07F1StackOverflowOnAllOfCycle(t *testing.T) {
	names := make([]string, 0, len(c07f1Docs))
	for name := range c07f1Docs {
		names = append(names, name)
	}
	sort.Strings(names)
	for _, name := range names {
		for _, cont := range []string{"0", "1"} {
			if cont == "0" && strings.Contains(name, "continue only") {
				continue
			}
			ctx, cancel := context.WithTimeout(context.Background(), 120*time.Second)
			cmd := exec.CommandContext(ctx, os.Args[0], "-test.run", "^TestC07F1Child$", "-test.count=1")
			cmd.Env = append(os.Environ(), "C07F1_CASE="+name, "C07F1_CONTINUE="+cont)
			out, err := cmd.CombinedOutput()
			cancel()
			so := string(out)
			if !strings.Contains(so, "C07F1: LOADED") {
				t.Fatalf("%s: the document is expected to load:\n%.500s", name, so)
			}
			if err != nil || !strings.Contains(so, "C07F1: RETURNED") {
				reason := "did not return"
				if i := strings.Index(so, "fatal error:"); i >= 0 {
					reason = strings.SplitN(so[i:], "\n", 2)[0]
				}
				t.Errorf("%s continueOnErrors=%s: Validate did not return its two results normally: %v (%s)", name, cont, err, reason)
			}
		}
	}
}
