package validate_test

import (
	"encoding/json"
	"reflect"
	"testing"

	"github.com/go-openapi/spec"
	"github.com/go-openapi/strfmt"
	"github.com/go-openapi/validate"
	"github.com/go-openapi/validate/post"
)

// C18 demo 1: an absent member whose property schema is a $ref to a schema declaring a
// default is not filled by post.ApplyDefaults, although the very same $ref'd default IS filled
// when the enclosing object schema happens to have been reached through another $ref.
func TestC18Demo1_RefPropertyDefaultNotApplied(t *testing.T) {
	for _, c := range []struct{ name, schema, data, want string }{
		{
			name: "absent member, property is a $ref to a schema with a default",
			schema: `{
			  "definitions": {"D": {"type": "integer", "default": 5}},
			  "type": "object",
			  "properties": {"a": {"$ref": "#/definitions/D"}, "b": {"type": "integer", "default": 6}}
			}`,
			data: `{}`,
			want: `{"a": 5, "b": 6}`,
		},
		{
			name: "same, one level down (object present in the data)",
			schema: `{
			  "definitions": {"E": {"type": "integer", "default": 5}},
			  "properties": {"o": {"type": "object", "properties": {"x": {"$ref": "#/definitions/E"}}}}
			}`,
			data: `{"o": {}}`,
			want: `{"o": {"x": 5}}`,
		},
		{
			// control: passes on the current tree. The only difference with the previous case is that
			// "o" is itself declared through a $ref, which makes the validator expand the nested $ref.
			name: "control: enclosing object reached through a $ref",
			schema: `{
			  "definitions": {
			    "E": {"type": "integer", "default": 5},
			    "O": {"type": "object", "properties": {"x": {"$ref": "#/definitions/E"}}}
			  },
			  "properties": {"o": {"$ref": "#/definitions/O"}}
			}`,
			data: `{"o": {}}`,
			want: `{"o": {"x": 5}}`,
		},
	} {
		t.Run(c.name, func(t *testing.T) {
			var sch spec.Schema
			if err := json.Unmarshal([]byte(c.schema), &sch); err != nil {
				t.Fatal(err)
			}
			var data, want interface{}
			if err := json.Unmarshal([]byte(c.data), &data); err != nil {
				t.Fatal(err)
			}
			if err := json.Unmarshal([]byte(c.want), &want); err != nil {
				t.Fatal(err)
			}

			res := validate.NewSchemaValidator(&sch, nil, "", strfmt.Default).Validate(data)
			if !res.IsValid() {
				t.Fatalf("data is expected to be valid: %v", res.AsError())
			}
			post.ApplyDefaults(res)

			if !reflect.DeepEqual(want, data) {
				got, _ := json.Marshal(data)
				t.Errorf("after ApplyDefaults: got %s, want %s", got, c.want)
			}
		})
	}
}
