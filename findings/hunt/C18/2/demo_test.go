package validate_test

import (
	"encoding/json"
	"reflect"
	"testing"

	"github.com/go-openapi/spec"
	"github.com/go-openapi/strfmt"
	"github.com/go-openapi/validate"
	"github.com/go-openapi/validate/post"
)

func c18Parse(t *testing.T, s string) interface{} {
	t.Helper()
	var v interface{}
	if err := json.Unmarshal([]byte(s), &v); err != nil {
		t.Fatal(err)
	}
	return v
}

func c18Defaulted(t *testing.T, v *validate.SchemaValidator, data interface{}) {
	t.Helper()
	res := v.Validate(data)
	if !res.IsValid() {
		t.Fatalf("data is expected to be valid: %v", res.AsError())
	}
	post.ApplyDefaults(res)
}

// C18 demo 2a: the default value is stored in the data by reference (not copied). Validating +
// defaulting an already defaulted document a second time makes the library itself write a nested
// default INTO THE SCHEMA'S default object. Every later document then receives a value that no
// schema ever declared.
func TestC18Demo2_DefaultAliased_LibraryOnly(t *testing.T) {
	var sch spec.Schema
	if err := json.Unmarshal([]byte(`{
	  "type": "object",
	  "properties": {
	    "p": {
	      "type": "object",
	      "default": {},
	      "properties": {"q": {"type": "integer", "default": 7}}
	    }
	  }
	}`), &sch); err != nil {
		t.Fatal(err)
	}
	v := validate.NewSchemaValidator(&sch, nil, "", strfmt.Default)

	doc1 := c18Parse(t, `{}`)
	c18Defaulted(t, v, doc1) // doc1 == {"p": {}}           (as declared)
	c18Defaulted(t, v, doc1) // doc1 == {"p": {"q": 7}}     (fine for doc1: "p" is present now, "q" was absent)

	doc2 := c18Parse(t, `{}`)
	c18Defaulted(t, v, doc2)

	// "p" was absent in doc2: it must now hold the default declared by the schema, i.e. {}
	want := c18Parse(t, `{"p": {}}`)
	if !reflect.DeepEqual(want, doc2) {
		got, _ := json.Marshal(doc2)
		t.Errorf("doc2 after ApplyDefaults: got %s, want {\"p\":{}}", got)
	}
}

// C18 demo 2b: same aliasing, made visible by a caller that (legitimately) edits its own document
// after defaults were applied.
func TestC18Demo2_DefaultAliased_CallerEditsOwnDocument(t *testing.T) {
	var sch spec.Schema
	if err := json.Unmarshal([]byte(`{
	  "type": "object",
	  "properties": {"p": {"type": "object", "default": {"k": 1}}}
	}`), &sch); err != nil {
		t.Fatal(err)
	}
	v := validate.NewSchemaValidator(&sch, nil, "", strfmt.Default)

	doc1 := c18Parse(t, `{}`)
	c18Defaulted(t, v, doc1)
	doc1.(map[string]interface{})["p"].(map[string]interface{})["k"] = float64(99) // edit doc1 only

	doc2 := c18Parse(t, `{}`)
	c18Defaulted(t, v, doc2)

	want := c18Parse(t, `{"p": {"k": 1}}`)
	if !reflect.DeepEqual(want, doc2) {
		got, _ := json.Marshal(doc2)
		t.Errorf("doc2 after ApplyDefaults: got %s, want {\"p\":{\"k\":1}}", got)
	}
}
