package validate_test

import (
	"encoding/json"
	"fmt"
	"strings"
	"testing"

	"github.com/go-openapi/loads"
	"github.com/go-openapi/strfmt"
	"github.com/go-openapi/validate"
)

// A value (example, default, extension) that has a member "type": "array" is taken for an array schema without items.
//
// Property C03: spec validation reports no error when every documented rule holds,
// and reports an error as soon as one of them is broken - for both ContinueOnErrors
// settings and both StrictPathParamUniqueness settings.

type c03Case5 struct {
	name      string
	wantError bool // true: a documented rule is broken; false: every documented rule holds
	doc       string
}

var c03Cases5 = []c03Case5{
	{
		name:      "schema example",
		wantError: false,
		doc: `{
 "swagger": "2.0",
 "info": {
  "title": "t",
  "version": "1"
 },
 "paths": {},
 "definitions": {
  "Field": {
   "type": "object",
   "properties": {
    "type": {
     "type": "string"
    },
    "name": {
     "type": "string"
    }
   },
   "example": {
    "type": "array",
    "name": "tags"
   }
  }
 }
}`,
	},
	{
		name:      "property default",
		wantError: false,
		doc: `{
 "swagger": "2.0",
 "info": {
  "title": "t",
  "version": "1"
 },
 "paths": {},
 "definitions": {
  "A": {
   "type": "object",
   "properties": {
    "field": {
     "type": "object",
     "properties": {
      "type": {
       "type": "string"
      },
      "name": {
       "type": "string"
      }
     },
     "default": {
      "type": "array",
      "name": "tags"
     }
    }
   }
  }
 }
}`,
	},
	{
		name:      "vendor extension",
		wantError: false,
		doc: `{
 "swagger": "2.0",
 "info": {
  "title": "t",
  "version": "1"
 },
 "paths": {},
 "x-ui": {
  "type": "array"
 }
}`,
	},
	{
		name:      "same example with another type value (control, passes)",
		wantError: false,
		doc: `{
 "swagger": "2.0",
 "info": {
  "title": "t",
  "version": "1"
 },
 "paths": {},
 "definitions": {
  "Field": {
   "type": "object",
   "properties": {
    "type": {
     "type": "string"
    },
    "name": {
     "type": "string"
    }
   },
   "example": {
    "type": "list",
    "name": "tags"
   }
  }
 }
}`,
	},
}

func c03Validate5(t *testing.T, raw string, cont, strict bool) []string {
	t.Helper()
	doc, err := loads.Analyzed(json.RawMessage(raw), "")
	if err != nil {
		t.Fatalf("cannot load: %v", err)
	}
	v := validate.NewSpecValidator(doc.Schema(), strfmt.Default)
	v.Options.ContinueOnErrors = cont
	v.Options.StrictPathParamUniqueness = strict
	errs, _ := v.Validate(doc)
	out := make([]string, 0, len(errs.Errors))
	for _, e := range errs.Errors {
		out = append(out, e.Error())
	}
	return out
}

func TestC03Finding5(t *testing.T) {
	for _, c := range c03Cases5 {
		for _, cont := range []bool{false, true} {
			for _, strict := range []bool{false, true} {
				name := fmt.Sprintf("%s/continue=%t/strict=%t", c.name, cont, strict)
				t.Run(name, func(t *testing.T) {
					errs := c03Validate5(t, c.doc, cont, strict)
					if c.wantError && len(errs) == 0 {
						t.Errorf("a documented rule is broken but validation reports no error")
					}
					if !c.wantError && len(errs) > 0 {
						t.Errorf("every documented rule holds but validation reports:\n  %s", strings.Join(errs, "\n  "))
					}
				})
			}
		}
	}
}
