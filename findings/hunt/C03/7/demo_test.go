package validate_test

import (
	"encoding/json"
	"fmt"
	"strings"
	"testing"

	"github.com/go-openapi/loads"
	"github.com/go-openapi/strfmt"
	"github.com/go-openapi/validate"
)

// A required property that is defined by an allOf ancestor is reported as not defined.
//
// Property C03: spec validation reports no error when every documented rule holds,
// and reports an error as soon as one of them is broken - for both ContinueOnErrors
// settings and both StrictPathParamUniqueness settings.

type c03Case7 struct {
	name      string
	wantError bool // true: a documented rule is broken; false: every documented rule holds
	doc       string
}

var c03Cases7 = []c03Case7{
	{
		name:      "required next to allOf",
		wantError: false,
		doc: `{
 "swagger": "2.0",
 "info": {
  "title": "t",
  "version": "1"
 },
 "paths": {},
 "definitions": {
  "Pet": {
   "type": "object",
   "properties": {
    "name": {
     "type": "string"
    }
   }
  },
  "Dog": {
   "required": [
    "name"
   ],
   "allOf": [
    {
     "$ref": "#/definitions/Pet"
    },
    {
     "properties": {
      "bark": {
       "type": "string"
      }
     }
    }
   ]
  }
 }
}`,
	},
	{
		name:      "required + inline allOf member",
		wantError: false,
		doc: `{
 "swagger": "2.0",
 "info": {
  "title": "t",
  "version": "1"
 },
 "paths": {},
 "definitions": {
  "Dog": {
   "required": [
    "bark"
   ],
   "allOf": [
    {
     "type": "object",
     "properties": {
      "bark": {
       "type": "string"
      }
     }
    }
   ]
  }
 }
}`,
	},
}

func c03Validate7(t *testing.T, raw string, cont, strict bool) []string {
	t.Helper()
	doc, err := loads.Analyzed(json.RawMessage(raw), "")
	if err != nil {
		t.Fatalf("cannot load: %v", err)
	}
	v := validate.NewSpecValidator(doc.Schema(), strfmt.Default)
	v.Options.ContinueOnErrors = cont
	v.Options.StrictPathParamUniqueness = strict
	errs, _ := v.Validate(doc)
	out := make([]string, 0, len(errs.Errors))
	for _, e := range errs.Errors {
		out = append(out, e.Error())
	}
	return out
}

func TestC03Finding7(t *testing.T) {
	for _, c := range c03Cases7 {
		for _, cont := range []bool{false, true} {
			for _, strict := range []bool{false, true} {
				name := fmt.Sprintf("%s/continue=%t/strict=%t", c.name, cont, strict)
				t.Run(name, func(t *testing.T) {
					errs := c03Validate7(t, c.doc, cont, strict)
					if c.wantError && len(errs) == 0 {
						t.Errorf("a documented rule is broken but validation reports no error")
					}
					if !c.wantError && len(errs) > 0 {
						t.Errorf("every documented rule holds but validation reports:\n  %s", strings.Join(errs, "\n  "))
					}
				})
			}
		}
	}
}
