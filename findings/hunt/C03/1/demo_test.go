package validate_test

import (
	"encoding/json"
	"fmt"
	"os"
	"os/exec"
	"strings"
	"testing"

	"github.com/go-openapi/loads"
	"github.com/go-openapi/strfmt"
	"github.com/go-openapi/validate"
)

// Circular allOf ancestry must be REPORTED as an error. On the shapes below the validator
// recurses for ever in validateCircularAncestry and the process dies with
// "fatal error: stack overflow" (not a panic: it cannot be recovered).
//
// Since the crash kills the test binary, every case runs in a child process (this same test
// binary, re-executed with C03_CHILD set).

var c03Crashers1 = map[string]string{
	// definition name that is escaped in a $ref: "my def" <-> #/definitions/my%20def
	"self-cycle-name-with-space": `{
 "swagger": "2.0", "info": {"title": "t", "version": "1"}, "paths": {},
 "definitions": {
  "my def": {"allOf": [{"$ref": "#/definitions/my%20def"}]}
 }}`,
	// same with a JSON-pointer escape: "a/b" <-> #/definitions/a~1b
	"self-cycle-name-with-slash": `{
 "swagger": "2.0", "info": {"title": "t", "version": "1"}, "paths": {},
 "definitions": {
  "a/b": {"allOf": [{"$ref": "#/definitions/a~1b"}]}
 }}`,
	// plain names: B is its own parent, A derives from B.
	// Crashes when the walk starts from A (map iteration order: about 1 run out of 2 per validation).
	"child-of-a-self-cycle": `{
 "swagger": "2.0", "info": {"title": "t", "version": "1"}, "paths": {},
 "definitions": {
  "A": {"allOf": [{"$ref": "#/definitions/B"}]},
  "B": {"allOf": [{"$ref": "#/definitions/B"}]}
 }}`,
	// control: a cycle through the starting definition is detected
	"two-cycle-control": `{
 "swagger": "2.0", "info": {"title": "t", "version": "1"}, "paths": {},
 "definitions": {
  "A": {"allOf": [{"$ref": "#/definitions/B"}]},
  "B": {"allOf": [{"$ref": "#/definitions/A"}]}
 }}`,
}

func TestC03Finding1(t *testing.T) {
	if name := os.Getenv("C03_CHILD"); name != "" {
		c03Child1(name)
		return
	}
	for _, name := range []string{"two-cycle-control", "self-cycle-name-with-space", "self-cycle-name-with-slash", "child-of-a-self-cycle"} {
		t.Run(name, func(t *testing.T) {
			cmd := exec.Command(os.Args[0], "-test.run", "^TestC03Finding1$", "-test.count=1")
			cmd.Env = append(os.Environ(), "C03_CHILD="+name)
			out, err := cmd.CombinedOutput()
			text := string(out)
			if strings.Contains(text, "stack overflow") {
				t.Fatalf("circular ancestry is broken: instead of reporting an error, validation kills the process (fatal error: stack overflow in validateCircularAncestry=%t)",
					strings.Contains(text, "validateCircularAncestry"))
			}
			if err != nil {
				t.Fatalf("child failed: %v\n%.2000s", err, text)
			}
			if !strings.Contains(text, "C03-ALL-REPORTED") {
				t.Fatalf("circular ancestry is broken but some validation reported no error:\n%.2000s", text)
			}
		})
	}
}

func c03Child1(name string) {
	raw := c03Crashers1[name]
	// several validations: the third shape depends on the iteration order of the definitions
	for i := 0; i < 8; i++ {
		for _, cont := range []bool{false, true} {
			for _, strict := range []bool{false, true} {
				doc, err := loads.Analyzed(json.RawMessage(raw), "")
				if err != nil {
					fmt.Println("C03-LOAD-FAILED", err)
					os.Exit(3)
				}
				v := validate.NewSpecValidator(doc.Schema(), strfmt.Default)
				v.Options.ContinueOnErrors = cont
				v.Options.StrictPathParamUniqueness = strict
				errs, _ := v.Validate(doc)
				if len(errs.Errors) == 0 {
					fmt.Printf("C03-NO-ERROR continue=%t strict=%t\n", cont, strict)
					os.Exit(4)
				}
			}
		}
	}
	fmt.Println("C03-ALL-REPORTED")
}
