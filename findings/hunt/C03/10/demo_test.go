package validate_test

import (
	"encoding/json"
	"fmt"
	"strings"
	"testing"

	"github.com/go-openapi/loads"
	"github.com/go-openapi/strfmt"
	"github.com/go-openapi/validate"
)

// Parameters whose names differ but map to the same Go identifier are merged before the rules are applied.
//
// Property C03: spec validation reports no error when every documented rule holds,
// and reports an error as soon as one of them is broken - for both ContinueOnErrors
// settings and both StrictPathParamUniqueness settings.

type c03Case10 struct {
	name      string
	wantError bool // true: a documented rule is broken; false: every documented rule holds
	doc       string
}

var c03Cases10 = []c03Case10{
	{
		// false positive: one declared path parameter vanishes
		name:      "two path parameters, both declared",
		wantError: false,
		doc: `{
 "swagger": "2.0",
 "info": {
  "title": "t",
  "version": "1"
 },
 "paths": {
  "/a/{user_id}/b/{userId}": {
   "get": {
    "responses": {
     "200": {
      "description": "ok"
     }
    },
    "parameters": [
     {
      "name": "user_id",
      "in": "path",
      "required": true,
      "type": "string"
     },
     {
      "name": "userId",
      "in": "path",
      "required": true,
      "type": "string"
     }
    ]
   }
  }
 }
}`,
	},
	{
		// miss: at most one body parameter
		name:      "two body parameters",
		wantError: true,
		doc: `{
 "swagger": "2.0",
 "info": {
  "title": "t",
  "version": "1"
 },
 "paths": {
  "/a": {
   "post": {
    "responses": {
     "200": {
      "description": "ok"
     }
    },
    "parameters": [
     {
      "name": "my_body",
      "in": "body",
      "schema": {
       "type": "string"
      }
     },
     {
      "name": "myBody",
      "in": "body",
      "schema": {
       "type": "string"
      }
     }
    ]
   }
  }
 }
}`,
	},
	{
		name:      "two body parameters with unrelated names (control, passes)",
		wantError: true,
		doc: `{
 "swagger": "2.0",
 "info": {
  "title": "t",
  "version": "1"
 },
 "paths": {
  "/a": {
   "post": {
    "responses": {
     "200": {
      "description": "ok"
     }
    },
    "parameters": [
     {
      "name": "b1",
      "in": "body",
      "schema": {
       "type": "string"
      }
     },
     {
      "name": "b2",
      "in": "body",
      "schema": {
       "type": "string"
      }
     }
    ]
   }
  }
 }
}`,
	},
}

func c03Validate10(t *testing.T, raw string, cont, strict bool) []string {
	t.Helper()
	doc, err := loads.Analyzed(json.RawMessage(raw), "")
	if err != nil {
		t.Fatalf("cannot load: %v", err)
	}
	v := validate.NewSpecValidator(doc.Schema(), strfmt.Default)
	v.Options.ContinueOnErrors = cont
	v.Options.StrictPathParamUniqueness = strict
	errs, _ := v.Validate(doc)
	out := make([]string, 0, len(errs.Errors))
	for _, e := range errs.Errors {
		out = append(out, e.Error())
	}
	return out
}

func TestC03Finding10(t *testing.T) {
	for _, c := range c03Cases10 {
		for _, cont := range []bool{false, true} {
			for _, strict := range []bool{false, true} {
				name := fmt.Sprintf("%s/continue=%t/strict=%t", c.name, cont, strict)
				t.Run(name, func(t *testing.T) {
					errs := c03Validate10(t, c.doc, cont, strict)
					if c.wantError && len(errs) == 0 {
						t.Errorf("a documented rule is broken but validation reports no error")
					}
					if !c.wantError && len(errs) > 0 {
						t.Errorf("every documented rule holds but validation reports:\n  %s", strings.Join(errs, "\n  "))
					}
				})
			}
		}
	}
}
