package validate_test

import (
	"encoding/json"
	"fmt"
	"strings"
	"testing"

	"github.com/go-openapi/loads"
	"github.com/go-openapi/strfmt"
	"github.com/go-openapi/validate"
)

// A literal path segment "X" collides with the placeholder substitute used by the overlap check.
//
// Property C03: spec validation reports no error when every documented rule holds,
// and reports an error as soon as one of them is broken - for both ContinueOnErrors
// settings and both StrictPathParamUniqueness settings.

type c03Case11 struct {
	name      string
	wantError bool // true: a documented rule is broken; false: every documented rule holds
	doc       string
}

var c03Cases11 = []c03Case11{
	{
		name:      "/users/X and /users/{id}",
		wantError: false,
		doc: `{
 "swagger": "2.0",
 "info": {
  "title": "t",
  "version": "1"
 },
 "paths": {
  "/users/X": {
   "get": {
    "responses": {
     "200": {
      "description": "ok"
     }
    }
   }
  },
  "/users/{id}": {
   "get": {
    "responses": {
     "200": {
      "description": "ok"
     }
    },
    "parameters": [
     {
      "name": "id",
      "in": "path",
      "required": true,
      "type": "string"
     }
    ]
   }
  }
 }
}`,
	},
	{
		name:      "/users/me and /users/{id} (control, passes)",
		wantError: false,
		doc: `{
 "swagger": "2.0",
 "info": {
  "title": "t",
  "version": "1"
 },
 "paths": {
  "/users/me": {
   "get": {
    "responses": {
     "200": {
      "description": "ok"
     }
    }
   }
  },
  "/users/{id}": {
   "get": {
    "responses": {
     "200": {
      "description": "ok"
     }
    },
    "parameters": [
     {
      "name": "id",
      "in": "path",
      "required": true,
      "type": "string"
     }
    ]
   }
  }
 }
}`,
	},
}

func c03Validate11(t *testing.T, raw string, cont, strict bool) []string {
	t.Helper()
	doc, err := loads.Analyzed(json.RawMessage(raw), "")
	if err != nil {
		t.Fatalf("cannot load: %v", err)
	}
	v := validate.NewSpecValidator(doc.Schema(), strfmt.Default)
	v.Options.ContinueOnErrors = cont
	v.Options.StrictPathParamUniqueness = strict
	errs, _ := v.Validate(doc)
	out := make([]string, 0, len(errs.Errors))
	for _, e := range errs.Errors {
		out = append(out, e.Error())
	}
	return out
}

func TestC03Finding11(t *testing.T) {
	for _, c := range c03Cases11 {
		for _, cont := range []bool{false, true} {
			for _, strict := range []bool{false, true} {
				name := fmt.Sprintf("%s/continue=%t/strict=%t", c.name, cont, strict)
				t.Run(name, func(t *testing.T) {
					errs := c03Validate11(t, c.doc, cont, strict)
					if c.wantError && len(errs) == 0 {
						t.Errorf("a documented rule is broken but validation reports no error")
					}
					if !c.wantError && len(errs) > 0 {
						t.Errorf("every documented rule holds but validation reports:\n  %s", strings.Join(errs, "\n  "))
					}
				})
			}
		}
	}
}
