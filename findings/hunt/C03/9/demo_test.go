package validate_test

import (
	"encoding/json"
	"fmt"
	"strings"
	"testing"

	"github.com/go-openapi/loads"
	"github.com/go-openapi/strfmt"
	"github.com/go-openapi/validate"
)

// Duplicate name+location among the parameters of a path item is not detected.
//
// Property C03: spec validation reports no error when every documented rule holds,
// and reports an error as soon as one of them is broken - for both ContinueOnErrors
// settings and both StrictPathParamUniqueness settings.

type c03Case9 struct {
	name      string
	wantError bool // true: a documented rule is broken; false: every documented rule holds
	doc       string
}

var c03Cases9 = []c03Case9{
	{
		name:      "path-level duplicate",
		wantError: true,
		doc: `{
 "swagger": "2.0",
 "info": {
  "title": "t",
  "version": "1"
 },
 "paths": {
  "/a": {
   "parameters": [
    {
     "name": "q",
     "in": "query",
     "type": "string"
    },
    {
     "name": "q",
     "in": "query",
     "type": "integer"
    }
   ],
   "get": {
    "responses": {
     "200": {
      "description": "ok"
     }
    }
   }
  }
 }
}`,
	},
	{
		name:      "path-level duplicate through $ref",
		wantError: true,
		doc: `{
 "swagger": "2.0",
 "info": {
  "title": "t",
  "version": "1"
 },
 "paths": {
  "/a": {
   "parameters": [
    {
     "$ref": "#/parameters/q"
    },
    {
     "name": "q",
     "in": "query",
     "type": "integer"
    }
   ],
   "get": {
    "responses": {
     "200": {
      "description": "ok"
     }
    }
   }
  }
 },
 "parameters": {
  "q": {
   "name": "q",
   "in": "query",
   "type": "string"
  }
 }
}`,
	},
	{
		name:      "operation-level duplicate (control, passes)",
		wantError: true,
		doc: `{
 "swagger": "2.0",
 "info": {
  "title": "t",
  "version": "1"
 },
 "paths": {
  "/a": {
   "get": {
    "responses": {
     "200": {
      "description": "ok"
     }
    },
    "parameters": [
     {
      "name": "q",
      "in": "query",
      "type": "string"
     },
     {
      "name": "q",
      "in": "query",
      "type": "integer"
     }
    ]
   }
  }
 }
}`,
	},
}

func c03Validate9(t *testing.T, raw string, cont, strict bool) []string {
	t.Helper()
	doc, err := loads.Analyzed(json.RawMessage(raw), "")
	if err != nil {
		t.Fatalf("cannot load: %v", err)
	}
	v := validate.NewSpecValidator(doc.Schema(), strfmt.Default)
	v.Options.ContinueOnErrors = cont
	v.Options.StrictPathParamUniqueness = strict
	errs, _ := v.Validate(doc)
	out := make([]string, 0, len(errs.Errors))
	for _, e := range errs.Errors {
		out = append(out, e.Error())
	}
	return out
}

func TestC03Finding9(t *testing.T) {
	for _, c := range c03Cases9 {
		for _, cont := range []bool{false, true} {
			for _, strict := range []bool{false, true} {
				name := fmt.Sprintf("%s/continue=%t/strict=%t", c.name, cont, strict)
				t.Run(name, func(t *testing.T) {
					errs := c03Validate9(t, c.doc, cont, strict)
					if c.wantError && len(errs) == 0 {
						t.Errorf("a documented rule is broken but validation reports no error")
					}
					if !c.wantError && len(errs) > 0 {
						t.Errorf("every documented rule holds but validation reports:\n  %s", strings.Join(errs, "\n  "))
					}
				})
			}
		}
	}
}
