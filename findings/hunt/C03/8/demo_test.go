package validate_test

import (
	"encoding/json"
	"fmt"
	"strings"
	"testing"

	"github.com/go-openapi/loads"
	"github.com/go-openapi/strfmt"
	"github.com/go-openapi/validate"
)

// required-must-be-defined only fires at the top level of #/definitions.
//
// Property C03: spec validation reports no error when every documented rule holds,
// and reports an error as soon as one of them is broken - for both ContinueOnErrors
// settings and both StrictPathParamUniqueness settings.

type c03Case8 struct {
	name      string
	wantError bool // true: a documented rule is broken; false: every documented rule holds
	doc       string
}

var c03Cases8 = []c03Case8{
	{
		// the usual place of required in a derived model
		name:      "allOf member of a definition",
		wantError: true,
		doc: `{
 "swagger": "2.0",
 "info": {
  "title": "t",
  "version": "1"
 },
 "paths": {},
 "definitions": {
  "B": {
   "type": "object"
  },
  "A": {
   "allOf": [
    {
     "$ref": "#/definitions/B"
    },
    {
     "type": "object",
     "required": [
      "zz"
     ],
     "properties": {
      "a": {
       "type": "string"
      }
     }
    }
   ]
  }
 }
}`,
	},
	{
		name:      "nested property of a definition",
		wantError: true,
		doc: `{
 "swagger": "2.0",
 "info": {
  "title": "t",
  "version": "1"
 },
 "paths": {},
 "definitions": {
  "A": {
   "type": "object",
   "properties": {
    "sub": {
     "type": "object",
     "required": [
      "zz"
     ],
     "properties": {
      "a": {
       "type": "string"
      }
     }
    }
   }
  }
 }
}`,
	},
	{
		name:      "items of a definition",
		wantError: true,
		doc: `{
 "swagger": "2.0",
 "info": {
  "title": "t",
  "version": "1"
 },
 "paths": {},
 "definitions": {
  "A": {
   "type": "array",
   "items": {
    "type": "object",
    "required": [
     "zz"
    ],
    "properties": {
     "a": {
      "type": "string"
     }
    }
   }
  }
 }
}`,
	},
	{
		name:      "body parameter schema",
		wantError: true,
		doc: `{
 "swagger": "2.0",
 "info": {
  "title": "t",
  "version": "1"
 },
 "paths": {
  "/a": {
   "post": {
    "responses": {
     "200": {
      "description": "ok"
     }
    },
    "parameters": [
     {
      "name": "b",
      "in": "body",
      "schema": {
       "type": "object",
       "required": [
        "zz"
       ],
       "properties": {
        "a": {
         "type": "string"
        }
       }
      }
     }
    ]
   }
  }
 }
}`,
	},
	{
		name:      "response schema",
		wantError: true,
		doc: `{
 "swagger": "2.0",
 "info": {
  "title": "t",
  "version": "1"
 },
 "paths": {
  "/a": {
   "get": {
    "responses": {
     "200": {
      "description": "ok",
      "schema": {
       "type": "object",
       "required": [
        "zz"
       ],
       "properties": {
        "a": {
         "type": "string"
        }
       }
      }
     }
    }
   }
  }
 }
}`,
	},
	{
		name:      "top level of a definition (control, passes)",
		wantError: true,
		doc: `{
 "swagger": "2.0",
 "info": {
  "title": "t",
  "version": "1"
 },
 "paths": {},
 "definitions": {
  "A": {
   "type": "object",
   "required": [
    "zz"
   ],
   "properties": {
    "a": {
     "type": "string"
    }
   }
  }
 }
}`,
	},
}

func c03Validate8(t *testing.T, raw string, cont, strict bool) []string {
	t.Helper()
	doc, err := loads.Analyzed(json.RawMessage(raw), "")
	if err != nil {
		t.Fatalf("cannot load: %v", err)
	}
	v := validate.NewSpecValidator(doc.Schema(), strfmt.Default)
	v.Options.ContinueOnErrors = cont
	v.Options.StrictPathParamUniqueness = strict
	errs, _ := v.Validate(doc)
	out := make([]string, 0, len(errs.Errors))
	for _, e := range errs.Errors {
		out = append(out, e.Error())
	}
	return out
}

func TestC03Finding8(t *testing.T) {
	for _, c := range c03Cases8 {
		for _, cont := range []bool{false, true} {
			for _, strict := range []bool{false, true} {
				name := fmt.Sprintf("%s/continue=%t/strict=%t", c.name, cont, strict)
				t.Run(name, func(t *testing.T) {
					errs := c03Validate8(t, c.doc, cont, strict)
					if c.wantError && len(errs) == 0 {
						t.Errorf("a documented rule is broken but validation reports no error")
					}
					if !c.wantError && len(errs) > 0 {
						t.Errorf("every documented rule holds but validation reports:\n  %s", strings.Join(errs, "\n  "))
					}
				})
			}
		}
	}
}
