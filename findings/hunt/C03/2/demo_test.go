package validate_test

import (
	"encoding/json"
	"fmt"
	"strings"
	"testing"

	"github.com/go-openapi/loads"
	"github.com/go-openapi/strfmt"
	"github.com/go-openapi/validate"
)

// Diamond inheritance (no cycle) is reported as circular ancestry.
//
// Property C03: spec validation reports no error when every documented rule holds,
// and reports an error as soon as one of them is broken - for both ContinueOnErrors
// settings and both StrictPathParamUniqueness settings.

type c03Case2 struct {
	name      string
	wantError bool // true: a documented rule is broken; false: every documented rule holds
	doc       string
}

var c03Cases2 = []c03Case2{
	{
		// A -> B -> D and A -> C -> D: D is reached twice, but no definition is its own ancestor
		name:      "diamond",
		wantError: false,
		doc: `{
 "swagger": "2.0",
 "info": {
  "title": "t",
  "version": "1"
 },
 "paths": {},
 "definitions": {
  "D": {
   "type": "object",
   "description": "common base"
  },
  "B": {
   "allOf": [
    {
     "$ref": "#/definitions/D"
    },
    {
     "properties": {
      "b": {
       "type": "string"
      }
     }
    }
   ]
  },
  "C": {
   "allOf": [
    {
     "$ref": "#/definitions/D"
    },
    {
     "properties": {
      "c": {
       "type": "string"
      }
     }
    }
   ]
  },
  "A": {
   "allOf": [
    {
     "$ref": "#/definitions/B"
    },
    {
     "$ref": "#/definitions/C"
    }
   ]
  }
 }
}`,
	},
	{
		name:      "real cycle (control, passes)",
		wantError: true,
		doc: `{
 "swagger": "2.0",
 "info": {
  "title": "t",
  "version": "1"
 },
 "paths": {},
 "definitions": {
  "A": {
   "allOf": [
    {
     "$ref": "#/definitions/B"
    }
   ]
  },
  "B": {
   "allOf": [
    {
     "$ref": "#/definitions/A"
    }
   ]
  }
 }
}`,
	},
}

func c03Validate2(t *testing.T, raw string, cont, strict bool) []string {
	t.Helper()
	doc, err := loads.Analyzed(json.RawMessage(raw), "")
	if err != nil {
		t.Fatalf("cannot load: %v", err)
	}
	v := validate.NewSpecValidator(doc.Schema(), strfmt.Default)
	v.Options.ContinueOnErrors = cont
	v.Options.StrictPathParamUniqueness = strict
	errs, _ := v.Validate(doc)
	out := make([]string, 0, len(errs.Errors))
	for _, e := range errs.Errors {
		out = append(out, e.Error())
	}
	return out
}

func TestC03Finding2(t *testing.T) {
	for _, c := range c03Cases2 {
		for _, cont := range []bool{false, true} {
			for _, strict := range []bool{false, true} {
				name := fmt.Sprintf("%s/continue=%t/strict=%t", c.name, cont, strict)
				t.Run(name, func(t *testing.T) {
					errs := c03Validate2(t, c.doc, cont, strict)
					if c.wantError && len(errs) == 0 {
						t.Errorf("a documented rule is broken but validation reports no error")
					}
					if !c.wantError && len(errs) > 0 {
						t.Errorf("every documented rule holds but validation reports:\n  %s", strings.Join(errs, "\n  "))
					}
				})
			}
		}
	}
}
