package validate_test

import (
	"encoding/json"
	"fmt"
	"strings"
	"testing"

	"github.com/go-openapi/loads"
	"github.com/go-openapi/strfmt"
	"github.com/go-openapi/validate"
)

// A definition that has both allOf and its own properties may redeclare an inherited property unnoticed.
//
// Property C03: spec validation reports no error when every documented rule holds,
// and reports an error as soon as one of them is broken - for both ContinueOnErrors
// settings and both StrictPathParamUniqueness settings.

type c03Case3 struct {
	name      string
	wantError bool // true: a documented rule is broken; false: every documented rule holds
	doc       string
}

var c03Cases3 = []c03Case3{
	{
		// Dog redeclares Pet.name
		name:      "own properties next to allOf",
		wantError: true,
		doc: `{
 "swagger": "2.0",
 "info": {
  "title": "t",
  "version": "1"
 },
 "paths": {},
 "definitions": {
  "Pet": {
   "type": "object",
   "properties": {
    "name": {
     "type": "string"
    }
   }
  },
  "Dog": {
   "allOf": [
    {
     "$ref": "#/definitions/Pet"
    }
   ],
   "properties": {
    "name": {
     "type": "string"
    }
   }
  }
 }
}`,
	},
	{
		// Pet.name is declared next to Pet's allOf: Dog redeclares it
		name:      "parent with allOf and own properties",
		wantError: true,
		doc: `{
 "swagger": "2.0",
 "info": {
  "title": "t",
  "version": "1"
 },
 "paths": {},
 "definitions": {
  "Base": {
   "type": "object",
   "properties": {
    "id": {
     "type": "string"
    }
   }
  },
  "Pet": {
   "allOf": [
    {
     "$ref": "#/definitions/Base"
    }
   ],
   "properties": {
    "name": {
     "type": "string"
    }
   }
  },
  "Dog": {
   "allOf": [
    {
     "$ref": "#/definitions/Pet"
    },
    {
     "properties": {
      "name": {
       "type": "string"
      }
     }
    }
   ]
  }
 }
}`,
	},
	{
		name:      "same duplicate written as an allOf member (control, passes)",
		wantError: true,
		doc: `{
 "swagger": "2.0",
 "info": {
  "title": "t",
  "version": "1"
 },
 "paths": {},
 "definitions": {
  "Pet": {
   "type": "object",
   "properties": {
    "name": {
     "type": "string"
    }
   }
  },
  "Dog": {
   "allOf": [
    {
     "$ref": "#/definitions/Pet"
    },
    {
     "properties": {
      "name": {
       "type": "string"
      }
     }
    }
   ]
  }
 }
}`,
	},
}

func c03Validate3(t *testing.T, raw string, cont, strict bool) []string {
	t.Helper()
	doc, err := loads.Analyzed(json.RawMessage(raw), "")
	if err != nil {
		t.Fatalf("cannot load: %v", err)
	}
	v := validate.NewSpecValidator(doc.Schema(), strfmt.Default)
	v.Options.ContinueOnErrors = cont
	v.Options.StrictPathParamUniqueness = strict
	errs, _ := v.Validate(doc)
	out := make([]string, 0, len(errs.Errors))
	for _, e := range errs.Errors {
		out = append(out, e.Error())
	}
	return out
}

func TestC03Finding3(t *testing.T) {
	for _, c := range c03Cases3 {
		for _, cont := range []bool{false, true} {
			for _, strict := range []bool{false, true} {
				name := fmt.Sprintf("%s/continue=%t/strict=%t", c.name, cont, strict)
				t.Run(name, func(t *testing.T) {
					errs := c03Validate3(t, c.doc, cont, strict)
					if c.wantError && len(errs) == 0 {
						t.Errorf("a documented rule is broken but validation reports no error")
					}
					if !c.wantError && len(errs) > 0 {
						t.Errorf("every documented rule holds but validation reports:\n  %s", strings.Join(errs, "\n  "))
					}
				})
			}
		}
	}
}
