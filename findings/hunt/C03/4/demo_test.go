package validate_test

import (
	"encoding/json"
	"fmt"
	"strings"
	"testing"

	"github.com/go-openapi/loads"
	"github.com/go-openapi/strfmt"
	"github.com/go-openapi/validate"
)

// Any object of the document that has a member called "items" is taken for a schema with items.
//
// Property C03: spec validation reports no error when every documented rule holds,
// and reports an error as soon as one of them is broken - for both ContinueOnErrors
// settings and both StrictPathParamUniqueness settings.

type c03Case4 struct {
	name      string
	wantError bool // true: a documented rule is broken; false: every documented rule holds
	doc       string
}

var c03Cases4 = []c03Case4{
	{
		name:      "definition named items",
		wantError: false,
		doc: `{
 "swagger": "2.0",
 "info": {
  "title": "t",
  "version": "1"
 },
 "paths": {},
 "definitions": {
  "items": {
   "type": "object",
   "properties": {
    "a": {
     "type": "string"
    }
   }
  }
 }
}`,
	},
	{
		name:      "shared parameter named items",
		wantError: false,
		doc: `{
 "swagger": "2.0",
 "info": {
  "title": "t",
  "version": "1"
 },
 "paths": {
  "/a": {
   "get": {
    "responses": {
     "200": {
      "description": "ok"
     }
    },
    "parameters": [
     {
      "$ref": "#/parameters/items"
     }
    ]
   }
  }
 },
 "parameters": {
  "items": {
   "name": "items",
   "in": "query",
   "type": "integer"
  }
 }
}`,
	},
	{
		name:      "shared response named items",
		wantError: false,
		doc: `{
 "swagger": "2.0",
 "info": {
  "title": "t",
  "version": "1"
 },
 "paths": {
  "/a": {
   "get": {
    "responses": {
     "200": {
      "$ref": "#/responses/items"
     }
    }
   }
  }
 },
 "responses": {
  "items": {
   "description": "ok"
  }
 }
}`,
	},
	{
		name:      "response header named items",
		wantError: false,
		doc: `{
 "swagger": "2.0",
 "info": {
  "title": "t",
  "version": "1"
 },
 "paths": {
  "/a": {
   "get": {
    "responses": {
     "200": {
      "description": "ok",
      "headers": {
       "items": {
        "type": "integer"
       }
      }
     }
    }
   }
  }
 }
}`,
	},
	{
		name:      "property items of a definition named properties",
		wantError: false,
		doc: `{
 "swagger": "2.0",
 "info": {
  "title": "t",
  "version": "1"
 },
 "paths": {},
 "definitions": {
  "properties": {
   "type": "object",
   "properties": {
    "items": {
     "type": "string"
    }
   }
  }
 }
}`,
	},
	{
		name:      "property items below a property named properties",
		wantError: false,
		doc: `{
 "swagger": "2.0",
 "info": {
  "title": "t",
  "version": "1"
 },
 "paths": {},
 "definitions": {
  "A": {
   "type": "object",
   "properties": {
    "properties": {
     "type": "object",
     "properties": {
      "items": {
       "type": "string"
      }
     }
    }
   }
  }
 }
}`,
	},
	{
		name:      "security scheme named items",
		wantError: false,
		doc: `{
 "swagger": "2.0",
 "info": {
  "title": "t",
  "version": "1"
 },
 "paths": {},
 "securityDefinitions": {
  "items": {
   "type": "basic"
  }
 }
}`,
	},
	{
		name:      "property named items (control, passes)",
		wantError: false,
		doc: `{
 "swagger": "2.0",
 "info": {
  "title": "t",
  "version": "1"
 },
 "paths": {},
 "definitions": {
  "A": {
   "type": "object",
   "properties": {
    "items": {
     "type": "string"
    }
   }
  }
 }
}`,
	},
}

func c03Validate4(t *testing.T, raw string, cont, strict bool) []string {
	t.Helper()
	doc, err := loads.Analyzed(json.RawMessage(raw), "")
	if err != nil {
		t.Fatalf("cannot load: %v", err)
	}
	v := validate.NewSpecValidator(doc.Schema(), strfmt.Default)
	v.Options.ContinueOnErrors = cont
	v.Options.StrictPathParamUniqueness = strict
	errs, _ := v.Validate(doc)
	out := make([]string, 0, len(errs.Errors))
	for _, e := range errs.Errors {
		out = append(out, e.Error())
	}
	return out
}

func TestC03Finding4(t *testing.T) {
	for _, c := range c03Cases4 {
		for _, cont := range []bool{false, true} {
			for _, strict := range []bool{false, true} {
				name := fmt.Sprintf("%s/continue=%t/strict=%t", c.name, cont, strict)
				t.Run(name, func(t *testing.T) {
					errs := c03Validate4(t, c.doc, cont, strict)
					if c.wantError && len(errs) == 0 {
						t.Errorf("a documented rule is broken but validation reports no error")
					}
					if !c.wantError && len(errs) > 0 {
						t.Errorf("every documented rule holds but validation reports:\n  %s", strings.Join(errs, "\n  "))
					}
				})
			}
		}
	}
}
