package validate_test

import (
	"encoding/json"
	"fmt"
	"strings"
	"testing"

	"github.com/go-openapi/loads"
	"github.com/go-openapi/strfmt"
	"github.com/go-openapi/validate"
)

// Array schemas without items that are written type: [array] or items: null escape the rule outside inline operation schemas.
//
// Property C03: spec validation reports no error when every documented rule holds,
// and reports an error as soon as one of them is broken - for both ContinueOnErrors
// settings and both StrictPathParamUniqueness settings.

type c03Case13 struct {
	name      string
	wantError bool // true: a documented rule is broken; false: every documented rule holds
	doc       string
}

var c03Cases13 = []c03Case13{
	{
		name:      "definition, type list",
		wantError: true,
		doc: `{
 "swagger": "2.0",
 "info": {
  "title": "t",
  "version": "1"
 },
 "paths": {},
 "definitions": {
  "A": {
   "type": [
    "array"
   ]
  }
 }
}`,
	},
	{
		name:      "definition property, type list",
		wantError: true,
		doc: `{
 "swagger": "2.0",
 "info": {
  "title": "t",
  "version": "1"
 },
 "paths": {},
 "definitions": {
  "A": {
   "type": "object",
   "properties": {
    "a": {
     "type": [
      "array"
     ]
    }
   }
  }
 }
}`,
	},
	{
		name:      "shared response schema, type list",
		wantError: true,
		doc: `{
 "swagger": "2.0",
 "info": {
  "title": "t",
  "version": "1"
 },
 "paths": {
  "/a": {
   "get": {
    "responses": {
     "200": {
      "$ref": "#/responses/r"
     }
    }
   }
  }
 },
 "responses": {
  "r": {
   "description": "ok",
   "schema": {
    "type": [
     "array"
    ]
   }
  }
 }
}`,
	},
	{
		name:      "definition, items: null",
		wantError: true,
		doc: `{
 "swagger": "2.0",
 "info": {
  "title": "t",
  "version": "1"
 },
 "paths": {},
 "definitions": {
  "A": {
   "type": "array",
   "items": null
  }
 }
}`,
	},
	{
		name:      "inline response schema, type list (control, passes)",
		wantError: true,
		doc: `{
 "swagger": "2.0",
 "info": {
  "title": "t",
  "version": "1"
 },
 "paths": {
  "/a": {
   "get": {
    "responses": {
     "200": {
      "description": "ok",
      "schema": {
       "type": [
        "array"
       ]
      }
     }
    }
   }
  }
 }
}`,
	},
	{
		name:      "definition, type: array (control, passes)",
		wantError: true,
		doc: `{
 "swagger": "2.0",
 "info": {
  "title": "t",
  "version": "1"
 },
 "paths": {},
 "definitions": {
  "A": {
   "type": "array"
  }
 }
}`,
	},
}

func c03Validate13(t *testing.T, raw string, cont, strict bool) []string {
	t.Helper()
	doc, err := loads.Analyzed(json.RawMessage(raw), "")
	if err != nil {
		t.Fatalf("cannot load: %v", err)
	}
	v := validate.NewSpecValidator(doc.Schema(), strfmt.Default)
	v.Options.ContinueOnErrors = cont
	v.Options.StrictPathParamUniqueness = strict
	errs, _ := v.Validate(doc)
	out := make([]string, 0, len(errs.Errors))
	for _, e := range errs.Errors {
		out = append(out, e.Error())
	}
	return out
}

func TestC03Finding13(t *testing.T) {
	for _, c := range c03Cases13 {
		for _, cont := range []bool{false, true} {
			for _, strict := range []bool{false, true} {
				name := fmt.Sprintf("%s/continue=%t/strict=%t", c.name, cont, strict)
				t.Run(name, func(t *testing.T) {
					errs := c03Validate13(t, c.doc, cont, strict)
					if c.wantError && len(errs) == 0 {
						t.Errorf("a documented rule is broken but validation reports no error")
					}
					if !c.wantError && len(errs) > 0 {
						t.Errorf("every documented rule holds but validation reports:\n  %s", strings.Join(errs, "\n  "))
					}
				})
			}
		}
	}
}
