package validate

import (
	"encoding/json"
	"testing"

	"github.com/go-openapi/spec"
)

// C06 finding 3: a document with an "id", in which some sub-schema carries an opaque-URI id
// (urn:..., tag:..., mailto:...). Every $ref is a local pointer that exists in the document,
// yet building the validator panics with the "invalid schema" message, whatever the data.
func TestC06_OpaqueURIIdInSubschema_NoPanic(t *testing.T) {
	cases := []struct{ name, schema string }{
		{
			name: "unrelated definition has a urn id",
			schema: `{
			  "id": "urn:example:root",
			  "type": "object",
			  "properties": {"b": {"$ref": "#/definitions/a"}},
			  "definitions": {
			    "a": {"type": "integer"},
			    "c": {"id": "urn:example:c", "type": "string"}
			  }
			}`,
		},
		{
			name: "http root id, referenced definition has a urn id",
			schema: `{
			  "id": "http://example.com/root.json",
			  "type": "object",
			  "properties": {"b": {"$ref": "#/definitions/a"}},
			  "definitions": {"a": {"id": "urn:example:a", "type": "integer"}}
			}`,
		},
	}
	for _, tc := range cases {
		tc := tc
		for _, dataJSON := range []string{`{"b":1}`, `{"b":"x"}`, `{}`, `null`} {
			dataJSON := dataJSON
			t.Run(tc.name+"/"+dataJSON, func(t *testing.T) {
				schema := new(spec.Schema)
				if err := json.Unmarshal([]byte(tc.schema), schema); err != nil {
					t.Fatalf("schema must decode: %v", err)
				}
				var data interface{}
				if err := json.Unmarshal([]byte(dataJSON), &data); err != nil {
					t.Fatal(err)
				}
				var (
					res      *Result
					panicked interface{}
				)
				func() {
					defer func() { panicked = recover() }()
					res = NewSchemaValidator(schema, nil, "", nil).Validate(data)
				}()
				if panicked != nil {
					t.Fatalf("all references resolve, but validation panicked: %v", panicked)
				}
				if res == nil {
					t.Fatal("expected a result")
				}
				if dataJSON == `{"b":1}` && !res.IsValid() {
					t.Errorf("expected %s to be valid, got %v", dataJSON, res.AsError())
				}
				if dataJSON == `{"b":"x"}` && res.IsValid() {
					t.Errorf("expected %s to be invalid", dataJSON)
				}
			})
		}
	}
}
