package validate

import (
	"encoding/json"
	"fmt"
	"testing"
	"time"

	"github.com/go-openapi/spec"
)

// C06 finding 2: a recursive definition whose cycle goes through allOf / anyOf / oneOf / not only.
// Every reference resolves, but building the validator recurses without bound: validation never
// returns (the goroutine stack grows until the runtime aborts the whole process with
// "fatal error: stack overflow", which cannot be recovered).
//
// NOTE: run this test on its own (go test -run TestC06_EagerRefCycle_Terminates -count=1 .):
// each failing case leaves a goroutine behind which keeps recursing.
func TestC06_EagerRefCycle_Terminates(t *testing.T) {
	cases := []struct {
		name, schema, data string
	}{
		{
			// "a" is: an integer, or (recursively) an "a". Well-founded: 1 is valid, "x" is not.
			name:   "anyOf with a base case",
			schema: `{"definitions":{"a":{"anyOf":[{"type":"integer"},{"$ref":"#/definitions/a"}]}},"properties":{"x":{"$ref":"#/definitions/a"}}}`,
			data:   `{"x":1}`,
		},
		{
			name:   "oneOf/not",
			schema: `{"definitions":{"expr":{"oneOf":[{"type":"number"},{"not":{"$ref":"#/definitions/expr"}}]}},"items":{"$ref":"#/definitions/expr"}}`,
			data:   `[1]`,
		},
		{
			name:   "mutual allOf",
			schema: `{"definitions":{"a":{"allOf":[{"$ref":"#/definitions/b"}]},"b":{"allOf":[{"$ref":"#/definitions/a"}]}},"properties":{"x":{"$ref":"#/definitions/a"}}}`,
			data:   `{"x":1}`,
		},
		{
			// cycle through a schema dependency: recursion happens in Validate (validateDependencies),
			// on the same instance, instead of in the constructor
			name:   "schema dependency",
			schema: `{"definitions":{"d":{"dependencies":{"a":{"$ref":"#/definitions/d"}}}},"dependencies":{"a":{"$ref":"#/definitions/d"}}}`,
			data:   `{"a":1}`,
		},
		{
			name:   "no definitions at all",
			schema: `{"not":{"not":{"$ref":"#/not"}}}`,
			data:   `1`,
		},
	}

	for _, tc := range cases {
		tc := tc
		t.Run(tc.name, func(t *testing.T) {
			schema := new(spec.Schema)
			if err := json.Unmarshal([]byte(tc.schema), schema); err != nil {
				t.Fatalf("schema must decode: %v", err)
			}
			var data interface{}
			if err := json.Unmarshal([]byte(tc.data), &data); err != nil {
				t.Fatal(err)
			}

			done := make(chan string, 1)
			go func() {
				defer func() {
					if r := recover(); r != nil {
						done <- fmt.Sprintf("panic: %v", r)
					}
				}()
				res := NewSchemaValidator(schema, nil, "", nil).Validate(data)
				if res == nil {
					done <- "nil result"
					return
				}
				done <- ""
			}()

			select {
			case msg := <-done:
				if msg != "" {
					t.Fatalf("validation did not return normally: %s", msg)
				}
			case <-time.After(3 * time.Second):
				t.Fatalf("validation of %s against %s did not terminate within 3s", tc.data, tc.schema)
			}
		})
	}
}
