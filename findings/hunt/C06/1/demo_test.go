package validate

import (
	"encoding/json"
	"fmt"
	"testing"

	"github.com/go-openapi/spec"
)

// C06 finding 1: a document whose root is a $ref to one of its own (recursive) definitions.
// Every reference resolves, yet validation panics with the "invalid schema" message as soon as
// the instance reaches the recursive property.
func TestC06_RootRefToRecursiveDefinition_NoPanic(t *testing.T) {
	const schemaJSON = `{
	  "$ref": "#/definitions/node",
	  "definitions": {
	    "node": {
	      "type": "object",
	      "properties": {
	        "value": {"type": "integer"},
	        "next":  {"$ref": "#/definitions/node"}
	      }
	    }
	  }
	}`

	for _, dataJSON := range []string{
		`{}`,                       // passes: the recursive property is never visited
		`{"value": 1}`,             // passes
		`{"value": 1, "next": {}}`, // panics
		`{"next": {"next": {"value": "x"}}}`, // panics (should report an invalid type)
	} {
		dataJSON := dataJSON
		t.Run(dataJSON, func(t *testing.T) {
			schema := new(spec.Schema)
			if err := json.Unmarshal([]byte(schemaJSON), schema); err != nil {
				t.Fatalf("schema must decode: %v", err)
			}
			var data interface{}
			if err := json.Unmarshal([]byte(dataJSON), &data); err != nil {
				t.Fatal(err)
			}

			var (
				res      *Result
				panicked interface{}
			)
			func() {
				defer func() { panicked = recover() }()
				res = NewSchemaValidator(schema, nil, "", nil).Validate(data)
			}()
			if panicked != nil {
				t.Fatalf("all references resolve, but validation panicked: %v", panicked)
			}
			if res == nil {
				t.Fatalf("expected a result")
			}
		})

		t.Run("AgainstSchema/"+dataJSON, func(t *testing.T) {
			schema := new(spec.Schema)
			if err := json.Unmarshal([]byte(schemaJSON), schema); err != nil {
				t.Fatalf("schema must decode: %v", err)
			}
			var data interface{}
			if err := json.Unmarshal([]byte(dataJSON), &data); err != nil {
				t.Fatal(err)
			}
			var panicked interface{}
			func() {
				defer func() { panicked = recover() }()
				_ = AgainstSchema(schema, data, nil)
			}()
			if panicked != nil {
				t.Fatalf("all references resolve, but AgainstSchema panicked: %v", fmt.Sprint(panicked))
			}
		})
	}
}
