package validate_test

import (
	"reflect"
	"testing"

	"github.com/go-openapi/spec"
	"github.com/go-openapi/strfmt"
	"github.com/go-openapi/validate"
)

// OUTSIDE the C20 statement (which only lists errors, warnings and match count):
// the root schemata of a merged result share their backing array with the operand.
func TestObs_RootSchemataAliasedWithOperand(t *testing.T) {
	mk := func(title string) *validate.Result {
		s := spec.StringProperty()
		s.Title = title
		return validate.NewSchemaValidator(s, nil, "", strfmt.Default).Validate("x")
	}
	titles := func(x *validate.Result) (out []string) {
		for _, s := range x.RootObjectSchemata() {
			out = append(out, s.Title)
		}
		return
	}

	a := new(validate.Result)
	a.Merge(mk("1"), mk("2"), mk("3")) // a.rootObjectSchemata.multiple: len 3, cap 4

	r := new(validate.Result)
	r.Merge(a)       // schemata.Append: *s = other  => r shares a's backing array
	r.Merge(mk("4")) // written in the spare slot of the shared array

	before := titles(r)
	a.Merge(mk("5")) // later change to the operand: overwrites the same slot
	after := titles(r)

	if !reflect.DeepEqual(before, after) {
		t.Errorf("root schemata of r changed when operand a was modified: %v -> %v", before, after)
	}
}
