package validate_test

import (
	"errors"
	"testing"

	"github.com/go-openapi/spec"
	"github.com/go-openapi/strfmt"
	"github.com/go-openapi/validate"
)

// Two results obtained from the public API are modelled as two independent
// ordered sets {errors: [], warnings: [], matchCount: 1}. Adding an error to
// one of them must not change the other one, nor any result computed later.
func TestC20_EmptyResultIsASharedMutableGlobal(t *testing.T) {
	// NewSchemaValidator documents nothing special for a nil schema: it returns a nil
	// *SchemaValidator, whose Validate() is nil-safe and returns "an empty result".
	r1 := validate.NewSchemaValidator(nil, nil, "", strfmt.Default).Validate(1)
	r2 := validate.NewSchemaValidator(nil, nil, "", strfmt.Default).Validate(2)

	t.Cleanup(func() { // do not poison the other tests of the package
		r1.Errors, r1.Warnings, r1.MatchCount = nil, nil, 1
	})

	if !r1.IsValid() || !r2.IsValid() || r1.MatchCount != 1 || r2.MatchCount != 1 {
		t.Fatalf("unexpected initial state")
	}

	// a step of the history: AddErrors + Inc on r1 only
	r1.AddErrors(errors.New("boom"))
	r1.Inc()

	// model: r2 is still {[], [], 1}
	if !r2.IsValid() {
		t.Errorf("r2 must still be valid, but got errors %v after r1.AddErrors", r2.Errors)
	}
	if r2.MatchCount != 1 {
		t.Errorf("r2.MatchCount must still be 1, got %d after r1.Inc", r2.MatchCount)
	}

	// a fresh empty result must be empty
	r3 := validate.NewSchemaValidator(nil, nil, "", strfmt.Default).Validate(3)
	if !r3.IsValid() || r3.MatchCount != 1 {
		t.Errorf("a fresh empty result is not empty: errors=%v matchCount=%d", r3.Errors, r3.MatchCount)
	}

	// the message leaks in every result computed afterwards, since the internal type validator
	// merges the very same global on every successful type check
	if err := validate.AgainstSchema(spec.StringProperty(), "abc", strfmt.Default); err != nil {
		t.Errorf(`"abc" no more validates against {type: string}: %v`, err)
	}
	res := validate.NewSchemaValidator(spec.StringProperty(), nil, "", strfmt.Default).Validate("abc")
	if !res.IsValid() {
		t.Errorf("unrelated result got a message nobody added to it or to any of its operands: %v", res.Errors)
	}
}
