package validate_test

import (
	"testing"

	"github.com/go-openapi/validate"
)

// "all queries tolerate a nil result"
func TestC20_QueriesOnNilResult(t *testing.T) {
	var r *validate.Result

	try := func(name string, query func()) {
		t.Helper()
		defer func() {
			if e := recover(); e != nil {
				t.Errorf("%s() does not tolerate a nil *Result: %v", name, e)
			}
		}()
		query()
	}

	// these ones are fine
	try("IsValid", func() { _ = r.IsValid() })
	try("HasErrors", func() { _ = r.HasErrors() })
	try("HasWarnings", func() { _ = r.HasWarnings() })
	try("HasErrorsOrWarnings", func() { _ = r.HasErrorsOrWarnings() })
	try("AsError", func() { _ = r.AsError() })

	// these ones panic
	try("Data", func() { _ = r.Data() })
	try("RootObjectSchemata", func() { _ = r.RootObjectSchemata() })
	try("FieldSchemata", func() { _ = r.FieldSchemata() })
	try("ItemSchemata", func() { _ = r.ItemSchemata() })
}
