package validate_test

import (
	"testing"

	"github.com/go-openapi/validate"
)

// "Adding or merging errors and warnings [...] ignores nils"; "validity is exactly the absence of errors".
//
// All value validators exported by this package (MinLength, Required, Enum, Pattern, ...) return a
// *errors.Validation which is nil on success. Passing such a nil to AddErrors / AddWarnings is not ignored.
func TestC20_TypedNilErrorIsNotIgnored(t *testing.T) {
	defer func() {
		if e := recover(); e != nil {
			t.Errorf("adding a nil error panics: %v", e)
		}
	}()

	ok := validate.MinLength("name", "body", "abc", 1) // valid: returns (*errors.Validation)(nil)
	if ok != nil {
		t.Fatalf("expected a nil validation error")
	}

	r := new(validate.Result)
	r.AddErrors(ok)
	r.AddWarnings(ok)

	if len(r.Errors) != 0 || len(r.Warnings) != 0 {
		t.Errorf("nil must be ignored, got %d errors and %d warnings", len(r.Errors), len(r.Warnings))
	}
	if !r.IsValid() || r.HasErrors() || r.HasWarnings() {
		t.Errorf("no message was ever added, but IsValid=%t HasErrors=%t HasWarnings=%t", r.IsValid(), r.HasErrors(), r.HasWarnings())
	}

	// merging such a result propagates the nil (Merge only skips untyped nils) ...
	total := new(validate.Result)
	total.MergeAsErrors(r)
	if !total.IsValid() {
		t.Errorf("merged result must be valid, got %d errors", len(total.Errors))
	}

	// ... and the next addition, of anything, panics in the de-duplication loop (nil pointer dereference
	// in (*errors.Validation).Error)
	r.AddErrors(validate.MaxLength("name", "body", "abc", 1))
	if len(r.Errors) != 1 {
		t.Errorf("expected exactly one error, got %d", len(r.Errors))
	}
}
