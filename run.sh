#!/bin/bash
# Entry point of every registered check: ./run.sh <property-id> [quick|thorough]   |   ./run.sh replay <path>
# Rebuilds the checker when its sources are newer than the binary; always analyses /repo's working tree as it is.
set -u
cd "$(dirname "$0")"
export GOFLAGS=-mod=mod GOPROXY=off GOSUMDB=off GOTOOLCHAIN=local CGO_ENABLED=0
unset GOWORK
REPO="${VERIF_REPO:-/repo}"
build() {
  if [ ! -x bin/vchk ] || [ -n "$(find checker -newer bin/vchk -type f \( -name '*.go' -o -name 'go.mod' -o -name '*.json' \) -print -quit)" ]; then
    mkdir -p bin
    (cd checker && go build -o ../bin/vchk.tmp.$$ ./cmd/vchk) && mv bin/vchk.tmp.$$ bin/vchk || { echo "checker build failed"; rm -f bin/vchk.tmp.$$; exit 2; }
  fi
}
case "${1:-}" in
  build) build ;;
  replay)
    build
    f="${2:?replay file}"
    id=$(python3 -c 'import json,sys; print(json.load(open(sys.argv[1]))["property"])' "$f") || exit 2
    key=$(python3 -c 'import json,sys; print(json.load(open(sys.argv[1]))["obligation"]["key"])' "$f")
    echo "replaying obligation $key of property $id against $REPO"
    ./bin/vchk -repo "$REPO" -verif "$(pwd)" -tier quick -only "$key" "$id"
    ;;
  "") echo "usage: $0 <property-id> [quick|thorough] | replay <file> | build"; exit 2 ;;
  *)
    build
    tier="${2:-${VERIF_TIER:-quick}}"
    exec ./bin/vchk -repo "$REPO" -verif "$(pwd)" -tier "$tier" "$1"
    ;;
esac
