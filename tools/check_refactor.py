#!/usr/bin/env python3
"""usage: tools/check_refactor.py <patch.diff>...  — for behaviour-preserving edits: apply each to a scratch export of
/repo HEAD and list every obligation that is violated/undecided with the patch but not on the clean tree. Any line
printed is a false alarm of the checker (or an edit that is not behaviour-preserving after all)."""
import sys, os, tempfile, shutil, subprocess
sys.path.insert(0, os.path.dirname(os.path.abspath(__file__)))
import mkwitnesses as M
from concurrent.futures import ThreadPoolExecutor

def main():
    subprocess.check_call(["./run.sh", "build"], cwd=M.V)
    scr = tempfile.mkdtemp(prefix="vscr."); ev = M.evdir(); M.export(scr)
    with ThreadPoolExecutor(8) as ex:
        base = dict(zip(M.IDS, ex.map(lambda pid: M.keys(scr, ev, pid), M.IDS)))
    shutil.rmtree(scr, ignore_errors=True); shutil.rmtree(ev, ignore_errors=True)
    def one(patch):
        scr = tempfile.mkdtemp(prefix="vscr."); ev = M.evdir()
        try:
            M.export(scr)
            p = subprocess.run("patch -p1 -s -f < %s" % os.path.abspath(patch), shell=True, cwd=scr, capture_output=True, text=True)
            if p.returncode != 0:
                return patch, None
            out = {}
            for pid in M.IDS:
                new = sorted(M.keys(scr, ev, pid) - base[pid])
                if new: out[pid] = new
            return patch, out
        finally:
            shutil.rmtree(scr, ignore_errors=True); shutil.rmtree(ev, ignore_errors=True)
    with ThreadPoolExecutor(4) as ex:
        for patch, out in ex.map(one, sys.argv[1:]):
            if out is None: print("%s: DOES NOT APPLY" % patch)
            elif not out: print("%s: silent (no new violation in any of the 20 checks)" % patch)
            else:
                for pid, ks in out.items():
                    for k in ks: print("%s: FALSE ALARM? %s %s" % (patch, pid, k))
main()
