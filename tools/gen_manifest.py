#!/usr/bin/env python3
"""Regenerates /verif/MANIFEST.json from the table below (kept here so the manifest stays consistent)."""
import json, os
V = os.path.dirname(os.path.dirname(os.path.abspath(__file__)))
props = [json.loads(l) for l in open(os.path.join(V, "properties.jsonl"))]
claims = json.load(open(os.path.join(V, "tools", "claims.json")))
checks, na = [], []
for p in props:
    c = claims.get(p["id"])
    if not c or c.get("not_applicable"):
        na.append({"property_id": p["id"], "reason": (c or {}).get("not_applicable", "no check registered yet in this commit (static rules for it are still being built; see DESIGN.md section 4)")})
        continue
    checks.append({
        "property_id": p["id"],
        "quick_cmd": f"./run.sh {p['id']} quick",
        "thorough_cmd": f"./run.sh {p['id']} thorough",
        "evidence_file": f"/verif/evidence/{p['id']}.json",
        "replay_cmd_template": "./run.sh replay {path}",
        "engine": "vchk",
        "level_claimed": {"category": "other", "text": c["text"], "design_ref": c.get("design_ref", "DESIGN.md section 4")},
        "level_note": c["note"],
        "technique": c["technique"],
    })
m = {
    "version": 1,
    "setup_cmd": "./run.sh build",
    "hooks": {
        "guard": "verif",
        "enable": "no hooks: nothing of the subject is executed; the checks parse and type-check /repo's working tree (default build and -tags validatedebug)",
        "baseline_off_cmd": "cd /repo && GOFLAGS=-mod=mod GOPROXY=off GOSUMDB=off go test -vet=off -count=1 -timeout 25m ./...",
        "source_commits": [],
        "add_only": True,
    },
    "engines": [{
        "name": "vchk",
        "path": "/verif/checker",
        "serves_properties": [c["property_id"] for c in checks],
        "kind_free_text": "repository-specific static analyses over go/packages + go/ssa (dataflow, typestate, lockset, effect, call-graph and sibling-agreement rules); obligations keyed by rule+function+construct; floors on instance counts",
    }],
    "checks": checks,
    "not_applicable": na,
    "notes": "All checks are static analysis (level 'other'): they decide structural necessary conditions of each property on every path of the current source, not the behaviour itself; each evidence file states what is and is not decided. Genuine defects found are either repaired by 'fix:' commits in /repo or listed in /verif/known_findings.json.",
}
json.dump(m, open(os.path.join(V, "MANIFEST.json"), "w"), indent=1)
print("checks:", [c["property_id"] for c in checks], "n/a:", len(na))
