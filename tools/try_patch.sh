#!/bin/bash
# usage: try_patch.sh <patch.diff> <property-id>...   — applies the patch to a scratch copy of /repo
# (never to /repo itself), runs the named checks against the clean copy and the patched copy with a
# scratch evidence dir, prints the violations that are NEW with the patch, removes the copies.
# exit 0 if at least one named check reports a new violation (the seeded change is caught), 1 otherwise.
set -u
V="$(cd "$(dirname "$0")/.." && pwd)"
patch="$(realpath "$1")"; shift
scr=$(mktemp -d /tmp/vscr.XXXXXX); ev=$(mktemp -d /tmp/vev.XXXXXX)
trap 'rm -rf "$scr" "$ev"' EXIT
git -C /repo archive HEAD | tar -x -C "$scr"
(cd /repo && git diff HEAD) > "$ev/wt.diff"; [ -s "$ev/wt.diff" ] && (cd "$scr" && patch -p1 -s < "$ev/wt.diff")
cp "$V/known_findings.json" "$ev/"; mkdir -p "$ev/tables"; cp "$V/tables/anchors.json" "$ev/tables/" 2>/dev/null
(cd "$V" && ./run.sh build) || exit 2
for id in "$@"; do "$V/bin/vchk" -repo "$scr" -verif "$ev" -tier "${TIER:-quick}" "$id" 2>&1 | grep -E '\] (VIOLATED|UNDECIDED) ' | sed -E 's/^[^ ]+ //' | sort > "$ev/base.$id"; done
if ! (cd "$scr" && patch -p1 -s -f < "$patch" >/dev/null); then echo "PATCH DOES NOT APPLY: $patch"; exit 3; fi
caught=1
for id in "$@"; do
  "$V/bin/vchk" -repo "$scr" -verif "$ev" -tier "${TIER:-quick}" "$id" 2>&1 | grep -E '\] (VIOLATED|UNDECIDED) ' | sed "s#$scr/##" > "$ev/new.$id.full"
  sed -E 's/^[^ ]+ //' "$ev/new.$id.full" | sort > "$ev/new.$id"
  if comm -13 "$ev/base.$id" "$ev/new.$id" | grep -q .; then caught=0; echo "== $id CAUGHT ($(comm -13 "$ev/base.$id" "$ev/new.$id" | wc -l) new)"; comm -13 "$ev/base.$id" "$ev/new.$id" | cut -c1-${WIDTH:-330} | head -${LINES_MAX:-5}; else echo "== $id silent"; fi
done
exit $caught
