#!/bin/bash
# usage: try_patch.sh <patch.diff> <property-id>...   — applies the patch to a scratch copy of /repo
# (never to /repo itself), runs the named checks against the copy with a scratch evidence dir, removes the copy.
# exit 0 if at least one named check reports a VIOLATION (the seeded change is caught), 1 otherwise.
set -u
V="$(cd "$(dirname "$0")/.." && pwd)"
patch="$1"; shift
scr=$(mktemp -d /tmp/vscr.XXXXXX); ev=$(mktemp -d /tmp/vev.XXXXXX)
trap 'rm -rf "$scr" "$ev"' EXIT
git -C /repo archive HEAD | tar -x -C "$scr"
# carry uncommitted working-tree changes of /repo too
(cd /repo && git diff HEAD) | (cd "$scr" && git apply --allow-empty 2>/dev/null || true)
if ! (cd "$scr" && git apply --recount "$patch" 2>/dev/null || patch -p1 -s -f < "$patch" >/dev/null); then echo "PATCH DOES NOT APPLY: $patch"; exit 3; fi
cp "$V/known_findings.json" "$ev/"
(cd "$V" && ./run.sh build) || exit 2
caught=1
for id in "$@"; do
  out=$("$V/bin/vchk" -repo "$scr" -verif "$ev" -tier "${TIER:-quick}" "$id" 2>&1)
  if echo "$out" | grep -q '^VIOLATION'; then caught=0; echo "== $id CAUGHT"; echo "$out" | grep -v '^VIOLATION\|^KNOWN-FINDING\|^property=' | sed "s#$scr/##" | head -${LINES_MAX:-6}; else echo "== $id silent"; fi
done
exit $caught
