#!/usr/bin/env python3
"""Regenerates tables/witnesses.json and seeded/INDEX.md.

For every kept seeded change (seeded/*/patch.diff) and hand-made mutant (mutants/*.diff): apply it to a
scratch export of /repo HEAD (outside /repo and /verif, removed at once), run all 20 checks with `vchk -keys`
and record which properties report a violated obligation that is not violated on the clean tree.
Nothing is executed from the subject: this is the checker run on a variant of the source.
usage: tools/mkwitnesses.py [-j N] [--only <glob under /verif, e.g. "seeded/r7-*/patch.diff">]
       with --only, only the matching patches are run and their rows are merged into the existing tables
"""
import json, os, subprocess, sys, tempfile, shutil, glob
from concurrent.futures import ThreadPoolExecutor

V = os.path.dirname(os.path.dirname(os.path.abspath(__file__)))
REPO = os.environ.get("VERIF_REPO", "/repo")
IDS = ["C%02d" % i for i in range(1, 21)]
ENV = dict(os.environ, GOFLAGS="-mod=mod", GOPROXY="off", GOSUMDB="off", GOTOOLCHAIN="local")
ENV.pop("GOWORK", None)


def keys(repo, ev, pid):
    o = subprocess.run([os.path.join(V, "bin", "vchk"), "-repo", repo, "-verif", ev, "-keys", pid],
                       capture_output=True, text=True, env=ENV)
    lines = o.stdout.strip().split("\n")
    try:
        return set(json.loads(lines[-1]) or [])
    except Exception:
        return {"<checker failed: %s>" % (o.stderr.strip()[-200:])}


def export(dst):
    subprocess.check_call("git -C %s archive HEAD | tar -x -C %s" % (REPO, dst), shell=True)


def evdir():
    ev = tempfile.mkdtemp(prefix="vev.")
    shutil.copy(os.path.join(V, "known_findings.json"), ev)
    os.makedirs(os.path.join(ev, "tables"), exist_ok=True)
    for t in glob.glob(os.path.join(V, "tables", "*.json")):
        if os.path.basename(t) != "witnesses.json":
            shutil.copy(t, os.path.join(ev, "tables"))
    return ev


def one(patch, base):
    scr = tempfile.mkdtemp(prefix="vscr.")
    ev = evdir()
    try:
        export(scr)
        p = subprocess.run("patch -p1 -s -f < %s" % os.path.join(V, patch), shell=True, cwd=scr,
                           capture_output=True, text=True)
        if p.returncode != 0:
            return patch, None, {}
        caught = {}
        for pid in IDS:
            new = sorted(keys(scr, ev, pid) - base[pid])
            if new:
                caught[pid] = new
        return patch, sorted(caught), caught
    finally:
        shutil.rmtree(scr, ignore_errors=True)
        shutil.rmtree(ev, ignore_errors=True)


def main():
    j = 6
    if "-j" in sys.argv:
        j = int(sys.argv[sys.argv.index("-j") + 1])
    subprocess.check_call(["./run.sh", "build"], cwd=V)
    scr = tempfile.mkdtemp(prefix="vscr.")
    ev = evdir()
    export(scr)
    with ThreadPoolExecutor(j) as ex:
        base = dict(zip(IDS, ex.map(lambda pid: keys(scr, ev, pid), IDS)))
    shutil.rmtree(scr, ignore_errors=True)
    shutil.rmtree(ev, ignore_errors=True)
    patches = sorted(glob.glob("seeded/*/patch.diff", root_dir=V)) + sorted(glob.glob("mutants/*.diff", root_dir=V))
    only = None
    if "--only" in sys.argv:
        only = set(glob.glob(sys.argv[sys.argv.index("--only") + 1], root_dir=V))
        patches = [p for p in patches if p in only]
    with ThreadPoolExecutor(j) as ex:
        res = list(ex.map(lambda p: one(p, base), patches))
    wits, rows = [], []
    for patch, ids, detail in res:
        meta = {}
        mp = os.path.join(V, os.path.dirname(patch), "meta.json")
        if patch.startswith("seeded/") and os.path.exists(mp):
            meta = json.load(open(mp))
        target = meta.get("breaks_property") or meta.get("property") or ""
        if ids is None:
            rows.append((patch, target, "does not apply to HEAD", ""))
            continue
        if ids:
            wits.append({"patch": patch, "caught_by": ids})
        first = "; ".join("%s: %s" % (k, detail[k][0]) for k in ids[:3])
        own = "yes" if target in ids else ("n/a" if not target else "NO")
        rows.append((patch, target, ", ".join(ids) if ids else "— (not detected)", own, first))
    if only is not None:
        old = [w for w in json.load(open(os.path.join(V, "tables", "witnesses.json"))) if w["patch"] not in only]
        wits = sorted(old + wits, key=lambda w: (not w["patch"].startswith("seeded/"), w["patch"]))
        oldrows = []
        for l in open(os.path.join(V, "seeded", "INDEX.md")):
            if l.startswith("| seeded/") or l.startswith("| mutants/"):
                c = [x.strip() for x in l.strip().strip("|").split(" | ")]
                if c[0] not in only:
                    oldrows.append(tuple(c[:4] + [" | ".join(c[4:]).replace("\\|", "|")]))
        rows = sorted(oldrows + rows, key=lambda r: (not r[0].startswith("seeded/"), r[0]))
    json.dump(wits, open(os.path.join(V, "tables", "witnesses.json"), "w"), indent=1)
    with open(os.path.join(V, "seeded", "INDEX.md"), "w") as f:
        f.write("# Seeded changes and mutants: which checks report a new violation\n\n")
        f.write("Generated by `tools/mkwitnesses.py` (checker run on a scratch copy with the patch applied; new = not\n")
        f.write("violated on the clean tree). `own` = the property the change was written to break is among the catchers.\n\n")
        f.write("| patch | written to break | caught by | own | first new obligation |\n|---|---|---|---|---|\n")
        for r in rows:
            r = list(r) + [""] * (5 - len(r))
            f.write("| %s | %s | %s | %s | %s |\n" % (r[0], r[1], r[2], r[3], r[4].replace("|", "\\|")[:300]))
    for r in rows:
        print(" ".join(str(x) for x in r[:4]))


if __name__ == "__main__":
    main()
