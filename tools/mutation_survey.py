#!/usr/bin/env python3
"""Mutation survey of the checker (development tooling, not a registered check).

For each syntactic mutation enumerated by checker/cmd/mutgen (operator swaps, negated conditions, dropped
statements/defers, literal changes, swapped arguments) on a scratch export of /repo HEAD (under /tmp/mut,
removed at once):
  1. does it compile?                      no  -> "nocompile"
  2. does the pinned suite still pass?     no  -> "killed"   (screening run skips Test_ParallelPool, 58 s of
     the suite's 95; survivors that no check reports are re-run with the whole suite by --confirm)
  3. survivors: run all 20 checks (`vchk -keys`) and record which report a violated obligation that the clean
     tree does not have.
Survivors that no check reports are the interesting output: each is either an equivalent mutant, outside every
property, or a gap in the rules. Results stream to /tmp/mut/results.jsonl (resumable); survivor diffs go to
/tmp/mut/surv/.

usage: tools/mutation_survey.py [-j N] [--limit N] [--files a.go,b.go] [--mode token|sibling] [--confirm]
(--mode sibling: identifiers replaced by a sibling — min/max, error/warning, path/in, one keyword for another)
"""
import json, os, random, subprocess, sys, tempfile, shutil, glob, threading
from concurrent.futures import ThreadPoolExecutor

V = os.path.dirname(os.path.dirname(os.path.abspath(__file__)))
REPO = "/repo"
ROOT = "/tmp/mut"
IDS = ["C%02d" % i for i in range(1, 21)]
ENV = dict(os.environ, GOFLAGS="-mod=mod", GOPROXY="off", GOSUMDB="off", GOTOOLCHAIN="local")
ENV.pop("GOWORK", None)
SKIP_FILES = {"pools_debug.go", "debug.go", "spec_messages.go", "schema_messages.go", "doc.go"}
OFFLINE_FAIL = "ExampleSpec_second|ExampleSpecValidator_Validate_url"
lock = threading.Lock()


def sh(cmd, cwd=None, timeout=None):
    try:
        return subprocess.run(cmd, shell=True, cwd=cwd, env=ENV, capture_output=True, text=True, timeout=timeout)
    except subprocess.TimeoutExpired:
        class R:
            returncode, stdout, stderr = 124, "", "timeout"
        return R()


def export(dst):
    subprocess.check_call("git -C %s archive HEAD | tar -x -C %s" % (REPO, dst), shell=True)


def evdir():
    ev = tempfile.mkdtemp(prefix="ev.", dir=ROOT)
    shutil.copy(os.path.join(V, "known_findings.json"), ev)
    os.makedirs(os.path.join(ev, "tables"), exist_ok=True)
    for t in glob.glob(os.path.join(V, "tables", "*.json")):
        if os.path.basename(t) != "witnesses.json":
            shutil.copy(t, os.path.join(ev, "tables"))
    return ev


def keys(repo, ev, pid):
    o = sh("%s/vchk -repo %s -verif %s -keys %s" % (ROOT, repo, ev, pid))
    try:
        return set(json.loads(o.stdout.strip().split("\n")[-1]) or [])
    except Exception:
        return {"<checker failed: %s>" % o.stderr.strip()[-200:]}


def suite(scr, full):
    skip = OFFLINE_FAIL if full else OFFLINE_FAIL + "|Test_ParallelPool"
    return sh("unshare -n sh -c 'ip link set lo up; go test -vet=off -count=1 -failfast -timeout 300s -skip \"^(%s)$\" ./...'" % skip,
              cwd=scr, timeout=400)


def apply(scr, m):
    p = os.path.join(scr, m["file"])
    b = open(p, "rb").read()
    assert b[m["start"]:m["end"]].decode() == m["old"], m
    open(p, "wb").write(b[:m["start"]] + m["new"].encode() + b[m["end"]:])


def one(m, base, out):
    scr = tempfile.mkdtemp(prefix="s.", dir=ROOT)
    ev = None
    try:
        export(scr)
        apply(scr, m)
        r = dict(m)
        if sh("go build ./...", cwd=scr, timeout=300).returncode != 0:
            r["status"] = "nocompile"
        else:
            t = suite(scr, False)
            if t.returncode != 0:
                r["status"] = "killed"
            else:
                r["status"] = "survived"
                clean = tempfile.mkdtemp(prefix="c.", dir=ROOT)
                export(clean)
                d = sh("diff -u %s/%s %s/%s" % (clean, m["file"], scr, m["file"])).stdout
                d = d.replace(clean + "/", "a/").replace(scr + "/", "b/")
                shutil.rmtree(clean, ignore_errors=True)
                open(os.path.join(ROOT, "surv", "%s.diff" % m["id"]), "w").write(d)
                ev = evdir()
                caught = {}
                for pid in IDS:
                    new = sorted(keys(scr, ev, pid) - base[pid])
                    if new:
                        caught[pid] = new
                r["caught_by"] = caught
        with lock:
            out.write(json.dumps(r) + "\n")
            out.flush()
        print(r["id"], r["file"], r["line"], r["kind"], r["status"], ",".join(sorted(r.get("caught_by", {}))), flush=True)
    finally:
        shutil.rmtree(scr, ignore_errors=True)
        if ev:
            shutil.rmtree(ev, ignore_errors=True)


def confirm():
    """re-run survivors that no check reports with the whole suite (incl. Test_ParallelPool)"""
    res = [json.loads(l) for l in open(os.path.join(ROOT, "results.jsonl"))]
    done = set()
    cf = os.path.join(ROOT, "confirmed.jsonl")
    if os.path.exists(cf):
        done = {json.loads(l)["id"] for l in open(cf)}
    todo = [r for r in res if r["status"] == "survived" and not r["caught_by"] and r["id"] not in done]
    out = open(cf, "a")

    def c(r):
        scr = tempfile.mkdtemp(prefix="s.", dir=ROOT)
        try:
            export(scr)
            apply(scr, r)
            t = sh("unshare -n sh -c 'ip link set lo up; go test -vet=off -count=1 -timeout 300s -run \"^Test_ParallelPool$\" .'", cwd=scr, timeout=400)
            with lock:
                out.write(json.dumps({"id": r["id"], "full_suite": "pass" if t.returncode == 0 else "fail"}) + "\n")
                out.flush()
            print(r["id"], "full:", t.returncode, flush=True)
        finally:
            shutil.rmtree(scr, ignore_errors=True)

    with ThreadPoolExecutor(3) as ex:
        list(ex.map(c, todo))


def main():
    a = sys.argv[1:]
    j = int(a[a.index("-j") + 1]) if "-j" in a else 8
    limit = int(a[a.index("--limit") + 1]) if "--limit" in a else None
    files = set(a[a.index("--files") + 1].split(",")) if "--files" in a else None
    os.makedirs(os.path.join(ROOT, "surv"), exist_ok=True)
    if "--confirm" in a:
        return confirm()
    if not os.path.exists(os.path.join(ROOT, "vchk")):
        subprocess.check_call("go build -o %s/vchk ./cmd/vchk && go build -o %s/mutgen ./cmd/mutgen" % (ROOT, ROOT),
                              shell=True, cwd=os.path.join(V, "checker"), env=ENV)
    mode = a[a.index("--mode") + 1] if "--mode" in a else "token"
    muts = [json.loads(l) for l in subprocess.run([ROOT + "/mutgen", "-repo", REPO, "-mode", mode] + (["-typecheck"] if mode != "token" else []), capture_output=True, text=True).stdout.splitlines()]
    for i, m in enumerate(muts):
        m["id"] = {"token": "m", "sibling": "s", "block": "b"}[mode] + "%04d" % i
    muts = [m for m in muts if os.path.basename(m["file"]) not in SKIP_FILES and (not files or m["file"] in files)]
    random.Random(7).shuffle(muts)
    rf = os.path.join(ROOT, "results.jsonl" if mode == "token" else "results_%s.jsonl" % mode)
    done = set()
    if os.path.exists(rf):
        done = {json.loads(l)["id"] for l in open(rf)}
    muts = [m for m in muts if m["id"] not in done]
    if limit:
        muts = muts[:limit]
    print("mutants to run:", len(muts), flush=True)
    # sanity: the clean tree passes the screening suite; baseline keys
    scr = tempfile.mkdtemp(prefix="s.", dir=ROOT)
    export(scr)
    ev = evdir()
    with ThreadPoolExecutor(j) as ex:
        base = dict(zip(IDS, ex.map(lambda pid: keys(scr, ev, pid), IDS)))
    if "--no-sanity" not in a:
        t = suite(scr, False)
        if t.returncode != 0:
            print(t.stdout[-2000:])
            sys.exit("screening suite fails on the clean tree")
    shutil.rmtree(scr, ignore_errors=True)
    shutil.rmtree(ev, ignore_errors=True)
    out = open(rf, "a")
    with ThreadPoolExecutor(j) as ex:
        list(ex.map(lambda m: one(m, base, out), muts))


if __name__ == "__main__":
    main()
