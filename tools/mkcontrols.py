import json
C=[]
def add(id, prop, file, old, new, expect, quick=True, old2=None, new2=None):
    d=dict(id=id, property=prop, file=file, old=old, new=new, expect=expect, quick=quick)
    if old2 is not None:
        d["old2"]=old2; d["new2"]=new2
    C.append(d)
# C04
add("cleared-forgets-data","C04","result.go","\tr.data = nil\n","","POOL-CLEARED:cleared:Result.data")
add("ctor-forgets-field","C04","validator.go","\tn.ExclusiveMinimum = exclusiveMinimum\n","","POOL-CTOR:newNumberValidator:numberValidator.ExclusiveMinimum")
add("read-after-merge","C04","spec.go","(map iteration order)\n\t\t\t\tres.Merge(red)\n","(map iteration order)\n\t\t\t\tres.Merge(red)\n\t\t\t\t_ = red.IsValid()\n","RES-LINEAR:(*SpecValidator).validateRequiredDefinitions", quick=False)
add("empty-result-guard-removed","C04","pools.go","\tif s == emptyResult {\n\t\treturn\n\t}\n","","POOL-API:empty-guard", quick=False)
add("released-through-alias","C04","schema_props.go","\t\t\tbestFailures = result\n\n\t\t\tcontinue\n\t\t}\n\n\t\tif result.wantsRedeemOnMerge {\n\t\t\tpools.poolOfResults.RedeemResult(result) // this result is ditched\n\t\t}\n\t}\n\n\tmainResult.AddErrors(mustValidateAtLeastOneSchemaMsg","\t\t\tbestFailures = result\n\t\t}\n\n\t\tif result.wantsRedeemOnMerge {\n\t\t\tpools.poolOfResults.RedeemResult(result) // this result is ditched\n\t\t}\n\t}\n\n\tmainResult.AddErrors(mustValidateAtLeastOneSchemaMsg","RES-LINEAR:(*schemaPropsValidator).validateAnyOf:bestFailures", quick=False)
# C05
add("unlocked-default-opts","C05","spec.go","\tdefaultOptsMutex.Lock()\n\topts := defaultOpts\n\tdefaultOptsMutex.Unlock()\n","\topts := defaultOpts\n","LOCKSET:defaultOpts:read:NewSpecValidator")
add("cache-updated-in-place","C05","rexp.go","\t\t\tnewCache[k] = v\n","\t\t\tnewCache[k] = v\n\t\t\tcache[k] = v\n","COW:published-map-written", quick=False)
add("shared-slice-written","C05","context.go","\tif err := Enum(\"\", \"\", res, operationTypeEnum); err != nil {","\toperationTypeEnum[0] = request\n\tif err := Enum(\"\", \"\", res, operationTypeEnum); err != nil {","SHARED-REACH:extractOperationType", quick=False)
# C15
add("cache-updated-in-place","C15","rexp.go","\t\t\tnewCache[k] = v\n","\t\t\tnewCache[k] = v\n\t\t\tcache[k] = v\n","COW:published-map-written")
add("compile-error-swallowed","C15","rexp.go","\tr, err := re.Compile(pattern)\n\tif err != nil {\n\t\treturn nil, err\n\t}\n","\tr, err := re.Compile(pattern)\n\tif err != nil {\n\t\treturn nil, nil\n\t}\n","COW:lookup:compileRegexp", quick=False)
# C11
add("slot-cleared-after-run","C11","schema_props.go","\tnotValidator := s.notValidator\n\tif s.Options.recycleValidators {\n\t\t// relinquish the child before it runs (and redeems itself)\n\t\ts.notValidator = nil\n\t}\n\tresult := notValidator.Validate(data)\n","\tnotValidator := s.notValidator\n\tresult := notValidator.Validate(data)\n\tif s.Options.recycleValidators {\n\t\ts.notValidator = nil\n\t}\n","SLOT-PRECLEAR:(*schemaPropsValidator).validateNot")
# C08
add("unguarded-slot-clear","C08","schema_props.go","\tnotValidator := s.notValidator\n\tif s.Options.recycleValidators {\n\t\t// relinquish the child before it runs (and redeems itself)\n\t\ts.notValidator = nil\n\t}\n","\tnotValidator := s.notValidator\n\ts.notValidator = nil\n","STATELESS:(*schemaPropsValidator)")
# C06
add("division-guard-removed","C06","values.go","func MultipleOfUint(path, in string, data, factor uint64) *errors.Validation {\n\t// multipleOf factor must be positive\n\tif factor == 0 {\n\t\treturn errors.MultipleOfMustBePositive(path, in, factor)\n\t}\n","func MultipleOfUint(path, in string, data, factor uint64) *errors.Validation {\n","D-DIV:MultipleOfUint")
add("additional-items-bound","C06","slice_validator.go","for i := itemsSize; i < size; i++ {","for i := itemsSize; i < size-itemsSize+1; i++ {","D-BOUND:(*schemaSliceValidator).Validate", quick=False)
add("unchecked-string-assert","C06","validator.go","\tdata, ok := val.(string)\n\tif !ok {\n\t\treturn errorHelp.sErr(errors.InvalidType(s.Path, s.In, stringType, val), s.Options.recycleResult)\n\t}\n","\tdata := val.(string)\n","D-DYN:(*stringValidator).Validate", quick=False)
# C07
add("nil-result-dereferenced","C07","default_validator.go","\t\t} else if red != nil && red.wantsRedeemOnMerge {\n\t\t\tpools.poolOfResults.RedeemResult(red)\n\t\t}\n\t}\n\treturn res\n}\n\nfunc (d *defaultValidator) validateDefaultValueSchemaAgainstSchema","\t\t} else if red.wantsRedeemOnMerge {\n\t\t\tpools.poolOfResults.RedeemResult(red)\n\t\t}\n\t}\n\treturn res\n}\n\nfunc (d *defaultValidator) validateDefaultValueSchemaAgainstSchema","NIL:(*defaultValidator).validateDefaultInResponse")
add("validator-built-on-unresolved-refs","C07","default_validator.go","\tif schema.Default != nil && s.canValidateAgainst(schema) {\n","\tif schema.Default != nil {\n","EXPAND-FIRST:(*defaultValidator).validateDefaultValueSchemaAgainstSchema", quick=False)
# C02
add("schema-pass-skippable","C02","spec.go","\terrs.Merge(schv.Validate(obj)) // error -\n","\tif s.Options.ContinueOnErrors {\n\t\terrs.Merge(schv.Validate(obj)) // error -\n\t}\n","MUST-PASS:schema-pass:unconditional")
# C03
add("rule-result-dropped","C03","spec.go","\terrs.Merge(s.validateItems())                  // error -\n","\t_ = s.validateItems()\n","RULE-SEQ:(*SpecValidator).validateItems:merged")
# C10
add("unsorted-rendering","C10","spec.go","\t\t\tsort.Strings(pns) // duplicates are collected in map iteration order: keep the message stable\n","","MAP-ORDER:(*SpecValidator).validateDuplicatePropertyNames:validate.duplicatePropertiesMsg")
add("early-return-unguarded","C10","spec.go","\terrs.Merge(s.validateDuplicateOperationIDs())\n","\terrs.Merge(s.validateDuplicateOperationIDs())\n\tif errs.HasErrors() {\n\t\treturn errs, warnings\n\t}\n","RULE-SEQ:return:unguarded", quick=False)
# C12
add("default-written-into-instance","C12","object_validator.go","\t\t\tcreatedFromDefaults[pName] = struct{}{}\n","\t\t\tcreatedFromDefaults[pName] = struct{}{}\n\t\t\tval[pName] = pSchema.Default\n","INPUT-RO:(*objectValidator).validatePropertiesSchema")
add("schema-map-written-through-validator-field","C12","object_validator.go","\tnumKeys := int64(len(val))\n","\tnumKeys := int64(len(val))\n\tdelete(o.Properties, \"\")\n","INPUT-RO:(*objectValidator).Validate:delete on", quick=False)
add("definitions-walked-in-place","C12","default_validator.go","\t\t\tsch, err := deepCloneSchema(def)\n","\t\t\tsch, err := def, error(nil)\n","INPUT-RO:newSchemaValidator:spec.ExpandSchema", quick=False)
# C13
add("constraint-truncated","C13","values.go","\t\tif !isExactInt64(maximum) {\n\t\t\t// fractional or out-of-range constraint: no loss-free integer version of it exists\n\t\t\treturn Maximum(path, in, float64(value), maximum, exclusive)\n\t\t}\n","","NARROW:MaximumNativeType:int64(maximum)")
# C14
add("byte-length","C14","values.go","func MinLength(path, in, data string, minLength int64) *errors.Validation {\n\tstrLen := int64(utf8.RuneCountInString(data))","func MinLength(path, in, data string, minLength int64) *errors.Validation {\n\tstrLen := int64(len(data))","PURE:MinLength:rune-count")
# C16
add("items-source","C16","validator.go","\t\ti.items.Items,\n\t\ti.root,\n","\t\ti.items.Items,\n\t\ti.items,\n","APPLIES-SOURCE:(*itemsValidator).Validate")
# C17
add("merge-without-key","C17","object_validator.go","\t\tres.mergeForField(val, key, r)\n","\t\tres.Merge(r)\n","K-CONSISTENT:(*objectValidator).validateAdditionalProperties")
# C18
add("defaults-overwrite-present","C18","post/defaulter.go","\t\t\t\tif _, found := key.Object()[key.Field()]; !found {","\t\t\t\tif key.Object()[key.Field()] == nil {","POST:ApplyDefaults:single-write")
# C19
add("prune-wrong-key","C19","object_validator.go","\t\t\t\tres.mergeForField(data.(map[string]interface{}), key, r)\n","\t\t\t\tres.mergeForField(data.(map[string]interface{}), pName, r)\n","K-CONSISTENT:(*objectValidator).Validate")
# C20
add("nil-operand-ends-merge","C20","result.go","func (r *Result) MergeAsWarnings(others ...*Result) *Result {\n\tfor _, other := range others {\n\t\tif other != nil {","func (r *Result) MergeAsWarnings(others ...*Result) *Result {\n\tfor _, other := range others {\n\t\tif other == nil {\n\t\t\treturn r\n\t\t}\n\t\tif other != nil {","RESULT-ALGEBRA:(*Result).MergeAsWarnings:all-operands")
# C09
add("tuple-members-share-path","C09","example_validator.go",'fmt.Sprintf("%s.items[%d].example", path, i)','fmt.Sprintf("%s.items[%d].example", path, 0*i)',"TRAVERSE:exampleValidator.validateExampleValueSchemaAgainstSchema:recursion:Items.Schemas:path")
add("visited-set-shared-by-definitions","C09","default_validator.go","\t\t\td.resetVisited()\n\n\t\t\t// validation lazily expands","\t\t\t// validation lazily expands","RESET-BETWEEN:(*defaultValidator).validateDefaultValueValidAgainstSchema", quick=False)
# C01
add("format-exempts-from-type","C01","type.go","\tif len(t.Type) == 0 && t.Format != \"\" && (kind == reflect.String || kind == reflect.Slice) {","\tif t.Format != \"\" && (kind == reflect.String || kind == reflect.Slice) {","TYPE-TABLE:typeValidator:draft4", quick=False)
add("required-skipped-for-empty-object","C01","object_validator.go","\tif len(o.Required) == 0 {\n\t\treturn\n\t}\n","\tif len(o.Required) == 0 || len(val) == 0 {\n\t\treturn\n\t}\n","ROUTING:required:missing-is-an-error", quick=False)
add("additional-items-without-tuple","C01","slice_validator.go","\t\tif s.AdditionalItems.Schema != nil && itemsSize > 0 {\n","\t\tif s.AdditionalItems.Schema != nil {\n","ROUTING:slice:additionalItems:only-after-tuple", quick=False)

# round 5
add("clone-through-gob","C09","spec.go","\tb, err := json.Marshal(src)\n\tif err != nil {\n\t\treturn spec.Schema{}, err\n\t}\n\n\tvar dst spec.Schema\n\tif err := json.Unmarshal(b, &dst); err != nil {","\tvar b bytes.Buffer\n\tif err := gob.NewEncoder(&b).Encode(src); err != nil {\n\t\treturn spec.Schema{}, err\n\t}\n\n\tvar dst spec.Schema\n\tif err := gob.NewDecoder(&b).Decode(&dst); err != nil {","CLONE-FAITHFUL:deepCloneSchema:gob", quick=False, old2='import (\n\t"encoding/json"\n', new2='import (\n\t"bytes"\n\t"encoding/gob"\n\t"encoding/json"\n')
add("walkers-share-spec-options","C09","spec.go","\tdf := &defaultValidator{SpecValidator: s, schemaOptions: &valueOptions}","\tdf := &defaultValidator{SpecValidator: s, schemaOptions: s.schemaOptions}","VALUE-OPTIONS:(*SpecValidator).Validate:defaultValidator.options")
add("probe-without-root","C09","spec.go","\treturn expandSchemaAgainst(&probe, s.spec.Spec()) == nil","\treturn expandSchemaAgainst(&probe, nil) == nil","EXPAND-ROOT:(*SpecValidator).canValidateAgainst", quick=False)
add("defaults-replaced-wholesale","C03","options.go","\tdefaultOpts.ContinueOnErrors = c\n","\tdefaultOpts = Opts{ContinueOnErrors: c}\n","DEFAULTS-FIELDWISE:global:defaultOpts", quick=False)
add("defaults-replaced-wholesale","C10","options.go","\tdefaultOpts.ContinueOnErrors = c\n","\tdefaultOpts = Opts{ContinueOnErrors: c}\n","DEFAULTS-FIELDWISE:global:defaultOpts", quick=False)
add("parameters-of-raw-document","C03","spec.go","\tfor method, pi := range s.expandedAnalyzer().Operations() {\n\t\tmethodPaths","\tfor method, pi := range s.analyzer.Operations() {\n\t\tmethodPaths","RAW-ANALYZER:(*SpecValidator).validateParameters", quick=False)
add("root-never-stored","C06","schema_props.go","\ts.Root = root\n","","FIELD-FED:schemaPropsValidator.Root", quick=False)
add("pointer-error-conditional","C07","helpers.go","\tif err != nil {\n\t\tres.AddErrors(cannotResolveRefMsg(fromPath, ref, err))","\tif err != nil && ref != \"\" {\n\t\tres.AddErrors(cannotResolveRefMsg(fromPath, ref, err))","NIL:", quick=False)
add("uint64-falls-to-float","C13","values.go","\tcase reflect.Uint, reflect.Uint8, reflect.Uint16, reflect.Uint32, reflect.Uint64:\n\t\tvalue := valueHelp.asUint64(val)\n\t\tif !isExactUint64(multipleOf) {","\tcase reflect.Uint, reflect.Uint8, reflect.Uint16, reflect.Uint32:\n\t\tvalue := valueHelp.asUint64(val)\n\t\tif !isExactUint64(multipleOf) {","NARROW:native-dispatch:MultipleOfNativeType", quick=False)
add("literal-pattern-fast-path","C15","values.go","func Pattern(path, in, data, pattern string) *errors.Validation {\n","func Pattern(path, in, data, pattern string) *errors.Validation {\n\tif !strings.ContainsAny(pattern, `\\.+*?()|[]^$`) {\n\t\tif !strings.Contains(data, pattern) {\n\t\t\treturn errors.FailedPattern(path, in, pattern, data)\n\t\t}\n\t\treturn nil\n\t}\n","PURE:Pattern:search")
add("prune-stops-at-null-element","C19","post/prune.go","\t\tfor _, item := range obj {\n\t\t\tprune(item, result)","\t\tfor _, item := range obj {\n\t\t\tif item == nil {\n\t\t\t\treturn\n\t\t\t}\n\t\t\tprune(item, result)","POST:Prune:recursion", quick=False)
add("defaults-stop-after-first-member","C18","post/defaulter.go","\t\t\t\t\tbreak LookForDefaultingScheme\n","\t\t\t\t\treturn\n","POST:ApplyDefaults:all-members", quick=False, old2="\tLookForDefaultingScheme:\n", new2="")
add("dedupe-skips-typed-errors","C20","result.go","\t\t\tfor _, isReported := range r.Errors {\n\t\t\t\tif e.Error() == isReported.Error() {","\t\t\tfor _, isReported := range r.Errors {\n\t\t\t\tif _, typed := isReported.(interface{ Code() int32 }); typed {\n\t\t\t\t\tcontinue\n\t\t\t\t}\n\t\t\t\tif e.Error() == isReported.Error() {","RESULT-ALGEBRA:(*Result).AddErrors:dedupe-every-element", quick=False)
add("additional-item-built-with-array-path","C17","slice_validator.go",'validator := newSchemaValidator(s.AdditionalItems.Schema, s.Root, fmt.Sprintf("%s.%d", s.Path, i), s.KnownFormats, s.Options)\n','validator := newSchemaValidator(s.AdditionalItems.Schema, s.Root, s.Path, s.KnownFormats, s.Options)\n\t\t\t\tvalidator.SetPath(fmt.Sprintf("%s.%d", s.Path, i))\n',"K-CONSISTENT:(*schemaSliceValidator).Validate:member validated against s.AdditionalItems.Schema:ctor-path", quick=False)
add("empty-result-guard-removed","C01","pools.go","\tif s == emptyResult {\n\t\treturn\n\t}\n","","POOL-API:empty-guard", quick=False)
add("additional-properties-schema-skipped","C01","object_validator.go","\t\tif o.AdditionalProperties == nil || o.AdditionalProperties.Schema == nil {\n","\t\tif o.AdditionalProperties == nil || o.AdditionalProperties.Schema == nil || len(o.PatternProperties) > 0 {\n","ROUTING:object:additionalProperties:schema", quick=False)
add("keyword-dropped","C01","schema.go","\t\ts.Schema.UniqueItems,\n","\t\tfalse,\n","KEYWORDS:SchemaValidator:UniqueItems")
# hunt round
add("result-query-derefs-nil","C20","result.go","func (r *Result) Data() interface{} {\n\tif r == nil {\n\t\treturn nil\n\t}\n","func (r *Result) Data() interface{} {\n","RESULT-ALGEBRA:Data:nil-safe")
add("empty-result-escapes","C04","schema.go","\t\treturn &Result{MatchCount: emptyResult.MatchCount}\n","\t\treturn emptyResult\n","EMPTY-IMMUTABLE:escape:(*SchemaValidator).Validate", quick=False)
add("default-inserted-by-reference","C18","post/defaulter.go","key.Object()[key.Field()] = cloneValue(s.Default)","key.Object()[key.Field()] = s.Default","POST:ApplyDefaults:single-write", quick=False)
add("overlaps-in-map-order","C10","spec.go","\t\tfor _, path := range paths {\n\t\t\top := pi[path]\n","\t\tfor path, op := range pi {\n\t\t\t_ = paths\n","MAP-ORDER:(*SpecValidator).validateParameters", quick=False)
add("dependency-errors-under-trigger","C17","schema_props.go","newSchemaValidator(dep.Schema, s.Root, s.Path, s.KnownFormats, s.Options)",'newSchemaValidator(dep.Schema, s.Root, s.Path+"."+key, s.KnownFormats, s.Options)',"SAME-DATUM-PATH:(*schemaPropsValidator).validateDependencies", quick=False)
add("root-aliases-expanded-schema","C06","schema.go","\t\troot := *schema\n\t\trootSchema = &root\n","\t\trootSchema = schema\n","EXPAND-ROOT:newSchemaValidator:ExpandSchema:aliases-target", quick=False)
add("enum-skips-nil-data","C14","values.go","\t\tif valuesEqual(data, enumValue) {\n\t\t\treturn nil\n\t\t}\n\t\tenumString","\t\tif data != nil && valuesEqual(data, enumValue) {\n\t\t\treturn nil\n\t\t}\n\t\tenumString","PURE:EnumCase:nil-member", quick=False)
add("fraction-equals-integer","C14","values.go","\treturn isExactInt64(f) && int64(f) == i\n","\treturn int64(f) == i\n","EQUAL-TABLE:valuesEqual:exact")
add("negative-equals-unsigned","C16","values.go","\treturn i >= 0 && uint64(i) == u\n","\treturn uint64(i) == u\n","NARROW:intEqualsUint", quick=False)
add("unique-items-by-deep-equal-only","C14","values.go","\t\t\tif valuesEqual(v, u) {\n\t\t\t\treturn errors.DuplicateItems(path, in)","\t\t\tif reflect.DeepEqual(v, u) {\n\t\t\t\treturn errors.DuplicateItems(path, in)","PURE:UniqueItems:numeric-equality", quick=False)
add("self-parent-not-looked-up","C07","spec.go","\tif viaRef || (schn != nm && schn != \"\") {","\tif (viaRef && schn != nm) || (schn != nm && schn != \"\") {","REF-WALK:(*SpecValidator).validateCircularAncestry:recursion")
add("alias-loop-unbounded","C07","spec.go","\t\tif _, again := followed[ref]; again {\n\t\t\treturn append(ancs, ref), res\n\t\t}\n","","REF-WALK:(*SpecValidator).validateCircularAncestry:loop", quick=False)
add("options-appended-in-place","C05","schema.go","\topts := make([]Option, 0, len(options)+2)\n\topts = append(opts, options...)\n\topts = append(opts, WithRecycleValidators(true), withRecycleResults(true))\n","\topts := append(options, WithRecycleValidators(true), withRecycleResults(true))\n","VARIADIC-APPEND:AgainstSchema:options", quick=False)
add("expansion-assumed-after-whole-document","C07","spec.go","\tprobe, err := deepCloneSchema(*schema)\n\tif err != nil {\n\t\treturn false\n\t}\n\n\treturn expandSchemaAgainst(&probe, s.spec.Spec()) == nil","\tif s.expanded != nil {\n\t\treturn true\n\t}\n\tprobe, err := deepCloneSchema(*schema)\n\tif err != nil {\n\t\treturn false\n\t}\n\n\treturn expandSchemaAgainst(&probe, s.spec.Spec()) == nil","EXPAND-FIRST:", quick=False)
add("referenced-default-not-resolved","C18","object_validator.go","\t\tif pSchema.Ref.String() != \"\" {\n","\t\tif false && pSchema.Ref.String() != \"\" {\n","REF-BLIND:(*objectValidator).validatePropertiesSchema:Default", quick=False)
add("descent-without-visited-set","C14","values.go","\t\tpair := [2]uintptr{av.Pointer(), bv.Pointer()}\n\t\tif _, again := visiting[pair]; again {\n\t\t\treturn true\n\t\t}\n\t\tvisiting[pair] = struct{}{}\n\t\tfor i := 0; i < av.Len(); i++ {","\t\tfor i := 0; i < av.Len(); i++ {","DATA-WALK:valuesEqualVisiting:visited", quick=False)
add("expansion-outside-the-panic-boundary","C07","spec.go","\treturn expandSchemaAgainst(&probe, s.spec.Spec()) == nil","\treturn spec.ExpandSchema(&probe, s.spec.Spec(), nil) == nil","PANIC-BOUNDARY:(*SpecValidator).canValidateAgainst", quick=False)
add("element-equality-loses-shortcut","C14","values.go","func valuesEqualVisiting(a, b interface{}, visiting map[[2]uintptr]struct{}) bool {\n\tif reflect.DeepEqual(a, b) {\n\t\treturn true\n\t}\n","func valuesEqualVisiting(a, b interface{}, visiting map[[2]uintptr]struct{}) bool {\n\tif reflect.DeepEqual(a, b) {\n\t\treturn false\n\t}\n","EQUAL-TABLE:valuesEqual:scalars", quick=False)
add("invalid-byte-comparison-flipped","C14","values.go","\t\t\tif s[:ssize] != t[:tsize] {\n\t\t\t\treturn false","\t\t\tif s[:ssize] == t[:tsize] {\n\t\t\t\treturn false","PURE:equality:polarity", quick=False)
add("exemption-predicate-widened","C03","object_validator.go","(p[len(p)-1] == swaggerExample || p[len(p)-1] == swaggerExamples) && p[len(p)-2] != swaggerExample","(p[len(p)-1] == swaggerExample || p[len(p)-1] != swaggerExamples) && p[len(p)-2] != swaggerExample","GUARD-SCOPE:exemption:isExample:exact", quick=False)
add("path-and-in-change-places","C17","values.go","\t\treturn errors.InvalidType(path, in, format, data)","\t\treturn errors.InvalidType(in, path, format, data)","ARG-ROLE:FormatOf:InvalidType", quick=False)
add("format-handed-over-as-in","C16","validator.go","\t\tp.param.Name,\n\t\tp.param.In,\n\t\tp.param.Format,\n\t\tp.KnownFormats,","\t\tp.param.Name,\n\t\tp.param.Format,\n\t\tp.param.In,\n\t\tp.KnownFormats,","ARG-ROLE:(*ParamValidator).formatValidator:newFormatValidator", quick=False)
add("default-skipped-when-reference-resolves","C18","object_validator.go","\t\t\tif err := spec.ExpandSchema(pSchema, o.Root, nil); err != nil {\n\t\t\t\tcontinue","\t\t\tif err := spec.ExpandSchema(pSchema, o.Root, nil); err == nil {\n\t\t\t\tcontinue","REF-BLIND:(*objectValidator).validatePropertiesSchema:Default", quick=False)
add("append-keeps-both-representations","C18","result.go","\t\t\ts.multiple = append(append(t, s.one), other.multiple...)\n\t\t}\n\t\ts.one = nil\n","\t\t\ts.multiple = append(append(t, s.one), other.multiple...)\n\t\t}\n","SCHEMATA-MODEL:Append:total")
add("clone-shares-schema-objects","C20","result.go","\t\t\tsp := new(spec.Schema)\n\t\t\t*sp = *s.multiple[idx]\n\t\t\tclone.multiple[idx] = sp","\t\t\tclone.multiple[idx] = s.multiple[idx]","SCHEMATA-MODEL:Clone:faithful", quick=False)
add("mapindex-without-key-type-test","C14","values.go","\t\tif av.Type().Key() != bv.Type().Key() || av.IsNil() != bv.IsNil() || av.Len() != bv.Len() {","\t\tif av.IsNil() != bv.IsNil() || av.Len() != bv.Len() {","D-DYN:valuesEqualVisiting:reflect.Value.MapIndex with a key", quick=False)
add("number-read-despite-error","C14","values.go","\tif i, err := n.Int64(); err == nil {\n\t\treturn i\n\t}","\tif i, err := n.Int64(); err != nil {\n\t\treturn i\n\t}","ERR-VALUE:numberOf:json.Number.Int64", quick=False)
add("walk-stops-after-first-parent","C03","spec.go","\t\t\t\tancs = append(ancs, anc...)\n\t\t\t\tif len(ancs) > 0 {","\t\t\t\tancs = append(ancs, anc...)\n\t\t\t\tif len(ancs) >= 0 {","DEAD-TAIL:(*SpecValidator).validateCircularAncestry:constant-exit", quick=False)
add("multiple-of-scaled","C13","values.go","\t\tmult = 1 / factor * data","\t\tmult = 2 / factor * data","MULTIPLE-TABLE:exact")
add("pattern-member-not-recorded","C19","object_validator.go","\t\tif regularProperty || !matched {","\t\tif !(regularProperty || !matched) {","ROUTING:object:member-recorded")
add("items-walk-does-not-descend","C03","spec.go","\t\tres.Merge(s.validateSchemaItems(schema, prefix, opID))\n","","SPEC-PRED:validateSchemaItems:descends", quick=False)
add("facade-on-the-invalid-side","C13","validator.go","\t\tif resMultiple.IsValid() {","\t\tif resMultiple.HasErrors() {","NARROW:(*numberValidator).Validate:MultipleOfNativeType:selected-when-valid", quick=False)
add("one-of-from-two-members","C01","schema_props.go","\tif len(s.oneOfValidators) > 0 {","\tif len(s.oneOfValidators) > 1 {","COUNTING:applied-when-nonempty:validateOneOf", quick=False)
add("recycled-result-starts-at-one","C04","result.go","\tr.MatchCount = 0\n","\tr.MatchCount = 1\n","POOL-CLEARED:cleared:Result.MatchCount", quick=False)
add("caller-result-from-the-pool","C04","schema.go","\tif s.Options.recycleResult {","\tif !s.Options.recycleResult {","REDEEM-GUARD:(*SchemaValidator).Validate:borrow-under-recycling", quick=False)
add("setter-drops-its-argument","C10","spec.go","\ts.Options.ContinueOnErrors = c\n","","SETTER:(*SpecValidator).SetContinueOnErrors:c", quick=False)
add("default-walker-skips-additional-items","C09","default_validator.go","\t\tres.Merge(d.validateDefaultValueSchemaAgainstSchema(path+\".additionalItems\", in, schema.AdditionalItems.Schema))\n","","TRAVERSE:", quick=False)
add("required-not-defined-by-additional-schema","C03","spec.go","\t\t\t\tif red.IsValid() {\n\t\t\t\t\tadditionalPropertiesMatch = true","\t\t\t\tif red.IsValid() {\n\t\t\t\t\tadditionalPropertiesMatch = false","SPEC-PRED:(*SpecValidator).validateRequiredProperties:requiredButNotDefinedMsg", quick=False)
add("only-the-first-response","C09","default_validator.go","\t\t\t\t\t\tres.Merge(d.validateDefaultInResponse(&r, \"response\", path, code, op.ID)) //#nosec\n","\t\t\t\t\t\tres.Merge(d.validateDefaultInResponse(&r, \"response\", path, code, op.ID)) //#nosec\n\t\t\t\t\t\tbreak\n","TRAVERSE:defaultValidator.validateDefaultValueValidAgainstSchema:loops-exhaustive", quick=False)
add("caller-options-dropped","C02","slice_validator.go","\tif opts == nil {\n\t\topts = new(SchemaValidatorOptions)\n\t}","\topts = new(SchemaValidatorOptions)","OPTIONS-KEPT:newSliceValidator:fresh-options", quick=False)
add("formatted-type-by-pointer-only","C16","type.go","\tcase strfmt.ISBN10, *strfmt.ISBN10:","\tcase *strfmt.ISBN10:","TYPE-TABLE:schemaInfoForType:value-and-pointer", quick=False)
add("items-rule-inside-defaults","C03","object_validator.go","\tif o.isProperties() || o.isDefault() || o.isExample() {","\tif o.isProperties() || o.isExample() {","GUARD-SCOPE:exemption:items-type-array:all-three", quick=False)
add("tuple-path-arguments-crossed","C17","slice_validator.go","\t\t\tvalidator := newSchemaValidator(&s.Items.Schemas[i], s.Root, fmt.Sprintf(\"%s.%d\", s.Path, i), s.KnownFormats, s.Options)","\t\t\tvalidator := newSchemaValidator(&s.Items.Schemas[i], s.Root, fmt.Sprintf(\"%s.%d\", i, s.Path), s.KnownFormats, s.Options)","K-CONSISTENT:(*schemaSliceValidator).Validate:member validated against s.Items.Schemas[]:path", quick=False)
add("invalid-reference-only-warned","C03","spec.go","\t\t\tres.AddErrors(invalidRefMsg(r.String()))","\t\t\tres.AddWarnings(invalidRefMsg(r.String()))","SPEC-PRED:(*SpecValidator).validateReferencesValid:invalidRefMsg:as-error", quick=False)
add("unique-items-looks-at-one-element","C14","values.go","\t\tunique = append(unique, v)\n","\t\tunique = append(unique, v)\n\t\tbreak\n","DEAD-TAIL:UniqueItems:loop-runs-once", quick=False)
add("visited-pair-of-one-container","C14","values.go","\t\tpair := [2]uintptr{av.Pointer(), bv.Pointer()}\n\t\tif _, again := visiting[pair]; again {\n\t\t\treturn true\n\t\t}\n\t\tvisiting[pair] = struct{}{}\n\t\tfor i := 0; i < av.Len(); i++ {","\t\tpair := [2]uintptr{av.Pointer(), av.Pointer()}\n\t\tif _, again := visiting[pair]; again {\n\t\t\treturn true\n\t\t}\n\t\tvisiting[pair] = struct{}{}\n\t\tfor i := 0; i < av.Len(); i++ {","DATA-WALK:valuesEqualVisiting:visited", quick=False)
add("array-judged-by-its-first-element","C16","validator.go","\t\tif err := itemsValidator.Validate(i, ele.Interface()); err != nil {\n\t\t\tif err.HasErrors() {\n\t\t\t\treturn err\n\t\t\t}","\t\tif err := itemsValidator.Validate(i, ele.Interface()); err != nil {\n\t\t\t{\n\t\t\t\treturn err\n\t\t\t}","ELEMENTS-ALL:(*basicSliceValidator).Validate:every-element", quick=False)
add("anonymous-operations-counted","C03","spec.go","\t\tif v != \"\" {\n\t\t\tknown[v]++\n\t\t}","\t\tknown[v]++","SPEC-PRED:validateDuplicateOperationIDs:only-named", quick=False)
add("setter-writes-the-neighbour","C10","options.go","\tdefaultOpts.ContinueOnErrors = c","\tdefaultOpts.StrictPathParamUniqueness = c","SETTER:SetContinueOnErrors:field", quick=False)
add("folding-when-case-sensitive","C14","values.go","\tif caseSensitive {\n\t\treturn nil\n\t}\n","","PURE:EnumCase:fold-only-insensitive", quick=False)
add("invalid-bytes-not-compared","C14","values.go","\t\t\tif s[:ssize] != t[:tsize] {\n\t\t\t\treturn false\n\t\t\t}\n","","PURE:EnumCase:fold-valid-runes", quick=False)
add("map-arm-answers-at-once","C14","values.go","\t\tif av.Type().Key() != bv.Type().Key() || av.IsNil() != bv.IsNil() || av.Len() != bv.Len() {\n\t\t\treturn false\n\t\t}","\t\t{\n\t\t\treturn false\n\t\t}","DATA-WALK:valuesEqualVisiting:visited:members", quick=False)
json.dump(C, open('/verif/tables/controls.json','w'), indent=1)
import os
for c in C:
    src=open('/repo/'+c['file']).read()
    n=src.count(c['old'])
    if n!=1: print("ANCHOR PROBLEM", c['property'], c['id'], n)
print(len(C),"controls")
