#!/usr/bin/env python3
"""Run the pinned test suite (guard off) in a tree and compare with BASELINE.json stable_pass.
usage: baseline.py [DIR]   (default /repo).  Exit 0 iff every stable_pass test passed."""
import json, os, subprocess, sys
d = sys.argv[1] if len(sys.argv) > 1 else "/repo"
env = dict(os.environ, GOFLAGS="-mod=mod", GOPROXY="off", GOSUMDB="off", GOTOOLCHAIN="local")
env.pop("GOWORK", None)
# the suite binds a fixed TCP port (127.0.0.1:1234): serialise concurrent runs on this machine
import fcntl
_lk = open("/tmp/.validate-suite.lock", "w")
fcntl.flock(_lk, fcntl.LOCK_EX)
p = subprocess.run(["go", "test", "-json", "-vet=off", "-count=1", "-timeout", "25m", "./..."],
                   cwd=d, env=env, stdout=subprocess.PIPE, stderr=subprocess.STDOUT, text=True)
res = {}
for line in p.stdout.splitlines():
    try:
        e = json.loads(line)
    except Exception:
        continue
    if e.get("Action") in ("pass", "fail", "skip") and e.get("Test"):
        res[e["Package"] + "::" + e["Test"]] = e["Action"]
stable = json.load(open("/root/.vp/BASELINE.json"))["stable_pass"]
bad = [t for t in stable if res.get(t) != "pass"]
print(f"tests seen={len(res)} stable_pass={len(stable)} not-passing={len(bad)}")
for t in bad[:40]:
    print("  NOT PASSING:", t, res.get(t))
sys.exit(1 if bad else 0)
