#!/bin/bash
# usage: reconfirm_ported.sh <seeded-dir-name> <ported.diff>  — re-confirms a seeded change whose patch no longer applied to
# /repo HEAD and was ported by hand: demo passes on a scratch export of HEAD, fails with the ported patch, pinned suite
# still passes with it. On success the ported patch replaces seeded/<name>/patch.diff (original kept as patch.orig.diff).
set -u
V="$(cd "$(dirname "$0")/.." && pwd)"
name="$1"; patch="$(realpath "$2")"; d="$V/seeded/$name"
export GOFLAGS=-mod=mod GOPROXY=off GOSUMDB=off GOTOOLCHAIN=local
scr=$(mktemp -d /tmp/cseed.XXXXXX); trap 'rm -rf "$scr"' EXIT
git -C /repo archive HEAD | tar -x -C "$scr"
demo_dir=$(python3 -c "import json;print(json.load(open('$d/meta.json')).get('demo_dir','.') or '.')" 2>/dev/null || echo .)
demo_cmd=$(python3 -c "import json;print(json.load(open('$d/meta.json')).get('demo_cmd',''))" 2>/dev/null)
[ -n "$demo_cmd" ] || demo_cmd="go test -run TestSeed -count=1 ."
[ -d "$scr/$demo_dir" ] || demo_dir=.
cp "$d/demo_test.go" "$scr/$demo_dir/zz_seed_demo_test.go"
(cd "$scr/$demo_dir" && timeout 900 bash -c "$demo_cmd" >"$scr/clean.log" 2>&1); clean=$?
if ! (cd "$scr" && patch -p1 -s -f --no-backup-if-mismatch < "$patch" >/dev/null 2>&1); then echo "$name: PORTED PATCH DOES NOT APPLY"; exit 3; fi
if ! (cd "$scr" && go build ./... >"$scr/build.log" 2>&1); then echo "$name: does not build: $(head -3 $scr/build.log)"; exit 3; fi
(cd "$scr/$demo_dir" && timeout 900 bash -c "$demo_cmd" >"$scr/patched.log" 2>&1); patched=$?
rm -f "$scr/$demo_dir/zz_seed_demo_test.go"
"$V/tools/baseline.py" "$scr" >"$scr/base.log" 2>&1; base=$?
if [ $clean -eq 0 ] && [ $patched -ne 0 ] && [ $base -eq 0 ]; then
  [ -f "$d/patch.orig.diff" ] || cp "$d/patch.diff" "$d/patch.orig.diff"
  cp "$patch" "$d/patch.diff"
  python3 - "$d/meta.json" <<'PY'
import json,sys,subprocess
m=json.load(open(sys.argv[1]))
head=subprocess.check_output(['git','-C','/repo','rev-parse','--short','HEAD'],text=True).strip()
m['ported_to_repo_commit']=head
m['port_note']='the original patch (patch.orig.diff) no longer applied after later fix commits; ported by hand, demonstration and pinned suite re-run'
json.dump(m,open(sys.argv[1],'w'),indent=1)
PY
  echo "$name: CONFIRMED (ported)"
else
  echo "$name: REJECTED (demo clean exit=$clean, patched exit=$patched, suite exit=$base: $(tail -1 $scr/base.log | head -c 80)) $(tail -3 $scr/clean.log | tr '\n' ' ' | head -c 200)"
fi
