#!/bin/bash
# usage: [SEEDROOT=/tmp/seed2 OUTPREFIX=r2-] confirm_seed.sh <ID> <A|B> [patchfile]   — confirms a seeded change against /repo HEAD in a scratch copy:
#  patch applies & builds, pinned suite still passes, demo fails with the patch, demo passes without it.
# Writes /verif/seeded/<ID>-<X>/{patch.diff,demo_test.go,meta.json}; prints one summary line.
set -u
V="$(cd "$(dirname "$0")/.." && pwd)"
id="$1"; x="$2"; src="${SEEDROOT:-/tmp/seed}/$id/out/$x"; patch="${3:-$src/patch.diff}"
export GOFLAGS=-mod=mod GOPROXY=off GOSUMDB=off GOTOOLCHAIN=local
scr=$(mktemp -d /tmp/cseed.XXXXXX); trap 'rm -rf "$scr"' EXIT
git -C /repo archive HEAD | tar -x -C "$scr"
demo_dir=$(python3 -c "import json;print(json.load(open('$src/meta.json')).get('demo_dir','.') or '.')" 2>/dev/null || echo .)
demo_cmd=$(python3 -c "import json;print(json.load(open('$src/meta.json')).get('demo_cmd','go test -run TestSeed_${id}_${x} -count=1 .'))" 2>/dev/null)
[ -d "$scr/$demo_dir" ] || demo_dir=.
cp "$src/demo_test.go" "$scr/$demo_dir/zz_seed_demo_test.go"
# 1. demo passes without the patch
(cd "$scr/$demo_dir" && timeout 900 bash -c "$demo_cmd" >"$scr/clean.log" 2>&1); clean=$?
# 2. apply
if ! (cd "$scr" && patch -p1 -s -f --no-backup-if-mismatch < "$patch" >/dev/null 2>&1); then echo "$id-$x: PATCH DOES NOT APPLY to HEAD"; exit 3; fi
if ! (cd "$scr" && go build ./... >"$scr/build.log" 2>&1); then echo "$id-$x: does not build"; exit 3; fi
# 3. demo fails with the patch
(cd "$scr/$demo_dir" && timeout 900 bash -c "$demo_cmd" >"$scr/patched.log" 2>&1); patched=$?
# 4. suite still passes (demo file removed)
rm -f "$scr/$demo_dir/zz_seed_demo_test.go"
unshare -n bash -c "ip link set lo up 2>/dev/null; \"$V/tools/baseline.py\" \"$scr\"" >"$scr/base.log" 2>&1; base=$?   # own network namespace: the suite binds port 1234
status="REJECTED"
if [ $clean -eq 0 ] && [ $patched -ne 0 ] && [ $base -eq 0 ]; then status="CONFIRMED"; fi
echo "$id-$x: $status (demo clean exit=$clean, demo patched exit=$patched, suite exit=$base: $(tail -1 "$scr/base.log" | head -c 80))"
if [ "$status" = CONFIRMED ]; then
  out="$V/seeded/${OUTPREFIX:-}$id-$x"; mkdir -p "$out"
  (cd "$scr" && git -C /repo diff --no-index --quiet /dev/null /dev/null; true)
  cp "$patch" "$out/patch.diff"; cp "$src/demo_test.go" "$out/demo_test.go"
  python3 - "$src/meta.json" "$out/meta.json" "$id" "$x" "$demo_cmd" "$demo_dir" <<'PY'
import json,sys,subprocess
src,dst,id,x,cmd,ddir=sys.argv[1:7]
m=json.load(open(src))
head=subprocess.check_output(['git','-C','/repo','rev-parse','--short','HEAD'],text=True).strip()
m.update({"breaks_property":id,"confirmed_against_repo_commit":head,"confirmation":{"ran":["patch -p1 on a scratch export of /repo HEAD","go build ./...",f"(in {ddir}) {cmd}  -> passes without the patch, fails with it","tools/baseline.py <scratch> -> all 340 pinned tests pass with the patch"],"result":"confirmed"}})
json.dump(m,open(dst,'w'),indent=1)
PY
fi
