package core

import (
	"encoding/json"
	"fmt"
	"os"
	"path/filepath"
	"regexp"
	"sort"
	"strings"
	"time"
)

type Status string

const (
	Discharged Status = "discharged"
	Violated   Status = "violated"
	Undecided  Status = "undecided"
)

// Obligation is one thing a rule had to establish on the resolved program.
type Obligation struct {
	Rule   string `json:"rule"`
	Key    string `json:"key"` // rule ":" function ":" construct — never a line number
	Pos    string `json:"pos"`
	Status Status `json:"status"`
	By     string `json:"discharged_by,omitempty"`
	Detail string `json:"detail,omitempty"`
	Config string `json:"config,omitempty"`
}

// Report collects obligations of one check run.
type Report struct {
	Obls   []Obligation
	Notes  []string       // what was analysed
	Counts map[string]int // named instance counts (floors are checked on these)
	Floors map[string]int // minimum expected counts
	Info   map[string]any // extra evidence
	cfg    string
}

func NewReport() *Report {
	return &Report{Counts: map[string]int{}, Floors: map[string]int{}, Info: map[string]any{}}
}

func (r *Report) SetConfig(c string) { r.cfg = c }

func (r *Report) Add(rule, key, pos string, st Status, by, detail string) {
	r.Obls = append(r.Obls, Obligation{Rule: rule, Key: rule + ":" + key, Pos: pos, Status: st, By: by, Detail: detail, Config: r.cfg})
}
func (r *Report) OK(rule, key, pos, by string)      { r.Add(rule, key, pos, Discharged, by, "") }
func (r *Report) Bad(rule, key, pos, detail string) { r.Add(rule, key, pos, Violated, "", detail) }
func (r *Report) Unk(rule, key, pos, detail string) { r.Add(rule, key, pos, Undecided, "", detail) }
func (r *Report) Note(f string, a ...any)           { r.Notes = append(r.Notes, fmt.Sprintf(f, a...)) }
func (r *Report) Count(name string, n int)          { r.Counts[name] += n }

// Floor declares the hand-confirmed minimum for a counter: a rule that finds fewer instances went blind.
func (r *Report) Floor(name string, n int) {
	if n > r.Floors[name] {
		r.Floors[name] = n
	}
}

// Known findings ------------------------------------------------------------

type Finding struct {
	Property string `json:"property"`
	Key      string `json:"key"`
	What     string `json:"what"`
}
type Fixed struct {
	Property string `json:"property"`
	Commit   string `json:"commit"`
	What     string `json:"what"`
	Key      string `json:"key,omitempty"`
}
type KnownFile struct {
	Findings []Finding `json:"findings"`
	Fixed    []Fixed   `json:"fixed"`
}

func LoadKnown(path string) (*KnownFile, error) {
	var k KnownFile
	b, err := os.ReadFile(path)
	if err != nil {
		if os.IsNotExist(err) {
			return &k, nil
		}
		return nil, err
	}
	if err := json.Unmarshal(b, &k); err != nil {
		return nil, err
	}
	return &k, nil
}

// Finish -------------------------------------------------------------------

var unsafeRe = regexp.MustCompile(`[^A-Za-z0-9_.\-]+`)

type Meta struct {
	Property    string
	Tier        string
	Seed        int
	VerifDir    string
	Explanation string
	NotDecided  string
	Assumptions []string
	Trusted     []string
	CheckerCmd  string
	Start       time.Time
	Extra       map[string]any
}

// Finish prints the verdict lines, writes evidence and replay files, and returns the exit code.
func (r *Report) Finish(m Meta, known *KnownFile) int {
	// floors
	names := make([]string, 0, len(r.Floors))
	for n := range r.Floors {
		names = append(names, n)
	}
	sort.Strings(names)
	for _, n := range names {
		if r.Counts[n] < r.Floors[n] {
			r.Add("FLOOR", n, "-", Undecided, "", fmt.Sprintf("rule instance count %d is below the hand-confirmed floor %d: the rule no longer sees its anchors", r.Counts[n], r.Floors[n]))
		} else {
			r.Add("FLOOR", n, "-", Discharged, fmt.Sprintf("count %d >= floor %d", r.Counts[n], r.Floors[n]), "")
		}
	}
	// de-duplicate by key+config keeping the worst status
	rank := map[Status]int{Discharged: 0, Undecided: 1, Violated: 2}
	byKey := map[string]int{}
	var obls []Obligation
	for _, o := range r.Obls {
		k := o.Key + "|" + o.Config
		if i, ok := byKey[k]; ok {
			if rank[o.Status] > rank[obls[i].Status] {
				obls[i] = o
			}
			continue
		}
		byKey[k] = len(obls)
		obls = append(obls, o)
	}
	sort.SliceStable(obls, func(i, j int) bool { return obls[i].Key < obls[j].Key })

	knownSet := map[string]string{}
	for _, f := range known.Findings {
		if f.Property == m.Property {
			knownSet[f.Key] = f.What
		}
	}
	replayDir := filepath.Join(m.VerifDir, "evidence", "replay", m.Property)
	os.RemoveAll(replayDir)
	nViol, nKnown, nDis := 0, 0, 0
	perRule := map[string]map[string]int{}
	printedKnown := map[string]bool{}
	var samples []any
	var bad []Obligation
	for _, o := range obls {
		pr := perRule[o.Rule]
		if pr == nil {
			pr = map[string]int{}
			perRule[o.Rule] = pr
		}
		pr["obligations"]++
		switch o.Status {
		case Discharged:
			nDis++
			pr["discharged"]++
		default:
			if what, ok := knownSet[o.Key]; ok && o.Status == Violated {
				nKnown++
				pr["known_findings"]++
				if !printedKnown[o.Key] {
					printedKnown[o.Key] = true
					fmt.Printf("KNOWN-FINDING: property=%s %s [%s at %s]\n", m.Property, what, o.Key, o.Pos)
				}
				continue
			}
			nViol++
			pr[string(o.Status)]++
			bad = append(bad, o)
		}
	}
	for _, o := range bad {
		os.MkdirAll(replayDir, 0o755)
		fn := unsafeRe.ReplaceAllString(o.Key, "_")
		if len(fn) > 150 {
			fn = fn[:150]
		}
		if o.Config != "" {
			fn += "." + unsafeRe.ReplaceAllString(o.Config, "_")
		}
		path := filepath.Join(replayDir, fn+".json")
		b, _ := json.MarshalIndent(map[string]any{"property": m.Property, "obligation": o}, "", " ")
		os.WriteFile(path, b, 0o644)
		fmt.Printf("%s: [%s] %s %s: %s\n", o.Pos, o.Rule, strings.ToUpper(string(o.Status)), o.Key, o.Detail)
		fmt.Printf("VIOLATION property=%s replay=%s\n", m.Property, path)
	}
	// samples: a few discharged obligations per rule + all non-discharged
	perRuleSample := map[string]int{}
	for _, o := range obls {
		if o.Status != Discharged || perRuleSample[o.Rule] < 3 {
			perRuleSample[o.Rule]++
			if len(samples) < 80 {
				samples = append(samples, o)
			}
		}
	}
	distinct := map[string]bool{}
	for _, o := range obls {
		if o.Rule != "FLOOR" {
			distinct[o.Key] = true
		}
	}
	cov := map[string]any{
		"explanation":         m.Explanation,
		"not_decided":         m.NotDecided,
		"obligations":         len(obls),
		"discharged":          nDis,
		"known_findings":      nKnown,
		"evaluations":         len(obls),
		"distinct_nontrivial": len(distinct),
		"rule":                "one obligation per (rule, function, construct) found by enumerating the type-checked SSA program of /repo's working tree; distinct = distinct obligation keys, FLOOR bookkeeping excluded",
		"samples":             samples,
		"checker_cmd":         m.CheckerCmd,
		"trusted_base":        m.Trusted,
		"per_rule":            perRule,
		"instance_counts":     r.Counts,
		"instance_floors":     r.Floors,
		"analysed":            r.Notes,
		"exhaustive":          true,
	}
	for k, v := range r.Info {
		cov[k] = v
	}
	for k, v := range m.Extra {
		cov[k] = v
	}
	ev := map[string]any{
		"property_id": m.Property,
		"tier":        m.Tier,
		"seed":        m.Seed,
		"level":       "other",
		"coverage":    cov,
		"assumptions": m.Assumptions,
		"wall_s":      time.Since(m.Start).Seconds(),
		"violations":  nViol,
	}
	b, _ := json.MarshalIndent(ev, "", " ")
	os.MkdirAll(filepath.Join(m.VerifDir, "evidence"), 0o755)
	if err := os.WriteFile(filepath.Join(m.VerifDir, "evidence", m.Property+".json"), b, 0o644); err != nil {
		fmt.Println("cannot write evidence:", err)
		return 2
	}
	fmt.Printf("property=%s tier=%s obligations=%d discharged=%d known-findings=%d violations=%d wall=%.1fs\n",
		m.Property, m.Tier, len(obls), nDis, nKnown, nViol, time.Since(m.Start).Seconds())
	if nViol > 0 {
		return 1
	}
	return 0
}
