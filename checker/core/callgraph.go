package core

import (
	"go/types"

	"golang.org/x/tools/go/ssa"
)

// CallGraph is a CHA-style call graph restricted to the subject packages: static calls, interface
// calls resolved to every subject method with the same name and signature, closures created in a
// function, and dynamic calls of function values resolved to every address-taken subject function or
// closure with an identical signature.
type CallGraph struct {
	P     *Prog
	Out   map[*ssa.Function][]*ssa.Function
	impls map[string][]*ssa.Function
	taken []*ssa.Function
}

func BuildCallGraph(p *Prog) *CallGraph {
	cg := &CallGraph{P: p, Out: map[*ssa.Function][]*ssa.Function{}, impls: map[string][]*ssa.Function{}}
	for _, f := range p.Funcs {
		if f.Signature.Recv() != nil && f.Parent() == nil {
			cg.impls[f.Name()] = append(cg.impls[f.Name()], f)
		}
	}
	takenSet := map[*ssa.Function]bool{}
	for _, f := range p.Funcs {
		EachInstr(f, func(i ssa.Instruction) {
			for _, op := range i.Operands(nil) {
				if op == nil || *op == nil {
					continue
				}
				var g *ssa.Function
				switch v := (*op).(type) {
				case *ssa.Function:
					g = v
				case *ssa.MakeClosure:
					g, _ = v.Fn.(*ssa.Function)
				}
				if g == nil || !p.InSubject(g) {
					continue
				}
				if c, ok := i.(ssa.CallInstruction); ok && c.Common().Value == *op {
					continue
				}
				if _, ok := i.(*ssa.MakeClosure); ok {
					continue
				}
				if !takenSet[g] {
					takenSet[g] = true
					cg.taken = append(cg.taken, g)
				}
			}
		})
	}
	for _, f := range p.Funcs {
		seen := map[*ssa.Function]bool{}
		add := func(g *ssa.Function) {
			if g != nil && p.InSubject(g) && !seen[g] {
				seen[g] = true
				cg.Out[f] = append(cg.Out[f], g)
			}
		}
		EachInstr(f, func(i ssa.Instruction) {
			switch x := i.(type) {
			case *ssa.MakeClosure:
				if g, ok := x.Fn.(*ssa.Function); ok {
					add(g)
				}
			case ssa.CallInstruction:
				cc := x.Common()
				if cc.IsInvoke() {
					for _, g := range cg.impls[cc.Method.Name()] {
						if types.Identical(g.Signature.Params(), cc.Signature().Params()) && types.Identical(g.Signature.Results(), cc.Signature().Results()) {
							add(g)
						}
					}
					return
				}
				if g := cc.StaticCallee(); g != nil {
					add(g)
					return
				}
				if _, ok := cc.Value.(*ssa.Builtin); ok {
					return
				}
				for _, g := range cg.taken {
					sig := g.Signature
					if types.Identical(types.NewSignatureType(nil, nil, nil, sig.Params(), sig.Results(), sig.Variadic()), cc.Value.Type().Underlying()) {
						add(g)
					}
				}
			}
			// function values passed to external code (callbacks) run too
			for _, op := range i.Operands(nil) {
				if op == nil || *op == nil {
					continue
				}
				if g, ok := (*op).(*ssa.Function); ok {
					add(g)
				}
			}
		})
	}
	return cg
}

// Reachable returns the functions reachable from the named entry points (FuncName syntax).
func (cg *CallGraph) Reachable(entries ...string) (map[*ssa.Function]bool, []string) {
	seen := map[*ssa.Function]bool{}
	var missing []string
	var work []*ssa.Function
	for _, e := range entries {
		f := cg.P.Func(e)
		if f == nil {
			missing = append(missing, e)
			continue
		}
		if !seen[f] {
			seen[f] = true
			work = append(work, f)
		}
	}
	for len(work) > 0 {
		f := work[len(work)-1]
		work = work[:len(work)-1]
		for _, g := range cg.Out[f] {
			if !seen[g] {
				seen[g] = true
				work = append(work, g)
			}
		}
	}
	return seen, missing
}
