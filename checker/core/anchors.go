package core

import (
	"encoding/json"
	"fmt"
	"go/constant"
	"go/types"
	"os"
	"sort"
	"strings"

	"golang.org/x/tools/go/ssa"
)

// Anchors — following renames of functions.
//
// The rules name a few dozen functions of the subject. tables/anchors.json records, for every function of the
// tree the rules were written against, its name, its signature (without receiver) and a structural fingerprint
// (callees, fields touched, string constants, size). When a recorded name no longer exists in the program and a
// function with a new name has the same signature and a clearly closest fingerprint, that function is treated
// as the renamed one: FuncName keeps answering the recorded name for it, so rules, obligation keys and known
// findings are unaffected by the rename. Nothing is aliased when the match is ambiguous.

type anchorEntry struct {
	Name  string   `json:"name"`
	Sig   string   `json:"sig"`
	Feats []string `json:"feats"`
}

var aliases = map[*ssa.Function]string{}

func sigOf(f *ssa.Function) string {
	q := func(*types.Package) string { return "" }
	s := f.Signature
	out := "func("
	for i := 0; i < s.Params().Len(); i++ {
		out += types.TypeString(s.Params().At(i).Type(), q) + ","
	}
	out += ")("
	for i := 0; i < s.Results().Len(); i++ {
		out += types.TypeString(s.Results().At(i).Type(), q) + ","
	}
	out += ")"
	if s.Recv() != nil {
		out = "method " + out
	}
	return out
}

func featsOf(f *ssa.Function) []string {
	set := map[string]bool{}
	var walk func(g *ssa.Function)
	walk = func(g *ssa.Function) {
		for _, b := range g.Blocks {
			for _, i := range b.Instrs {
				switch x := i.(type) {
				case ssa.CallInstruction:
					cc := x.Common()
					if cc.IsInvoke() {
						set["i:"+cc.Method.Name()] = true
					} else if h := cc.StaticCallee(); h != nil {
						set["c:"+QualName(h)] = true
					}
				case *ssa.FieldAddr:
					tn, fn, _ := FieldOf(x)
					set["f:"+tn+"."+fn] = true
				case *ssa.Field:
					tn, fn, _ := FieldOf(x)
					set["f:"+tn+"."+fn] = true
				}
				for _, op := range i.Operands(nil) {
					if op == nil || *op == nil {
						continue
					}
					if k, ok := (*op).(*ssa.Const); ok && k.Value != nil && k.Value.Kind() == constant.String {
						if s := constant.StringVal(k.Value); len(s) > 0 && len(s) <= 40 {
							set["s:"+s] = true
						}
					}
				}
			}
		}
		for _, a := range g.AnonFuncs {
			walk(a)
		}
	}
	walk(f)
	set[fmt.Sprintf("n:%d", len(f.Blocks)/4)] = true
	var out []string
	for k := range set {
		out = append(out, k)
	}
	sort.Strings(out)
	return out
}

// WriteAnchors records the current tree (run once on the pinned tree, and again after every fix commit).
func WriteAnchors(p *Prog, path string) error {
	var es []anchorEntry
	for _, f := range p.Funcs {
		if f.Parent() != nil {
			continue
		}
		es = append(es, anchorEntry{FuncName(f), sigOf(f), featsOf(f)})
	}
	// the layout of the package's struct types: "struct:<type>" with one feature per field (index:name:type)
	for _, pkg := range []*ssa.Package{p.Main, p.Post} {
		if pkg == nil {
			continue
		}
		for _, m := range pkg.Members {
			t, ok := m.(*ssa.Type)
			if !ok {
				continue
			}
			st, ok := t.Type().Underlying().(*types.Struct)
			if !ok {
				continue
			}
			es = append(es, anchorEntry{"struct:" + t.Name(), "", structFeats(st)})
		}
	}
	sort.Slice(es, func(i, j int) bool { return es[i].Name < es[j].Name })
	b, err := json.MarshalIndent(es, "", " ")
	if err != nil {
		return err
	}
	return os.WriteFile(path, b, 0o644)
}

func jaccard(a, b []string) float64 {
	m := map[string]bool{}
	for _, x := range a {
		m[x] = true
	}
	inter := 0
	for _, x := range b {
		if m[x] {
			inter++
		}
	}
	union := len(a) + len(b) - inter
	if union == 0 {
		return 1
	}
	return float64(inter) / float64(union)
}

// ApplyAnchors aliases renamed functions to their recorded names; returns notes for the evidence.
func (p *Prog) ApplyAnchors(path string) []string {
	b, err := os.ReadFile(path)
	if err != nil {
		return nil
	}
	var es []anchorEntry
	if json.Unmarshal(b, &es) != nil {
		return nil
	}
	have := map[string]*ssa.Function{}
	for _, f := range p.Funcs {
		if f.Parent() == nil {
			have[FuncName(f)] = f
		}
	}
	recorded := map[string]bool{}
	var missing, structs []anchorEntry
	for _, e := range es {
		if strings.HasPrefix(e.Name, "struct:") {
			structs = append(structs, e)
			continue
		}
		recorded[e.Name] = true
		if have[e.Name] == nil {
			missing = append(missing, e)
		}
	}
	defer func() {
		// renamed struct types without methods (records): a recorded struct that is gone and an unrecorded struct of
		// today with the same sequence of field types (unique on both sides)
		typesOf := func(feats []string) string {
			var ts []string
			for _, f := range feats {
				if a := strings.SplitN(f, ":", 3); len(a) == 3 {
					ts = append(ts, a[2])
				}
			}
			return strings.Join(ts, "|")
		}
		today := map[string]*types.Struct{}
		for _, pkg := range []*ssa.Package{p.Main, p.Post} {
			if pkg == nil {
				continue
			}
			for _, m := range pkg.Members {
				if t, ok := m.(*ssa.Type); ok {
					if st, ok := t.Type().Underlying().(*types.Struct); ok {
						today[t.Name()] = st
					}
				}
			}
		}
		recStruct := map[string]bool{}
		for _, e := range structs {
			recStruct[strings.TrimPrefix(e.Name, "struct:")] = true
		}
		for _, e := range structs {
			old := strings.TrimPrefix(e.Name, "struct:")
			if _, alive := today[old]; alive {
				continue
			}
			known := false
			for _, o := range typeAliases {
				if o == old {
					known = true
				}
			}
			if known {
				continue
			}
			match, n := "", 0
			for name, st := range today {
				if recStruct[name] || typeAliases[name] != "" {
					continue
				}
				if typesOf(structFeats(st)) == typesOf(e.Feats) {
					match = name
					n++
				}
			}
			if n == 1 {
				typeAliases[match] = old
			}
		}
		// renamed fields, once renamed types are known: same struct (by its known name), same number of fields,
		// same type at the index — the field keeps the name the rules know
		for _, pkg := range []*ssa.Package{p.Main, p.Post} {
			if pkg == nil {
				continue
			}
			for _, m := range pkg.Members {
				t, ok := m.(*ssa.Type)
				if !ok {
					continue
				}
				named, _ := t.Type().(*types.Named)
				st, ok := t.Type().Underlying().(*types.Struct)
				if !ok || named == nil {
					continue
				}
				for _, e := range structs {
					if e.Name != "struct:"+KnownTypeName(named) {
						continue
					}
					now := structFeats(st)
					if len(now) != len(e.Feats) {
						continue
					}
					for i := range now {
						a, b := strings.SplitN(e.Feats[i], ":", 3), strings.SplitN(now[i], ":", 3)
						if len(a) == 3 && len(b) == 3 && a[1] != b[1] {
							if fieldAliases[st] == nil {
								fieldAliases[st] = map[int]string{}
							}
							fieldAliases[st][i] = a[1]
						}
					}
				}
			}
		}
	}()
	if len(missing) == 0 {
		return nil
	}
	var fresh []*ssa.Function
	for name, f := range have {
		if !recorded[name] {
			fresh = append(fresh, f)
		}
	}
	sort.Slice(fresh, func(i, j int) bool { return fresh[i].Pos() < fresh[j].Pos() })
	var notes []string
	used := map[*ssa.Function]bool{}
	// a renamed type first: every method recorded for a type that no longer exists, and an unrecorded type of today
	// that has exactly the same set of method names — its methods are the old ones, whatever their bodies mention
	recvOf := func(name string) (string, string) { // "(*T).m" / "T.m" -> T, m
		n := strings.TrimPrefix(name, "(*")
		if k := strings.Index(n, ")."); k >= 0 && strings.HasPrefix(name, "(*") {
			return n[:k], n[k+2:]
		}
		if k := strings.Index(name, "."); k > 0 && !strings.Contains(name, "$") && !strings.HasPrefix(name, "(") {
			return name[:k], name[k+1:]
		}
		return "", ""
	}
	typeAlive := map[string]bool{}
	for name := range have {
		if t, _ := recvOf(name); t != "" && recorded[name] {
			typeAlive[t] = true
		}
	}
	oldMethods := map[string]map[string]bool{}
	for _, e := range missing {
		if t, m := recvOf(e.Name); t != "" && !typeAlive[t] {
			if oldMethods[t] == nil {
				oldMethods[t] = map[string]bool{}
			}
			oldMethods[t][m] = true
		}
	}
	newMethods := map[string]map[string]bool{}
	for _, f := range fresh {
		if t, m := recvOf(FuncName(f)); t != "" {
			if newMethods[t] == nil {
				newMethods[t] = map[string]bool{}
			}
			newMethods[t][m] = true
		}
	}
	// several types may share one set of method names (the leaf validators): they are told apart by what their
	// methods say and call
	oldFeats := map[string][]string{}
	for _, e := range missing {
		oldFeats[e.Name] = e.Feats
	}
	freshByName := map[string]*ssa.Function{}
	for _, f := range fresh {
		freshByName[FuncName(f)] = f
	}
	score := func(ot, nt string, om map[string]bool) float64 {
		total := 0.0
		for m := range om {
			var of []string
			var nf *ssa.Function
			for _, pre := range []string{"(*%s).%s", "%s.%s"} {
				if f, ok := oldFeats[fmt.Sprintf(pre, ot, m)]; ok {
					of = f
				}
				if f, ok := freshByName[fmt.Sprintf(pre, nt, m)]; ok {
					nf = f
				}
			}
			if nf != nil {
				a, b := jaccard(of, featsOf(nf)), jaccard(semanticFeats(of), semanticFeats(featsOf(nf)))
				if b > a {
					a = b
				}
				total += a
			}
		}
		return total
	}
	takenNew := map[string]bool{}
	var oldTypes []string
	for ot := range oldMethods {
		oldTypes = append(oldTypes, ot)
	}
	sort.Strings(oldTypes)
	for _, ot := range oldTypes {
		om := oldMethods[ot]
		if len(om) < 2 {
			continue
		}
		match := ""
		n := 0
		best, second := -1.0, -1.0
		for nt, nm := range newMethods {
			if len(nm) != len(om) || takenNew[nt] {
				continue
			}
			same := true
			for m := range om {
				if !nm[m] {
					same = false
				}
			}
			if same {
				n++
				if sc := score(ot, nt, om); sc > best {
					second, best, match = best, sc, nt
				} else if sc > second {
					second = sc
				}
			}
		}
		if n == 0 || (n > 1 && best-second < 0.3) {
			continue
		}
		takenNew[match] = true
		typeAliases[match] = ot
		notes = append(notes, fmt.Sprintf("type %s is taken for the renamed %s (same %d methods)", match, ot, len(om)))
		for _, f := range fresh {
			name := FuncName(f)
			t, m := recvOf(name)
			if t != match {
				continue
			}
			oldName := ot + "." + m
			if strings.HasPrefix(name, "(*") {
				oldName = "(*" + ot + ")." + m
			}
			used[f] = true
			aliases[f] = oldName
			recorded[oldName] = true
		}
	}
	var still []anchorEntry
	for _, e := range missing {
		t, _ := recvOf(e.Name)
		renamed := false
		for _, ot := range typeAliases {
			if ot == t && t != "" {
				renamed = true
			}
		}
		if !renamed {
			still = append(still, e)
		}
	}
	missing = still
	for _, e := range missing {
		var best, second float64
		var bestF *ssa.Function
		for _, f := range fresh {
			if used[f] || !sameSig(sigOf(f), e.Sig) {
				continue
			}
			ff := featsOf(f)
			s := jaccard(e.Feats, ff)
			// renaming a field (or a type) changes every f: feature at once: what the function says and calls
			// (string constants, callees) identifies it as well
			if s2 := jaccard(semanticFeats(e.Feats), semanticFeats(ff)); s2 > s && len(semanticFeats(e.Feats)) > 0 {
				s = s2
			}
			if s > best {
				second, best, bestF = best, s, f
			} else if s > second {
				second = s
			}
		}
		if bestF != nil && best >= 0.6 && best-second >= 0.15 {
			used[bestF] = true
			notes = append(notes, fmt.Sprintf("%s is taken for the renamed %s (same signature, fingerprint similarity %.2f)", FuncName(bestF), e.Name, best))
			aliases[bestF] = e.Name
		}
	}
	return notes
}

// semanticFeats: the features that survive a rename of fields and types (string constants, callees, invoked methods).
func semanticFeats(fs []string) []string {
	var out []string
	for _, f := range fs {
		if strings.HasPrefix(f, "s:") || strings.HasPrefix(f, "c:") || strings.HasPrefix(f, "i:") {
			out = append(out, f)
		}
	}
	return out
}

// BaseName is f's own name as the rules know it (the recorded name for a renamed function).
func BaseName(f *ssa.Function) string {
	if f == nil {
		return ""
	}
	if a, ok := aliases[f]; ok {
		for i := len(a) - 1; i >= 0; i-- {
			if a[i] == '.' {
				return a[i+1:]
			}
		}
		return a
	}
	return f.Name()
}

// sameSig: equal signatures, also across a method <-> function conversion (the receiver dropped, or turned into
// the first parameter).
func sameSig(a, b string) bool {
	strip := func(s string) string {
		if len(s) > 7 && s[:7] == "method " {
			return s[7:]
		}
		return s
	}
	if a == b {
		return true
	}
	a, b = strip(a), strip(b)
	if a == b {
		return true
	}
	dropFirst := func(s string) string {
		// "func(T1,T2,)(R,)" -> "func(T2,)(R,)"
		i := len("func(")
		depth := 0
		for j := i; j < len(s); j++ {
			switch s[j] {
			case '(', '[', '{':
				depth++
			case ')', ']', '}':
				if depth == 0 {
					return s
				}
				depth--
			case ',':
				if depth == 0 {
					return s[:i] + s[j+1:]
				}
			}
		}
		return s
	}
	return dropFirst(a) == b || dropFirst(b) == a
}

// structFeats: one "index:name:type" per field (types of the package spelled without the package path).
func structFeats(st *types.Struct) []string {
	q := func(*types.Package) string { return "" }
	var out []string
	for i := 0; i < st.NumFields(); i++ {
		out = append(out, fmt.Sprintf("%d:%s:%s", i, st.Field(i).Name(), types.TypeString(st.Field(i).Type(), q)))
	}
	return out
}
