// Package core: loading of the subject repository, obligations, evidence.
package core

import (
	"fmt"
	"go/token"
	"go/types"
	"os"
	"path/filepath"
	"sort"
	"strings"

	"golang.org/x/tools/go/packages"
	"golang.org/x/tools/go/ssa"
	"golang.org/x/tools/go/ssa/ssautil"
)

const ModPath = "github.com/go-openapi/validate"

// Prog is the type-checked, SSA-lowered subject under one build configuration.
type Prog struct {
	Dir   string
	Tags  string
	Fset  *token.FileSet
	Pkgs  []*packages.Package
	SSA   *ssa.Program
	Main  *ssa.Package // package validate
	Post  *ssa.Package // package validate/post (nil for control packages)
	MainP *packages.Package
	PostP *packages.Package
	// Funcs are all functions with bodies declared in the subject packages
	// (methods, functions, anonymous functions, init), sorted by position.
	Funcs []*ssa.Function
}

// Load loads ./... under dir with the given build tags. It fails on any type error
// and when the expected packages are missing: an analysis of a partial program proves nothing.
// Load loads the subject; LoadOverlay additionally replaces file contents in memory (positive controls).
func Load(dir, tags string) (*Prog, error) { return LoadOverlay(dir, tags, nil) }

func LoadOverlay(dir, tags string, overlay map[string][]byte) (*Prog, error) {
	os.Unsetenv("GOWORK")
	env := append(os.Environ(), "GOFLAGS=-mod=mod", "GOPROXY=off", "GOSUMDB=off", "GOTOOLCHAIN=local", "GOWORK=off")
	cfg := &packages.Config{Mode: packages.LoadSyntax, Dir: dir, Tests: false, Env: env, Overlay: overlay}
	if tags != "" {
		cfg.BuildFlags = []string{"-tags=" + tags}
	}
	pkgs, err := packages.Load(cfg, "./...")
	if err != nil {
		return nil, err
	}
	if len(pkgs) == 0 {
		return nil, fmt.Errorf("no packages loaded from %s", dir)
	}
	for _, p := range pkgs {
		if len(p.Errors) > 0 {
			return nil, fmt.Errorf("package %s has errors: %v", p.PkgPath, p.Errors)
		}
		if p.Types == nil || p.TypesInfo == nil || len(p.Syntax) == 0 {
			return nil, fmt.Errorf("package %s not fully loaded", p.PkgPath)
		}
	}
	prog, spkgs := ssautil.Packages(pkgs, ssa.InstantiateGenerics)
	prog.Build()
	P := &Prog{Dir: dir, Tags: tags, Fset: pkgs[0].Fset, Pkgs: pkgs, SSA: prog}
	for i, p := range pkgs {
		switch {
		case p.PkgPath == ModPath || (P.Main == nil && !strings.HasSuffix(p.PkgPath, "/post") && len(pkgs) == 1):
			P.Main, P.MainP = spkgs[i], p
		case p.PkgPath == ModPath+"/post":
			P.Post, P.PostP = spkgs[i], p
		}
	}
	if P.Main == nil {
		return nil, fmt.Errorf("package %s not found under %s", ModPath, dir)
	}
	seen := map[*ssa.Function]bool{}
	var add func(f *ssa.Function)
	add = func(f *ssa.Function) {
		if f == nil || seen[f] || f.Blocks == nil {
			return
		}
		seen[f] = true
		P.Funcs = append(P.Funcs, f)
		for _, a := range f.AnonFuncs {
			add(a)
		}
	}
	for _, sp := range []*ssa.Package{P.Main, P.Post} {
		if sp == nil {
			continue
		}
		for _, m := range sp.Members {
			switch m := m.(type) {
			case *ssa.Function:
				add(m)
			case *ssa.Type:
				for _, t := range []types.Type{m.Type(), types.NewPointer(m.Type())} {
					ms := prog.MethodSets.MethodSet(t)
					for i := 0; i < ms.Len(); i++ {
						fn := prog.MethodValue(ms.At(i))
						if fn != nil && fn.Synthetic == "" {
							add(fn)
						}
					}
				}
			}
		}
	}
	sort.Slice(P.Funcs, func(i, j int) bool { return P.Funcs[i].Pos() < P.Funcs[j].Pos() })
	return P, nil
}

// Pos renders a position relative to the repository root.
func (p *Prog) Pos(pos token.Pos) string {
	if !pos.IsValid() {
		return "-"
	}
	ps := p.Fset.Position(pos)
	rel, err := filepath.Rel(p.Dir, ps.Filename)
	if err != nil {
		rel = ps.Filename
	}
	return fmt.Sprintf("%s:%d:%d", rel, ps.Line, ps.Column)
}

// File returns the base file name holding pos.
func (p *Prog) File(pos token.Pos) string {
	if !pos.IsValid() {
		return ""
	}
	return filepath.Base(p.Fset.Position(pos).Filename)
}

// FuncName gives a stable, human name: "(*T).M", "f", "f$1".
// typeAliases: today's name of a renamed type -> the name the rules know it by (see anchors.go).
var typeAliases = map[string]string{}

// fieldAliases: struct type -> field index -> the field name the rules know it by.
var fieldAliases = map[*types.Struct]map[int]string{}

// KnownTypeName: the name of a named type as the rules know it (a renamed type keeps its old name).
func KnownTypeName(n *types.Named) string {
	if n == nil {
		return ""
	}
	if a, ok := typeAliases[n.Obj().Name()]; ok {
		return a
	}
	return n.Obj().Name()
}

func FuncName(f *ssa.Function) string {
	if f == nil {
		return "<nil>"
	}
	if a, ok := aliases[f]; ok {
		return a // a renamed function keeps the name the rules know it by (see anchors.go)
	}
	if f.Parent() != nil {
		return FuncName(f.Parent()) + "$" + strings.TrimPrefix(f.Name(), f.Parent().Name()+"$")
	}
	if recv := f.Signature.Recv(); recv != nil {
		t := recv.Type()
		star := ""
		if pt, ok := t.(*types.Pointer); ok {
			t = pt.Elem()
			star = "*"
		}
		n := t.String()
		if nt, ok := t.(*types.Named); ok {
			n = nt.Obj().Name()
		}
		if star != "" {
			return "(*" + n + ")." + f.Name()
		}
		return n + "." + f.Name()
	}
	return f.Name()
}

// Func finds a subject function by FuncName (package validate first, then post).
func (p *Prog) Func(name string) *ssa.Function {
	for _, f := range p.Funcs {
		if FuncName(f) == name {
			return f
		}
	}
	return nil
}

// InSubject reports whether fn is declared (with a body) in the subject packages.
func (p *Prog) InSubject(fn *ssa.Function) bool {
	if fn == nil || fn.Blocks == nil {
		return false
	}
	pk := fn.Package()
	if pk == nil && fn.Parent() != nil {
		return p.InSubject(fn.Parent())
	}
	return pk != nil && (pk == p.Main || pk == p.Post)
}

// NamedOf strips pointers and returns the named type, if any.
func NamedOf(t types.Type) *types.Named {
	for {
		switch u := t.(type) {
		case *types.Pointer:
			t = u.Elem()
		case *types.Named:
			return u
		default:
			return nil
		}
	}
}

// TypeName returns "pkgname.Name" for named types (after stripping pointers), else t.String().
func TypeName(t types.Type) string {
	if n := NamedOf(t); n != nil {
		if n.Obj().Pkg() != nil {
			return n.Obj().Pkg().Name() + "." + n.Obj().Name()
		}
		return n.Obj().Name()
	}
	return t.String()
}

// InSubjectPkg: the types package is one of the subject's.
func (p *Prog) InSubjectPkg(pk *types.Package) bool {
	return pk != nil && ((p.Main != nil && pk == p.Main.Pkg) || (p.Post != nil && pk == p.Post.Pkg))
}
