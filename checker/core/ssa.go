package core

import (
	"fmt"
	"go/constant"
	"go/token"
	"go/types"
	"regexp"
	"strings"

	"golang.org/x/tools/go/ssa"
)

// StaticCallee returns the statically known callee of a call (function, method, closure literal).
func StaticCallee(c ssa.CallInstruction) *ssa.Function {
	if c == nil {
		return nil
	}
	return c.Common().StaticCallee()
}

// CalleeID gives a printable identity for any call: "pkg.Func", "(*pkg.T).M", "iface.M" for invokes.
func CalleeID(c ssa.CallInstruction) string {
	cc := c.Common()
	if cc.IsInvoke() {
		return "invoke " + TypeName(cc.Value.Type()) + "." + cc.Method.Name()
	}
	if f := cc.StaticCallee(); f != nil {
		return QualName(f)
	}
	if b, ok := cc.Value.(*ssa.Builtin); ok {
		return "builtin." + b.Name()
	}
	return "dynamic"
}

// QualName = package-qualified function name: "regexp.Compile", "(*sync.Mutex).Lock", "validate.compileRegexp".
func QualName(f *ssa.Function) string {
	if f == nil {
		return "<nil>"
	}
	if f.Parent() != nil {
		return QualName(f.Parent()) + "$" + strings.TrimPrefix(f.Name(), f.Parent().Name()+"$")
	}
	pk := ""
	if f.Pkg != nil {
		pk = f.Pkg.Pkg.Name()
	} else if o := f.Object(); o != nil && o.Pkg() != nil {
		pk = o.Pkg().Name()
	}
	if a, ok := aliases[f]; ok {
		// a renamed function (or a method of a renamed type) keeps the name the rules know it by (see anchors.go)
		if strings.HasPrefix(a, "(*") {
			return "(*" + pk + "." + a[2:]
		}
		return pk + "." + a
	}
	if recv := f.Signature.Recv(); recv != nil {
		t := recv.Type()
		star := ""
		if pt, ok := t.(*types.Pointer); ok {
			t, star = pt.Elem(), "*"
		}
		n := t.String()
		if nt, ok := t.(*types.Named); ok {
			n = nt.Obj().Name()
			if nt.Obj().Pkg() != nil {
				pk = nt.Obj().Pkg().Name()
			}
		}
		if star != "" {
			return "(*" + pk + "." + n + ")." + f.Name()
		}
		return pk + "." + n + "." + f.Name()
	}
	return pk + "." + f.Name()
}

// IsCallTo reports whether instr is a static call to a function whose QualName is one of names.
func IsCallTo(instr ssa.Instruction, names ...string) (ssa.CallInstruction, bool) {
	c, ok := instr.(ssa.CallInstruction)
	if !ok {
		return nil, false
	}
	f := StaticCallee(c)
	if f == nil {
		return nil, false
	}
	q := QualName(f)
	for _, n := range names {
		if q == n {
			return c, true
		}
	}
	return nil, false
}

// Path renders the access path of an SSA value relative to parameters, globals and calls:
// "s.Options.recycleValidators", "pools.poolOfResults", "*t0". Loads are transparent
// (go/ssa performs no CSE, so two reads of the same field are different values with equal paths).
// ok=false when the value is not a pure path (phi, arithmetic, ...).
func Path(v ssa.Value) (string, bool) {
	return path(v, 0)
}

func path(v ssa.Value, depth int) (string, bool) {
	if depth > 12 {
		return "", false
	}
	switch x := v.(type) {
	case *ssa.Parameter:
		return x.Name(), true
	case *ssa.FreeVar:
		return x.Name(), true
	case *ssa.Global:
		return x.Name(), true
	case *ssa.Alloc:
		// the register disambiguates equally named variables of different scopes
		return "&" + x.Comment + "%" + x.Name(), true
	case *ssa.UnOp:
		if x.Op == token.MUL {
			p, ok := path(x.X, depth+1)
			if !ok {
				return "", false
			}
			return strings.TrimPrefix(p, "&"), true
		}
		return "", false
	case *ssa.FieldAddr:
		p, ok := path(x.X, depth+1)
		if !ok {
			return "", false
		}
		return "&" + strings.TrimPrefix(p, "&") + "." + fieldName(x.X.Type(), x.Field), true
	case *ssa.Field:
		p, ok := path(x.X, depth+1)
		if !ok {
			return "", false
		}
		return strings.TrimPrefix(p, "&") + "." + fieldName(x.X.Type(), x.Field), true
	case *ssa.IndexAddr:
		p, ok := path(x.X, depth+1)
		if !ok {
			return "", false
		}
		i, ok := path(x.Index, depth+1)
		if !ok {
			if c, isC := x.Index.(*ssa.Const); isC {
				i = c.Value.String()
			} else {
				i = "?"
			}
		}
		return "&" + strings.TrimPrefix(p, "&") + "[" + i + "]", true
	case *ssa.Const:
		if x.Value == nil {
			return "nil", true
		}
		return x.Value.String(), true
	case *ssa.ChangeType:
		return path(x.X, depth+1)
	case *ssa.MakeInterface:
		return path(x.X, depth+1)
	case *ssa.Call:
		// pure accessor calls participate in paths: recv.M()
		if f := x.Call.StaticCallee(); f != nil && len(x.Call.Args) == 1 && f.Signature.Recv() != nil {
			p, ok := path(x.Call.Args[0], depth+1)
			if ok {
				return strings.TrimPrefix(p, "&") + "." + f.Name() + "()", true
			}
		}
		return "%" + x.Name(), true
	case *ssa.Extract, *ssa.Phi, *ssa.Lookup, *ssa.Index, *ssa.TypeAssert, *ssa.Next:
		// identity leaf: the SSA register (unique per value within a function)
		return "%" + v.Name(), true
	}
	return "", false
}

func fieldName(t types.Type, i int) string {
	if p, ok := t.Underlying().(*types.Pointer); ok {
		t = p.Elem()
	}
	if s, ok := t.Underlying().(*types.Struct); ok && i < s.NumFields() {
		return FieldName(s, i)
	}
	return fmt.Sprintf("#%d", i)
}

var regRe = regexp.MustCompile(`%t[0-9]+`)

// StablePath is Path with SSA register names removed (for keys and messages that must not change
// when unrelated code is edited). Not suitable for identity comparisons.
func StablePath(v ssa.Value) (string, bool) {
	p, ok := Path(v)
	if !ok {
		return "", false
	}
	p = strings.TrimPrefix(p, "&")
	if strings.HasPrefix(p, "%") {
		return "", false
	}
	return regRe.ReplaceAllString(p, ""), true
}

// FieldOf returns (struct named type, field name) addressed by a FieldAddr/Field value.
func FieldOf(v ssa.Value) (string, string, bool) {
	switch x := v.(type) {
	case *ssa.FieldAddr:
		return TypeName(x.X.Type()), fieldName(x.X.Type(), x.Field), true
	case *ssa.Field:
		return TypeName(x.X.Type()), fieldName(x.X.Type(), x.Field), true
	}
	return "", "", false
}

// ConstInt extracts an integer constant.
func ConstInt(v ssa.Value) (int64, bool) {
	c, ok := v.(*ssa.Const)
	if !ok || c.Value == nil || c.Value.Kind() != constant.Int {
		return 0, false
	}
	return c.Int64(), true
}

// IsNilConst reports whether v is the nil constant.
func IsNilConst(v ssa.Value) bool {
	c, ok := v.(*ssa.Const)
	return ok && c.IsNil()
}

// TrueOnly reports whether block b can only be entered through the true (want=true) or false
// edge of the If terminating block c, i.e. b is dominated by that successor and the successor has c as its only predecessor.
func EdgeDominates(c *ssa.BasicBlock, want bool, b *ssa.BasicBlock) bool {
	if len(c.Instrs) == 0 {
		return false
	}
	if _, ok := c.Instrs[len(c.Instrs)-1].(*ssa.If); !ok {
		return false
	}
	idx := 0
	if !want {
		idx = 1
	}
	s := c.Succs[idx]
	if c.Succs[0] == c.Succs[1] {
		return false
	}
	if len(s.Preds) != 1 {
		return false
	}
	return s.Dominates(b)
}

// Cond describes an atomic condition established on entering a block.
type Cond struct {
	If    *ssa.If
	Value ssa.Value // the condition value (after stripping negations)
	Sense bool      // the value is known to be Sense
}

// CondsAt returns the atomic branch conditions known to hold whenever block b executes
// (dominating If edges). && / || are already lowered to control flow by go/ssa.
func CondsAt(b *ssa.BasicBlock) []Cond {
	var out []Cond
	f := b.Parent()
	for _, c := range f.Blocks {
		if len(c.Instrs) == 0 {
			continue
		}
		ifi, ok := c.Instrs[len(c.Instrs)-1].(*ssa.If)
		if !ok {
			continue
		}
		for _, want := range []bool{true, false} {
			if EdgeDominates(c, want, b) {
				v, s := ifi.Cond, want
				for {
					u, ok := v.(*ssa.UnOp)
					if ok && u.Op == token.NOT {
						v, s = u.X, !s
						continue
					}
					break
				}
				out = append(out, Cond{If: ifi, Value: v, Sense: s})
			}
		}
	}
	return out
}

// GuardedByPath reports whether block b only executes when the boolean access path
// (e.g. "s.Options.recycleValidators") evaluated to sense.
func GuardedByPath(b *ssa.BasicBlock, suffix string, sense bool) bool {
	for _, c := range CondsAt(b) {
		if p, ok := Path(c.Value); ok && strings.HasSuffix(p, suffix) && c.Sense == sense {
			return true
		}
	}
	return false
}

// InstrIndex returns the index of instr in its block.
func InstrIndex(instr ssa.Instruction) int {
	for i, x := range instr.Block().Instrs {
		if x == instr {
			return i
		}
	}
	return -1
}

// Reaches reports whether control can flow from just after instruction a to instruction b
// (same function), along CFG edges.
func Reaches(a, b ssa.Instruction) bool {
	ba, bb := a.Block(), b.Block()
	if ba == bb && InstrIndex(a) < InstrIndex(b) {
		return true
	}
	seen := map[*ssa.BasicBlock]bool{}
	var stack []*ssa.BasicBlock
	stack = append(stack, ba.Succs...)
	for len(stack) > 0 {
		x := stack[len(stack)-1]
		stack = stack[:len(stack)-1]
		if seen[x] {
			continue
		}
		seen[x] = true
		if x == bb {
			return true
		}
		stack = append(stack, x.Succs...)
	}
	return false
}

// InstrDominates: a executes before b on every path to b.
func InstrDominates(a, b ssa.Instruction) bool {
	if a.Block() == b.Block() {
		return InstrIndex(a) < InstrIndex(b)
	}
	return a.Block().Dominates(b.Block())
}

// Referrers of v, never nil-panicking.
func Refs(v ssa.Value) []ssa.Instruction {
	if r := v.Referrers(); r != nil {
		return *r
	}
	return nil
}

// EachInstr visits all instructions of f.
func EachInstr(f *ssa.Function, fn func(ssa.Instruction)) {
	for _, b := range f.Blocks {
		for _, i := range b.Instrs {
			fn(i)
		}
	}
}

// EnclosingTop returns the top-level function containing f (f itself when not a closure).
func EnclosingTop(f *ssa.Function) *ssa.Function {
	for f.Parent() != nil {
		f = f.Parent()
	}
	return f
}

// Walk explores the CFG forward starting just after instruction from. visit is called on each
// instruction reached; returning true stops the exploration along that path. edgeOK (may be nil)
// filters CFG edges: it receives the block and the index of the successor.
func Walk(from ssa.Instruction, edgeOK func(b *ssa.BasicBlock, succ int) bool, visit func(i ssa.Instruction) bool) {
	b := from.Block()
	start := InstrIndex(from) + 1
	seen := map[*ssa.BasicBlock]bool{}
	var run func(b *ssa.BasicBlock, start int)
	run = func(b *ssa.BasicBlock, start int) {
		for k := start; k < len(b.Instrs); k++ {
			if visit(b.Instrs[k]) {
				return
			}
		}
		for si, s := range b.Succs {
			if edgeOK != nil && !edgeOK(b, si) {
				continue
			}
			if seen[s] {
				continue
			}
			seen[s] = true
			run(s, 0)
		}
	}
	run(b, start)
}

// WalkBlock is Walk starting at the first instruction of block b (inclusive).
func WalkBlock(b *ssa.BasicBlock, edgeOK func(b *ssa.BasicBlock, succ int) bool, visit func(i ssa.Instruction) bool) {
	seen := map[*ssa.BasicBlock]bool{b: true}
	var run func(b *ssa.BasicBlock)
	run = func(b *ssa.BasicBlock) {
		for _, i := range b.Instrs {
			if visit(i) {
				return
			}
		}
		for si, s := range b.Succs {
			if edgeOK != nil && !edgeOK(b, si) {
				continue
			}
			if seen[s] {
				continue
			}
			seen[s] = true
			run(s)
		}
	}
	run(b)
}

// OnlyWhenPathTrue builds an edge filter that, at every If whose condition is the boolean access
// path ending in suffix (possibly negated), follows only the edge on which the path is true.
func OnlyWhenPathTrue(suffix string) func(b *ssa.BasicBlock, succ int) bool {
	return func(b *ssa.BasicBlock, succ int) bool {
		ifi, ok := b.Instrs[len(b.Instrs)-1].(*ssa.If)
		if !ok {
			return true
		}
		v, sense := ifi.Cond, true
		for {
			u, ok := v.(*ssa.UnOp)
			if ok && u.Op == token.NOT {
				v, sense = u.X, !sense
				continue
			}
			break
		}
		p, ok := Path(v)
		if !ok || !strings.HasSuffix(p, suffix) {
			return true
		}
		// succ 0 is taken when Cond is true
		condTrue := succ == 0
		return condTrue == sense
	}
}

// ControlConds returns the branch conditions on which the execution of block b is (transitively)
// control dependent: for every branch edge X->Y such that b post-dominates Y but not X (Ferrante et
// al.), the condition of X with the sense of the edge; closed transitively over the branches' own
// dependences. Unlike CondsAt this also sees else-branches of compound (&&, ||) conditions.
func ControlConds(b *ssa.BasicBlock) []Cond {
	f := b.Parent()
	n := len(f.Blocks)
	// post-dominator sets, with a virtual exit (index n)
	pdom := make([][]bool, n+1)
	for i := range pdom {
		pdom[i] = make([]bool, n+1)
		for j := range pdom[i] {
			pdom[i][j] = true
		}
	}
	for j := range pdom[n] {
		pdom[n][j] = j == n
	}
	succs := func(i int) []int {
		blk := f.Blocks[i]
		if len(blk.Succs) == 0 {
			return []int{n}
		}
		var out []int
		for _, s := range blk.Succs {
			out = append(out, s.Index)
		}
		return out
	}
	for changed := true; changed; {
		changed = false
		for i := n - 1; i >= 0; i-- {
			nw := make([]bool, n+1)
			first := true
			for _, s := range succs(i) {
				if first {
					copy(nw, pdom[s])
					first = false
				} else {
					for j := range nw {
						nw[j] = nw[j] && pdom[s][j]
					}
				}
			}
			nw[i] = true
			for j := range nw {
				if nw[j] != pdom[i][j] {
					changed = true
				}
			}
			pdom[i] = nw
		}
	}
	var out []Cond
	seenBlk := map[int]bool{}
	var visit func(bi int)
	visit = func(bi int) {
		if seenBlk[bi] {
			return
		}
		seenBlk[bi] = true
		for xi, x := range f.Blocks {
			ifi, ok := x.Instrs[len(x.Instrs)-1].(*ssa.If)
			if !ok || len(x.Succs) != 2 {
				continue
			}
			for si, y := range x.Succs {
				if pdom[y.Index][bi] && !(pdom[xi][bi] && xi != bi) {
					v, sense := ifi.Cond, si == 0
					for {
						u, ok := v.(*ssa.UnOp)
						if ok && u.Op == token.NOT {
							v, sense = u.X, !sense
							continue
						}
						break
					}
					out = append(out, Cond{If: ifi, Value: v, Sense: sense})
					visit(xi)
				}
			}
		}
	}
	visit(b.Index)
	return out
}

// FieldName: the name of field i of st as the rules know it (a renamed field keeps its old name, see anchors.go).
func FieldName(st *types.Struct, i int) string {
	if a, has := fieldAliases[st][i]; has {
		return a
	}
	return st.Field(i).Name()
}
