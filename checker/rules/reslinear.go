package rules

import (
	"fmt"
	"go/token"
	"go/types"
	"strings"

	"golang.org/x/tools/go/ssa"

	"verifchk/core"
)

// RES-LINEAR — a pooled *Result is not used after the operation that released it, and is released at most once.

type resAnalysis struct {
	p  *core.Prog
	pi *poolInfo
	// summaries
	consumes      map[*ssa.Function]map[int]bool // param index consumed
	consumesElems map[*ssa.Function]map[int]bool // elements of slice param consumed
	consumesFree  map[*ssa.Function]map[int]bool // closure: free variable (cell) consumed
	returnsPooled map[*ssa.Function]map[int]bool // result index may be pooled
	returnsParam  map[*ssa.Function]map[int]int  // result index -> param index (all paths)
	resultRedeem  map[*ssa.Function]bool
	resultBorrow  map[*ssa.Function]bool
	resNamed      *types.Named
}

func (ra *resAnalysis) isRes(t types.Type) bool {
	pt, ok := t.(*types.Pointer)
	if !ok {
		return false
	}
	n, ok := pt.Elem().(*types.Named)
	return ok && n == ra.resNamed
}

func (ra *resAnalysis) isResSlice(t types.Type) bool {
	s, ok := t.Underlying().(*types.Slice)
	return ok && ra.isRes(s.Elem())
}

func newResAnalysis(p *core.Prog) *resAnalysis {
	ra := &resAnalysis{p: p, pi: discoverPools(p),
		consumes: map[*ssa.Function]map[int]bool{}, consumesElems: map[*ssa.Function]map[int]bool{}, consumesFree: map[*ssa.Function]map[int]bool{},
		returnsPooled: map[*ssa.Function]map[int]bool{}, returnsParam: map[*ssa.Function]map[int]int{},
		resultRedeem: map[*ssa.Function]bool{}, resultBorrow: map[*ssa.Function]bool{}}
	ra.resNamed = ra.pi.resultType
	if ra.resNamed == nil {
		return ra
	}
	for f, t := range ra.pi.redeem {
		if ra.isRes(t) {
			ra.resultRedeem[f] = true
		}
	}
	for f, t := range ra.pi.borrow {
		if ra.isRes(t) {
			ra.resultBorrow[f] = true
		}
	}
	// fixpoint on summaries
	for iter := 0; iter < 12; iter++ {
		changed := false
		for _, f := range p.Funcs {
			if ra.resultRedeem[f] || ra.resultBorrow[f] {
				continue
			}
			if ra.summarise(f) {
				changed = true
			}
		}
		if !changed {
			break
		}
	}
	return ra
}

// root maps a value to the resource it denotes inside one function.
func (ra *resAnalysis) root(v ssa.Value) ssa.Value {
	for d := 0; d < 10; d++ {
		switch x := v.(type) {
		case *ssa.UnOp:
			if x.Op == token.MUL {
				switch c := x.X.(type) {
				case *ssa.Alloc:
					return c
				case *ssa.FreeVar:
					return c
				}
			}
			return v
		case *ssa.ChangeType:
			v = x.X
		case *ssa.Call:
			if g := core.StaticCallee(x); g != nil {
				if k, ok := ra.returnsParam[g][0]; ok && g.Signature.Results().Len() == 1 && k < len(x.Call.Args) {
					v = x.Call.Args[k]
					continue
				}
			}
			return v
		default:
			return v
		}
	}
	return v
}

func (ra *resAnalysis) maybePooled(v ssa.Value, seen map[ssa.Value]bool) bool {
	if seen[v] {
		return false
	}
	seen[v] = true
	switch x := v.(type) {
	case *ssa.Const:
		return false
	case *ssa.Alloc:
		// a cell holding a *Result: pooled if any stored value is; the address of a local Result: not pooled
		if ra.isRes(x.Type().(*types.Pointer).Elem()) {
			for _, ref := range core.Refs(x) {
				if st, ok := ref.(*ssa.Store); ok && st.Addr == ssa.Value(x) && ra.maybePooled(st.Val, seen) {
					return true
				}
			}
			return false
		}
		return false
	case *ssa.FreeVar:
		// resolve through the bindings of the closure in its parent
		fn := x.Parent()
		idx := -1
		for k, fv := range fn.FreeVars {
			if fv == x {
				idx = k
			}
		}
		if fn.Parent() == nil || idx < 0 {
			return true
		}
		found, pooled := false, false
		core.EachInstr(fn.Parent(), func(i ssa.Instruction) {
			if mc, ok := i.(*ssa.MakeClosure); ok && mc.Fn == ssa.Value(fn) && idx < len(mc.Bindings) {
				found = true
				if ra.maybePooled(mc.Bindings[idx], seen) {
					pooled = true
				}
			}
		})
		return !found || pooled
	case *ssa.Parameter:
		return true
	case *ssa.Phi:
		for _, e := range x.Edges {
			if ra.maybePooled(e, seen) {
				return true
			}
		}
		return false
	case *ssa.ChangeType:
		return ra.maybePooled(x.X, seen)
	case *ssa.Extract:
		if c, ok := x.Tuple.(*ssa.Call); ok {
			if g := core.StaticCallee(c); g != nil && ra.p.InSubject(g) {
				return ra.returnsPooled[g][x.Index]
			}
		}
		return true
	case *ssa.Call:
		if x.Call.IsInvoke() {
			return true
		}
		g := core.StaticCallee(x)
		if g == nil {
			return true
		}
		if ra.resultBorrow[g] {
			return true
		}
		if k, ok := ra.returnsParam[g][0]; ok && k < len(x.Call.Args) {
			return ra.maybePooled(x.Call.Args[k], seen)
		}
		if ra.p.InSubject(g) {
			return ra.returnsPooled[g][0]
		}
		return true
	case *ssa.UnOp:
		if x.Op == token.MUL {
			switch c := x.X.(type) {
			case *ssa.Alloc:
				return ra.maybePooled(c, seen)
			case *ssa.Global:
				return false // emptyResult: the redeem function refuses it
			}
		}
		return true
	}
	return true
}

type consumeEvent struct {
	at     ssa.Instruction // where the consumption takes effect
	site   ssa.Instruction // the call that causes it
	val    ssa.Value
	how    string
	defer_ bool
}

// varargElems: values stored into the varargs array behind a slice argument.
func varargElems(arg ssa.Value) []ssa.Value {
	sl, ok := arg.(*ssa.Slice)
	if !ok {
		return nil
	}
	al, ok := sl.X.(*ssa.Alloc)
	if !ok {
		return nil
	}
	var out []ssa.Value
	for _, ref := range core.Refs(al) {
		if ia, ok := ref.(*ssa.IndexAddr); ok {
			for _, r2 := range core.Refs(ia) {
				if st, ok := r2.(*ssa.Store); ok && st.Addr == ssa.Value(ia) {
					out = append(out, st.Val)
				}
			}
		}
	}
	return out
}

func (ra *resAnalysis) events(f *ssa.Function) []consumeEvent {
	var evs []consumeEvent
	var runDefers []ssa.Instruction
	core.EachInstr(f, func(i ssa.Instruction) {
		if _, ok := i.(*ssa.RunDefers); ok {
			runDefers = append(runDefers, i)
		}
	})
	core.EachInstr(f, func(i ssa.Instruction) {
		c, ok := i.(ssa.CallInstruction)
		if !ok {
			return
		}
		if _, isGo := i.(*ssa.Go); isGo {
			return
		}
		_, isDefer := i.(*ssa.Defer)
		var found []consumeEvent
		add := func(v ssa.Value, how string) {
			found = append(found, consumeEvent{at: i, site: i, val: v, how: how})
		}
		cc := c.Common()
		g := core.StaticCallee(c)
		if g != nil {
			switch {
			case ra.resultRedeem[g]:
				add(cc.Args[len(cc.Args)-1], "passed to "+g.Name())
			default:
				for j, a := range cc.Args {
					if ra.isRes(a.Type()) && ra.consumes[g][j] {
						add(a, "merged/released by "+core.FuncName(g))
					}
					if ra.isResSlice(a.Type()) && ra.consumesElems[g][j] {
						for _, e := range varargElems(a) {
							add(e, "merged/released by "+core.FuncName(g))
						}
					}
				}
				// closure bindings
				if mc, ok := cc.Value.(*ssa.MakeClosure); ok {
					for bi, b := range mc.Bindings {
						if ra.consumesFree[g][bi] {
							add(b, "released inside closure "+core.FuncName(g))
						}
					}
				}
			}
		}
		for _, e := range found {
			if isDefer {
				for _, rd := range runDefers {
					e2 := e
					e2.at, e2.defer_ = rd, true
					evs = append(evs, e2)
				}
			} else {
				evs = append(evs, e)
			}
		}
	})
	return evs
}

// summarise recomputes f's summaries; reports whether anything changed.
func (ra *resAnalysis) summarise(f *ssa.Function) bool {
	changed := false
	evs := ra.events(f)
	// values derived from each parameter / free var
	derive := func(start ssa.Value) map[ssa.Value]bool {
		set := map[ssa.Value]bool{start: true}
		work := []ssa.Value{start}
		for len(work) > 0 {
			x := work[len(work)-1]
			work = work[:len(work)-1]
			for _, ref := range core.Refs(x) {
				var nv ssa.Value
				switch u := ref.(type) {
				case *ssa.Phi:
					nv = u
				case *ssa.ChangeType:
					nv = u
				case *ssa.Store:
					if u.Val == x {
						if cell, ok := u.Addr.(*ssa.Alloc); ok {
							nv = cell
						}
					}
				case *ssa.UnOp:
					if u.Op == token.MUL && u.X == x {
						if _, isAlloc := x.(*ssa.Alloc); isAlloc {
							nv = u
						}
						if _, isFV := x.(*ssa.FreeVar); isFV {
							nv = u
						}
					}
				case *ssa.Call:
					if g := core.StaticCallee(u); g != nil {
						if k, ok := ra.returnsParam[g][0]; ok && k < len(u.Call.Args) && u.Call.Args[k] == x {
							nv = u
						}
					}
				}
				if nv != nil && !set[nv] {
					set[nv] = true
					work = append(work, nv)
				}
			}
		}
		return set
	}
	setB := func(m map[*ssa.Function]map[int]bool, k int) {
		if m[f] == nil {
			m[f] = map[int]bool{}
		}
		if !m[f][k] {
			m[f][k] = true
			changed = true
		}
	}
	for k, prm := range f.Params {
		if ra.isRes(prm.Type()) {
			d := derive(prm)
			for _, e := range evs {
				if d[e.val] || d[ra.root(e.val)] {
					setB(ra.consumes, k)
				}
			}
		}
		if ra.isResSlice(prm.Type()) {
			// element loads
			for _, ref := range core.Refs(prm) {
				if ia, ok := ref.(*ssa.IndexAddr); ok {
					for _, r2 := range core.Refs(ia) {
						if ld, ok := r2.(*ssa.UnOp); ok && ld.Op == token.MUL {
							d := derive(ld)
							for _, e := range evs {
								if d[e.val] {
									setB(ra.consumesElems, k)
								}
							}
						}
					}
				}
			}
		}
	}
	for k, fv := range f.FreeVars {
		pt, ok := fv.Type().(*types.Pointer)
		if !ok || !ra.isRes(pt.Elem()) {
			continue
		}
		d := derive(fv)
		for _, e := range evs {
			if d[e.val] || d[ra.root(e.val)] {
				setB(ra.consumesFree, k)
			}
		}
	}
	// returns
	nres := f.Signature.Results().Len()
	for ri := 0; ri < nres; ri++ {
		if !ra.isRes(f.Signature.Results().At(ri).Type()) {
			continue
		}
		paramAll := -2
		for _, b := range f.Blocks {
			ret, ok := b.Instrs[len(b.Instrs)-1].(*ssa.Return)
			if !ok {
				continue
			}
			v := ret.Results[ri]
			if ra.maybePooledRet(v) {
				setB(ra.returnsPooled, ri)
			}
			k := -1
			rv := ra.root(v)
			for pi, prm := range f.Params {
				if rv == ssa.Value(prm) {
					k = pi
				}
			}
			if paramAll == -2 {
				paramAll = k
			} else if paramAll != k {
				paramAll = -1
			}
		}
		if paramAll >= 0 {
			if ra.returnsParam[f] == nil {
				ra.returnsParam[f] = map[int]int{}
			}
			if old, ok := ra.returnsParam[f][ri]; !ok || old != paramAll {
				ra.returnsParam[f][ri] = paramAll
				changed = true
			}
		}
	}
	return changed
}

// maybePooledRet: like maybePooled but a returned parameter is the caller's business (returnsParam).
func (ra *resAnalysis) maybePooledRet(v ssa.Value) bool {
	if _, ok := ra.root(v).(*ssa.Parameter); ok {
		return false
	}
	return ra.maybePooled(v, map[ssa.Value]bool{})
}

// ResLinear runs the use-after-release dataflow on every function.
func ResLinear(p *core.Prog, r *core.Report) {
	const rule = "RES-LINEAR"
	ra := newResAnalysis(p)
	if ra.resNamed == nil {
		r.Unk(rule, "result-type", "-", "pooled Result type not found")
		return
	}
	nEvents, nFuncs := 0, 0
	for _, f := range p.Funcs {
		if ra.resultRedeem[f] || ra.resultBorrow[f] {
			continue
		}
		evs := ra.events(f)
		if len(evs) == 0 {
			continue
		}
		nFuncs++
		nEvents += len(evs)
		ra.checkFunc(f, evs, r, rule)
	}
	r.Count("res_consume_events", nEvents)
	r.Floor("res_consume_events", 120)
	// summaries in evidence
	var cons []string
	for f, m := range ra.consumes {
		for k := range m {
			cons = append(cons, fmt.Sprintf("%s#%d", core.FuncName(f), k))
		}
	}
	for f, m := range ra.consumesElems {
		for k := range m {
			cons = append(cons, fmt.Sprintf("%s#%d...", core.FuncName(f), k))
		}
	}
	sortStrings(cons)
	r.Info["res_consuming_positions"] = cons
	r.Note("RES-LINEAR: %d consuming uses in %d functions; consuming positions derived: %d", nEvents, nFuncs, len(cons))
}

func (ra *resAnalysis) checkFunc(f *ssa.Function, evs []consumeEvent, r *core.Report, rule string) {
	p := ra.p
	fn := core.FuncName(f)
	evAt := map[ssa.Instruction][]consumeEvent{}
	for _, e := range evs {
		evAt[e.at] = append(evAt[e.at], e)
	}
	type state map[ssa.Value]*consumeEvent // consumed resource -> first event
	in := map[*ssa.BasicBlock]state{}
	clone := func(s state) state {
		o := state{}
		for k, v := range s {
			o[k] = v
		}
		return o
	}
	// holds: which run-time results a φ may currently stand for (flow-sensitive may-alias). A token is an
	// SSA root value, marked old once that value has been redefined by a later loop iteration: releasing
	// the current `result` releases every φ that holds it (bestFailures = result; ...; Redeem(result)),
	// but not a φ that holds the result of an earlier iteration.
	type holdTok struct {
		v   ssa.Value
		old bool
	}
	type hstate map[*ssa.Phi]map[holdTok]bool
	hin := map[*ssa.BasicBlock]hstate{}
	hclone := func(h hstate) hstate {
		o := hstate{}
		for k, v := range h {
			m := map[holdTok]bool{}
			for t := range v {
				m[t] = true
			}
			o[k] = m
		}
		return o
	}
	var hcur hstate // the alias state the transfer function works on (set by the callers of transfer)
	reported := map[string]bool{}
	okSites := map[ssa.Instruction]bool{}
	badSites := map[ssa.Instruction]bool{}
	// transfer one block; when report is set, emit violations
	transfer := func(b *ssa.BasicBlock, s state, report bool) state {
		for _, i := range b.Instrs {
			if _, isPhi := i.(*ssa.Phi); isPhi {
				continue
			}
			// uses
			if report {
				if _, isDbg := i.(*ssa.DebugRef); !isDbg {
					for _, op := range i.Operands(nil) {
						if op == nil || *op == nil || !ra.isRes((*op).Type()) {
							continue
						}
						if bo, ok := i.(*ssa.BinOp); ok && (bo.Op == token.EQL || bo.Op == token.NEQ) {
							continue
						}
						if st, ok := i.(*ssa.Store); ok && st.Val == *op {
							if _, isCell := st.Addr.(*ssa.Alloc); isCell {
								continue
							}
						}
						rt := ra.root(*op)
						ev, consumed := s[rt]
						if !consumed {
							continue
						}
						if !ra.maybePooled(rt, map[ssa.Value]bool{}) {
							continue
						}
						what := "used"
						if _, isEv := evAt[i]; isEv {
							for _, e := range evAt[i] {
								if ra.root(e.val) == rt {
									what = "released again"
								}
							}
						}
						if _, isRet := i.(*ssa.Return); isRet {
							what = "returned"
						}
						key := fn + ":" + valName(rt) + ":" + what + "-after:" + siteName(ev.site)
						if !reported[key] {
							reported[key] = true
							badSites[ev.site] = true
							r.Bad(rule, key, p.Pos(posOf(i, f)), fmt.Sprintf("result %s is %s here although on some path it was already %s at %s (it is back in the pool and may belong to another validation)", valName(rt), what, ev.how, p.Pos(ev.site.Pos())))
						}
					}
				}
			}
			// cell store: new value replaces the consumed one
			if st, ok := i.(*ssa.Store); ok {
				if cell, ok := st.Addr.(*ssa.Alloc); ok && ra.isRes(st.Val.Type()) {
					if ev, c := s[ra.root(st.Val)]; c {
						s[cell] = ev
					} else {
						delete(s, cell)
					}
				}
			}
			for _, e := range evAt[i] {
				e := e
				rt := ra.root(e.val)
				if core.IsNilConst(rt) {
					continue
				}
				if _, already := s[rt]; !already {
					s[rt] = &e
				}
				// every φ that may stand for the released object is released with it
				rel := map[holdTok]bool{{rt, false}: true}
				if ph, ok := rt.(*ssa.Phi); ok {
					for t := range hcur[ph] {
						if !t.old { // results of earlier iterations are not identified with each other
							rel[t] = true
						}
					}
				}
				for ph, toks := range hcur {
					if ssa.Value(ph) == rt {
						continue
					}
					for t := range toks {
						if rel[t] {
							if _, already := s[ph]; !already {
								s[ph] = &e
							}
							break
						}
					}
				}
			}
			// a fresh definition of a value clears stale state (loops)
			if v, ok := i.(ssa.Value); ok && ra.isRes(v.Type()) {
				if ra.root(v) == v {
					if _, has := evAt[i]; !has {
						delete(s, v)
					}
					for _, toks := range hcur {
						if toks[holdTok{v, false}] {
							delete(toks, holdTok{v, false})
							toks[holdTok{v, true}] = true
						}
					}
				}
			}
		}
		return s
	}
	edgeState := func(pred, succ *ssa.BasicBlock, out state, hout hstate) (state, hstate) {
		s := clone(out)
		h := hclone(hout)
		pi := -1
		for k, pp := range succ.Preds {
			if pp == pred {
				pi = k
			}
		}
		for _, i := range succ.Instrs {
			phi, ok := i.(*ssa.Phi)
			if !ok {
				break
			}
			if !ra.isRes(phi.Type()) || pi < 0 {
				continue
			}
			inc := ra.root(phi.Edges[pi])
			if ev, c := out[inc]; c {
				s[phi] = ev
			} else {
				delete(s, phi)
			}
			for other, ts := range h { // this φ is redefined: what still refers to its previous value is old
				if other != phi && ts[holdTok{phi, false}] {
					delete(ts, holdTok{phi, false})
					ts[holdTok{phi, true}] = true
				}
			}
			toks := map[holdTok]bool{}
			if q, isPhi := inc.(*ssa.Phi); isPhi {
				for t := range hout[q] {
					toks[t] = true
				}
				toks[holdTok{q, false}] = true
			} else if !core.IsNilConst(inc) {
				toks[holdTok{inc, false}] = true
			}
			h[phi] = toks
		}
		// an SSA value names its current run-time instance only where its definition dominates: past that
		// (the loop header of the next iteration) a φ still holding it refers to an earlier instance
		for _, ts := range h {
			for t := range ts {
				if t.old {
					continue
				}
				if ins, ok := t.v.(ssa.Instruction); ok && ins.Block() != nil && !ins.Block().Dominates(succ) {
					delete(ts, t)
					ts[holdTok{t.v, true}] = true
				}
			}
		}
		return s, h
	}
	in[f.Blocks[0]] = state{}
	hin[f.Blocks[0]] = hstate{}
	work := []*ssa.BasicBlock{f.Blocks[0]}
	if f.Recover != nil {
		in[f.Recover] = state{}
		hin[f.Recover] = hstate{}
		work = append(work, f.Recover)
	}
	for iter := 0; len(work) > 0 && iter < 10000; iter++ {
		b := work[0]
		work = work[1:]
		hcur = hclone(hin[b])
		out := transfer(b, clone(in[b]), false)
		hout := hcur
		for _, s := range b.Succs {
			es, eh := edgeState(b, s, out, hout)
			old, seen := in[s]
			if !seen {
				in[s] = es
				hin[s] = eh
				work = append(work, s)
				continue
			}
			grew := false
			for k, v := range es {
				if _, has := old[k]; !has {
					old[k] = v
					grew = true
				}
			}
			oh := hin[s]
			for ph, toks := range eh {
				if oh[ph] == nil {
					oh[ph] = map[holdTok]bool{}
				}
				for t := range toks {
					if !oh[ph][t] {
						oh[ph][t] = true
						grew = true
					}
				}
			}
			if grew {
				work = append(work, s)
			}
		}
	}
	for _, b := range f.Blocks {
		if st, ok := in[b]; ok {
			hcur = hclone(hin[b])
			transfer(b, clone(st), true)
		}
	}
	for _, e := range evs {
		if !badSites[e.site] {
			okSites[e.site] = true
		}
	}
	n := map[string]int{}
	for site := range okSites {
		k := fn + ":" + siteName(site)
		n[k]++
	}
	for k, c := range n {
		r.OK(rule, k, p.Pos(f.Pos()), fmt.Sprintf("%d consuming call(s): no use of the released result is reachable afterwards", c))
	}
}

func posOf(i ssa.Instruction, f *ssa.Function) token.Pos {
	if i.Pos().IsValid() {
		return i.Pos()
	}
	// returns and some synthetic instructions carry no position: fall back to an operand or the function
	for _, op := range i.Operands(nil) {
		if op != nil && *op != nil && (*op).Pos().IsValid() {
			return (*op).Pos()
		}
	}
	return f.Pos()
}

func valName(v ssa.Value) string {
	switch x := v.(type) {
	case *ssa.Alloc:
		if x.Comment != "" {
			return x.Comment
		}
	case *ssa.Phi:
		if x.Comment != "" {
			return x.Comment
		}
	case *ssa.Parameter:
		return x.Name()
	case *ssa.FreeVar:
		return x.Name()
	case *ssa.Call:
		return "result-of-" + core.CalleeID(x)
	case *ssa.Extract:
		if c, ok := x.Tuple.(*ssa.Call); ok {
			return fmt.Sprintf("result#%d-of-%s", x.Index, core.CalleeID(c))
		}
	}
	return v.Name()
}

func siteName(i ssa.Instruction) string {
	if c, ok := i.(ssa.CallInstruction); ok {
		pre := ""
		if _, d := i.(*ssa.Defer); d {
			pre = "defer "
		}
		return pre + core.CalleeID(c)
	}
	return i.String()
}

// REDEEM-GUARD — only results that came out of the pool may be put (back) into it. Every call of the result
// redeemer must be applied to a value that is (a) tested `wantsRedeemOnMerge` on the way (the mark of a pooled
// result), or (b) the value of the pool's borrow function in the same activation, or (c) the result of a
// validation run with result recycling switched on by a constant option in the same activation. A result
// allocated with new(Result) that reaches the pool stays in its owner's hands while the next borrower clears it.
func RedeemGuard(p *core.Prog, r *core.Report) {
	const rule = "REDEEM-GUARD"
	ra := newResAnalysis(p)
	if ra.resNamed == nil {
		r.Unk(rule, "result-type", "-", "pooled Result type not found")
		return
	}
	n := 0
	seq := map[string]int{}
	for _, f := range p.Funcs {
		if ra.resultRedeem[f] || ra.resultBorrow[f] {
			continue
		}
		fn := core.FuncName(f)
		core.EachInstr(f, func(i ssa.Instruction) {
			c, ok := i.(ssa.CallInstruction)
			if !ok {
				return
			}
			g := core.StaticCallee(c)
			if g == nil || !ra.resultRedeem[g] {
				return
			}
			args := c.Common().Args
			x := args[len(args)-1]
			n++
			vn := valName(ra.root(x))
			if len(vn) > 1 && vn[0] == 't' && strings.Trim(vn[1:], "0123456789") == "" {
				vn = "value" // SSA register names are not stable
			}
			base := fn + ":" + vn
			seq[base]++
			key := base
			if seq[base] > 1 {
				key = fmt.Sprintf("%s#%d", base, seq[base])
			}
			// (a) guarded by the pooled mark of the same value
			xp, hasPath := core.StablePath(x)
			for _, cond := range core.CondsAt(i.Block()) {
				if !cond.Sense {
					continue
				}
				if cp, ok := core.StablePath(cond.Value); ok && hasPath && cp == xp+"."+pooledMark {
					r.OK(rule, key, p.Pos(i.Pos()), "released only when marked as pooled (wantsRedeemOnMerge)")
					return
				}
				if ld, ok := cond.Value.(*ssa.UnOp); ok {
					if fa, ok := ld.X.(*ssa.FieldAddr); ok {
						if _, name, _ := core.FieldOf(fa); name == pooledMark && ra.root(fa.X) == ra.root(x) {
							r.OK(rule, key, p.Pos(i.Pos()), "released only when marked as pooled (wantsRedeemOnMerge)")
							return
						}
					}
				}
			}
			// (b) borrowed in this activation
			if bc, ok := ra.root(x).(*ssa.Call); ok {
				if h := core.StaticCallee(bc); h != nil && ra.resultBorrow[h] {
					r.OK(rule, key, p.Pos(i.Pos()), "the value of the pool's borrow function in the same activation")
					return
				}
			}
			// deferred closure releasing a cell of the parent assigned from a recycling validation
			if ra.definitelyPooled(x, f, 0) {
				r.OK(rule, key, p.Pos(i.Pos()), "result of a validation run with result recycling switched on in this activation")
				return
			}
			r.Bad(rule, key, p.Pos(i.Pos()), "a result is put into the pool without being known to come from it (no wantsRedeemOnMerge test, not borrowed here): a result allocated with new(Result) — e.g. the warnings a caller keeps — would be cleared and refilled by the next borrower")
		})
	}
	r.Count("redeem_result_sites", n)
	r.Floor("redeem_result_sites", 20)
	// the other direction, at the API boundary: the result an exported Validate method of an exported validator
	// hands to its caller comes out of the pool only when result recycling is on (an unexported option that only
	// the one-shot entry point sets, which releases the result itself). Taken from the pool on the other side of
	// that test, the caller's result is marked as pooled: merging it into another result releases it while the
	// caller still reads it, and the next validation refills it.
	nMode := 0
	for _, f := range p.Funcs {
		if f.Parent() != nil || f.Name() != "Validate" || f.Signature.Recv() == nil || !p.InSubject(f) {
			continue
		}
		rn := core.NamedOf(f.Signature.Recv().Type())
		if rn == nil || !rn.Obj().Exported() {
			continue
		}
		core.EachInstr(f, func(i ssa.Instruction) {
			c, ok := i.(*ssa.Call)
			if !ok {
				return
			}
			g := core.StaticCallee(c)
			if g == nil || !ra.resultBorrow[g] {
				return
			}
			for _, cd := range core.ControlConds(c.Block()) {
				pth, ok := core.StablePath(cd.Value)
				if !ok || !strings.HasSuffix(pth, recycleResultSuffix) {
					continue
				}
				nMode++
				key := core.FuncName(f) + ":borrow-under-recycling"
				if cd.Sense {
					r.OK(rule, key, p.Pos(c.Pos()), "the result is taken from the pool only when result recycling is on")
				} else {
					r.Bad(rule, key, p.Pos(c.Pos()), "the result handed to the caller is taken from the pool exactly when result recycling is off: the caller of "+core.FuncName(f)+" holds a result marked as pooled, which the first Merge into another result releases while it is still in use")
				}
			}
		})
	}
	r.Count("api_result_mode_sites", nMode)
	r.Floor("api_result_mode_sites", 2)
}

// definitelyPooled: v is (a cell holding) the result of X.Validate where X was built in this activation (or the
// parent's, for a deferred closure) with an option list containing the recycling switch set to constant true.
func (ra *resAnalysis) definitelyPooled(v ssa.Value, f *ssa.Function, d int) bool {
	if d > 6 {
		return false
	}
	switch x := v.(type) {
	case *ssa.UnOp:
		if x.Op == token.MUL {
			return ra.definitelyPooled(x.X, f, d+1)
		}
	case *ssa.FreeVar:
		par := f.Parent()
		if par == nil {
			return false
		}
		idx := -1
		for k, fv := range f.FreeVars {
			if fv == x {
				idx = k
			}
		}
		ok := false
		core.EachInstr(par, func(i ssa.Instruction) {
			if mc, is := i.(*ssa.MakeClosure); is && mc.Fn == ssa.Value(f) && idx >= 0 && idx < len(mc.Bindings) {
				ok = ra.definitelyPooled(mc.Bindings[idx], par, d+1)
			}
		})
		return ok
	case *ssa.Alloc:
		stores, all := 0, true
		for _, ref := range core.Refs(x) {
			if st, ok := ref.(*ssa.Store); ok && st.Addr == ssa.Value(x) {
				stores++
				if !ra.definitelyPooled(st.Val, f, d+1) {
					all = false
				}
			}
		}
		return stores > 0 && all
	case *ssa.Call:
		// X.Validate(...) where X = ctor(..., opts...) and the function sets the recycling option unconditionally
		if _, m := recvOf(x); m == "Validate" {
			recycles := false
			// the switch set to constant true in fn, on every path to `before` (nil: to every return of fn)
			setsIn := func(fn *ssa.Function, before ssa.Instruction) bool {
				found := false
				core.EachInstr(fn, func(i ssa.Instruction) {
					c, ok := i.(*ssa.Call)
					if !ok {
						return
					}
					g := core.StaticCallee(c)
					if g == nil || core.BaseName(g) != "withRecycleResults" || len(c.Call.Args) != 1 {
						return
					}
					if k, ok := c.Call.Args[0].(*ssa.Const); !ok || k.Value == nil || k.Value.ExactString() != "true" {
						return
					}
					if before != nil {
						if core.InstrDominates(c, before) {
							found = true
						}
						return
					}
					all := true
					for _, b := range fn.Blocks {
						if _, isRet := b.Instrs[len(b.Instrs)-1].(*ssa.Return); isRet && !c.Block().Dominates(b) {
							all = false
						}
					}
					if all {
						found = true
					}
				})
				return found
			}
			if setsIn(f, x) {
				recycles = true
			}
			// or by the helper of the package that assembles the option list handed to the constructor of X
			if ctor, ok := x.Call.Args[0].(*ssa.Call); ok && !recycles && len(x.Call.Args) > 0 {
				for _, a := range ctor.Call.Args {
					if hc, ok := a.(*ssa.Call); ok {
						if h := core.StaticCallee(hc); h != nil && len(h.Blocks) > 0 && h.Pkg == f.Pkg && setsIn(h, nil) {
							if _, isSlice := hc.Type().Underlying().(*types.Slice); isSlice {
								recycles = true
							}
						}
					}
				}
			}
			return recycles
		}
	}
	return false
}
