package rules

import (
	"fmt"
	"go/token"
	"go/types"
	"strings"

	"golang.org/x/tools/go/ssa"

	"verifchk/core"
)

// recycleSuffix / skipSchemataField: the option fields the rules refer to, resolved from the exported option
// constructors (WithRecycleValidators, WithSkipSchemataResult) by ResolveOptionFields so that a rename of the
// unexported field is followed.
var recycleSuffix = ".recycleValidators"
var skipSchemataField = "skipSchemataResult"

// recycleResultSuffix: the unexported switch of result recycling (set by withRecycleResults); pooledMark: the
// boolean field of Result that marks a pooled result — the one field the clearing function of the result pool sets
// to true. Both resolved from the code so that a rename of the field is followed.
var recycleResultSuffix = ".recycleResult"
var pooledMark = "wantsRedeemOnMerge"

// ResolveOptionFields finds the field each exported option constructor sets.
func ResolveOptionFields(p *core.Prog) {
	fieldSetBy := func(ctor string) string {
		g := p.Func(ctor)
		if g == nil {
			return ""
		}
		name := ""
		var walk func(f *ssa.Function)
		walk = func(f *ssa.Function) {
			core.EachInstr(f, func(i ssa.Instruction) {
				if st, ok := i.(*ssa.Store); ok {
					if fa, ok := st.Addr.(*ssa.FieldAddr); ok {
						if _, n, ok := core.FieldOf(fa); ok {
							name = n
						}
					}
				}
			})
			for _, a := range f.AnonFuncs {
				walk(a)
			}
		}
		walk(g)
		return name
	}
	if n := fieldSetBy("WithRecycleValidators"); n != "" {
		recycleSuffix = "." + n
	}
	if n := fieldSetBy("WithSkipSchemataResult"); n != "" {
		skipSchemataField = n
	}
	if n := fieldSetBy("withRecycleResults"); n != "" {
		recycleResultSuffix = "." + n
	}
	// the pooled mark: in the function the Result borrow applies to what the pool hands out, the field stored `true`
	pi := discoverPools(p)
	if pi.resultType != nil {
		for bf, t := range pi.borrow {
			if core.NamedOf(t) != pi.resultType {
				continue
			}
			core.EachInstr(bf, func(i ssa.Instruction) {
				c, ok := i.(*ssa.Call)
				if !ok {
					return
				}
				g := core.StaticCallee(c)
				if g == nil || !p.InSubject(g) || len(g.Blocks) == 0 {
					return
				}
				core.EachInstr(g, func(j ssa.Instruction) {
					st, ok := j.(*ssa.Store)
					if !ok {
						return
					}
					k, isK := st.Val.(*ssa.Const)
					fa, isFA := st.Addr.(*ssa.FieldAddr)
					if isK && isFA && k.Value != nil && k.Value.ExactString() == "true" {
						if _, n, ok := core.FieldOf(fa); ok {
							pooledMark = n
						}
					}
				})
			})
		}
	}
}

type slotInfo struct {
	p  *core.Prog
	pi *poolInfo
	// slot fields per parent struct type: field index -> kind
	slots map[*types.Named]map[int]string
}

func isValidatorIface(pkg *types.Package, t types.Type) bool {
	n, ok := t.(*types.Named)
	if !ok || n.Obj().Pkg() != pkg {
		return false
	}
	it, ok := n.Underlying().(*types.Interface)
	if !ok {
		return false
	}
	for i := 0; i < it.NumMethods(); i++ {
		if it.Method(i).Name() == "Validate" {
			return true
		}
	}
	return false
}

func discoverSlots(p *core.Prog, pi *poolInfo) *slotInfo {
	si := &slotInfo{p: p, pi: pi, slots: map[*types.Named]map[int]string{}}
	isChild := func(t types.Type) bool {
		if isValidatorIface(p.Main.Pkg, t) {
			return true
		}
		if pt, ok := t.(*types.Pointer); ok {
			if n, ok := pt.Elem().(*types.Named); ok && pi.pooled[n] && n != pi.resultType {
				return true
			}
		}
		return false
	}
	for n := range pi.pooled {
		if n == pi.resultType {
			continue
		}
		st, ok := n.Underlying().(*types.Struct)
		if !ok {
			continue
		}
		for i := 0; i < st.NumFields(); i++ {
			ft := st.Field(i).Type()
			kind := ""
			switch u := ft.Underlying().(type) {
			case *types.Array:
				if isChild(u.Elem()) {
					kind = "array"
				}
			case *types.Slice:
				if isChild(u.Elem()) {
					kind = "slice"
				}
			}
			if kind == "" && isChild(ft) {
				kind = "scalar"
			}
			if kind != "" {
				if si.slots[n] == nil {
					si.slots[n] = map[int]string{}
				}
				si.slots[n][i] = kind
			}
		}
	}
	return si
}

type slotRef struct {
	parent *types.Named
	field  int
	index  ssa.Value // nil for scalar slots
	load   ssa.Instruction
}

func (s slotRef) name() string {
	st := s.parent.Underlying().(*types.Struct)
	n := core.KnownTypeName(s.parent) + "." + core.FieldName(st, s.field)
	if s.index != nil {
		if c, ok := core.ConstInt(s.index); ok {
			return fmt.Sprintf("%s[%d]", n, c)
		}
		return n + "[i]"
	}
	return n
}

// slotFieldAddr: v is FieldAddr(X, f) with f a slot field of X's struct type.
func (si *slotInfo) slotFieldAddr(v ssa.Value) (*types.Named, int, bool) {
	fa, ok := v.(*ssa.FieldAddr)
	if !ok {
		return nil, 0, false
	}
	n := core.NamedOf(fa.X.Type())
	if n == nil {
		return nil, 0, false
	}
	if _, ok := si.slots[n][fa.Field]; !ok {
		return nil, 0, false
	}
	return n, fa.Field, true
}

// origin: does v denote a child validator loaded from a slot?
func (si *slotInfo) origin(v ssa.Value, depth int) (slotRef, bool) {
	if depth > 6 {
		return slotRef{}, false
	}
	switch x := v.(type) {
	case *ssa.UnOp:
		if x.Op != token.MUL {
			return slotRef{}, false
		}
		if n, f, ok := si.slotFieldAddr(x.X); ok && si.slots[n][f] == "scalar" {
			return slotRef{n, f, nil, x}, true
		}
		if ia, ok := x.X.(*ssa.IndexAddr); ok {
			if n, f, ok := si.slotFieldAddr(ia.X); ok { // array through pointer
				return slotRef{n, f, ia.Index, x}, true
			}
			if ld, ok := ia.X.(*ssa.UnOp); ok && ld.Op == token.MUL { // slice loaded from the field
				if n, f, ok := si.slotFieldAddr(ld.X); ok {
					return slotRef{n, f, ia.Index, x}, true
				}
			}
		}
	case *ssa.Index: // element of a copied array
		if ld, ok := x.X.(*ssa.UnOp); ok && ld.Op == token.MUL {
			if n, f, ok := si.slotFieldAddr(ld.X); ok {
				return slotRef{n, f, x.Index, x}, true
			}
		}
	case *ssa.TypeAssert:
		return si.origin(x.X, depth+1)
	case *ssa.Extract:
		if ta, ok := x.Tuple.(*ssa.TypeAssert); ok && x.Index == 0 {
			return si.origin(ta.X, depth+1)
		}
	case *ssa.ChangeInterface:
		return si.origin(x.X, depth+1)
	case *ssa.MakeInterface:
		return si.origin(x.X, depth+1)
	}
	return slotRef{}, false
}

// releaseWrappers: functions of the package that release (call redeem on) the elements of one of their slice
// parameters — an extracted "release all the children of this slot" helper. Value: the parameter index.
func (si *slotInfo) releaseWrappers(p *core.Prog) map[*ssa.Function]int {
	out := map[*ssa.Function]int{}
	for _, g := range p.Funcs {
		if !p.InSubject(g) || g.Parent() != nil {
			continue
		}
		core.EachInstr(g, func(i ssa.Instruction) {
			c, ok := i.(ssa.CallInstruction)
			if !ok {
				return
			}
			rv, m := recvOf(c)
			if rv == nil || m != "redeem" {
				return
			}
			ld, ok := rv.(*ssa.UnOp)
			if !ok || ld.Op != token.MUL {
				return
			}
			ia, ok := ld.X.(*ssa.IndexAddr)
			if !ok {
				return
			}
			for k, prm := range g.Params {
				if ia.X == ssa.Value(prm) {
					out[g] = k
				}
			}
		})
	}
	return out
}

// wrapperRelease: the call releases the children of a slot through a release wrapper; returns the slot.
func (si *slotInfo) wrapperRelease(c ssa.CallInstruction, wrappers map[*ssa.Function]int) (slotRef, bool) {
	g := core.StaticCallee(c)
	if g == nil {
		return slotRef{}, false
	}
	k, ok := wrappers[g]
	if !ok || k >= len(c.Common().Args) {
		return slotRef{}, false
	}
	ld, ok := c.Common().Args[k].(*ssa.UnOp)
	if !ok || ld.Op != token.MUL {
		return slotRef{}, false
	}
	if n, f, ok := si.slotFieldAddr(ld.X); ok {
		return slotRef{n, f, nil, ld}, true
	}
	return slotRef{}, false
}

func sameIndex(a, b ssa.Value) bool {
	if a == nil || b == nil {
		return a == nil && b == nil
	}
	if a == b {
		return true
	}
	ca, oka := core.ConstInt(a)
	cb, okb := core.ConstInt(b)
	return oka && okb && ca == cb
}

// isClear: instr stores nil into the slot (element or whole field).
func (si *slotInfo) isClear(i ssa.Instruction, ref slotRef) bool {
	// a helper of the parent that empties the slot it is told to (`s.relinquish(idx)`: under nothing but the
	// recycle option, `s.validators[idx] = nil`)
	if c, isCall := i.(*ssa.Call); isCall {
		h := core.StaticCallee(c)
		if h == nil || len(h.Blocks) == 0 || h.Signature.Recv() == nil || len(c.Call.Args) == 0 {
			return false
		}
		cleared := false
		core.EachInstr(h, func(j ssa.Instruction) {
			st, ok := j.(*ssa.Store)
			if !ok || !core.IsNilConst(st.Val) {
				return
			}
			// only the recycle option may decide whether the store happens
			for _, cd := range core.CondsAt(st.Block()) {
				if pth, ok := core.Path(cd.Value); !ok || !strings.HasSuffix(pth, recycleSuffix) || !cd.Sense {
					return
				}
			}
			if n, f, ok := si.slotFieldAddr(st.Addr); ok && n == ref.parent && f == ref.field {
				if base := baseOfAddr(st.Addr); base == ssa.Value(h.Params[0]) {
					cleared = true
				}
				return
			}
			ia, ok := st.Addr.(*ssa.IndexAddr)
			if !ok {
				return
			}
			var n *types.Named
			var f int
			found := false
			if n2, f2, ok := si.slotFieldAddr(ia.X); ok {
				n, f, found = n2, f2, true
			} else if ld, ok := ia.X.(*ssa.UnOp); ok && ld.Op == token.MUL {
				if n2, f2, ok := si.slotFieldAddr(ld.X); ok {
					n, f, found = n2, f2, true
				}
			}
			if !found || n != ref.parent || f != ref.field {
				return
			}
			// the index is a parameter of the helper: the argument at the call site must be the slot's index
			for k, prm := range h.Params {
				if ia.Index == ssa.Value(prm) && k < len(c.Call.Args) && sameIndex(c.Call.Args[k], ref.index) {
					cleared = true
				}
			}
		})
		return cleared
	}
	st, ok := i.(*ssa.Store)
	if !ok || !core.IsNilConst(st.Val) {
		return false
	}
	if n, f, ok := si.slotFieldAddr(st.Addr); ok && n == ref.parent && f == ref.field {
		return true // whole field cleared
	}
	ia, ok := st.Addr.(*ssa.IndexAddr)
	if !ok {
		return false
	}
	var n *types.Named
	var f int
	found := false
	if n2, f2, ok := si.slotFieldAddr(ia.X); ok {
		n, f, found = n2, f2, true
	} else if ld, ok := ia.X.(*ssa.UnOp); ok && ld.Op == token.MUL {
		if n2, f2, ok := si.slotFieldAddr(ld.X); ok {
			n, f, found = n2, f2, true
		}
	}
	return found && n == ref.parent && f == ref.field && sameIndex(ia.Index, ref.index)
}

func recvOf(c ssa.CallInstruction) (ssa.Value, string) {
	cc := c.Common()
	if cc.IsInvoke() {
		return cc.Value, cc.Method.Name()
	}
	g := cc.StaticCallee()
	if g == nil || g.Signature.Recv() == nil || len(cc.Args) == 0 {
		return nil, ""
	}
	return cc.Args[0], g.Name()
}

func isExit(i ssa.Instruction) bool {
	switch i.(type) {
	case *ssa.Return, *ssa.RunDefers, *ssa.Panic:
		return true
	}
	return false
}

// Slots checks the typestate of child validators held in slots.
func Slots(p *core.Prog, r *core.Report) {
	pi := discoverPools(p)
	si := discoverSlots(p, pi)
	nSlots := 0
	for _, m := range si.slots {
		nSlots += len(m)
	}
	r.Count("slot_fields", nSlots)
	r.Floor("slot_fields", 6)
	prune := core.OnlyWhenPathTrue(recycleSuffix)
	wrappers := si.releaseWrappers(p)

	nRun, nRel := 0, 0
	for _, f := range p.Funcs {
		fn := core.FuncName(f)
		core.EachInstr(f, func(i ssa.Instruction) {
			c, ok := i.(ssa.CallInstruction)
			if !ok {
				return
			}
			if _, isDefer := i.(*ssa.Defer); isDefer {
				return
			}
			rv, m := recvOf(c)
			var ref slotRef
			if wref, isW := si.wrapperRelease(c, wrappers); isW {
				ref, m = wref, "redeem"
			} else {
				if rv == nil {
					return
				}
				var ok bool
				ref, ok = si.origin(rv, 0)
				if !ok {
					return
				}
			}
			switch m {
			case "Validate":
				nRun++
				key := fn + ":" + ref.name()
				// PRECLEAR: on recycle paths the slot is emptied between the load of the child and its run
				reached := false
				core.Walk(ref.load, prune, func(x ssa.Instruction) bool {
					if si.isClear(x, ref) {
						return true
					}
					if x == i {
						reached = true
						return true
					}
					return false
				})
				if reached {
					r.Bad("SLOT-PRECLEAR", key, p.Pos(i.Pos()), "the child validator is still in its slot while it runs: it releases itself in its own deferred call, so if it panics the parent's deferred redeemChildren() finds the slot non-nil and puts the same object in the pool a second time")
				} else {
					r.OK("SLOT-PRECLEAR", key, p.Pos(i.Pos()), "slot emptied (under the recycle option) before the child runs")
				}
				// POSTCLEAR: after the child ran, the slot is empty before the function exits
				if !reached {
					r.OK("SLOT-POSTCLEAR", key, p.Pos(i.Pos()), "implied: slot already empty when the child runs")
				} else {
					leak := ssa.Instruction(nil)
					core.Walk(i, prune, func(x ssa.Instruction) bool {
						if si.isClear(x, ref) {
							return true
						}
						if isExit(x) {
							if leak == nil {
								leak = x
							}
							return true
						}
						return false
					})
					if leak != nil {
						r.Bad("SLOT-POSTCLEAR", key, p.Pos(i.Pos()), "after the child validator ran (and released itself) there is a path to the function's exit on which the slot still holds it: the deferred redeemChildren() releases it a second time (exit at "+p.Pos(posOf(leak, f))+")")
					} else {
						r.OK("SLOT-POSTCLEAR", key, p.Pos(i.Pos()), "slot emptied on every recycle path from the call to the exit")
					}
				}
			case "redeem":
				nRel++
				key := fn + ":" + ref.name() + ":released"
				leak := ssa.Instruction(nil)
				again := ssa.Instruction(nil)
				core.Walk(i, prune, func(x ssa.Instruction) bool {
					if si.isClear(x, ref) {
						return true
					}
					if isExit(x) {
						if leak == nil {
							leak = x
						}
						return true
					}
					// another release site of the same slot before it is emptied (the loop re-entering
					// this very site releases the next element, not the same child)
					if c2, ok := x.(ssa.CallInstruction); ok && x != i {
						if _, isDefer := x.(*ssa.Defer); !isDefer {
							if rv2, m2 := recvOf(c2); rv2 != nil && m2 == "redeem" {
								if ref2, ok := si.origin(rv2, 0); ok && ref2.parent == ref.parent && ref2.field == ref.field && again == nil {
									again = x
								}
							}
							if ref2, ok := si.wrapperRelease(c2, wrappers); ok && ref2.parent == ref.parent && ref2.field == ref.field && again == nil {
								again = x
							}
						}
					}
					return false
				})
				if again != nil {
					r.Bad("SLOT-POSTCLEAR", key+":once", p.Pos(i.Pos()), "the children of this slot are released here and again at "+p.Pos(again.Pos())+" before the slot is emptied: every child still pending goes into its pool twice (while the slot that is emptied in between keeps its children unreleased)")
				} else {
					r.OK("SLOT-POSTCLEAR", key+":once", p.Pos(i.Pos()), "no second release site of this slot is reachable before the slot is emptied")
				}
				if leak != nil {
					r.Bad("SLOT-POSTCLEAR", key, p.Pos(i.Pos()), "a child validator is released but its slot is not emptied before the function exits: the next redeemChildren() releases it again (the same object twice in the pool)")
				} else {
					r.OK("SLOT-POSTCLEAR", key, p.Pos(i.Pos()), "slot emptied after the child was released")
				}
			}
		})
	}
	r.Count("slot_child_runs", nRun)
	r.Count("slot_child_releases", nRel)
	r.Floor("slot_child_runs", 7)
	r.Floor("slot_child_releases", 4)

	slotInit(p, r, si)
	selfRedeem(p, r, si)
	oneShot(p, r, si)
	r.Note("SLOT: %d slot fields, %d child runs through slots, %d child releases", nSlots, nRun, nRel)
}

// ctorOf: functions that allocate-or-borrow a pooled validator type and return it.
func ctorsOf(p *core.Prog, pi *poolInfo) map[*ssa.Function]*types.Named {
	out := map[*ssa.Function]*types.Named{}
	for _, f := range p.Funcs {
		core.EachInstr(f, func(i ssa.Instruction) {
			if c, T := pi.isBorrowCall(i); c != nil {
				if n := core.NamedOf(T); n != nil && pi.pooled[n] && n != pi.resultType {
					if f.Signature.Results().Len() == 1 && core.NamedOf(f.Signature.Results().At(0).Type()) == n {
						out[f] = n
					}
				}
			}
		})
	}
	return out
}

// producesValidator: call whose value is a freshly constructed validator (constructor, or a thin
// wrapper method returning the result of one, possibly as an interface).
func producesValidator(p *core.Prog, ctors map[*ssa.Function]*types.Named, v ssa.Value, depth int) bool {
	if depth > 4 {
		return false
	}
	switch x := v.(type) {
	case *ssa.MakeInterface:
		return producesValidator(p, ctors, x.X, depth+1)
	case *ssa.ChangeInterface:
		return producesValidator(p, ctors, x.X, depth+1)
	case *ssa.Call:
		g := core.StaticCallee(x)
		if g == nil || !p.InSubject(g) {
			return false
		}
		if _, ok := ctors[g]; ok {
			return true
		}
		// wrapper: every return is itself a produced validator
		all := false
		for _, b := range g.Blocks {
			if ret, ok := b.Instrs[len(b.Instrs)-1].(*ssa.Return); ok && len(ret.Results) == 1 {
				if !producesValidator(p, ctors, ret.Results[0], depth+1) {
					return false
				}
				all = true
			}
		}
		return all
	}
	return false
}

func slotInit(p *core.Prog, r *core.Report, si *slotInfo) {
	const rule = "SLOT-INIT"
	ctors := ctorsOf(p, si.pi)
	n := 0
	for _, f := range p.Funcs {
		fn := core.FuncName(f)
		usedCalls := map[*ssa.Call]string{}
		core.EachInstr(f, func(i ssa.Instruction) {
			st, ok := i.(*ssa.Store)
			if !ok {
				return
			}
			var parent *types.Named
			var field int
			elem := false
			if pn, fi, ok := si.slotFieldAddr(st.Addr); ok {
				parent, field = pn, fi
			} else if ia, ok := st.Addr.(*ssa.IndexAddr); ok {
				if pn, fi, ok := si.slotFieldAddr(ia.X); ok {
					parent, field, elem = pn, fi, true
				} else if ld, ok := ia.X.(*ssa.UnOp); ok && ld.Op == token.MUL {
					if pn, fi, ok := si.slotFieldAddr(ld.X); ok {
						parent, field, elem = pn, fi, true
					}
				}
			}
			if parent == nil {
				return
			}
			n++
			fname := core.FieldName(parent.Underlying().(*types.Struct), field)
			key := fn + ":" + core.KnownTypeName(parent) + "." + fname
			if core.IsNilConst(st.Val) {
				r.OK(rule, key+":clear", p.Pos(st.Pos()), "slot emptied")
				return
			}
			if ctors[f] != parent {
				r.Bad(rule, key+":store-outside-ctor", p.Pos(st.Pos()), "a validator is stored into a child slot outside the parent's constructor: the slot may then share an object with another owner")
				return
			}
			// provenance of the stored value: distinct constructor calls only
			var bad []string
			var visit func(v ssa.Value, d int)
			seen := map[ssa.Value]bool{}
			visit = func(v ssa.Value, d int) {
				if seen[v] || d > 12 {
					return
				}
				seen[v] = true
				if core.IsNilConst(v) {
					return
				}
				if producesValidator(p, ctors, v, 0) {
					c := stripIface(v).(*ssa.Call)
					if prev, dup := usedCalls[c]; dup && prev != key+fmt.Sprint(elem) {
						bad = append(bad, "the same constructor call feeds two slots")
					}
					usedCalls[c] = key + fmt.Sprint(elem)
					return
				}
				switch x := v.(type) {
				case *ssa.UnOp: // load of a local array/cell
					if al, ok := x.X.(*ssa.Alloc); ok && x.Op == token.MUL {
						for _, ref := range core.Refs(al) {
							switch u := ref.(type) {
							case *ssa.IndexAddr:
								for _, r2 := range core.Refs(u) {
									if s2, ok := r2.(*ssa.Store); ok && s2.Addr == ssa.Value(u) {
										visit(s2.Val, d+1)
									}
								}
							case *ssa.Store:
								if u.Addr == ssa.Value(al) {
									visit(u.Val, d+1)
								}
							}
						}
						return
					}
					bad = append(bad, "value loaded from "+x.X.String())
				case *ssa.Phi:
					for _, e := range x.Edges {
						visit(e, d+1)
					}
				case *ssa.MakeSlice:
				case *ssa.Slice:
					visit(x.X, d+1)
				case *ssa.Alloc:
					for _, ref := range core.Refs(x) {
						if u, ok := ref.(*ssa.IndexAddr); ok {
							for _, r2 := range core.Refs(u) {
								if s2, ok := r2.(*ssa.Store); ok && s2.Addr == ssa.Value(u) {
									visit(s2.Val, d+1)
								}
							}
						}
					}
				case *ssa.Call:
					if b, ok := x.Call.Value.(*ssa.Builtin); ok && b.Name() == "append" {
						visit(x.Call.Args[0], d+1)
						visit(x.Call.Args[1], d+1)
						return
					}
					bad = append(bad, "value from call "+core.CalleeID(x))
				default:
					bad = append(bad, fmt.Sprintf("value %s (%T)", v.Name(), v))
				}
			}
			visit(st.Val, 0)
			if len(bad) > 0 {
				r.Bad(rule, key+":provenance", p.Pos(st.Pos()), "slot content is not exclusively fresh constructor results: "+strings.Join(bad, "; "))
			} else {
				r.OK(rule, key, p.Pos(st.Pos()), "slot filled in the parent's constructor from distinct constructor calls")
			}
		})
	}
	r.Count("slot_stores", n)
	r.Floor("slot_stores", 20)
}

func stripIface(v ssa.Value) ssa.Value {
	for {
		switch x := v.(type) {
		case *ssa.MakeInterface:
			v = x.X
		case *ssa.ChangeInterface:
			v = x.X
		default:
			return v
		}
	}
}

// selfRedeem: shape of the self-release of each pooled validator's Validate.
func selfRedeem(p *core.Prog, r *core.Report, si *slotInfo) {
	const rule = "SLOT-SELFREDEEM"
	// callees that cannot panic before the defer is registered
	cannotPanic := func(c ssa.CallInstruction) bool {
		if g := core.StaticCallee(c); g != nil {
			if _, ok := si.pi.borrow[g]; ok {
				return true
			}
			switch core.QualName(g) {
			case "reflect.TypeOf":
				return true
			}
			return false
		}
		cc := c.Common()
		if cc.IsInvoke() && cc.Method.Name() == "Kind" && strings.HasSuffix(cc.Value.Type().String(), "reflect.Type") {
			return true
		}
		return false
	}
	n := 0
	for T := range si.pi.pooled {
		if T == si.pi.resultType {
			continue
		}
		f := p.Func("(*" + core.KnownTypeName(T) + ").Validate")
		if f == nil {
			f = methodByType(p, T, "Validate") // the type may have been renamed
		}
		if f == nil {
			continue
		}
		n++
		tn := core.KnownTypeName(T)
		hasSlots := len(si.slots[T]) > 0
		var dfr *ssa.Defer
		var selfCalls, childCalls int
		core.EachInstr(f, func(i ssa.Instruction) {
			d, ok := i.(*ssa.Defer)
			if !ok {
				return
			}
			g := core.StaticCallee(d)
			if g == nil || g.Parent() != f {
				return
			}
			order := []string{}
			core.EachInstr(g, func(j ssa.Instruction) {
				if c, ok := j.(*ssa.Call); ok {
					if h := core.StaticCallee(c); h != nil && h.Signature.Recv() != nil && core.NamedOf(h.Signature.Recv().Type()) == T {
						order = append(order, h.Name())
					}
				}
			})
			for k, o := range order {
				if o == "redeem" {
					selfCalls++
					dfr = d
					if hasSlots && (k == 0 || order[k-1] != "redeemChildren") {
						r.Bad(rule, tn+":children-first", p.Pos(d.Pos()), "the deferred self-release does not release the remaining children first")
					}
				}
				if o == "redeemChildren" {
					childCalls++
				}
			}
		})
		// non-deferred release of the receiver inside Validate
		core.EachInstr(f, func(i ssa.Instruction) {
			if c, ok := i.(*ssa.Call); ok {
				if h := core.StaticCallee(c); h != nil && h.Name() == "redeem" && h.Signature.Recv() != nil && core.NamedOf(h.Signature.Recv().Type()) == T {
					r.Bad(rule, tn+":explicit-redeem", p.Pos(c.Pos()), "Validate releases its receiver outside the deferred call: together with the deferred release the object enters the pool twice")
				}
			}
		})
		if dfr == nil {
			r.OK(rule, tn+":no-self-release", p.Pos(f.Pos()), "Validate does not release its receiver (object is left to the GC)")
			continue
		}
		if selfCalls != 1 {
			r.Bad(rule, tn+":once", p.Pos(dfr.Pos()), fmt.Sprintf("receiver released %d times in deferred calls", selfCalls))
		}
		if !core.GuardedByPath(dfr.Block(), recycleSuffix, true) {
			r.Bad(rule, tn+":guard", p.Pos(dfr.Pos()), "the self-release is registered also when recycling is off: a long-lived validator would put itself in the pool while its owner still uses it")
		} else {
			r.OK(rule, tn+":guard", p.Pos(dfr.Pos()), "deferred self-release registered only under the recycle option")
		}
		// calls that may precede the registration
		bad := false
		core.EachInstr(f, func(i ssa.Instruction) {
			c, ok := i.(ssa.CallInstruction)
			if !ok || i == ssa.Instruction(dfr) {
				return
			}
			if _, isD := i.(*ssa.Defer); isD {
				return
			}
			if core.InstrDominates(dfr, i) || !core.Reaches(i, dfr) {
				return
			}
			if !cannotPanic(c) {
				bad = true
				r.Bad(rule, tn+":before-defer:"+core.CalleeID(c), p.Pos(i.Pos()), "a call that may panic precedes the registration of the deferred release: on a panic there the validator and its children are neither released nor marked, and an enclosing parent releases them blindly")
			}
		})
		if !bad {
			r.OK(rule, tn+":registered-first", p.Pos(dfr.Pos()), "only non-panicking calls precede the registration of the deferred release")
		}
	}
	r.Count("selfredeem_types", n)
	r.Floor("selfredeem_types", 13)
}

// oneShot: a freshly constructed validator that is not put in a slot runs at most once and is not touched afterwards.
func oneShot(p *core.Prog, r *core.Report, si *slotInfo) {
	const rule = "SLOT-ONESHOT"
	ctors := ctorsOf(p, si.pi)
	n := 0
	for _, f := range p.Funcs {
		fn := core.FuncName(f)
		core.EachInstr(f, func(i ssa.Instruction) {
			c, ok := i.(*ssa.Call)
			if !ok || !producesValidator(p, ctors, c, 0) {
				return
			}
			// uses of the fresh validator (through interface conversions and phis)
			vals := map[ssa.Value]bool{c: true}
			work := []ssa.Value{c}
			for len(work) > 0 {
				x := work[len(work)-1]
				work = work[:len(work)-1]
				for _, ref := range core.Refs(x) {
					switch u := ref.(type) {
					case *ssa.MakeInterface, *ssa.ChangeInterface, *ssa.Phi:
						v := u.(ssa.Value)
						if !vals[v] {
							vals[v] = true
							work = append(work, v)
						}
					}
				}
			}
			var runs []ssa.Instruction
			var others []ssa.Instruction
			for v := range vals {
				for _, ref := range core.Refs(v) {
					switch u := ref.(type) {
					case ssa.CallInstruction:
						rv, m := recvOf(u)
						if rv != nil && vals[rv] && m == "Validate" {
							runs = append(runs, ref)
						} else {
							others = append(others, ref)
						}
					case *ssa.MakeInterface, *ssa.ChangeInterface, *ssa.Phi, *ssa.DebugRef:
					default:
						others = append(others, ref)
					}
				}
			}
			if len(runs) == 0 {
				return
			}
			n++
			key := fn + ":" + core.CalleeID(c)
			bad := false
			for _, run := range runs {
				core.Walk(run, nil, func(x ssa.Instruction) bool {
					if x == ssa.Instruction(c) {
						return true // redefinition in a loop: a new object
					}
					for _, o := range append(append([]ssa.Instruction{}, runs...), others...) {
						if x == o {
							if _, isPhi := x.(*ssa.Phi); isPhi {
								continue
							}
							if !bad {
								bad = true
								r.Bad(rule, key, p.Pos(posOf(x, f)), "a one-time validator is used again after its Validate() ran (under recycling it already released itself and may have been handed to another validation)")
							}
							return true
						}
					}
					return false
				})
			}
			if !bad {
				r.OK(rule, key, p.Pos(c.Pos()), fmt.Sprintf("fresh validator runs once (%d call site(s)) and is not touched afterwards", len(runs)))
			}
		})
	}
	r.Count("oneshot_sites", n)
	r.Floor("oneshot_sites", 15)
}

// methodByType: the method of the named type T (value or pointer receiver) whose name — as written today or as
// the anchors know it — is name.
func methodByType(p *core.Prog, T *types.Named, name string) *ssa.Function {
	for _, f := range p.Funcs {
		if f.Parent() != nil || f.Signature.Recv() == nil || core.NamedOf(f.Signature.Recv().Type()) != T {
			continue
		}
		if f.Name() == name || strings.HasSuffix(core.FuncName(f), ")."+name) {
			return f
		}
	}
	return nil
}
