package rules

import (
	"fmt"
	"go/token"
	"go/types"
	"sort"
	"strings"

	"golang.org/x/tools/go/ssa"

	"verifchk/core"
)

// ---------------------------------------------------------------------------
// LOCKSET: must-held lock sets, forward dataflow per function, entry sets from call sites.

type lockInfo struct {
	p     *core.Prog
	entry map[*ssa.Function]map[string]bool // nil = not yet known (top)
	at    map[ssa.Instruction]map[string]bool
}

func lockName(v ssa.Value) (string, bool) {
	p, ok := core.Path(v)
	if !ok {
		return "", false
	}
	return strings.TrimPrefix(p, "&"), true
}

func isMutexMethod(c ssa.CallInstruction, names ...string) (string, bool) {
	f := core.StaticCallee(c)
	if f == nil {
		return "", false
	}
	q := core.QualName(f)
	for _, n := range names {
		if q == "(*sync.Mutex)."+n || q == "(*sync.RWMutex)."+n {
			if len(c.Common().Args) == 0 {
				return "", false
			}
			return lockName(c.Common().Args[0])
		}
	}
	return "", false
}

func copySet(s map[string]bool) map[string]bool {
	o := map[string]bool{}
	for k := range s {
		o[k] = true
	}
	return o
}
func meet(a, b map[string]bool) map[string]bool {
	if a == nil {
		return copySet(b)
	}
	o := map[string]bool{}
	for k := range a {
		if b[k] {
			o[k] = true
		}
	}
	return o
}
func sameSet(a, b map[string]bool) bool {
	if (a == nil) != (b == nil) || len(a) != len(b) {
		return false
	}
	for k := range a {
		if !b[k] {
			return false
		}
	}
	return true
}

func computeLocks(p *core.Prog) *lockInfo {
	li := &lockInfo{p: p, entry: map[*ssa.Function]map[string]bool{}, at: map[ssa.Instruction]map[string]bool{}}
	// call sites of each function (static, go and defer excluded: they run elsewhere/later)
	callers := map[*ssa.Function][]ssa.Instruction{}
	addrTaken := map[*ssa.Function]bool{}
	for _, f := range p.Funcs {
		core.EachInstr(f, func(i ssa.Instruction) {
			switch c := i.(type) {
			case *ssa.Call:
				if g := core.StaticCallee(c); g != nil && p.InSubject(g) {
					callers[g] = append(callers[g], i)
				}
			case *ssa.Defer:
				if g := core.StaticCallee(c); g != nil {
					addrTaken[g] = true
				}
			case *ssa.Go:
				if g := core.StaticCallee(c); g != nil {
					addrTaken[g] = true
				}
			}
			// function values used other than as the callee
			for _, op := range i.Operands(nil) {
				if op == nil || *op == nil {
					continue
				}
				var g *ssa.Function
				switch v := (*op).(type) {
				case *ssa.Function:
					g = v
				case *ssa.MakeClosure:
					g, _ = v.Fn.(*ssa.Function)
				}
				if g == nil {
					continue
				}
				if c, ok := i.(*ssa.Call); ok && c.Call.Value == *op {
					continue
				}
				if _, ok := i.(*ssa.MakeClosure); ok {
					continue
				}
				addrTaken[g] = true
			}
		})
	}
	isEntry := func(f *ssa.Function) bool {
		if addrTaken[f] || len(callers[f]) == 0 {
			return true
		}
		if f.Parent() == nil {
			if o := f.Object(); o != nil && o.Exported() {
				return true
			}
			if f.Signature.Recv() != nil { // methods may be called through interfaces
				return true
			}
		}
		return false
	}
	for _, f := range p.Funcs {
		if isEntry(f) {
			li.entry[f] = map[string]bool{}
		}
	}
	for iter := 0; iter < 20; iter++ {
		changed := false
		for _, f := range p.Funcs {
			ent, known := li.entry[f]
			if !known {
				continue
			}
			li.flow(f, ent)
		}
		for _, f := range p.Funcs {
			if isEntry(f) {
				continue
			}
			var m map[string]bool
			ok := false
			for _, cs := range callers[f] {
				s, has := li.at[cs]
				if !has {
					continue
				}
				if !ok {
					m, ok = copySet(s), true
				} else {
					m = meet(m, s)
				}
			}
			if ok && !sameSet(li.entry[f], m) {
				li.entry[f] = m
				changed = true
			}
		}
		if !changed {
			break
		}
	}
	for _, f := range p.Funcs {
		if _, known := li.entry[f]; !known {
			li.entry[f] = map[string]bool{}
			li.flow(f, li.entry[f])
		}
	}
	return li
}

func (li *lockInfo) flow(f *ssa.Function, entry map[string]bool) {
	in := map[*ssa.BasicBlock]map[string]bool{}
	in[f.Blocks[0]] = copySet(entry)
	work := []*ssa.BasicBlock{f.Blocks[0]}
	for len(work) > 0 {
		b := work[0]
		work = work[1:]
		cur := copySet(in[b])
		for _, i := range b.Instrs {
			li.at[i] = copySet(cur)
			if c, ok := i.(*ssa.Call); ok {
				if n, ok := isMutexMethod(c, "Lock", "RLock"); ok {
					cur[n] = true
				}
				if n, ok := isMutexMethod(c, "Unlock", "RUnlock"); ok {
					delete(cur, n)
				}
			}
		}
		for _, s := range b.Succs {
			old, seen := in[s]
			var nw map[string]bool
			if !seen {
				nw = copySet(cur)
			} else {
				nw = meet(old, cur)
			}
			if !seen || !sameSet(old, nw) {
				in[s] = nw
				work = append(work, s)
			}
		}
	}
}

func setStr(s map[string]bool) string {
	var k []string
	for x := range s {
		k = append(k, x)
	}
	sort.Strings(k)
	return "{" + strings.Join(k, ",") + "}"
}

// ---------------------------------------------------------------------------
// GLOBALS: exhaustive classification of package-level variables.

type gAccess struct {
	instr ssa.Instruction
	fn    *ssa.Function
	kind  string // read, write, method:<callee>, escape
	sub   string // field path below the global
}

func isSyncType(t types.Type) bool {
	s := t.String()
	switch s {
	case "sync.Mutex", "*sync.Mutex", "sync.RWMutex", "*sync.RWMutex", "sync/atomic.Value", "*sync/atomic.Value", "sync.Pool", "*sync.Pool", "sync.Once", "*sync.Once":
		return true
	}
	return false
}

// isPoolHolder: a struct all of whose fields are structs embedding *sync.Pool (allPools).
func isPoolHolder(t types.Type) bool {
	st, ok := t.Underlying().(*types.Struct)
	if !ok || st.NumFields() == 0 {
		return false
	}
	for i := 0; i < st.NumFields(); i++ {
		ft, ok := st.Field(i).Type().Underlying().(*types.Struct)
		if !ok || ft.NumFields() == 0 {
			return false
		}
		f0 := ft.Field(0)
		if !f0.Embedded() || f0.Type().String() != "*sync.Pool" {
			return false
		}
	}
	return true
}

func initOnlyFuncs(p *core.Prog) map[*ssa.Function]bool {
	// functions that only run during package initialisation: init, the synthetic
	// initialiser, and unexported functions all of whose callers are init-only.
	res := map[*ssa.Function]bool{}
	callers := map[*ssa.Function][]*ssa.Function{}
	used := map[*ssa.Function]bool{}
	for _, f := range p.Funcs {
		core.EachInstr(f, func(i ssa.Instruction) {
			if c, ok := i.(ssa.CallInstruction); ok {
				if g := core.StaticCallee(c); g != nil {
					callers[g] = append(callers[g], f)
				}
			}
			for _, op := range i.Operands(nil) {
				if op == nil || *op == nil {
					continue
				}
				if g, ok := (*op).(*ssa.Function); ok {
					if c, isCall := i.(ssa.CallInstruction); isCall && c.Common().Value == g {
						continue
					}
					used[g] = true
				}
			}
		})
	}
	for _, f := range p.Funcs {
		if f.Parent() == nil && f.Signature.Recv() == nil && (f.Name() == "init" || strings.HasPrefix(f.Name(), "init#")) {
			res[f] = true
		}
	}
	for changed := true; changed; {
		changed = false
		for _, f := range p.Funcs {
			if res[f] || used[f] || f.Signature.Recv() != nil {
				continue
			}
			if f.Parent() != nil {
				if res[f.Parent()] {
					res[f], changed = true, true
				}
				continue
			}
			if o := f.Object(); o == nil || o.Exported() {
				continue
			}
			cs := callers[f]
			if len(cs) == 0 {
				continue
			}
			all := true
			for _, c := range cs {
				if !res[c] {
					all = false
				}
			}
			if all {
				res[f], changed = true, true
			}
		}
	}
	return res
}

// Globals classifies every package-level variable and checks the lock discipline of the guarded ones.
func Globals(p *core.Prog, r *core.Report) {
	const rule = "GLOBALS"
	li := computeLocks(p)
	initOnly := initOnlyFuncs(p)

	var globals []*ssa.Global
	for _, sp := range []*ssa.Package{p.Main, p.Post} {
		if sp == nil {
			continue
		}
		for _, m := range sp.Members {
			if g, ok := m.(*ssa.Global); ok && g.Name() != "init$guard" {
				globals = append(globals, g)
			}
		}
	}
	sort.Slice(globals, func(i, j int) bool { return globals[i].Name() < globals[j].Name() })
	r.Count("globals", len(globals))

	acc := map[*ssa.Global][]gAccess{}
	var walk func(g *ssa.Global, v ssa.Value, sub string, fn *ssa.Function, depth int)
	walk = func(g *ssa.Global, v ssa.Value, sub string, fn *ssa.Function, depth int) {
		for _, ref := range core.Refs(v) {
			switch x := ref.(type) {
			case *ssa.UnOp:
				if x.Op == token.MUL && x.X == v {
					acc[g] = append(acc[g], gAccess{x, fn, "read", sub})
					// writes through the loaded reference (pointer/slice/map element stores)
					if depth < 3 {
						for _, r2 := range core.Refs(x) {
							switch y := r2.(type) {
							case *ssa.FieldAddr, *ssa.IndexAddr:
								for _, r3 := range core.Refs(y.(ssa.Value)) {
									if st, ok := r3.(*ssa.Store); ok && st.Addr == y.(ssa.Value) {
										acc[g] = append(acc[g], gAccess{st, fn, "write", sub + "->elem"})
									}
								}
							case *ssa.MapUpdate:
								if y.Map == x {
									acc[g] = append(acc[g], gAccess{y, fn, "write", sub + "->elem"})
								}
							}
						}
					}
				} else {
					acc[g] = append(acc[g], gAccess{ref, fn, "escape", sub})
				}
			case *ssa.Store:
				if x.Addr == v {
					acc[g] = append(acc[g], gAccess{x, fn, "write", sub})
				} else {
					acc[g] = append(acc[g], gAccess{x, fn, "escape", sub})
				}
			case *ssa.FieldAddr:
				_, fname, _ := core.FieldOf(x)
				walk(g, x, sub+"."+fname, fn, depth+1)
			case *ssa.IndexAddr:
				walk(g, x, sub+"[]", fn, depth+1)
			case ssa.CallInstruction:
				acc[g] = append(acc[g], gAccess{x, fn, "method:" + core.CalleeID(x), sub})
			case *ssa.DebugRef:
			default:
				acc[g] = append(acc[g], gAccess{ref, fn, "escape", sub})
			}
		}
	}
	// Referrers of globals are not tracked by go/ssa: scan operands.
	for _, f := range p.Funcs {
		f := f
		core.EachInstr(f, func(i ssa.Instruction) {
			for _, op := range i.Operands(nil) {
				if op == nil || *op == nil {
					continue
				}
				g, ok := (*op).(*ssa.Global)
				if !ok || !(g.Pkg == p.Main || g.Pkg == p.Post) {
					continue
				}
				switch x := i.(type) {
				case *ssa.UnOp:
					if x.Op == token.MUL {
						acc[g] = append(acc[g], gAccess{x, f, "read", ""})
						for _, r2 := range core.Refs(x) {
							switch y := r2.(type) {
							case *ssa.FieldAddr:
								for _, r3 := range core.Refs(y) {
									if st, ok := r3.(*ssa.Store); ok && st.Addr == ssa.Value(y) {
										acc[g] = append(acc[g], gAccess{st, f, "write", "->field"})
									}
								}
							case *ssa.IndexAddr:
								for _, r3 := range core.Refs(y) {
									if st, ok := r3.(*ssa.Store); ok && st.Addr == ssa.Value(y) {
										acc[g] = append(acc[g], gAccess{st, f, "write", "->elem"})
									}
								}
							case *ssa.MapUpdate:
								if y.Map == ssa.Value(x) {
									acc[g] = append(acc[g], gAccess{y, f, "write", "->elem"})
								}
							}
						}
					}
				case *ssa.Store:
					if x.Addr == ssa.Value(g) {
						acc[g] = append(acc[g], gAccess{x, f, "write", ""})
					} else {
						acc[g] = append(acc[g], gAccess{x, f, "escape", ""})
					}
				case *ssa.FieldAddr:
					_, fname, _ := core.FieldOf(x)
					walk(g, x, "."+fname, f, 1)
				case *ssa.IndexAddr:
					walk(g, x, "[]", f, 1)
				case ssa.CallInstruction:
					acc[g] = append(acc[g], gAccess{x, f, "method:" + core.CalleeID(x), ""})
				case *ssa.DebugRef:
				default:
					acc[g] = append(acc[g], gAccess{i, f, "escape", ""})
				}
			}
		})
	}

	classes := map[string]string{}
	for _, g := range globals {
		as := acc[g]
		elem := g.Type().(*types.Pointer).Elem()
		key := g.Name()
		var writesOutsideInit, readsOutsideInit, escapes []gAccess
		for _, a := range as {
			inInit := initOnly[a.fn]
			switch {
			case a.kind == "write" && !inInit:
				writesOutsideInit = append(writesOutsideInit, a)
			case a.kind == "read" && !inInit:
				readsOutsideInit = append(readsOutsideInit, a)
			case a.kind == "escape":
				escapes = append(escapes, a)
			}
		}
		if len(escapes) > 0 {
			for _, e := range escapes {
				r.Unk(rule, key+":escape:"+core.FuncName(e.fn), p.Pos(e.instr.Pos()), fmt.Sprintf("address of global %s escapes (%s) — cannot classify", g.Name(), e.instr))
			}
			continue
		}
		switch {
		case isSyncType(elem) || isPoolHolder(elem):
			// only method uses, whole-value stores in init-only functions, and reads feeding method receivers
			cls := "sync"
			ok := true
			for _, a := range as {
				if a.kind == "write" && !initOnly[a.fn] {
					ok = false
					r.Bad(rule, key+":sync-overwritten:"+core.FuncName(a.fn), p.Pos(a.instr.Pos()), "synchronisation object "+g.Name()+" is overwritten outside package initialisation")
				}
			}
			if ok {
				r.OK(rule, key, p.Pos(g.Pos()), "class sync: accessed through methods of sync/atomic types; stored only during initialisation")
			}
			classes[g.Name()] = cls
		case len(writesOutsideInit) == 0:
			cls := "init-only/never-written"
			classes[g.Name()] = cls
			r.OK(rule, key, p.Pos(g.Pos()), fmt.Sprintf("class %s: no store outside package initialisation (%d reads elsewhere)", cls, len(readsOutsideInit)))
		default:
			// guarded-by: all writes must share a lock, all reads must hold it
			var L map[string]bool
			for _, w := range writesOutsideInit {
				L = meet(L, li.at[w.instr])
			}
			if len(L) == 0 {
				for _, w := range writesOutsideInit {
					r.Bad("LOCKSET", key+":write:"+core.FuncName(w.fn), p.Pos(w.instr.Pos()),
						fmt.Sprintf("global %s is written at run time with no lock common to all writers (held here: %s)", g.Name(), setStr(li.at[w.instr])))
				}
				classes[g.Name()] = "UNGUARDED"
				continue
			}
			classes[g.Name()] = "guarded-by" + setStr(L)
			r.Count("guarded_globals", 1)
			for _, w := range writesOutsideInit {
				r.OK("LOCKSET", key+":write:"+core.FuncName(w.fn)+w.sub, p.Pos(w.instr.Pos()), "lock "+setStr(L)+" held")
			}
			for _, rd := range readsOutsideInit {
				held := false
				for l := range L {
					if li.at[rd.instr][l] {
						held = true
					}
				}
				k := key + ":read:" + core.FuncName(rd.fn) + rd.sub
				if held {
					r.OK("LOCKSET", k, p.Pos(rd.instr.Pos()), "lock "+setStr(L)+" held")
				} else {
					r.Bad("LOCKSET", k, p.Pos(rd.instr.Pos()),
						fmt.Sprintf("global %s is written under %s elsewhere but read here holding %s: data race with the writer", g.Name(), setStr(L), setStr(li.at[rd.instr])))
				}
			}
		}
	}
	r.Info["globals_classes"] = classes
	r.Note("GLOBALS: %d package-level variables classified over %d functions", len(globals), len(p.Funcs))
}
