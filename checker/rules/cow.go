package rules

import (
	"fmt"
	"go/constant"
	"go/token"
	"regexp/syntax"
	"sort"
	"strings"

	"golang.org/x/tools/go/ssa"

	"verifchk/core"
)

// COW — the regexp cache is an immutable snapshot published copy-on-write under a mutex,
// keyed by the source text of the compiled expression, fed only by the requested pattern.
func Cow(p *core.Prog, r *core.Report) {
	const rule = "COW"
	// slot: the cache global = package-level atomic.Value
	var cache *ssa.Global
	for _, m := range p.Main.Members {
		if g, ok := m.(*ssa.Global); ok && strings.HasSuffix(g.Type().String(), "*sync/atomic.Value") {
			if cache != nil {
				r.Unk(rule, "cache-global", p.Pos(g.Pos()), "more than one atomic.Value global: cannot tell which one is the regexp cache")
				return
			}
			cache = g
		}
	}
	if cache == nil {
		r.Unk(rule, "cache-global", "-", "no package-level atomic.Value found: the regexp cache anchor is gone")
		return
	}
	li := computeLocks(p)

	isLoad := func(v ssa.Value) bool {
		c, ok := v.(*ssa.Call)
		if !ok {
			return false
		}
		f := core.StaticCallee(c)
		return f != nil && core.QualName(f) == "(*atomic.Value).Load" && len(c.Call.Args) == 1 && c.Call.Args[0] == ssa.Value(cache)
	}
	var fromLoad func(v ssa.Value, d int) (*ssa.Call, bool)
	fromLoad = func(v ssa.Value, d int) (*ssa.Call, bool) {
		if d > 6 {
			return nil, false
		}
		switch x := v.(type) {
		case *ssa.Extract:
			if x.Index == 0 {
				if ta, ok := x.Tuple.(*ssa.TypeAssert); ok && isLoad(ta.X) {
					return ta.X.(*ssa.Call), true
				}
			}
		case *ssa.TypeAssert:
			if isLoad(x.X) {
				return x.X.(*ssa.Call), true
			}
		case *ssa.Phi:
			for _, e := range x.Edges {
				if c, ok := fromLoad(e, d+1); ok {
					return c, true
				}
			}
		}
		return nil, false
	}

	var loadFuncs, storeFuncs []*ssa.Function
	nStores, nLoads := 0, 0
	for _, f := range p.Funcs {
		hasLoad, hasStore := false, false
		core.EachInstr(f, func(i ssa.Instruction) {
			c, ok := i.(ssa.CallInstruction)
			if !ok {
				// no in-place update of a published snapshot, anywhere
				switch x := i.(type) {
				case *ssa.MapUpdate:
					if _, ok := fromLoad(x.Map, 0); ok {
						r.Bad(rule, "published-map-written:"+core.FuncName(f), p.Pos(x.Pos()), "a map obtained from the published cache snapshot is updated in place: concurrent lock-free readers race with this write and may see a torn map")
					}
				}
				return
			}
			callee := core.StaticCallee(c)
			if callee == nil {
				return
			}
			q := core.QualName(callee)
			if strings.HasPrefix(q, "(*atomic.Value).") && len(c.Common().Args) > 0 && c.Common().Args[0] == ssa.Value(cache) {
				switch callee.Name() {
				case "Load":
					hasLoad = true
					nLoads++
				case "Store":
					hasStore = true
					nStores++
				default:
					r.Unk(rule, "cache-op:"+core.FuncName(f)+":"+callee.Name(), p.Pos(i.Pos()), "unexpected operation on the cache value")
				}
			}
			if q == "builtin.delete" {
				return
			}
		})
		// delete(builtin) on a snapshot
		core.EachInstr(f, func(i ssa.Instruction) {
			if c, ok := i.(*ssa.Call); ok {
				if b, ok := c.Call.Value.(*ssa.Builtin); ok && b.Name() == "delete" {
					if _, ok := fromLoad(c.Call.Args[0], 0); ok {
						r.Bad(rule, "published-map-written:"+core.FuncName(f), p.Pos(c.Pos()), "delete on a published cache snapshot")
					}
				}
			}
		})
		if hasLoad {
			loadFuncs = append(loadFuncs, f)
		}
		if hasStore {
			storeFuncs = append(storeFuncs, f)
		}
	}
	r.Count("cow_store_sites", nStores)
	r.Count("cow_load_sites", nLoads)
	r.Floor("cow_store_sites", 1)
	r.Floor("cow_load_sites", 2)
	r.OK(rule, "published-map-immutable", p.Pos(cache.Pos()), fmt.Sprintf("no MapUpdate/delete on a value derived from %s.Load() in %d functions", cache.Name(), len(p.Funcs)))

	// --- publication sites -------------------------------------------------
	var insertFn *ssa.Function // the function that publishes (cacheRegexp)
	for _, f := range storeFuncs {
		insertFn = f
		fn := core.FuncName(f)
		core.EachInstr(f, func(i ssa.Instruction) {
			c, ok := i.(*ssa.Call)
			if !ok {
				return
			}
			callee := core.StaticCallee(c)
			if callee == nil || core.QualName(callee) != "(*atomic.Value).Store" || c.Call.Args[0] != ssa.Value(cache) {
				return
			}
			key := "store:" + fn
			held := li.at[c]
			if len(held) == 0 {
				r.Bad(rule, key+":lock", p.Pos(c.Pos()), "the cache snapshot is published with no mutex held: two concurrent inserts can each copy the old map and one entry is lost (and a reader may get the wrong generation)")
			} else {
				r.OK(rule, key+":lock", p.Pos(c.Pos()), "published holding "+setStr(held))
			}
			// re-check Load inside the same critical section, before the store
			recheck := false
			var theLoad *ssa.Call
			core.EachInstr(f, func(j ssa.Instruction) {
				if jc, ok := j.(*ssa.Call); ok && isLoad(jc) && len(li.at[jc]) > 0 && core.InstrDominates(jc, c) {
					recheck = true
					theLoad = jc
				}
			})
			if recheck {
				r.OK(rule, key+":recheck", p.Pos(c.Pos()), "snapshot re-loaded inside the critical section before publication")
			} else {
				r.Bad(rule, key+":recheck", p.Pos(c.Pos()), "the map that is copied was not loaded inside the critical section: entries inserted by a concurrent writer between the load and the lock are dropped")
			}
			// the stored value is a map made in this activation
			mi, _ := c.Call.Args[1].(*ssa.MakeInterface)
			var mm *ssa.MakeMap
			if mi != nil {
				mm, _ = mi.X.(*ssa.MakeMap)
			}
			if mm == nil {
				r.Bad(rule, key+":fresh-map", p.Pos(c.Pos()), "the published value is not a map freshly made in this activation (copy-on-write requires a new map per publication)")
				return
			}
			r.OK(rule, key+":fresh-map", p.Pos(mm.Pos()), "published value is a MakeMap of this activation")
			// uses of the new map
			carry := false
			keyOK := true
			nIns := 0
			for _, ref := range core.Refs(mm) {
				switch u := ref.(type) {
				case *ssa.MapUpdate:
					if core.Reaches(c, u) {
						r.Bad(rule, key+":update-after-publish", p.Pos(u.Pos()), "the new map is written after it has been published")
					}
					// carry-over: key/value are the range pair over the loaded snapshot
					if ek, ok := u.Key.(*ssa.Extract); ok {
						if ev, ok := u.Value.(*ssa.Extract); ok && ek.Tuple == ev.Tuple && ek.Index == 1 && ev.Index == 2 {
							if nx, ok := ek.Tuple.(*ssa.Next); ok {
								if rg, ok := nx.Iter.(*ssa.Range); ok {
									if ld, ok := fromLoad(rg.X, 0); ok && (theLoad == nil || ld == theLoad) {
										carry = true
										continue
									}
								}
							}
						}
					}
					// insertion: key must be value.String()
					nIns++
					kc, ok := u.Key.(*ssa.Call)
					if !ok || core.StaticCallee(kc) == nil || core.QualName(core.StaticCallee(kc)) != "(*regexp.Regexp).String" || kc.Call.Args[0] != u.Value {
						keyOK = false
						r.Bad(rule, key+":key-provenance", p.Pos(u.Pos()), "an entry is inserted under a key that is not the source text (String()) of the inserted expression: a later lookup of that key returns an expression compiled from another pattern")
					}
				case *ssa.MakeInterface:
				case *ssa.DebugRef:
				default:
					r.Unk(rule, key+":map-escapes", p.Pos(ref.Pos()), "the new map is used in a way the rule does not know: "+ref.String())
				}
			}
			if keyOK && nIns > 0 {
				r.OK(rule, key+":key-provenance", p.Pos(c.Pos()), fmt.Sprintf("%d inserted entries keyed by String() of the inserted value", nIns))
			}
			if nIns == 0 {
				r.Bad(rule, key+":inserts", p.Pos(c.Pos()), "publication inserts no new entry")
			}
			if carry {
				r.OK(rule, key+":carry-over", p.Pos(c.Pos()), "every entry of the re-loaded snapshot is copied (range k,v -> new[k]=v)")
			} else {
				r.Bad(rule, key+":carry-over", p.Pos(c.Pos()), "old entries are not all carried over into the new snapshot")
			}
		})
	}
	if len(storeFuncs) != 1 {
		r.Unk(rule, "single-publisher", p.Pos(cache.Pos()), fmt.Sprintf("expected exactly one publishing function, found %d", len(storeFuncs)))
		return
	}
	r.OK(rule, "single-publisher", p.Pos(insertFn.Pos()), "only "+core.FuncName(insertFn)+" stores the cache")

	// --- lookup / compile functions -----------------------------------------
	compileNames := map[string]bool{"regexp.Compile": true, "regexp.MustCompile": true, "regexp.CompilePOSIX": true, "regexp.MustCompilePOSIX": true}
	lookupFuncs := map[*ssa.Function]bool{}
	// pure lookup helpers: load the snapshot, never compile, return the entry of their string parameter (or nil)
	helpers := map[*ssa.Function]bool{}
	compiles := func(f *ssa.Function) bool {
		found := false
		core.EachInstr(f, func(i ssa.Instruction) {
			if c, ok := i.(ssa.CallInstruction); ok {
				if g := core.StaticCallee(c); g != nil && compileNames[core.QualName(g)] {
					found = true
				}
			}
		})
		return found
	}
	for _, f := range loadFuncs {
		if f == insertFn || compiles(f) {
			continue
		}
		fn := core.FuncName(f)
		var pat *ssa.Parameter
		nStr := 0
		for _, prm := range f.Params {
			if prm.Type().String() == "string" {
				pat = prm
				nStr++
			}
		}
		okH := nStr == 1
		core.EachInstr(f, func(i ssa.Instruction) {
			if lk, ok := i.(*ssa.Lookup); ok {
				if _, isCache := fromLoad(lk.X, 0); isCache && lk.Index != ssa.Value(pat) {
					okH = false
				}
			}
		})
		for _, b := range f.Blocks {
			if ret, ok := b.Instrs[len(b.Instrs)-1].(*ssa.Return); ok {
				if len(ret.Results) != 1 {
					okH = false
					continue
				}
				v := ret.Results[0]
				if core.IsNilConst(v) {
					continue
				}
				lk, isLk := v.(*ssa.Lookup)
				if !isLk {
					okH = false
					continue
				}
				if _, isCache := fromLoad(lk.X, 0); !isCache || lk.Index != ssa.Value(pat) {
					okH = false
				}
			}
		}
		if okH {
			helpers[f] = true
			r.OK(rule, "lookup-helper:"+fn, p.Pos(f.Pos()), "pure lookup helper: returns the snapshot's entry for its pattern parameter, or nil")
		} else {
			r.Bad(rule, "lookup-helper:"+fn, p.Pos(f.Pos()), "a function reads the published cache without compiling, and does not simply return the entry of its pattern parameter: the cache is consulted in a way the rules do not cover")
		}
	}
	// compile functions: load the cache themselves or through a lookup helper
	var compileFuncs []*ssa.Function
	for _, f := range p.Funcs {
		if f == insertFn || helpers[f] || !compiles(f) || !p.InSubject(f) {
			continue
		}
		compileFuncs = append(compileFuncs, f)
	}
	sort.Slice(compileFuncs, func(i, j int) bool { return core.FuncName(compileFuncs[i]) < core.FuncName(compileFuncs[j]) })
	helperHit := func(v ssa.Value, pat *ssa.Parameter) bool {
		c, ok := v.(*ssa.Call)
		if !ok {
			return false
		}
		g := core.StaticCallee(c)
		return g != nil && helpers[g] && len(c.Call.Args) > 0 && c.Call.Args[len(c.Call.Args)-1] == ssa.Value(pat)
	}
	for _, f := range compileFuncs {
		lookupFuncs[f] = true
		fn := core.FuncName(f)
		var pat *ssa.Parameter
		for _, prm := range f.Params {
			if prm.Type().String() == "string" {
				if pat != nil {
					pat = nil
					break
				}
				pat = prm
			}
		}
		if pat == nil {
			r.Unk(rule, "lookup:"+fn+":param", p.Pos(f.Pos()), "cannot identify the single string pattern parameter")
			continue
		}
		var compiled ssa.Value // the *Regexp produced by regexp.Compile(pattern)
		var compileCall *ssa.Call
		okLookups := true
		core.EachInstr(f, func(i ssa.Instruction) {
			switch x := i.(type) {
			case *ssa.Lookup:
				if _, ok := fromLoad(x.X, 0); ok && x.Index != ssa.Value(pat) {
					okLookups = false
					r.Bad(rule, "lookup:"+fn+":key", p.Pos(x.Pos()), "the cache is looked up with a key other than the requested pattern")
				}
			case *ssa.Call:
				if g := core.StaticCallee(x); g != nil && helpers[g] && !helperHit(x, pat) {
					okLookups = false
					r.Bad(rule, "lookup:"+fn+":key", p.Pos(x.Pos()), "the cache is looked up (through "+g.Name()+") with a key other than the requested pattern")
				}
				if g := core.StaticCallee(x); g != nil && compileNames[core.QualName(g)] {
					if x.Call.Args[0] != ssa.Value(pat) {
						r.Bad(rule, "lookup:"+fn+":compile-arg", p.Pos(x.Pos()), "the expression is compiled from something other than the requested pattern")
					} else {
						compileCall = x
					}
				}
			}
		})
		if okLookups {
			r.OK(rule, "lookup:"+fn+":key", p.Pos(f.Pos()), "cache lookups use the pattern parameter as key")
		}
		if compileCall == nil {
			r.Bad(rule, "lookup:"+fn+":compile", p.Pos(f.Pos()), "no regexp compilation of the pattern parameter on the miss path")
			continue
		}
		r.OK(rule, "lookup:"+fn+":compile-arg", p.Pos(compileCall.Pos()), "miss path compiles the pattern parameter")
		var errV ssa.Value
		if compileCall.Type().String() == "*regexp.Regexp" {
			compiled = compileCall
		} else {
			for _, ref := range core.Refs(compileCall) {
				if e, ok := ref.(*ssa.Extract); ok {
					if e.Index == 0 {
						compiled = e
					} else {
						errV = e
					}
				}
			}
		}
		// returns: regexp result is the lookup hit or the compiled value; error is compile's error
		retOK := true
		for _, b := range f.Blocks {
			ret, ok := b.Instrs[len(b.Instrs)-1].(*ssa.Return)
			if !ok || len(ret.Results) == 0 {
				continue
			}
			v := ret.Results[0]
			switch {
			case v == compiled:
			case core.IsNilConst(v):
				// failure path: must return the compile error itself
				if len(ret.Results) < 2 || errV == nil || ret.Results[1] != errV {
					retOK = false
					r.Bad(rule, "lookup:"+fn+":error-propagation", p.Pos(ret.Pos()), "a nil expression is returned without the compile error: an invalid pattern would not be reported as invalid")
				}
			default:
				lk, isLk := v.(*ssa.Lookup)
				if isLk {
					if _, ok := fromLoad(lk.X, 0); ok && lk.Index == ssa.Value(pat) {
						continue
					}
				}
				if helperHit(v, pat) {
					continue
				}
				retOK = false
				r.Bad(rule, "lookup:"+fn+":result", p.Pos(ret.Pos()), "the returned expression is neither the cache entry of the requested pattern nor the expression compiled from it")
			}
			if len(ret.Results) == 2 && !core.IsNilConst(ret.Results[1]) && ret.Results[1] != errV {
				retOK = false
				r.Bad(rule, "lookup:"+fn+":error-propagation", p.Pos(ret.Pos()), "an error other than the compile error is returned")
			}
		}
		if retOK {
			r.OK(rule, "lookup:"+fn+":result", p.Pos(f.Pos()), "every return yields the cache entry for the pattern or the expression compiled from it; failure returns the compile error")
		}
		// error edge: the non-nil-error path must return (nil, err) and must not cache
		if errV != nil {
			for _, ref := range core.Refs(errV) {
				if bo, ok := ref.(*ssa.BinOp); ok && (bo.Op == token.NEQ || bo.Op == token.EQL) {
					_ = bo
				}
			}
		}
		// what is cached is the compiled value, and only on the success edge
		cached := false
		core.EachInstr(f, func(i ssa.Instruction) {
			c, ok := i.(*ssa.Call)
			if !ok || core.StaticCallee(c) != insertFn {
				return
			}
			cached = true
			if c.Call.Args[0] != compiled {
				r.Bad(rule, "lookup:"+fn+":cached-value", p.Pos(c.Pos()), "the value handed to the cache is not the expression compiled from the requested pattern")
				return
			}
			if errV != nil && !errIsNilAt(c.Block(), errV) {
				r.Bad(rule, "lookup:"+fn+":cache-on-error", p.Pos(c.Pos()), "the cache insert is not confined to the success edge of the compilation")
				return
			}
			r.OK(rule, "lookup:"+fn+":cached-value", p.Pos(c.Pos()), "caches exactly the expression compiled from the pattern, on the success edge")
		})
		if !cached {
			r.Note("COW: %s does not cache its miss result (allowed: only slower)", fn)
		}
	}
	r.Count("cow_lookup_funcs", len(lookupFuncs))
	r.Floor("cow_lookup_funcs", 1)

	// --- choke point: nobody else compiles or matches raw patterns ---------------
	rawMatch := map[string]bool{"regexp.MatchString": true, "regexp.Match": true, "regexp.MatchReader": true}
	nRaw := 0
	for _, f := range p.Funcs {
		core.EachInstr(f, func(i ssa.Instruction) {
			c, ok := i.(ssa.CallInstruction)
			if !ok {
				return
			}
			g := core.StaticCallee(c)
			if g == nil {
				return
			}
			q := core.QualName(g)
			if (compileNames[q] && !lookupFuncs[f]) || rawMatch[q] {
				nRaw++
				r.Bad(rule, "choke-point:"+core.FuncName(f)+":"+q, p.Pos(i.Pos()), q+" is called outside the cache's compile functions: this pattern use bypasses the checked path")
			}
		})
	}
	if nRaw == 0 {
		r.OK(rule, "choke-point", p.Pos(cache.Pos()), "regexp.Compile/MustCompile/Match* occur only inside the cache's compile functions")
	}

	// --- call sites of the compile functions -------------------------------------
	nSites := 0
	irSeq := map[string]int{}
	for _, f := range p.Funcs {
		core.EachInstr(f, func(i ssa.Instruction) {
			c, ok := i.(*ssa.Call)
			if !ok {
				return
			}
			g := core.StaticCallee(c)
			if g == nil || !lookupFuncs[g] {
				return
			}
			nSites++
			site := "callsite:" + core.FuncName(f) + ":" + g.Name()
			if g.Signature.Results().Len() == 1 {
				// must-variant: only constant, valid patterns
				k, ok := c.Call.Args[0].(*ssa.Const)
				if !ok || k.Value == nil || k.Value.Kind() != constant.String {
					r.Bad(rule, site+":must-nonconst", p.Pos(c.Pos()), "the panicking compile variant is called with a non-constant pattern")
					return
				}
				pat := constant.StringVal(k.Value)
				if _, err := syntax.Parse(pat, syntax.Perl); err != nil {
					r.Bad(rule, site+":must-invalid:"+pat, p.Pos(c.Pos()), "constant pattern does not compile: "+err.Error())
					return
				}
				r.OK(rule, site+":"+pat, p.Pos(c.Pos()), "constant pattern, parsed successfully by regexp/syntax at analysis time")
				return
			}
			// (re, err) variant: re may be used only where err is known nil
			var re, errV ssa.Value
			for _, ref := range core.Refs(c) {
				if e, ok := ref.(*ssa.Extract); ok {
					if e.Index == 0 {
						re = e
					} else {
						errV = e
					}
				}
			}
			// an invalid pattern is reported: on the err != nil side something is added to a result, or an error /
			// validation failure is returned — a silent `continue` drops the keyword the pattern belongs to
			// (part of C15's statement only; the cache-safety users of COW do not ask for it)
			if cowInvalidReported {
				// keyed by the validator type and the source of the pattern, not by the function the call happens to
				// sit in: an extracted helper is the same site
				owner := core.FuncName(core.EnclosingTop(f))
				if rc := core.EnclosingTop(f).Signature.Recv(); rc != nil {
					if n := core.NamedOf(rc.Type()); n != nil {
						owner = core.KnownTypeName(n)
					}
				}
				srcDesc := describe(c.Call.Args[0])
				if k := strings.LastIndex(srcDesc, " over "); k >= 0 {
					srcDesc = "key of " + srcDesc[k+6:]
				}
				irBase := "invalid-reported:" + owner + ":" + srcDesc
				irSeq[irBase]++
				irKey := irBase
				if irSeq[irBase] > 1 {
					irKey = fmt.Sprintf("%s#%d", irBase, irSeq[irBase])
				}
				reported := false
				if errV != nil {
					core.EachInstr(f, func(j ssa.Instruction) {
						if reported || !errIsNonNilAt(j.Block(), errV) {
							return
						}
						switch y := j.(type) {
						case ssa.CallInstruction:
							if h := core.StaticCallee(y); h != nil && (h.Name() == "AddErrors" || h.Name() == "AddWarnings") {
								reported = true
							}
						case *ssa.Return:
							for _, rv := range y.Results {
								if k, isK := rv.(*ssa.Const); isK && k.Value == nil {
									continue // nil
								}
								ts := rv.Type().String()
								if ts == "error" || strings.HasSuffix(ts, "errors.Validation") {
									reported = true
								}
							}
						}
					})
				}
				if reported {
					r.OK(rule, irKey, p.Pos(c.Pos()), "a pattern that does not compile is reported on the error edge")
				} else {
					r.Bad(rule, irKey, p.Pos(c.Pos()), "a pattern that does not compile is dropped silently at this call site (nothing is added to a result and no error is returned on the err != nil edge): the keyword it belongs to is simply not enforced and the schema's defect is never reported")
				}
			}
			if re == nil || len(core.Refs(re)) == 0 {
				if errV == nil || len(core.Refs(errV)) == 0 {
					r.Bad(rule, site+":ignored", p.Pos(c.Pos()), "both results of the compile call are ignored")
				} else {
					r.OK(rule, site+":validity-only", p.Pos(c.Pos()), "only the error is consumed (pattern validity check)")
				}
				return
			}
			bad := false
			for _, u := range core.Refs(re) {
				if _, ok := u.(*ssa.DebugRef); ok {
					continue
				}
				if errV == nil || !errIsNilAt(u.Block(), errV) {
					bad = true
					r.Bad(rule, site+":use-before-errcheck", p.Pos(u.Pos()), "the compiled expression is used on a path where the compile error was not tested to be nil (nil dereference / invalid pattern not reported)")
				}
			}
			if !bad {
				r.OK(rule, site+":errcheck", p.Pos(c.Pos()), "the expression is used only where the compile error is known to be nil")
			}
			// the expression is only ever used through the regexp engine (matching / searching / replacing): a
			// shortcut that inspects it (LiteralPrefix, NumSubexp …) and decides otherwise no longer "behaves exactly
			// like Go's regexp package compiled from that very pattern"
			engine := map[string]bool{"MatchString": true, "Match": true, "MatchReader": true, "String": true, "Split": true}
			var odd []string
			for _, u := range core.Refs(re) {
				uc, ok := u.(ssa.CallInstruction)
				if !ok {
					continue
				}
				ug := core.StaticCallee(uc)
				if ug == nil || ug.Signature.Recv() == nil || len(uc.Common().Args) == 0 || uc.Common().Args[0] != re {
					continue
				}
				if !strings.HasPrefix(core.QualName(ug), "(*regexp.Regexp).") {
					continue
				}
				name := ug.Name()
				if engine[name] || strings.HasPrefix(name, "Find") || strings.HasPrefix(name, "ReplaceAll") {
					continue
				}
				odd = append(odd, name)
			}
			if len(odd) > 0 {
				r.Bad(rule, site+":engine-only", p.Pos(c.Pos()), "the compiled expression is inspected through "+strings.Join(uniq(odd), ", ")+" instead of being run by the regexp engine: a verdict derived from that is not the verdict of the pattern")
			} else {
				r.OK(rule, site+":engine-only", p.Pos(c.Pos()), "the compiled expression is only used through matching / searching / replacing methods")
			}
			// isolation: inside a loop over several patterns, a pattern that does not compile must not end the
			// loop — the patterns after it (in map order) would never be consulted
			if errV != nil {
				var loop map[*ssa.BasicBlock]bool
				for _, L := range allLoopsOf(f) {
					if L[c.Block()] && (loop == nil || len(L) < len(loop)) {
						loop = L
					}
				}
				if loop != nil {
					leaves := false
					for _, u := range core.Refs(errV) {
						bo, ok := u.(*ssa.BinOp)
						if !ok || !core.IsNilConst(bo.Y) {
							continue
						}
						for _, iu := range core.Refs(bo) {
							iff, ok := iu.(*ssa.If)
							if !ok {
								continue
							}
							// the err != nil edge
							idx := 0
							if bo.Op == token.EQL {
								idx = 1
							}
							tgt := iff.Block().Succs[idx]
							// follow straight-line blocks
							for n := 0; n < 6 && loop[tgt] && len(tgt.Succs) == 1 && tgt != c.Block(); n++ {
								nxt := tgt.Succs[0]
								if !loop[nxt] {
									tgt = nxt
									break
								}
								if nxt.Dominates(tgt) { // back to the header
									break
								}
								tgt = nxt
							}
							if !loop[tgt] && !endsInPanic(tgt) {
								leaves = true
							}
						}
					}
					if leaves {
						r.Bad(rule, site+":error-isolated", p.Pos(c.Pos()), "inside a loop over patterns, the compile-error branch leaves the loop: one invalid pattern prevents the patterns that come after it (in map iteration order) from being matched at all")
					} else {
						r.OK(rule, site+":error-isolated", p.Pos(c.Pos()), "a pattern that does not compile is skipped and the loop over the other patterns goes on")
					}
				}
			}
		})
	}
	r.Count("cow_compile_call_sites", nSites)
	r.Floor("cow_compile_call_sites", 12)
	r.Note("COW: cache global %s; %d load sites, %d store sites, %d compile call sites", cache.Name(), nLoads, nStores, nSites)
}

// errIsNilAt: block b executes only when errV == nil.
func errIsNilAt(b *ssa.BasicBlock, errV ssa.Value) bool {
	for _, c := range core.CondsAt(b) {
		bo, ok := c.Value.(*ssa.BinOp)
		if !ok {
			continue
		}
		var other ssa.Value
		if bo.X == errV {
			other = bo.Y
		} else if bo.Y == errV {
			other = bo.X
		} else {
			continue
		}
		if !core.IsNilConst(other) {
			continue
		}
		if (bo.Op == token.NEQ && !c.Sense) || (bo.Op == token.EQL && c.Sense) {
			return true
		}
	}
	return false
}

var cowInvalidReported bool

// CowReporting is COW plus the clause "a pattern that does not compile is reported at every call site" (C15).
func CowReporting(p *core.Prog, r *core.Report) {
	cowInvalidReported = true
	defer func() { cowInvalidReported = false }()
	Cow(p, r)
}
