package rules

import (
	"fmt"
	"go/token"
	"go/types"
	"strings"

	"golang.org/x/tools/go/ssa"

	"verifchk/core"
)

// PURE — the exported value helpers (C14): purity and provenance clauses.
// Each clause is a data/control-dependence identity on SSA that is a necessary condition of the
// documented definition (not a text match: operands are identified as parameters / call results).

var valueHelpers = []string{"MinLength", "MaxLength", "Pattern", "UniqueItems", "Enum", "EnumCase", "MinItems", "MaxItems", "Required", "RequiredString", "RequiredNumber", "ReadOnly", "FormatOf"}

// paramPos: the position of each role in the signatures the rules refer to. Exported signatures are API (a
// position cannot change without breaking callers); parameter NAMES are not, so roles are resolved by position.
var paramPos = map[string]map[string]int{
	"MinLength":                           {"data": 2, "minLength": 3},
	"MaxLength":                           {"data": 2, "maxLength": 3},
	"MinItems":                            {"size": 2, "minimum": 3},
	"MaxItems":                            {"size": 2, "maximum": 3},
	"RequiredString":                      {"data": 2},
	"RequiredNumber":                      {"data": 2},
	"Pattern":                             {"data": 2, "pattern": 3},
	"FormatOf":                            {"format": 2, "data": 3},
	"Enum":                                {"data": 2, "enum": 3},
	"EnumCase":                            {"data": 2, "enum": 3},
	"Required":                            {"data": 2},
	"ReadOnly":                            {"ctx": 0, "data": 3},
	"UniqueItems":                         {"data": 2},
	"withOperation":                       {"ctx": 0, "operation": 1},
	"AgainstSchema":                       {"schema": 0, "data": 1, "formats": 2},
	"(*pathHelper).stripParametersInPath": {"path": 1},
	"(*pathHelper).extractPathParams":     {"path": 1},
}

func paramNamed(f *ssa.Function, name string) *ssa.Parameter {
	if m, ok := paramPos[core.FuncName(f)]; ok {
		if k, ok := m[name]; ok && k < len(f.Params) {
			return f.Params[k]
		}
	}
	for _, p := range f.Params {
		if p.Name() == name {
			return p
		}
	}
	return nil
}

// through strips conversions.
func through(v ssa.Value) ssa.Value {
	for {
		switch x := v.(type) {
		case *ssa.Convert:
			v = x.X
		case *ssa.ChangeType:
			v = x.X
		case *ssa.MakeInterface:
			v = x.X
		default:
			return v
		}
	}
}

func isCallOf(v ssa.Value, qual string) (*ssa.Call, bool) {
	c, ok := through(v).(*ssa.Call)
	if !ok {
		return nil, false
	}
	if c.Call.IsInvoke() {
		if c.Call.Method.Name() == qual || core.TypeName(c.Call.Value.Type())+"."+c.Call.Method.Name() == qual {
			return c, true
		}
		return nil, false
	}
	g := core.StaticCallee(c)
	if g == nil {
		return nil, false
	}
	if core.QualName(g) == qual || core.FuncName(g) == qual {
		return c, true
	}
	return nil, false
}

type retInfo struct {
	ret    *ssa.Return
	nilRes bool
	val    ssa.Value
	conds  []core.Cond
}

func returnsOf(f *ssa.Function) []retInfo {
	var out []retInfo
	for _, b := range f.Blocks {
		ret, ok := b.Instrs[len(b.Instrs)-1].(*ssa.Return)
		if !ok || b == f.Recover || len(ret.Results) == 0 {
			continue
		}
		v := ret.Results[0]
		// results spilled to a cell because of a defer: take the value stored last in this block
		if ld, isLd := v.(*ssa.UnOp); isLd && ld.Op == token.MUL {
			if cell, isCell := ld.X.(*ssa.Alloc); isCell {
				for k := len(b.Instrs) - 1; k >= 0; k-- {
					if st, isSt := b.Instrs[k].(*ssa.Store); isSt && st.Addr == ssa.Value(cell) {
						v = st.Val
						break
					}
				}
			}
		}
		out = append(out, retInfo{ret, core.IsNilConst(v), v, core.CondsAt(b)})
	}
	return out
}

// cmpCond: is c the comparison  lhs op rhs  (after normalising direction and sense) for the predicates given?
func cmpCond(c core.Cond, op token.Token, lhs, rhs func(ssa.Value) bool) bool {
	bo, ok := c.Value.(*ssa.BinOp)
	if !ok {
		return false
	}
	o := bo.Op
	x, y := bo.X, bo.Y
	if !c.Sense {
		switch o {
		case token.LSS:
			o = token.GEQ
		case token.LEQ:
			o = token.GTR
		case token.GTR:
			o = token.LEQ
		case token.GEQ:
			o = token.LSS
		case token.EQL:
			o = token.NEQ
		case token.NEQ:
			o = token.EQL
		}
	}
	flip := map[token.Token]token.Token{token.LSS: token.GTR, token.GTR: token.LSS, token.LEQ: token.GEQ, token.GEQ: token.LEQ, token.EQL: token.EQL, token.NEQ: token.NEQ}
	if o == op && lhs(x) && rhs(y) {
		return true
	}
	if flip[o] == op && lhs(y) && rhs(x) {
		return true
	}
	return false
}

func Pure(p *core.Prog, r *core.Report) {
	const rule = "PURE"
	cg := core.BuildCallGraph(p)
	nClauses := 0
	clause := func(ok bool, key, pos, good, bad string) {
		nClauses++
		if ok {
			r.OK(rule, key, pos, good)
		} else {
			r.Bad(rule, key, pos, bad)
		}
	}
	// ---- purity ---------------------------------------------------------------------
	reach, missing := cg.Reachable(valueHelpers...)
	for _, m := range missing {
		r.Unk(rule, "helper:"+m, "-", "exported helper not found")
	}
	nW := 0
	for f := range reach {
		fn := core.FuncName(f)
		core.EachInstr(f, func(i ssa.Instruction) {
			switch x := i.(type) {
			case *ssa.Store:
				base := baseOfAddr(x.Addr)
				if _, ok := base.(*ssa.Alloc); ok {
					return
				}
				if fn == "(*errorHelper).sErr" {
					return
				}
				nW++
				r.Bad(rule, "purity:"+fn+":store", p.Pos(x.Pos()), "a value helper (or a function it calls) writes to non-local memory: "+describe(x.Addr))
			case *ssa.MapUpdate:
				if _, ok := x.Map.(*ssa.MakeMap); ok {
					return
				}
				// a scratch map threaded through a recursion: a parameter that every call site fills with a map made
				// for the purpose by a helper itself, or with the very same parameter (the recursive call)
				if prm, isP := x.Map.(*ssa.Parameter); isP {
					k := -1
					for i, q := range f.Params {
						if q == prm {
							k = i
						}
					}
					if k >= 0 && scratchMapParam(p, f, k, map[[2]interface{}]bool{}) {
						return
					}
				}
				nW++
				r.Bad(rule, "purity:"+fn+":mapupdate", p.Pos(x.Pos()), "a value helper updates a map it did not create")
			}
		})
	}
	if nW == 0 {
		r.OK(rule, "purity", "-", fmt.Sprintf("%d functions reachable from the 13 helpers: no store outside locals, no update of foreign maps (the regexp cache publishes through atomic.Value, checked by COW)", len(reach)))
	}
	// globals read
	allowedGlobals := map[string]bool{"reDict": true, "cacheMutex": true, "operationTypeEnum": true, "valueHelp": true, "errorHelp": true, "Debug": true, "validateLogger": true}
	for f := range reach {
		core.EachInstr(f, func(i ssa.Instruction) {
			for _, op := range i.Operands(nil) {
				if op == nil || *op == nil {
					continue
				}
				if g, ok := (*op).(*ssa.Global); ok && g.Pkg == p.Main && !allowedGlobals[g.Name()] {
					r.Bad(rule, "globals:"+core.FuncName(f)+":"+g.Name(), p.Pos(i.Pos()), "a value helper depends on package state "+g.Name()+": same arguments may give different answers")
				}
			}
		})
	}

	// ---- string lengths ------------------------------------------------------------------
	for _, spec := range []struct {
		fn  string
		op  token.Token
		lim string
	}{{"MinLength", token.LSS, "minLength"}, {"MaxLength", token.GTR, "maxLength"}} {
		f := p.Func(spec.fn)
		if f == nil {
			continue
		}
		data, lim := paramNamed(f, "data"), paramNamed(f, spec.lim)
		isRunes := func(v ssa.Value) bool {
			c, ok := isCallOf(v, "utf8.RuneCountInString")
			return ok && c.Call.Args[0] == ssa.Value(data)
		}
		isLim := func(v ssa.Value) bool { return through(v) == ssa.Value(lim) }
		okErr, okNil := false, false
		for _, ri := range returnsOf(f) {
			has, hasNot := false, false
			for _, c := range ri.conds {
				if cmpCond(c, spec.op, isRunes, isLim) {
					has = true
				}
				neg := c
				neg.Sense = !c.Sense
				if cmpCond(neg, spec.op, isRunes, isLim) {
					hasNot = true
				}
			}
			if !ri.nilRes && has {
				okErr = true
			}
			if ri.nilRes && hasNot {
				okNil = true
			}
			if !ri.nilRes && !has {
				okErr = false
				break
			}
		}
		clause(okErr && okNil, spec.fn+":rune-count", p.Pos(f.Pos()),
			"error exactly on utf8.RuneCountInString(data) "+spec.op.String()+" "+spec.lim+" (code points, not bytes)",
			"the length compared is not the number of Unicode code points of data, or the comparison with "+spec.lim+" changed direction")
	}
	// ---- sizes ----------------------------------------------------------------------------
	for _, spec := range []struct {
		fn   string
		op   token.Token
		a, b string
	}{{"MinItems", token.LSS, "size", "minimum"}, {"MaxItems", token.GTR, "size", "maximum"}} {
		f := p.Func(spec.fn)
		if f == nil {
			continue
		}
		a, b := paramNamed(f, spec.a), paramNamed(f, spec.b)
		isA := func(v ssa.Value) bool { return v == ssa.Value(a) }
		isB := func(v ssa.Value) bool { return v == ssa.Value(b) }
		ok := true
		n := 0
		for _, ri := range returnsOf(f) {
			n++
			match := false
			for _, c := range ri.conds {
				if !ri.nilRes && cmpCond(c, spec.op, isA, isB) {
					match = true
				}
				neg := c
				neg.Sense = !c.Sense
				if ri.nilRes && cmpCond(neg, spec.op, isA, isB) {
					match = true
				}
			}
			if !match {
				ok = false
			}
		}
		clause(ok && n == 2, spec.fn+":compare", p.Pos(f.Pos()), "error exactly on "+spec.a+" "+spec.op.String()+" "+spec.b, "the size comparison is not "+spec.a+" "+spec.op.String()+" "+spec.b)
	}
	// ---- RequiredString / RequiredNumber -----------------------------------------------------
	for _, spec := range []struct{ fn, zero string }{{"RequiredString", `""`}, {"RequiredNumber", "0"}} {
		f := p.Func(spec.fn)
		if f == nil {
			continue
		}
		data := paramNamed(f, "data")
		isD := func(v ssa.Value) bool { return v == ssa.Value(data) }
		isZ := func(v ssa.Value) bool {
			k, ok := v.(*ssa.Const)
			return ok && k.Value != nil && k.Value.ExactString() == spec.zero
		}
		ok := true
		for _, ri := range returnsOf(f) {
			match := false
			for _, c := range ri.conds {
				if !ri.nilRes && cmpCond(c, token.EQL, isD, isZ) {
					match = true
				}
				if ri.nilRes && cmpCond(c, token.NEQ, isD, isZ) {
					match = true
				}
			}
			if !match {
				ok = false
			}
		}
		clause(ok, spec.fn+":zero", p.Pos(f.Pos()), "error exactly on data == "+spec.zero, "the zero-value test of "+spec.fn+" changed")
	}
	// ---- Pattern -------------------------------------------------------------------------------
	patternSearchClause(p, clause)
	// ---- FormatOf ------------------------------------------------------------------------------
	if f := p.Func("FormatOf"); f != nil {
		format, data := paramNamed(f, "format"), paramNamed(f, "data")
		var contains, validates *ssa.Call
		core.EachInstr(f, func(i ssa.Instruction) {
			if c, ok := i.(*ssa.Call); ok && c.Call.IsInvoke() {
				switch c.Call.Method.Name() {
				case "ContainsName":
					contains = c
				case "Validates":
					validates = c
				}
			}
		})
		ok := contains != nil && validates != nil && contains.Call.Args[0] == ssa.Value(format) && validates.Call.Args[0] == ssa.Value(format) && validates.Call.Args[1] == ssa.Value(data) && contains.Call.Value == validates.Call.Value
		if ok {
			for _, ri := range returnsOf(f) {
				var cT, cF, vT, vF bool
				for _, c := range ri.conds {
					if c.Value == ssa.Value(contains) {
						cT, cF = cT || c.Sense, cF || !c.Sense
					}
					if c.Value == ssa.Value(validates) {
						vT, vF = vT || c.Sense, vF || !c.Sense
					}
				}
				if ri.nilRes && !(cT && vT) {
					ok = false
				}
				if !ri.nilRes && !(cF || (cT && vF)) {
					ok = false
				}
			}
		}
		// nil registry defaults to strfmt.Default
		def := false
		core.EachInstr(f, func(i ssa.Instruction) {
			if ld, isLd := i.(*ssa.UnOp); isLd {
				if g, isG := ld.X.(*ssa.Global); isG && g.Name() == "Default" {
					def = true
				}
			}
		})
		clause(ok && def, "FormatOf:lookup-then-check", p.Pos(f.Pos()), "unknown format name rejected (ContainsName false), otherwise the registry's Validates(format, data) decides; nil registry replaced by strfmt.Default", "FormatOf no longer rejects unknown format names or no longer follows the registry's verdict")
	}
	// ---- Enum delegates to EnumCase(...,true) ------------------------------------------------
	if f := p.Func("Enum"); f != nil {
		ok := false
		for _, ri := range returnsOf(f) {
			if c, is := isCallOf(ri.val, "EnumCase"); is && len(c.Call.Args) == 5 {
				if k, isK := c.Call.Args[4].(*ssa.Const); isK && k.Value != nil && k.Value.ExactString() == "true" {
					ok = c.Call.Args[2] == ssa.Value(paramNamed(f, "data")) && c.Call.Args[3] == ssa.Value(paramNamed(f, "enum"))
				}
			}
		}
		clause(ok, "Enum:case-sensitive", p.Pos(f.Pos()), "Enum == EnumCase(path, in, data, enum, true)", "Enum is no longer the case-sensitive EnumCase on the same data/enum")
	}
	// ---- EnumCase: per-member comparison ---------------------------------------------------------
	if f := p.Func("EnumCase"); f != nil {
		data := paramNamed(f, "data")
		nDE, okDE, okConv := 0, true, true
		core.EachInstr(f, func(i ssa.Instruction) {
			c, ok := i.(*ssa.Call)
			if !ok {
				return
			}
			if !isEqualityCall(p, c) {
				return
			}
			if g := core.StaticCallee(c); g != nil && core.QualName(g) != "reflect.DeepEqual" {
				nDE++ // the package's predicate covers both the direct comparison and the cross-type one
			}
			nDE++
			a, b := through(c.Call.Args[0]), through(c.Call.Args[1])
			// the member: element of enum obtained by Index(i).Interface()
			isMember := func(v ssa.Value) bool {
				ic, ok := isCallOf(v, "reflect.Value.Interface")
				if !ok {
					return false
				}
				_, ok = isCallOf(ic.Call.Args[0], "reflect.Value.Index")
				return ok
			}
			if isMember(a) && !isMember(b) {
				a, b = b, a // equality is symmetric: the member may stand on either side
			}
			switch {
			case a == ssa.Value(data) && isMember(b):
			case isMember(b):
				// converted data vs member: Convert's type must be TypeOf(the same member)
				ic, ok := isCallOf(a, "reflect.Value.Interface")
				if !ok {
					okDE = false
					return
				}
				cv, ok := isCallOf(ic.Call.Args[0], "reflect.Value.Convert")
				if !ok {
					okDE = false
					return
				}
				tc, ok := isCallOf(cv.Call.Args[1], "reflect.TypeOf")
				if !ok || through(tc.Call.Args[0]) != b {
					okConv = false
				}
			default:
				okDE = false
			}
		})
		// a null member matches the null instance: the direct comparison of data with the member is not
		// confined to data != nil; and the conversion fallback must not be able to change the value compared
		nilOK, lossyPos := false, ""
		core.EachInstr(f, func(i ssa.Instruction) {
			c, ok := i.(*ssa.Call)
			if !ok {
				return
			}
			g := core.StaticCallee(c)
			if g == nil {
				return
			}
			qn := core.QualName(g)
			if isEqualityCall(p, c) {
				qn = "reflect.DeepEqual"
			}
			switch qn {
			case "reflect.DeepEqual":
				if through(c.Call.Args[0]) == ssa.Value(data) || through(c.Call.Args[1]) == ssa.Value(data) {
					guarded := false
					for _, cd := range core.CondsAt(c.Block()) {
						if bo, isBo := cd.Value.(*ssa.BinOp); isBo {
							for _, op := range []ssa.Value{bo.X, bo.Y} {
								if through(op) == ssa.Value(data) {
									guarded = true
								}
							}
						}
					}
					if !guarded {
						nilOK = true
					}
				}
			case "reflect.Value.Convert":
				if !convertIsExact(c) {
					lossyPos = p.Pos(c.Pos())
				}
			}
		})
		clause(nilOK, "EnumCase:nil-member", p.Pos(f.Pos()), "DeepEqual(data, member) is evaluated whatever data is: a nil member matches the nil value", "the comparison of data with each member only happens for data != nil: Enum(nil, [nil]) reports a failure although nil is a member")
		clause(lossyPos == "", "EnumCase:lossy-conversion", p.Pos(f.Pos()), "no value-changing conversion decides membership", "membership is decided after reflect.Value.Convert of the instance to the member's type ("+lossyPos+"), guarded by ConvertibleTo only: the conversion truncates, wraps, rounds and turns integers into strings, so 1.5 is a member of [int64(1)], 97 of [\"a\"], -1 of [uint64 max]; and it panics for a slice against an array member of another length")
		clause(nDE >= 2 && okDE, "EnumCase:deep-equality", p.Pos(f.Pos()), "membership decided by reflect.DeepEqual(data, member) for each member (plus conversion fallback)", "EnumCase no longer compares data with each enum member by deep equality")
		clause(okConv, "EnumCase:conversion-per-member", p.Pos(f.Pos()), "the conversion fallback converts data to the type of the very member it is compared with", "the conversion fallback converts data to a type that is not the type of the member being compared (e.g. computed once for another member): numerically equal values of other Go types are missed")
		// case folding only through strings.EqualFold on both string forms
		fold := false
		core.EachInstr(f, func(i ssa.Instruction) {
			if _, ok := core.IsCallTo(i, "strings.EqualFold"); ok {
				fold = true
			}
			if c, ok := i.(*ssa.Call); ok {
				if h := core.StaticCallee(c); h != nil && p.InSubject(h) && len(c.Call.Args) == 2 {
					// the package's folding helper, however it is split into functions
					seenH := map[*ssa.Function]bool{}
					var visit func(g *ssa.Function, d int)
					visit = func(g *ssa.Function, d int) {
						if g == nil || seenH[g] || d > 4 || !p.InSubject(g) {
							return
						}
						seenH[g] = true
						core.EachInstr(g, func(j ssa.Instruction) {
							if _, ok := core.IsCallTo(j, "strings.EqualFold"); ok {
								fold = true
							}
							if cj, ok := j.(ssa.CallInstruction); ok {
								visit(core.StaticCallee(cj), d+1)
							}
						})
					}
					visit(h, 0)
				}
			}
		})
		// the string compared is the content of the value, not what its String() method prints
		viaFmt := ""
		if h := p.Func("convertEnumCaseStringKind"); h != nil {
			core.EachInstr(h, func(i ssa.Instruction) {
				if c, ok := i.(ssa.CallInstruction); ok {
					if g := core.StaticCallee(c); g != nil && g.Pkg != nil && g.Pkg.Pkg.Path() == "fmt" {
						viaFmt = p.Pos(c.Pos())
					}
				}
			})
		}
		clause(viaFmt == "", "EnumCase:string-content", p.Pos(f.Pos()), "string-kinded values are compared by their content", "the string form of a string-kinded value is taken with fmt ("+viaFmt+"), which calls its String() method: for `type S string` with a String() method, S(\"a\") is a member of []S{\"b\"} whenever both print alike")
		if why := foldOnlyValidRunes(p, f); why != "" {
			clause(false, "EnumCase:fold-valid-runes", p.Pos(f.Pos()), "", why)
		} else {
			clause(true, "EnumCase:fold-valid-runes", p.Pos(f.Pos()), "strings.EqualFold only sees runes of which neither is a lone invalid byte", "")
		}
		clause(fold, "EnumCase:fold", p.Pos(f.Pos()), "case-insensitive comparison through strings.EqualFold", "case folding for strings is gone")
		// … and only when case-insensitivity was asked for: the folding comparison sits under caseSensitive == false,
		// or is fed by a helper of the package that hands out something non-nil only when its caseSensitive
		// argument is false
		if len(f.Params) > 0 {
			cs := f.Params[len(f.Params)-1]
			if b, isB := cs.Type().Underlying().(*types.Basic); isB && b.Kind() == types.Bool {
				underFalse := func(blk *ssa.BasicBlock, prm *ssa.Parameter) bool {
					for _, cd := range core.CondsAt(blk) {
						if cd.Value == ssa.Value(prm) && !cd.Sense {
							return true
						}
						if u, isU := cd.Value.(*ssa.UnOp); isU && u.Op == token.NOT && u.X == ssa.Value(prm) && cd.Sense {
							return true
						}
					}
					return false
				}
				nilOnlyWhenSensitive := func(h *ssa.Function, j int) bool {
					if len(h.Blocks) == 0 || j >= len(h.Params) {
						return false
					}
					for _, hb := range h.Blocks {
						ret, isRet := hb.Instrs[len(hb.Instrs)-1].(*ssa.Return)
						if !isRet || len(ret.Results) != 1 {
							continue
						}
						if core.IsNilConst(ret.Results[0]) {
							continue
						}
						if !underFalse(hb, h.Params[j]) {
							return false
						}
					}
					return true
				}
				nFold, unguarded := 0, ""
				core.EachInstr(f, func(i ssa.Instruction) {
					c, ok := i.(*ssa.Call)
					if !ok {
						return
					}
					h := core.StaticCallee(c)
					if h == nil || !(core.QualName(h) == "strings.EqualFold" || (p.InSubject(h) && foldHelper(p, h, 0))) {
						return
					}
					nFold++
					if underFalse(c.Block(), cs) {
						return
					}
					for _, a := range c.Call.Args {
						v := a
						for d := 0; d < 4; d++ {
							if u, isU := v.(*ssa.UnOp); isU {
								v = u.X
								continue
							}
							break
						}
						hc, isCall := v.(*ssa.Call)
						if !isCall {
							continue
						}
						hh := core.StaticCallee(hc)
						if hh == nil || !p.InSubject(hh) {
							continue
						}
						for j, ha := range hc.Call.Args {
							if ha == ssa.Value(cs) && nilOnlyWhenSensitive(hh, j) {
								return
							}
						}
					}
					unguarded = p.Pos(c.Pos())
				})
				clause(nFold > 0 && unguarded == "", "EnumCase:fold-only-insensitive", p.Pos(f.Pos()), "the folding comparison is reached only when caseSensitive is false", "the case-folding comparison ("+unguarded+") is also reached when the caller asked for a case-sensitive comparison: Enum(\"A\", [\"a\"]) finds a member")
			}
		}
	}
	// ---- polarity of the comparisons inside the equality predicates ---------------------------------
	{
		var roots []*ssa.Function
		for _, n := range []string{"Enum", "EnumCase", "UniqueItems"} {
			if f := p.Func(n); f != nil {
				roots = append(roots, f)
			}
		}
		bad, n, preds := equalityPolarity(p, roots)
		r.Count("equality_polarity_comparisons", n)
		r.Floor("equality_polarity_comparisons", 4)
		clause(len(bad) == 0, "equality:polarity", "-", fmt.Sprintf("in the equality predicates below Enum/EnumCase/UniqueItems (%s), each of the %d comparisons of a part of one operand with a part of the other decides in the right direction", strings.Join(preds, ", "), n), "an equality predicate decides in the wrong direction: "+strings.Join(bad, "; "))
	}
	// ---- UniqueItems -------------------------------------------------------------------------------
	if f := p.Func("UniqueItems"); f != nil {
		ok := false
		core.EachInstr(f, func(i ssa.Instruction) {
			c, is := i.(*ssa.Call)
			if !is {
				return
			}
			if !isEqualityCall(p, c) {
				return
			}
			// one side: current element val.Index(i).Interface(); other: an element of the list of earlier elements
			a := through(c.Call.Args[0])
			if ic, is := isCallOf(a, "reflect.Value.Interface"); is {
				if _, is2 := isCallOf(ic.Call.Args[0], "reflect.Value.Index"); is2 {
					ok = true
				}
			}
		})
		clause(ok, "UniqueItems:deep-equality", p.Pos(f.Pos()), "each element is compared with the earlier ones by deep equality (reflect.DeepEqual or the package's value-equality predicate)", "UniqueItems no longer uses deep equality between elements")
		// the duplicate verdict has no other source than that comparison, and every element joins the list of
		// earlier elements (a shortcut deciding some kinds of elements otherwise — identity of pointers, a hash
		// lookup — changes what "equal" means for them)
		onlyDE, nDup := true, 0
		core.EachInstr(f, func(i ssa.Instruction) {
			c, is := i.(*ssa.Call)
			if !is {
				return
			}
			g := core.StaticCallee(c)
			if g == nil || g.Name() != "DuplicateItems" {
				return
			}
			nDup++
			guarded := false
			for _, cd := range core.CondsAt(c.Block()) {
				if dc, isC := cd.Value.(*ssa.Call); isC && cd.Sense && isEqualityCall(p, dc) {
					guarded = true
				}
			}
			if !guarded {
				onlyDE = false
			}
		})
		allJoin := true
		core.EachInstr(f, func(i ssa.Instruction) {
			ph, is := i.(*ssa.Phi)
			if !is {
				return
			}
			if _, isSlice := ph.Type().Underlying().(*types.Slice); !isSlice {
				return
			}
			for k, e := range ph.Edges {
				pr := ph.Block().Preds[k]
				if !ph.Block().Dominates(pr) {
					continue // entry edge
				}
				// back edge: the list must have grown by the current element on every way round the loop
				ok := false
				if ac, isC := e.(*ssa.Call); isC {
					if b, isB := ac.Call.Value.(*ssa.Builtin); isB && b.Name() == "append" {
						ok = true
					}
				}
				if !ok {
					allJoin = false
				}
			}
		})
		// "treating numerically equal numbers of different Go types as equal": reflect.DeepEqual alone is type
		// sensitive; a numerically aware equality needs an equality predicate of the package
		numAware := false
		core.EachInstr(f, func(i ssa.Instruction) {
			if c, ok := i.(*ssa.Call); ok {
				if g := core.StaticCallee(c); g != nil && p.InSubject(g) && g.Signature.Results().Len() == 1 && g.Signature.Params().Len() == 2 {
					if b, ok := g.Signature.Results().At(0).Type().Underlying().(*types.Basic); ok && b.Kind() == types.Bool {
						numAware = true
					}
				}
			}
		})
		clause(numAware, "UniqueItems:numeric-equality", p.Pos(f.Pos()), "elements are compared by an equality predicate of the package", "elements are compared by reflect.DeepEqual alone, which distinguishes Go types: [int64(1), float64(1)], [1, int64(1)], [[1],[1.0]] and [{a:int64 1},{a:float64 1}] are reported unique although Enum treats the same pairs as equal")
		clause(onlyDE && nDup > 0 && allJoin, "UniqueItems:only-deep-equality", p.Pos(f.Pos()), "a duplicate is reported only on a true reflect.DeepEqual, and every element is appended to the list of earlier elements on every way round the loop", "UniqueItems decides some elements otherwise than by deep equality with all earlier elements (a fast path by identity / hashing, or elements that never join the list)")
	}
	// ---- Required / ReadOnly zero-value tests ----------------------------------------------------------
	for _, fn := range []string{"Required", "ReadOnly"} {
		f := p.Func(fn)
		if f == nil {
			continue
		}
		data := paramNamed(f, "data")
		var de *ssa.Call
		core.EachInstr(f, func(i ssa.Instruction) {
			if c, ok := core.IsCallTo(i, "reflect.DeepEqual"); ok {
				de = c.(*ssa.Call)
			}
		})
		ok := false
		if de != nil {
			// DeepEqual(reflect.Zero(val.Type()).Interface(), val.Interface()) with val = reflect.ValueOf(data)
			z, isZ := isCallOf(de.Call.Args[0], "reflect.Value.Interface")
			v, isV := isCallOf(de.Call.Args[1], "reflect.Value.Interface")
			if isZ && isV {
				zc, isZero := isCallOf(z.Call.Args[0], "reflect.Zero")
				vo, isVO := isCallOf(v.Call.Args[0], "reflect.ValueOf")
				if isZero && isVO && vo.Call.Args[0] == ssa.Value(data) {
					if tc, isT := isCallOf(zc.Call.Args[0], "reflect.Value.Type"); isT && tc.Call.Args[0] == ssa.Value(vo) {
						ok = true
					}
				}
			}
		}
		if ok {
			for _, ri := range returnsOf(f) {
				zero, nonZero := false, false
				for _, c := range ri.conds {
					if c.Value == ssa.Value(de) {
						zero, nonZero = zero || c.Sense, nonZero || !c.Sense
					}
				}
				if fn == "Required" && ((ri.nilRes && zero) || (!ri.nilRes && nonZero)) {
					ok = false
				}
				if fn == "ReadOnly" && !ri.nilRes && !nonZero {
					ok = false
				}
			}
		}
		what := "rejects exactly zero values"
		if fn == "ReadOnly" {
			what = "rejects only non-zero values"
		}
		clause(ok, fn+":zero-value", p.Pos(f.Pos()), fn+" "+what+": DeepEqual(Zero(TypeOf(data)), data) decides", fn+" no longer decides by comparing data with the zero value of its own type")
	}
	// ---- ReadOnly only in a request context; context plumbing ----------------------------------------------
	if f := p.Func("ReadOnly"); f != nil {
		ok := false
		var ext *ssa.Call
		core.EachInstr(f, func(i ssa.Instruction) {
			if c, is := core.IsCallTo(i, "validate.extractOperationType"); is {
				ext = c.(*ssa.Call)
			}
		})
		if ext != nil && ext.Call.Args[0] == ssa.Value(paramNamed(f, "ctx")) {
			ok = true
			for _, ri := range returnsOf(f) {
				if ri.nilRes {
					continue
				}
				isReq := false
				for _, c := range ri.conds {
					if cmpCond(c, token.EQL, func(v ssa.Value) bool { return v == ssa.Value(ext) }, func(v ssa.Value) bool {
						k, is := v.(*ssa.Const)
						return is && k.Value != nil && k.Value.ExactString() == `"request"`
					}) {
						isReq = true
					}
				}
				if !isReq {
					ok = false
				}
			}
		}
		clause(ok, "ReadOnly:request-only", p.Pos(f.Pos()), "an error is only returned when extractOperationType(ctx) == request", "ReadOnly can report outside a request context")
	}
	if f := p.Func("withOperation"); f != nil {
		ok := true
		n := 0
		for _, ri := range returnsOf(f) {
			n++
			c, is := isCallOf(ri.val, "context.WithValue")
			if !is || c.Call.Args[0] != ssa.Value(paramNamed(f, "ctx")) || through(c.Call.Args[2]) != ssa.Value(paramNamed(f, "operation")) {
				ok = false
			}
		}
		clause(ok && n > 0, "withOperation:always-sets", p.Pos(f.Pos()), "every return is context.WithValue(ctx, key, operation): the most recent qualification wins", "withOperation may return a context that does not carry the requested operation type (e.g. when one is already set)")
	}
	for _, spec := range []struct{ fn, c string }{{"WithOperationRequest", `"request"`}, {"WithOperationResponse", `"response"`}} {
		if f := p.Func(spec.fn); f != nil {
			ok := false
			for _, ri := range returnsOf(f) {
				if c, is := isCallOf(ri.val, "withOperation"); is {
					if k, isK := c.Call.Args[1].(*ssa.Const); isK && k.Value != nil && k.Value.ExactString() == spec.c {
						ok = true
					}
				}
			}
			clause(ok, spec.fn+":constant", p.Pos(f.Pos()), "qualifies the context with "+spec.c, spec.fn+" no longer sets "+spec.c)
		}
	}
	if f := p.Func("extractOperationType"); f != nil {
		// returns the stored value only when it is of type operationType and in the enum; else none
		okVal := false
		for _, ri := range returnsOf(f) {
			if k, is := ri.val.(*ssa.Const); is && k.Value != nil && k.Value.ExactString() == `"none"` {
				continue
			}
			// the value returned must be the type-asserted context value
			if ex, is := through(ri.val).(*ssa.Extract); is {
				if ta, isTA := ex.Tuple.(*ssa.TypeAssert); isTA {
					if _, isV := isCallOf(ta.X, "Value"); isV {
						okVal = true
					}
				}
			}
		}
		clause(okVal, "extractOperationType:value", p.Pos(f.Pos()), "returns the operationType stored in the context, else none", "extractOperationType no longer returns the value stored in the context")
	}
	r.Count("pure_clauses", nClauses)
	r.Floor("pure_clauses", 20)
	r.Note("PURE: %d provenance clauses over the 13 exported value helpers and the context plumbing; %d reachable functions checked for purity", nClauses, len(reach))
	_ = strings.Contains
}

// patternSearchClause: validate.Pattern decides by MatchString(data) of the expression compiled from the very
// pattern it was given, and reports an invalid pattern (shared by PURE in C14 and, alone, by C15).
func patternSearchClause(p *core.Prog, clause func(ok bool, key, pos, good, bad string)) {
	if f := p.Func("Pattern"); f != nil {
		data, pat := paramNamed(f, "data"), paramNamed(f, "pattern")
		var comp, match *ssa.Call
		core.EachInstr(f, func(i ssa.Instruction) {
			if c, ok := i.(*ssa.Call); ok {
				if g := core.StaticCallee(c); g != nil {
					switch core.QualName(g) {
					case "validate.compileRegexp":
						comp = c
					case "(*regexp.Regexp).MatchString":
						match = c
					}
				}
			}
		})
		ok := comp != nil && match != nil && comp.Call.Args[0] == ssa.Value(pat) && match.Call.Args[1] == ssa.Value(data)
		if ok {
			// receiver of MatchString is the compiled expression of that call
			ex, isEx := match.Call.Args[0].(*ssa.Extract)
			ok = isEx && ex.Tuple == ssa.Value(comp) && ex.Index == 0
		}
		var errV ssa.Value
		if comp != nil {
			for _, ref := range core.Refs(comp) {
				if e, isE := ref.(*ssa.Extract); isE && e.Index == 1 {
					errV = e
				}
			}
		}
		if ok {
			for _, ri := range returnsOf(f) {
				onErr := errV != nil && errIsNonNilAt(ri.ret.Block(), errV)
				noMatch, didMatch := false, false
				for _, c := range ri.conds {
					if c.Value == ssa.Value(match) {
						if c.Sense {
							didMatch = true
						} else {
							noMatch = true
						}
					}
				}
				switch {
				case ri.nilRes && !didMatch:
					ok = false
				case !ri.nilRes && !(onErr || noMatch):
					ok = false
				}
			}
		}
		clause(ok, "Pattern:search", p.Pos(f.Pos()), "compileRegexp(pattern): error on the invalid-pattern edge, otherwise nil exactly when MatchString(data) of that very expression is true", "Pattern no longer reports an invalid pattern, or does not decide by MatchString(data) of the expression compiled from pattern")
	}
}

// PatternSearch is the Pattern clause of PURE as a rule of its own.
func PatternSearch(p *core.Prog, r *core.Report) {
	n := 0
	patternSearchClause(p, func(ok bool, key, pos, good, bad string) {
		n++
		if ok {
			r.OK("PURE", key, pos, good)
		} else {
			r.Bad("PURE", key, pos, bad)
		}
	})
	if n == 0 {
		r.Unk("PURE", "Pattern:search", "-", "validate.Pattern not found")
	}
}

// convertIsExact: a reflect.Value.Convert whose result decides an equality is acceptable only when something
// other than ConvertibleTo restricts it: a round-trip comparison (the converted value converted back and compared
// with the original) or a kind test of both sides dominating it. Nothing of the sort: the conversion can change
// the value (Go conversion semantics).
func convertIsExact(c *ssa.Call) bool {
	for _, cd := range core.ControlConds(c.Block()) {
		call, ok := cd.Value.(*ssa.Call)
		if !ok {
			continue
		}
		g := core.StaticCallee(call)
		if g == nil {
			continue
		}
		switch core.QualName(g) {
		case "reflect.Type.ConvertibleTo", "reflect.Value.IsValid", "reflect.Value.CanConvert":
			continue
		}
		if g.Pkg != nil && c.Parent().Pkg == g.Pkg && cd.Sense {
			return true // a predicate of the package guards the conversion (e.g. an exactness test)
		}
	}
	// round trip: the converted value is converted again somewhere and compared
	for _, ref := range core.Refs(c) {
		if c2, ok := ref.(*ssa.Call); ok {
			if g := core.StaticCallee(c2); g != nil && core.QualName(g) == "reflect.Value.Convert" && c2.Call.Args[0] == ssa.Value(c) {
				return true
			}
		}
	}
	return false
}

// isEqualityCall: a call that decides value equality of its two operands: reflect.DeepEqual, or the package's own
// value-equality predicate — a function of two interface{} values to bool whose first act is the reflect.DeepEqual
// of those two (so that it can only widen deep equality, and equal nils are equal).
func isEqualityCall(p *core.Prog, c *ssa.Call) bool {
	g := core.StaticCallee(c)
	if g == nil || len(c.Call.Args) != 2 {
		return false
	}
	if core.QualName(g) == "reflect.DeepEqual" {
		return true
	}
	return isValueEqualityPredicate(p, g)
}

func isValueEqualityPredicate(p *core.Prog, g *ssa.Function) bool {
	if !p.InSubject(g) || len(g.Params) != 2 || g.Signature.Results().Len() != 1 || len(g.Blocks) == 0 {
		return false
	}
	if b, ok := g.Signature.Results().At(0).Type().Underlying().(*types.Basic); !ok || b.Kind() != types.Bool {
		return false
	}
	for _, prm := range g.Params {
		if it, ok := prm.Type().Underlying().(*types.Interface); !ok || it.NumMethods() != 0 {
			return false
		}
	}
	// entry block: DeepEqual(param0, param1), its true edge returns true
	for _, i := range g.Blocks[0].Instrs {
		c, ok := i.(*ssa.Call)
		if !ok {
			continue
		}
		h := core.StaticCallee(c)
		if h == nil || core.QualName(h) != "reflect.DeepEqual" {
			continue
		}
		x, y := through(c.Call.Args[0]), through(c.Call.Args[1])
		if !((x == ssa.Value(g.Params[0]) && y == ssa.Value(g.Params[1])) || (x == ssa.Value(g.Params[1]) && y == ssa.Value(g.Params[0]))) {
			continue
		}
		ifi, ok := g.Blocks[0].Instrs[len(g.Blocks[0].Instrs)-1].(*ssa.If)
		if !ok || ifi.Cond != ssa.Value(c) {
			return false
		}
		tb := g.Blocks[0].Succs[0]
		if ret, ok := tb.Instrs[len(tb.Instrs)-1].(*ssa.Return); ok {
			if k, isK := ret.Results[0].(*ssa.Const); isK && k.Value != nil && k.Value.ExactString() == "true" {
				return true
			}
		}
	}
	return false
}

// foldOnlyValidRunes: in the rune-by-rune folding helper, strings.EqualFold (directly or through a helper) is only
// reached on paths that have established, for *each* of the two operands, that its leading rune is not a lone
// invalid byte — strings.EqualFold decodes every invalid byte as U+FFFD, so one unchecked side makes "\xff" equal
// to "\uFFFD". Returns "" when the requirement holds or does not apply, else a description.
func foldOnlyValidRunes(p *core.Prog, root *ssa.Function) string {
	reachesFold := map[*ssa.Function]bool{}
	var reaches func(g *ssa.Function, d int) bool
	reaches = func(g *ssa.Function, d int) bool {
		if g == nil || d > 4 {
			return false
		}
		if v, ok := reachesFold[g]; ok {
			return v
		}
		reachesFold[g] = false
		if core.QualName(g) == "strings.EqualFold" {
			reachesFold[g] = true
			return true
		}
		if !p.InSubject(g) {
			return false
		}
		res := false
		core.EachInstr(g, func(i ssa.Instruction) {
			if c, ok := i.(ssa.CallInstruction); ok && reaches(core.StaticCallee(c), d+1) {
				res = true
			}
		})
		reachesFold[g] = res
		return res
	}
	// the function that decodes runes of two strings: found below root
	var host *ssa.Function
	var visit func(g *ssa.Function, d int)
	seen := map[*ssa.Function]bool{}
	visit = func(g *ssa.Function, d int) {
		if g == nil || seen[g] || d > 4 || !p.InSubject(g) {
			return
		}
		seen[g] = true
		n := 0
		core.EachInstr(g, func(i ssa.Instruction) {
			if c, ok := i.(ssa.CallInstruction); ok {
				if h := core.StaticCallee(c); h != nil {
					if core.QualName(h) == "utf8.DecodeRuneInString" {
						n++
					}
					visit(h, d+1)
				}
			}
		})
		if n >= 2 {
			host = g
		}
	}
	visit(root, 0)
	if host == nil {
		return "" // no rune-by-rune folding: nothing to require
	}
	var decs []*ssa.Call
	var targets []*ssa.Call
	core.EachInstr(host, func(i ssa.Instruction) {
		c, ok := i.(*ssa.Call)
		if !ok {
			return
		}
		h := core.StaticCallee(c)
		if h == nil {
			return
		}
		if core.QualName(h) == "utf8.DecodeRuneInString" {
			decs = append(decs, c)
		} else if reaches(h, 0) {
			targets = append(targets, c)
		}
	})
	if len(decs) != 2 || len(targets) == 0 {
		return ""
	}
	// which decode a value belongs to
	ofDec := func(v ssa.Value) int {
		for {
			switch x := v.(type) {
			case *ssa.Extract:
				for k, d := range decs {
					if x.Tuple == ssa.Value(d) {
						return k
					}
				}
				return -1
			case *ssa.Convert:
				v = x.X
				continue
			}
			return -1
		}
	}
	// does the atom (cond, sense) establish "operand k is not a lone invalid byte"?
	establishes := func(cond ssa.Value, sense bool) int {
		switch x := cond.(type) {
		case *ssa.BinOp:
			k, other := ofDec(x.X), x.Y
			if k < 0 {
				k, other = ofDec(x.Y), x.X
			}
			if k < 0 {
				return -1
			}
			// the rune against utf8.RuneError, or the size against 1: nothing else says "lone invalid byte"
			if c, isK := core.ConstInt(other); !isK || (c != 65533 && c != 1) {
				return -1
			}
			// rune == RuneError / size == 1 being false, or their != being true
			if (x.Op == token.EQL && !sense) || (x.Op == token.NEQ && sense) {
				return k
			}
		case *ssa.Call:
			// a predicate of the package over (rune, size) of one decode: "is invalid" answered false
			if h := core.StaticCallee(x); h != nil && p.InSubject(h) && !sense {
				k := -1
				for _, a := range x.Call.Args {
					if kk := ofDec(a); kk >= 0 {
						k = kk
					}
				}
				return k
			}
		}
		return -1
	}
	start := decs[1].Block()
	if decs[0].Block() != start && decs[0].Block().Dominates(decs[1].Block()) == false {
		start = decs[0].Block()
	}
	bad := ""
	for _, tg := range targets {
		var dfs func(b *ssa.BasicBlock, known [2]bool, onPath map[*ssa.BasicBlock]bool)
		dfs = func(b *ssa.BasicBlock, known [2]bool, onPath map[*ssa.BasicBlock]bool) {
			if bad != "" || onPath[b] {
				return
			}
			if b == tg.Block() {
				// the decision may travel as a boolean argument: when the callee only folds under `!param`, what the
				// argument being false implies counts as established
				if h := core.StaticCallee(tg); h != nil && p.InSubject(h) {
					for k, prm := range h.Params {
						if k >= len(tg.Call.Args) {
							continue
						}
						if bt, ok := prm.Type().Underlying().(*types.Basic); !ok || bt.Kind() != types.Bool {
							continue
						}
						guardsFold := false
						core.EachInstr(h, func(j ssa.Instruction) {
							if c, ok := j.(ssa.CallInstruction); ok && reaches(core.StaticCallee(c), 1) {
								for _, cd := range core.CondsAt(j.Block()) {
									if cd.Value == ssa.Value(prm) && !cd.Sense {
										guardsFold = true
									}
								}
							}
						})
						if guardsFold {
							for _, d := range falseImplies(tg.Call.Args[k], establishes, 0) {
								known[d] = true
							}
						}
					}
				}
				if !known[0] || !known[1] {
					side := "first"
					if known[0] {
						side = "second"
					}
					bad = "strings.EqualFold is reached (" + p.Pos(tg.Pos()) + ") on a path that has not excluded a lone invalid byte at the head of the " + side + " operand: it is decoded as U+FFFD there, so \"\\xff\" folds to \"\\uFFFD\" and EnumCase(\"caf\\xc3\", [\"CAF\\uFFFD\"], false) finds a member"
				}
				return
			}
			onPath[b] = true
			defer delete(onPath, b)
			if ifi, ok := b.Instrs[len(b.Instrs)-1].(*ssa.If); ok && len(b.Succs) == 2 {
				cond, flip := ifi.Cond, false
				for {
					if u, ok := cond.(*ssa.UnOp); ok && u.Op == token.NOT {
						cond, flip = u.X, !flip
						continue
					}
					break
				}
				for si, s := range b.Succs {
					sense := (si == 0) != flip
					k2 := known
					// a φ of short-circuit values: take the atoms of the edge values that decide this outcome
					if ph, isPhi := cond.(*ssa.Phi); isPhi && ph.Block() == b {
						_ = ph
					} else if k := establishes(cond, sense); k >= 0 {
						k2[k] = true
					}
					dfs(s, k2, onPath)
				}
				return
			}
			for _, s := range b.Succs {
				dfs(s, known, onPath)
			}
		}
		dfs(start, [2]bool{}, map[*ssa.BasicBlock]bool{})
	}
	if bad != "" {
		return bad
	}
	// nothing is skipped: between decoding the two leading runes and moving on to the rest of the strings, every
	// path compares the two leading segments — by the folding comparison, or byte for byte (the branch for invalid
	// bytes). A branch that just moves on takes any two invalid bytes for equal.
	isCompare := func(b *ssa.BasicBlock) bool {
		for _, ins := range b.Instrs {
			switch x := ins.(type) {
			case *ssa.Call:
				for _, tg := range targets {
					if x == tg {
						return true
					}
				}
			case *ssa.BinOp:
				if x.Op != token.EQL && x.Op != token.NEQ {
					continue
				}
				_, sx := x.X.(*ssa.Slice)
				_, sy := x.Y.(*ssa.Slice)
				if sx && sy {
					return true
				}
			}
		}
		return false
	}
	var advance []*ssa.BasicBlock
	core.EachInstr(host, func(i ssa.Instruction) {
		sl, ok := i.(*ssa.Slice)
		if !ok || sl.Low == nil || sl.High != nil {
			return
		}
		// s[size:] with size the second result of a decode
		if ex, isEx := sl.Low.(*ssa.Extract); isEx && ex.Index == 1 {
			for _, d := range decs {
				if ex.Tuple == ssa.Value(d) {
					advance = append(advance, sl.Block())
				}
			}
		}
	})
	if len(advance) > 0 {
		seen := map[*ssa.BasicBlock]bool{}
		stack := []*ssa.BasicBlock{start}
		for len(stack) > 0 {
			b := stack[len(stack)-1]
			stack = stack[:len(stack)-1]
			if seen[b] {
				continue
			}
			seen[b] = true
			if isCompare(b) {
				continue // paths through a comparison are fine
			}
			for _, a := range advance {
				if b == a && b != start {
					return "the folding helper moves on to the rest of the two strings (" + p.Pos(posOf(b.Instrs[0], host)) + ") along a path that never compared their leading segments: two lone invalid bytes are taken for equal whatever they are (\"\\xff\" matches \"\\xfe\")"
				}
			}
			stack = append(stack, b.Succs...)
		}
	}
	return bad
}

// falseImplies: which of the two operands are known not to start with a lone invalid byte when the boolean value v
// is false (v: an atom, or a short-circuit φ of atoms).
func falseImplies(v ssa.Value, establishes func(ssa.Value, bool) int, d int) []int {
	if d > 4 {
		return nil
	}
	if k := establishes(v, false); k >= 0 {
		return []int{k}
	}
	ph, ok := v.(*ssa.Phi)
	if !ok {
		return nil
	}
	var inter map[int]bool
	for i, e := range ph.Edges {
		if c, isC := e.(*ssa.Const); isC && c.Value != nil && c.Value.ExactString() == "true" {
			continue // this edge cannot make v false
		}
		set := map[int]bool{}
		for _, k := range falseImplies(e, establishes, d+1) {
			set[k] = true
		}
		pred := ph.Block().Preds[i]
		for _, cd := range condsOnEdge(pred, ph.Block()) {
			if k := establishes(cd.Value, cd.Sense); k >= 0 {
				set[k] = true
			}
		}
		if inter == nil {
			inter = set
		} else {
			for k := range inter {
				if !set[k] {
					delete(inter, k)
				}
			}
		}
	}
	var out []int
	for k := range inter {
		out = append(out, k)
	}
	return out
}

// scratchMapParam: parameter k of f only ever receives maps made for the purpose — at every call site of f the
// argument is a fresh make(map), or a parameter of the calling function for which the same holds (assumed while
// it is being established: the recursion hands its own parameter on). At least one call site must exist.
func scratchMapParam(p *core.Prog, f *ssa.Function, k int, assumed map[[2]interface{}]bool) bool {
	key := [2]interface{}{f, k}
	if assumed[key] {
		return true
	}
	assumed[key] = true
	ok, sites := true, 0
	for _, caller := range p.Funcs {
		core.EachInstr(caller, func(j ssa.Instruction) {
			c, is := j.(ssa.CallInstruction)
			if !is || core.StaticCallee(c) != f || k >= len(c.Common().Args) {
				return
			}
			sites++
			a := c.Common().Args[k]
			if _, fresh := a.(*ssa.MakeMap); fresh {
				return
			}
			if prm, isP := a.(*ssa.Parameter); isP {
				for i, q := range caller.Params {
					if q == prm && scratchMapParam(p, caller, i, assumed) {
						return
					}
				}
			}
			ok = false
		})
	}
	return ok && sites > 0
}

// foldHelper: a function of the package through which strings.EqualFold is reached (the rune-by-rune folding
// helper, however it is split).
func foldHelper(p *core.Prog, g *ssa.Function, d int) bool {
	if g == nil || d > 4 || !p.InSubject(g) {
		return false
	}
	found := false
	core.EachInstr(g, func(i ssa.Instruction) {
		if c, ok := i.(ssa.CallInstruction); ok {
			if h := core.StaticCallee(c); h != nil {
				if core.QualName(h) == "strings.EqualFold" || (h != g && foldHelper(p, h, d+1)) {
					found = true
				}
			}
		}
	})
	return found
}
