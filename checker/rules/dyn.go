package rules

import (
	"fmt"
	"go/constant"
	"go/token"
	"go/types"
	"math"
	"reflect"
	"sort"
	"strings"

	"golang.org/x/tools/go/ssa"

	"verifchk/core"
)

// DYN — sparse conditional constant propagation over the *dynamic type* of the validated value.
//
// For every entry function and every dynamic type ("atom") of the stated value domain, the function is
// interpreted abstractly with its data parameter fixed to that atom: reflect.TypeOf/ValueOf/Kind, type
// assertions, type switches, nil tests and comparisons of kinds and constant strings evaluate to
// constants, branches on them are pruned, everything else is unknown (both branches explored, values
// joined). Calls into the package are followed with the abstract arguments (memoised per context). No
// code runs: this is constant propagation on SSA, one run per atom to keep the correlation between the
// many values derived from the same datum. Operations that panic for some dynamic types (unchecked type
// assertion, kind-specific reflect.Value methods) must be legal for every atom that reaches them.

type atom int

const (
	aNil atom = iota
	aBool
	aString
	aJSONNumber
	aFloat32
	aFloat64
	aInt
	aInt8
	aInt16
	aInt32
	aInt64
	aUint
	aUint8
	aUint16
	aUint32
	aUint64
	aSliceIface
	aMapIface
	aOtherBase // aOtherBase+k = some other type of reflect.Kind k
)

var atomNames = map[atom]string{aNil: "nil", aBool: "bool", aString: "string", aJSONNumber: "json.Number", aFloat32: "float32", aFloat64: "float64",
	aInt: "int", aInt8: "int8", aInt16: "int16", aInt32: "int32", aInt64: "int64", aUint: "uint", aUint8: "uint8", aUint16: "uint16", aUint32: "uint32", aUint64: "uint64",
	aSliceIface: "[]interface{}", aMapIface: "map[string]interface{}"}

func (a atom) String() string {
	if n, ok := atomNames[a]; ok {
		return n
	}
	return "other(" + reflect.Kind(int(a-aOtherBase)).String() + ")"
}

func other(k reflect.Kind) atom { return aOtherBase + atom(k) }

func (a atom) kind() reflect.Kind {
	switch a {
	case aNil:
		return reflect.Invalid
	case aBool:
		return reflect.Bool
	case aString, aJSONNumber:
		return reflect.String
	case aFloat32:
		return reflect.Float32
	case aFloat64:
		return reflect.Float64
	case aInt:
		return reflect.Int
	case aInt8:
		return reflect.Int8
	case aInt16:
		return reflect.Int16
	case aInt32:
		return reflect.Int32
	case aInt64:
		return reflect.Int64
	case aUint:
		return reflect.Uint
	case aUint8:
		return reflect.Uint8
	case aUint16:
		return reflect.Uint16
	case aUint32:
		return reflect.Uint32
	case aUint64:
		return reflect.Uint64
	case aSliceIface:
		return reflect.Slice
	case aMapIface:
		return reflect.Map
	}
	return reflect.Kind(int(a - aOtherBase))
}

// atomOfType maps a static Go type to its atom.
func atomOfType(t types.Type) atom {
	s := t.String()
	switch s {
	case "bool":
		return aBool
	case "string":
		return aString
	case "encoding/json.Number":
		return aJSONNumber
	case "float32":
		return aFloat32
	case "float64":
		return aFloat64
	case "int":
		return aInt
	case "int8":
		return aInt8
	case "int16":
		return aInt16
	case "int32":
		return aInt32
	case "int64":
		return aInt64
	case "uint":
		return aUint
	case "uint8":
		return aUint8
	case "uint16":
		return aUint16
	case "uint32":
		return aUint32
	case "uint64":
		return aUint64
	case "[]interface{}", "[]any":
		return aSliceIface
	case "map[string]interface{}", "map[string]any":
		return aMapIface
	}
	switch u := t.Underlying().(type) {
	case *types.Basic:
		switch {
		case u.Info()&types.IsBoolean != 0:
			return other(reflect.Bool)
		case u.Info()&types.IsString != 0:
			return other(reflect.String)
		case u.Kind() == types.Float32:
			return other(reflect.Float32)
		case u.Kind() == types.Float64:
			return other(reflect.Float64)
		case u.Info()&types.IsInteger != 0:
			m := map[types.BasicKind]reflect.Kind{types.Int: reflect.Int, types.Int8: reflect.Int8, types.Int16: reflect.Int16, types.Int32: reflect.Int32, types.Int64: reflect.Int64,
				types.Uint: reflect.Uint, types.Uint8: reflect.Uint8, types.Uint16: reflect.Uint16, types.Uint32: reflect.Uint32, types.Uint64: reflect.Uint64, types.Uintptr: reflect.Uintptr}
			return other(m[u.Kind()])
		}
	case *types.Slice:
		return other(reflect.Slice)
	case *types.Array:
		return other(reflect.Array)
	case *types.Map:
		return other(reflect.Map)
	case *types.Struct:
		return other(reflect.Struct)
	case *types.Pointer:
		return other(reflect.Ptr)
	case *types.Signature:
		return other(reflect.Func)
	case *types.Chan:
		return other(reflect.Chan)
	}
	return other(reflect.Interface)
}

// ---- abstract values ---------------------------------------------------------

type avKind int

const (
	avBot    avKind = iota // unreached
	avConst                // known bool / int / string constant
	avDyn                  // interface / reflect.Value / reflect.Type carrying a known dynamic type
	avValid                // unknown, but a valid (non-nil) value
	avNilPtr               // the nil pointer / nil error
	avSet                  // one of a few known constants (join of different constants)
	avList                 // a known list of string constants (the declared `type` list in TYPE-TABLE)
	avTuple
	avTop
)

type aval struct {
	k   avKind
	c   constant.Value
	a   atom
	tup []aval
	set []constant.Value
}

var top = aval{k: avTop}
var bot = aval{k: avBot}

func cBool(b bool) aval { return aval{k: avConst, c: constant.MakeBool(b)} }
func cInt(i int64) aval { return aval{k: avConst, c: constant.MakeInt64(i)} }
func dyn(a atom) aval   { return aval{k: avDyn, a: a} }

func (v aval) String() string {
	switch v.k {
	case avBot:
		return "⊥"
	case avConst:
		return v.c.ExactString()
	case avDyn:
		if v.c != nil {
			return "dyn:" + v.a.String() + "=" + v.c.ExactString()
		}
		return "dyn:" + v.a.String()
	case avValid:
		return "valid"
	case avNilPtr:
		return "nil"
	case avSet:
		var ss []string
		for _, c := range v.set {
			ss = append(ss, c.ExactString())
		}
		sort.Strings(ss)
		return "{" + strings.Join(ss, "|") + "}"
	case avList:
		var ss []string
		for _, c := range v.set {
			ss = append(ss, c.ExactString())
		}
		return "[" + strings.Join(ss, ",") + "]"
	case avTuple:
		var s []string
		for _, e := range v.tup {
			s = append(s, e.String())
		}
		return "(" + strings.Join(s, ",") + ")"
	}
	return "⊤"
}

func (v aval) eq(w aval) bool {
	if v.k != w.k {
		return false
	}
	switch v.k {
	case avConst:
		return v.c.Kind() == w.c.Kind() && constant.Compare(v.c, token.EQL, w.c)
	case avDyn:
		if (v.c == nil) != (w.c == nil) {
			return false
		}
		if v.c != nil && !(v.c.Kind() == w.c.Kind() && constant.Compare(v.c, token.EQL, w.c)) {
			return false
		}
		return v.a == w.a
	case avSet, avList:
		return v.String() == w.String()
	case avTuple:
		if len(v.tup) != len(w.tup) {
			return false
		}
		for i := range v.tup {
			if !v.tup[i].eq(w.tup[i]) {
				return false
			}
		}
	}
	return true
}

func join(v, w aval) aval {
	if v.k == avBot {
		return w
	}
	if w.k == avBot {
		return v
	}
	if v.eq(w) {
		return v
	}
	if v.k == avTuple && w.k == avTuple && len(v.tup) == len(w.tup) {
		out := aval{k: avTuple, tup: make([]aval, len(v.tup))}
		for i := range v.tup {
			out.tup[i] = join(v.tup[i], w.tup[i])
		}
		return out
	}
	// different constants of one kind: keep the (small) set
	consts := func(x aval) []constant.Value {
		switch x.k {
		case avConst:
			return []constant.Value{x.c}
		case avSet:
			return x.set
		}
		return nil
	}
	if cv, cw := consts(v), consts(w); cv != nil && cw != nil && cv[0].Kind() == cw[0].Kind() && cv[0].Kind() != constant.Bool {
		out := aval{k: avSet}
		seen := map[string]bool{}
		for _, c := range append(append([]constant.Value{}, cv...), cw...) {
			if !seen[c.ExactString()] {
				seen[c.ExactString()] = true
				out.set = append(out.set, c)
			}
		}
		if len(out.set) <= 12 {
			return out
		}
		return top
	}
	nonNil := func(x aval) bool { return x.k == avValid || (x.k == avDyn && x.a != aNil) }
	if nonNil(v) && nonNil(w) {
		return aval{k: avValid}
	}
	return top
}

// ---- the interpreter ----------------------------------------------------------

type dynIssue struct {
	at   ssa.Instruction
	fn   *ssa.Function
	what string
	atom string // entry atom of the run
}

type dynInterp struct {
	p        *core.Prog
	na       *nilAn
	memo     map[string]aval
	open     map[string]bool
	issues   map[string]*dynIssue // key: pos+what
	atoms    map[string]map[string]bool
	checked  map[ssa.Instruction]bool // panic-capable sites evaluated at least once
	ctxCount int
	curAtom  string
	universe []atom
	dataPos  map[*ssa.Function]map[int]bool // parameter positions that carry the validated datum
	newPos   bool
	reached  map[*ssa.BasicBlock]bool // blocks reached by some abstract run
	analysed map[*ssa.Function]bool
	arith    bool // also fold integer/float arithmetic on constants (ORDERINGS)
	// region evaluation (COUNTING): start at a block with some values preset; calls are traced
	startAt map[*ssa.Function]*ssa.BasicBlock
	preset  map[ssa.Value]aval
	trace   []tracedCall
	cuts    int // number of calls cut at the depth limit so far
}

type tracedCall struct {
	callee string
	args   []aval
}

func ctxKey(f *ssa.Function, args []aval) string {
	var s []string
	for _, a := range args {
		s = append(s, a.String())
	}
	return fmt.Sprintf("%p|%s", f, strings.Join(s, ","))
}

func (di *dynInterp) issue(at ssa.Instruction, fn *ssa.Function, what string) {
	k := di.p.Pos(posOf(at, fn)) + "|" + what
	if di.issues[k] == nil {
		di.issues[k] = &dynIssue{at: at, fn: fn, what: what}
		di.atoms[k] = map[string]bool{}
	}
	di.atoms[k][di.curAtom] = true
}

// run interprets f with the given parameter values and returns the join of its results.
func (di *dynInterp) run(f *ssa.Function, args []aval, depth int) aval {
	if f.Blocks == nil || depth > 12 {
		if f.Blocks != nil {
			di.cuts++ // an answer computed below this point is not the function's answer: do not memoise it
		}
		return top
	}
	for i, a := range args {
		if a.k == avDyn && i < len(f.Params) {
			if _, isIface := f.Params[i].Type().Underlying().(*types.Interface); isIface {
				if di.dataPos[f] == nil {
					di.dataPos[f] = map[int]bool{}
				}
				if !di.dataPos[f][i] {
					di.dataPos[f][i] = true
					di.newPos = true
				}
			}
		}
	}
	// an unknown value in a datum position ranges over the value domain: one run per atom
	for i, a := range args {
		if a.k == avTop && di.dataPos[f][i] {
			res := bot
			for _, at := range di.universe {
				a2 := append([]aval{}, args...)
				a2[i] = dyn(at)
				res = join(res, di.run(f, a2, depth+1))
			}
			return res
		}
	}
	key := ctxKey(f, args)
	if v, ok := di.memo[key]; ok {
		return v
	}
	if di.open[key] {
		return top
	}
	cuts0 := di.cuts
	di.open[key] = true
	defer delete(di.open, key)
	di.ctxCount++

	env := map[ssa.Value]aval{}
	for v, a := range di.preset {
		env[v] = a
	}
	for i, p := range f.Params {
		if i < len(args) {
			env[p] = args[i]
		} else {
			env[p] = top
		}
	}
	reach := map[*ssa.BasicBlock]bool{}
	edge := map[[2]*ssa.BasicBlock]bool{}
	get := func(v ssa.Value) aval {
		switch x := v.(type) {
		case *ssa.Const:
			if x.Value == nil {
				if it, isIface := x.Type().Underlying().(*types.Interface); isIface && it.NumMethods() == 0 {
					return dyn(aNil)
				}
				if di.arith {
					switch x.Type().Underlying().(type) {
					case *types.Pointer, *types.Interface:
						return aval{k: avNilPtr}
					}
				}
				return top
			}
			switch x.Value.Kind() {
			case constant.Bool, constant.Int, constant.String:
				return aval{k: avConst, c: x.Value}
			case constant.Float:
				if di.arith {
					return aval{k: avConst, c: x.Value}
				}
			}
			return top
		case *ssa.Function, *ssa.Global, *ssa.Builtin:
			return top
		}
		if a, ok := env[v]; ok {
			return a
		}
		if _, region := di.startAt[f]; region {
			return top // defined before the region
		}
		return bot
	}
	result := bot
	first := f.Blocks[0]
	if sb, ok := di.startAt[f]; ok {
		first = sb
		// every edge into the start block counts as taken (phis there are preset)
		for _, pr := range sb.Preds {
			edge[[2]*ssa.BasicBlock{pr, sb}] = true
		}
	}
	work := []*ssa.BasicBlock{first}
	reach[first] = true
	iter := 0
	di.analysed[f] = true
	for len(work) > 0 && iter < 4000 {
		iter++
		b := work[0]
		work = work[1:]
		di.reached[b] = true
		changedHere := false
		for _, ins := range b.Instrs {
			var nv aval
			isVal := false
			switch x := ins.(type) {
			case *ssa.Phi:
				if pv, ok := di.preset[x]; ok {
					env[x] = pv
					continue
				}
				isVal = true
				nv = bot
				for i, e := range x.Edges {
					if edge[[2]*ssa.BasicBlock{b.Preds[i], b}] {
						ev := get(e)
						if ev.k == avBot {
							continue
						}
						nv = join(nv, ev)
					}
				}
			case *ssa.If:
				c := get(x.Cond)
				t, fl := true, true
				if c.k == avConst && c.c.Kind() == constant.Bool {
					t = constant.BoolVal(c.c)
					fl = !t
				}
				if c.k == avBot {
					t, fl = false, false
				}
				for si, s := range b.Succs {
					if (si == 0 && t) || (si == 1 && fl) {
						e := [2]*ssa.BasicBlock{b, s}
						if !edge[e] || changedHere {
							edge[e] = true
							if !reach[s] {
								reach[s] = true
							}
							work = append(work, s)
						}
					}
				}
				continue
			case *ssa.Jump:
				s := b.Succs[0]
				e := [2]*ssa.BasicBlock{b, s}
				if !edge[e] || changedHere {
					edge[e] = true
					reach[s] = true
					work = append(work, s)
				}
				continue
			case *ssa.Return:
				var rv aval
				if len(x.Results) == 1 {
					rv = get(x.Results[0])
				} else if len(x.Results) > 1 {
					rv = aval{k: avTuple}
					for _, r := range x.Results {
						rv.tup = append(rv.tup, get(r))
					}
				} else {
					rv = top
				}
				result = join(result, rv)
				continue
			case *ssa.Panic:
				continue
			default:
				if v, ok := ins.(ssa.Value); ok {
					if pv, ok := di.preset[v]; ok {
						env[v] = pv
						continue
					}
					isVal = true
					nv = di.eval(f, v, ins, get, depth)
				} else {
					di.effect(f, ins, get, depth)
				}
			}
			if isVal {
				v := ins.(ssa.Value)
				old, had := env[v]
				if !had {
					old = bot
				}
				j := join(old, nv)
				if !had || !j.eq(old) {
					env[v] = j
					changedHere = true
				}
			}
		}
	}
	if result.k == avBot {
		result = top
	}
	if di.cuts == cuts0 {
		di.memo[key] = result
	}
	return result
}

func (di *dynInterp) effect(f *ssa.Function, ins ssa.Instruction, get func(ssa.Value) aval, depth int) {
	switch x := ins.(type) {
	case *ssa.Defer:
		if g := core.StaticCallee(x); g != nil && di.p.InSubject(g) {
			var args []aval
			for range g.Params {
				args = append(args, top)
			}
			di.run(g, args, depth+1)
		}
	case *ssa.Go:
	}
}

var kindLegal = map[string]func(reflect.Kind) bool{
	"Len": func(k reflect.Kind) bool {
		return k == reflect.Array || k == reflect.Chan || k == reflect.Map || k == reflect.Slice || k == reflect.String
	},
	"Index":    func(k reflect.Kind) bool { return k == reflect.Array || k == reflect.Slice || k == reflect.String },
	"Int":      func(k reflect.Kind) bool { return k >= reflect.Int && k <= reflect.Int64 },
	"Uint":     func(k reflect.Kind) bool { return k >= reflect.Uint && k <= reflect.Uintptr },
	"Float":    func(k reflect.Kind) bool { return k == reflect.Float32 || k == reflect.Float64 },
	"Elem":     func(k reflect.Kind) bool { return k == reflect.Interface || k == reflect.Ptr },
	"MapKeys":  func(k reflect.Kind) bool { return k == reflect.Map },
	"MapIndex": func(k reflect.Kind) bool { return k == reflect.Map },
	"Bool":     func(k reflect.Kind) bool { return k == reflect.Bool },
	"String":   func(k reflect.Kind) bool { return true },
	"IsNil": func(k reflect.Kind) bool {
		return k == reflect.Chan || k == reflect.Func || k == reflect.Interface || k == reflect.Map || k == reflect.Ptr || k == reflect.Slice || k == reflect.UnsafePointer
	},
}

func (di *dynInterp) eval(f *ssa.Function, v ssa.Value, ins ssa.Instruction, get func(ssa.Value) aval, depth int) aval {
	switch x := v.(type) {
	case *ssa.MakeInterface:
		in := get(x.X)
		if in.k == avBot {
			return bot
		}
		if _, isIface := x.X.Type().Underlying().(*types.Interface); isIface {
			return in
		}
		if di.arith && in.k == avConst {
			return aval{k: avDyn, a: atomOfType(x.X.Type()), c: in.c}
		}
		return dyn(atomOfType(x.X.Type()))
	case *ssa.ChangeInterface:
		return get(x.X)
	case *ssa.ChangeType:
		return get(x.X)
	case *ssa.Convert:
		in := get(x.X)
		if in.k == avBot {
			return bot
		}
		if di.arith && in.k == avConst && (in.c.Kind() == constant.Int || in.c.Kind() == constant.Float) {
			if b, ok := x.Type().Underlying().(*types.Basic); ok {
				switch {
				case b.Info()&types.IsFloat != 0:
					return aval{k: avConst, c: constant.ToFloat(in.c)}
				case b.Info()&types.IsInteger != 0:
					if in.c.Kind() == constant.Int {
						return in
					}
					if ti := constant.ToInt(in.c); ti.Kind() == constant.Int {
						// an integral float converts exactly (also beyond int64: uint64(2^63)) — when the target holds it; a
						// value outside the target's range has no defined result in Go (implementation-specific): unknown
						if !constant.Compare(wrapInt(ti, x.Type()), token.EQL, ti) {
							return top
						}
						return aval{k: avConst, c: ti}
					}
					f, _ := constant.Float64Val(in.c)
					return cInt(int64(f))
				}
			}
		}
		return top
	case *ssa.TypeAssert:
		in := get(x.X)
		if in.k == avBot {
			return bot
		}
		_, toIface := x.AssertedType.Underlying().(*types.Interface)
		match := top // unknown
		if in.k == avDyn {
			switch {
			case in.a == aNil:
				match = cBool(false)
			case toIface:
				match = top
				if it := x.AssertedType.Underlying().(*types.Interface); it.NumMethods() == 0 {
					match = cBool(true)
				}
			case in.a < aOtherBase:
				match = cBool(atomOfType(x.AssertedType) == in.a)
			default:
				// some other type of that kind: may be the asserted one only if kinds agree and the asserted type is not one of the named atoms
				at := atomOfType(x.AssertedType)
				if at < aOtherBase || at.kind() != in.a.kind() {
					match = cBool(false)
				}
			}
		}
		val := top
		if toIface {
			val = in
		} else if match.k == avConst && constant.BoolVal(match.c) {
			val = aval{k: avValid}
		}
		if x.CommaOk {
			return aval{k: avTuple, tup: []aval{val, match}}
		}
		di.checked[ins] = true
		if !(match.k == avConst && constant.BoolVal(match.c)) {
			if !di.poolLayer(f) {
				di.issue(ins, f, fmt.Sprintf("unchecked type assertion to %s on a value of dynamic type %s", types.TypeString(x.AssertedType, types.RelativeTo(di.p.Main.Pkg)), in))
			}
		}
		return val
	case *ssa.Extract:
		t := get(x.Tuple)
		if t.k == avBot {
			return bot
		}
		if t.k == avTuple && x.Index < len(t.tup) {
			return t.tup[x.Index]
		}
		return top
	case *ssa.UnOp:
		in := get(x.X)
		if in.k == avBot {
			return bot
		}
		if x.Op == token.NOT && in.k == avConst && in.c.Kind() == constant.Bool {
			return cBool(!constant.BoolVal(in.c))
		}
		return top
	case *ssa.BinOp:
		a, b := get(x.X), get(x.Y)
		if a.k == avBot || b.k == avBot {
			return bot
		}
		if di.arith && a.k == avConst && b.k == avConst {
			switch x.Op {
			case token.ADD, token.SUB, token.MUL:
				if a.c.Kind() != constant.Bool && a.c.Kind() != constant.String {
					return aval{k: avConst, c: wrapInt(constant.BinaryOp(a.c, x.Op, b.c), x.Type())}
				}
			case token.QUO, token.REM:
				if a.c.Kind() == constant.Int && b.c.Kind() == constant.Int {
					if constant.Sign(b.c) == 0 {
						return top
					}
					op := token.QUO_ASSIGN // integer division
					if x.Op == token.REM {
						op = token.REM
					}
					return aval{k: avConst, c: constant.BinaryOp(a.c, op, b.c)}
				}
				if x.Op == token.QUO && constant.Sign(b.c) != 0 {
					return aval{k: avConst, c: constant.BinaryOp(a.c, token.QUO, b.c)}
				}
			case token.LAND, token.LOR:
			}
			if (x.Op == token.EQL || x.Op == token.NEQ || x.Op == token.LSS || x.Op == token.LEQ || x.Op == token.GTR || x.Op == token.GEQ) &&
				a.c.Kind() != constant.Bool && b.c.Kind() != constant.Bool && a.c.Kind() != constant.String && b.c.Kind() != constant.String {
				return cBool(constant.Compare(a.c, x.Op, b.c))
			}
		}
		if x.Op == token.EQL || x.Op == token.NEQ {
			var set, cst aval
			okSet := false
			if a.k == avSet && b.k == avConst {
				set, cst, okSet = a, b, true
			} else if b.k == avSet && a.k == avConst {
				set, cst, okSet = b, a, true
			}
			if okSet {
				member := false
				for _, c := range set.set {
					if c.Kind() == cst.c.Kind() && constant.Compare(c, token.EQL, cst.c) {
						member = true
					}
				}
				if !member {
					return cBool(x.Op == token.NEQ)
				}
				return top
			}
		}
		switch x.Op {
		case token.EQL, token.NEQ, token.LSS, token.LEQ, token.GTR, token.GEQ:
			if a.k == avConst && b.k == avConst && a.c.Kind() == b.c.Kind() {
				return cBool(constant.Compare(a.c, x.Op, b.c))
			}
			if x.Op == token.EQL || x.Op == token.NEQ {
				// nil tests of interface / reflect.Type values
				isNilC := func(v ssa.Value) bool { return core.IsNilConst(v) }
				var o aval
				ok := false
				if isNilC(x.Y) {
					o, ok = a, true
				} else if isNilC(x.X) {
					o, ok = b, true
				}
				if ok {
					switch {
					case o.k == avDyn:
						return cBool((o.a == aNil) == (x.Op == token.EQL))
					case o.k == avValid:
						return cBool(x.Op == token.NEQ)
					}
				}
			}
		}
		return top
	case *ssa.Call:
		return di.call(f, x, get, depth)
	case *ssa.Lookup, *ssa.Index, *ssa.Field, *ssa.Next, *ssa.Range, *ssa.Slice, *ssa.FieldAddr, *ssa.IndexAddr, *ssa.Alloc, *ssa.MakeMap, *ssa.MakeSlice, *ssa.MakeClosure, *ssa.MakeChan, *ssa.Select:
		return top
	}
	return top
}

func (di *dynInterp) poolLayer(f *ssa.Function) bool {
	_, isB := di.na.slotFields.pi.borrow[core.EnclosingTop(f)]
	return isB
}

func (di *dynInterp) call(f *ssa.Function, c *ssa.Call, get func(ssa.Value) aval, depth int) aval {
	cc := c.Common()
	var args []aval
	for _, a := range cc.Args {
		av := get(a)
		if av.k == avBot {
			return bot
		}
		args = append(args, av)
	}
	if di.startAt != nil {
		di.trace = append(di.trace, tracedCall{core.CalleeID(c), args})
	}
	kindCheck := func(method string, recv aval) {
		legal, ok := kindLegal[method]
		if !ok {
			return
		}
		di.checked[c] = true
		switch recv.k {
		case avDyn:
			if !legal(recv.a.kind()) {
				di.issue(c, f, fmt.Sprintf("reflect.Value.%s on a value of dynamic type %s (kind %s)", method, recv.a, recv.a.kind()))
			}
		default:
			if !di.kindGuarded(c, method) {
				di.issue(c, f, fmt.Sprintf("reflect.Value.%s on a value whose kind is not established", method))
			}
		}
	}
	if cc.IsInvoke() {
		recv := get(cc.Value)
		if recv.k == avBot {
			return bot
		}
		tn := cc.Value.Type().String()
		switch {
		case strings.HasSuffix(tn, "reflect.Type"):
			switch cc.Method.Name() {
			case "Kind":
				if recv.k == avDyn {
					return cInt(int64(recv.a.kind()))
				}
			case "Elem", "ConvertibleTo":
			}
			return top
		}
		// package interfaces: resolve through slot provenance when possible
		impls := di.na.implsFor(cc)
		if _, ok := di.na.slotFields.origin(cc.Value, 0); ok && len(impls) == 1 {
			g := impls[0]
			return di.run(g, append([]aval{aval{k: avValid}}, args...), depth+1)
		}
		return top
	}
	if b, ok := cc.Value.(*ssa.Builtin); ok && b.Name() == "len" && len(args) == 1 && args[0].k == avList {
		return cInt(int64(len(args[0].set)))
	}
	g := cc.StaticCallee()
	if g == nil {
		return top
	}
	if di.p.InSubject(g) {
		// a boolean predicate over a reflect.Kind applied to a known kind: answered from its truth table (computed
		// once by the interpreter itself) — exact, and it does not consume call depth in deep contexts
		if len(args) == 1 && args[0].k == avConst && args[0].c.Kind() == constant.Int && kindPredicateOf != nil && len(g.Params) == 1 && strings.HasSuffix(g.Params[0].Type().String(), "reflect.Kind") {
			if k, exact := constant.Int64Val(args[0].c); exact && k >= 0 && k <= 26 {
				if tbl := kindPredicateOf(g); tbl != nil {
					return cBool(tbl[int(k)])
				}
			}
		}
		return di.run(g, args, depth+1)
	}
	if core.QualName(g) == "spec.StringOrArray.Contains" && len(args) == 2 && args[0].k == avList && args[1].k == avConst && args[1].c.Kind() == constant.String {
		for _, e := range args[0].set {
			if constant.Compare(e, token.EQL, args[1].c) {
				return cBool(true)
			}
		}
		return cBool(false)
	}
	q := core.QualName(g)
	switch q {
	case "reflect.DeepEqual":
		// two typed constants: deeply equal iff same dynamic type and same value
		if di.arith && len(args) == 2 && args[0].k == avDyn && args[1].k == avDyn && args[0].c != nil && args[1].c != nil {
			return cBool(args[0].a == args[1].a && constant.Compare(args[0].c, token.EQL, args[1].c))
		}
		// the nil interface is deeply equal to itself only
		if di.arith && len(args) == 2 && args[0].k == avDyn && args[1].k == avDyn && (args[0].a == aNil || args[1].a == aNil) {
			return cBool(args[0].a == args[1].a)
		}
		return top
	case "reflect.ValueOf", "reflect.TypeOf":
		return args[0]
	case "reflect.Indirect", "reflect.Value.Interface", "reflect.Value.Type":
		if q != "reflect.Indirect" {
			di.checked[c] = true
			if args[0].k == avDyn && args[0].a == aNil {
				di.issue(c, f, q+" on the zero reflect.Value (nil datum)")
			} else if args[0].k == avTop {
				if !di.validGuarded(c) {
					di.issue(c, f, q+" on a reflect.Value not known to be valid")
				}
			}
		}
		return args[0]
	case "reflect.Value.Kind":
		if args[0].k == avDyn {
			return cInt(int64(args[0].a.kind()))
		}
		return top
	case "reflect.Value.IsValid":
		switch args[0].k {
		case avDyn:
			return cBool(args[0].a != aNil)
		case avValid:
			return cBool(true)
		}
		return top
	case "reflect.Value.Index":
		kindCheck("Index", args[0])
		return aval{k: avValid}
	case "reflect.Value.Convert":
		di.checked[c] = true
		if !di.convertGuarded(c) {
			di.issue(c, f, "reflect.Value.Convert not dominated by a successful ConvertibleTo on the same operands")
		}
		return aval{k: avValid}
	case "reflect.Zero":
		return aval{k: avValid}
	}
	if strings.HasPrefix(q, "reflect.Value.") {
		kindCheck(strings.TrimPrefix(q, "reflect.Value."), args[0])
		if q == "reflect.Value.MapIndex" && len(c.Call.Args) == 2 && !di.mapKeyCompatible(c) {
			di.issue(c, f, "reflect.Value.MapIndex with a key taken from another map whose key type is not established to be the same (MapIndex panics when the key is not assignable to the map's key type)")
		}
		if di.arith && args[0].k == avDyn && args[0].c != nil {
			switch strings.TrimPrefix(q, "reflect.Value.") {
			case "Int", "Uint":
				if args[0].c.Kind() == constant.Int {
					return aval{k: avConst, c: args[0].c}
				}
			case "Float":
				return aval{k: avConst, c: constant.ToFloat(args[0].c)}
			case "String":
				if args[0].c.Kind() == constant.String {
					return aval{k: avConst, c: args[0].c}
				}
			case "Bool":
				if args[0].c.Kind() == constant.Bool {
					return aval{k: avConst, c: args[0].c}
				}
			}
		}
	}
	if di.arith && q == "math.Trunc" && args[0].k == avConst {
		if ti := constant.ToInt(args[0].c); ti.Kind() == constant.Int {
			return aval{k: avConst, c: constant.ToFloat(args[0].c)} // integral: its own truncation, at any magnitude
		}
		f, _ := constant.Float64Val(constant.ToFloat(args[0].c))
		return aval{k: avConst, c: constant.MakeFloat64(math.Trunc(f))}
	}
	if di.arith && g.Pkg != nil && g.Pkg.Pkg.Path() == "github.com/go-openapi/errors" {
		return aval{k: avValid} // message constructors return a non-nil error value
	}
	if di.arith && q == "swag.IsFloat64AJSONInteger" && args[0].k == avConst {
		f, _ := constant.Float64Val(constant.ToFloat(args[0].c))
		return cBool(swagIsFloat64AJSONInteger(f))
	}
	return top
}

// kindGuarded: a kind-specific call on an unknown value is fine when a switch/if on Kind() of the same
// reflect.Value restricts the kinds reaching the call to legal ones (finite-domain flow of the kind value).
func (di *dynInterp) kindGuarded(c *ssa.Call, method string) bool {
	legal := kindLegal[method]
	set := di.kindsOf(c.Call.Args[0], c.Block(), 0)
	if set == nil {
		return false
	}
	for k := range set {
		if !legal(reflect.Kind(k)) {
			return false
		}
	}
	return true
}

// kindsOf: the kinds a reflect.Value of unknown origin can have on entry to block blk — from the tests on its
// Kind() in the function itself, intersected, for a parameter of an unexported function, with what every call
// site establishes for the argument (an extracted helper keeps the guard at its caller). nil = nothing known.
func (di *dynInterp) kindsOf(recv ssa.Value, blk *ssa.BasicBlock, depth int) map[int]bool {
	f := blk.Parent()
	var set map[int]bool
	var kv ssa.Value
	core.EachInstr(f, func(i ssa.Instruction) {
		if k, ok := i.(*ssa.Call); ok {
			if g := core.StaticCallee(k); g != nil && core.QualName(g) == "reflect.Value.Kind" && k.Call.Args[0] == recv {
				kv = k
			}
		}
	})
	if kv != nil {
		set = kindSetAt(kv, blk)
	}
	prm, isParam := recv.(*ssa.Parameter)
	if !isParam || depth > 3 {
		return set
	}
	pf := prm.Parent()
	if pf == nil || pf.Parent() != nil || pf.Object() == nil || pf.Object().Exported() {
		return set
	}
	idx := -1
	for k, q := range pf.Params {
		if q == prm {
			idx = k
		}
	}
	var fromCallers map[int]bool
	sites := 0
	okAll := true
	for _, caller := range di.p.Funcs {
		core.EachInstr(caller, func(i ssa.Instruction) {
			switch x := i.(type) {
			case ssa.CallInstruction:
				if core.StaticCallee(x) == pf && idx < len(x.Common().Args) {
					sites++
					cs := di.kindsOf(x.Common().Args[idx], i.Block(), depth+1)
					if cs == nil {
						okAll = false
						return
					}
					if fromCallers == nil {
						fromCallers = map[int]bool{}
					}
					for k := range cs {
						fromCallers[k] = true
					}
				}
			}
			// the function used as a value: callers unknown
			for _, op := range i.Operands(nil) {
				if op != nil && *op == ssa.Value(pf) {
					if ci, isCall := i.(ssa.CallInstruction); !isCall || ci.Common().Value != ssa.Value(pf) {
						okAll = false
					}
				}
			}
		})
	}
	if sites == 0 || !okAll {
		return set
	}
	if set == nil {
		return fromCallers
	}
	out := map[int]bool{}
	for k := range set {
		if fromCallers[k] {
			out[k] = true
		}
	}
	return out
}

// kindSetAt: possible values (0..26) of the integer SSA value kv on entry to block blk, from comparisons with
// constants and from boolean predicates of the package applied to kv (isIntKind(k), evaluated per kind). Sets are
// kept per incoming edge so that short-circuit conditions (`p(k) && q(j)`: a φ of {false, q(j)}) refine too.
func kindSetAt(kv ssa.Value, blk *ssa.BasicBlock) map[int]bool {
	f := blk.Parent()
	full := func() map[int]bool {
		m := map[int]bool{}
		for i := 0; i <= 26; i++ {
			m[i] = true
		}
		return m
	}
	type edgeKey [2]*ssa.BasicBlock
	inEdge := map[edgeKey]map[int]bool{}
	entry := f.Blocks[0]
	inOf := func(b *ssa.BasicBlock) map[int]bool {
		if b == entry {
			return full()
		}
		u := map[int]bool{}
		for _, pr := range b.Preds {
			for k := range inEdge[edgeKey{pr, b}] {
				u[k] = true
			}
		}
		return u
	}
	// refine: the kinds of `set` for which the boolean value v can equal want
	var refine func(v ssa.Value, want bool, set map[int]bool, b *ssa.BasicBlock, d int) map[int]bool
	refine = func(v ssa.Value, want bool, set map[int]bool, b *ssa.BasicBlock, d int) map[int]bool {
		cp := func() map[int]bool {
			o := map[int]bool{}
			for k := range set {
				o[k] = true
			}
			return o
		}
		if d > 4 {
			return cp()
		}
		switch x := v.(type) {
		case *ssa.Const:
			if x.Value != nil && x.Value.Kind() == constant.Bool {
				if constant.BoolVal(x.Value) == want {
					return cp()
				}
				return map[int]bool{}
			}
		case *ssa.UnOp:
			if x.Op == token.NOT {
				return refine(x.X, !want, set, b, d+1)
			}
		case *ssa.Call:
			if g := core.StaticCallee(x); g != nil && len(x.Call.Args) == 1 && x.Call.Args[0] == kv && kindPredicateOf != nil {
				if tbl := kindPredicateOf(g); tbl != nil {
					o := map[int]bool{}
					for k := range set {
						if tbl[k] == want {
							o[k] = true
						}
					}
					return o
				}
			}
		case *ssa.BinOp:
			var cst int64
			okc := false
			op := x.Op
			if x.X == kv {
				cst, okc = core.ConstInt(x.Y)
			} else if x.Y == kv {
				cst, okc = core.ConstInt(x.X)
				switch op {
				case token.LSS:
					op = token.GTR
				case token.GTR:
					op = token.LSS
				case token.LEQ:
					op = token.GEQ
				case token.GEQ:
					op = token.LEQ
				}
			}
			if okc {
				o := map[int]bool{}
				for k := range set {
					if constant.Compare(constant.MakeInt64(int64(k)), op, constant.MakeInt64(cst)) == want {
						o[k] = true
					}
				}
				return o
			}
		case *ssa.Phi:
			// a φ defined in the branching block itself: per incoming edge
			if x.Block() == b {
				o := map[int]bool{}
				for i, e := range x.Edges {
					es := inEdge[edgeKey{b.Preds[i], b}]
					if b == entry {
						es = full()
					}
					// restrict to the kinds of `set` (set is the union over the edges)
					sub := map[int]bool{}
					for k := range es {
						if set[k] {
							sub[k] = true
						}
					}
					for k := range refine(e, want, sub, b.Preds[i], d+1) {
						o[k] = true
					}
				}
				return o
			}
		}
		return cp()
	}
	work := []*ssa.BasicBlock{entry}
	for n := 0; len(work) > 0 && n < 8000; n++ {
		b := work[0]
		work = work[1:]
		cur := inOf(b)
		for si, s := range b.Succs {
			out := cur
			if ifi, ok := b.Instrs[len(b.Instrs)-1].(*ssa.If); ok && len(b.Succs) == 2 && b.Succs[0] != b.Succs[1] {
				out = refine(ifi.Cond, si == 0, cur, b, 0)
			} else {
				out = map[int]bool{}
				for k := range cur {
					out[k] = true
				}
			}
			key := edgeKey{b, s}
			old, seen := inEdge[key]
			if !seen {
				inEdge[key] = out
				work = append(work, s)
				continue
			}
			grew := false
			for k := range out {
				if !old[k] {
					old[k] = true
					grew = true
				}
			}
			if grew {
				work = append(work, s)
			}
		}
	}
	return inOf(blk)
}

func (di *dynInterp) validGuarded(c *ssa.Call) bool {
	recv := c.Call.Args[0]
	// result of Index/Convert/Zero/Indirect-of-valid is valid; or an IsValid() test dominates
	if rc, ok := recv.(*ssa.Call); ok {
		if g := core.StaticCallee(rc); g != nil {
			switch core.QualName(g) {
			case "reflect.Value.Index", "reflect.Value.Convert", "reflect.Zero":
				return true
			case "reflect.Value.MapIndex":
				// m.MapIndex(k) with k an element of m.MapKeys(): the entry exists
				if ld, isLd := rc.Call.Args[1].(*ssa.UnOp); isLd {
					if ia, isIA := ld.X.(*ssa.IndexAddr); isIA {
						if kc, isKC := ia.X.(*ssa.Call); isKC {
							if kg := core.StaticCallee(kc); kg != nil && core.QualName(kg) == "reflect.Value.MapKeys" && kc.Call.Args[0] == rc.Call.Args[0] {
								return true
							}
						}
					}
				}
			}
		}
	}
	for _, cd := range core.CondsAt(c.Block()) {
		if k, ok := cd.Value.(*ssa.Call); ok && cd.Sense {
			if g := core.StaticCallee(k); g != nil && core.QualName(g) == "reflect.Value.IsValid" && k.Call.Args[0] == recv {
				return true
			}
		}
	}
	// a value whose kind is known not to be Invalid is valid (also established at the call sites of a helper)
	if set := di.kindsOf(recv, c.Block(), 0); set != nil && !set[int(reflect.Invalid)] && len(set) < 27 {
		return true
	}
	return false
}

func (di *dynInterp) convertGuarded(c *ssa.Call) bool {
	recv, typ := c.Call.Args[0], c.Call.Args[1]
	for _, cd := range core.CondsAt(c.Block()) {
		k, ok := cd.Value.(*ssa.Call)
		if !ok || !cd.Sense || !k.Call.IsInvoke() || k.Call.Method.Name() != "ConvertibleTo" {
			continue
		}
		if k.Call.Args[0] != typ {
			continue
		}
		// receiver of ConvertibleTo is recv.Type()
		if tc, ok := k.Call.Value.(*ssa.Call); ok {
			if g := core.StaticCallee(tc); g != nil && core.QualName(g) == "reflect.Value.Type" && tc.Call.Args[0] == recv {
				return true
			}
		}
	}
	return false
}

// DynEntry describes one entry function for the DYN rule.
type DynEntry struct {
	Func     string // FuncName
	DataArg  int    // index of the datum parameter (receiver counts)
	Universe []atom
}

var jsonDomain = []atom{aNil, aBool, aFloat64, aString, aJSONNumber, aSliceIface, aMapIface, aInt64}
var goTypedDomain = []atom{aNil, aBool, aString, aFloat32, aFloat64, aInt, aInt8, aInt16, aInt32, aInt64, aUint, aUint8, aUint16, aUint32, aUint64, other(reflect.Slice), other(reflect.String), aJSONNumber}

// Dyn runs the interpreter from the given entries and, for every valueValidator implementation T and
// atom a with T.Applies(_, kind(a)) possibly true, from T.Validate with the datum fixed to a.
func Dyn(ruleName string, entries []DynEntry, universe []atom, domainText string) Rule {
	return func(p *core.Prog, r *core.Report) {
		runDyn(p, r, ruleName, entries, universe, domainText)
	}
}

func runDyn(p *core.Prog, r *core.Report, ruleName string, entries []DynEntry, universe []atom, domainText string, opts ...string) *dynInterp {
	kindPredProg = p
	noApplies := false
	for _, o := range opts {
		if o == "no-applies" {
			noApplies = true
		}
	}
	{
		na := newNilAn(p)
		di := &dynInterp{p: p, na: na, memo: map[string]aval{}, open: map[string]bool{}, issues: map[string]*dynIssue{}, atoms: map[string]map[string]bool{}, checked: map[ssa.Instruction]bool{}, universe: universe, dataPos: map[*ssa.Function]map[int]bool{}, reached: map[*ssa.BasicBlock]bool{}, analysed: map[*ssa.Function]bool{}}
		nRuns := 0
		applies := map[string][]string{}
		for round := 0; round < 5; round++ {
			di.newPos = false
			di.memo = map[string]aval{}
			di.issues = map[string]*dynIssue{}
			di.atoms = map[string]map[string]bool{}
			di.checked = map[ssa.Instruction]bool{}
			applies = map[string][]string{}
			nRuns = 0
			for _, e := range entries {
				f := p.Func(e.Func)
				if f == nil {
					r.Unk(ruleName, "entry:"+e.Func, "-", "entry function not found")
					continue
				}
				u := e.Universe
				if u == nil {
					u = universe
				}
				for _, a := range u {
					args := make([]aval, len(f.Params))
					for i := range args {
						args[i] = top
						if i == 0 && f.Signature.Recv() != nil {
							args[i] = aval{k: avValid}
						}
					}
					args[e.DataArg] = dyn(a)
					di.curAtom = a.String()
					di.run(f, args, 0)
					nRuns++
				}
			}
			// D-APPLIES: per implementation and atom
			for _, vf := range na.implsByName["Validate"] {
				if noApplies {
					break
				}
				T := core.NamedOf(vf.Signature.Recv().Type())
				if T == nil || len(vf.Params) != 2 {
					continue
				}
				af := p.Func("(*" + core.KnownTypeName(T) + ").Applies")
				if af == nil || len(af.Params) != 3 {
					continue
				}
				for _, a := range universe {
					if a == aNil {
						continue // Applies is only consulted for non-nil data (dispatchers return/skip on nil first)
					}
					di.curAtom = a.String()
					res := di.run(af, []aval{{k: avValid}, top, cInt(int64(a.kind()))}, 0)
					may := !(res.k == avConst && res.c.Kind() == constant.Bool && !constant.BoolVal(res.c))
					if !may {
						continue
					}
					applies[core.KnownTypeName(T)] = append(applies[core.KnownTypeName(T)], a.String())
					di.run(vf, []aval{{k: avValid}, dyn(a)}, 0)
					nRuns++
				}
			}
			if !di.newPos {
				break
			}
		}
		r.Info["dyn_applies"] = applies
		r.Count("dyn_runs", nRuns)
		r.Count("dyn_contexts", di.ctxCount)
		r.Count("dyn_checked_sites", len(di.checked))
		var keys []string
		for k := range di.issues {
			keys = append(keys, k)
		}
		sort.Strings(keys)
		bad := map[ssa.Instruction]bool{}
		seq := map[string]int{}
		for _, k := range keys {
			is := di.issues[k]
			bad[is.at] = true
			var as []string
			for a := range di.atoms[k] {
				as = append(as, a)
			}
			sort.Strings(as)
			base := core.FuncName(is.fn) + ":" + stripDyn(is.what)
			seq[base]++
			key := base
			if seq[base] > 1 {
				key = fmt.Sprintf("%s#%d", base, seq[base])
			}
			r.Bad(ruleName, key, p.Pos(posOf(is.at, is.fn)), is.what+" — reached when the validated value has dynamic type "+strings.Join(as, ", ")+" ("+domainText+")")
		}
		nOK := 0
		seqOK := map[string]int{}
		for ins := range di.checked {
			if bad[ins] {
				continue
			}
			nOK++
			f := ins.Parent()
			base := core.FuncName(f) + ":" + opName(ins)
			seqOK[base]++
		}
		var oks []string
		for k := range seqOK {
			oks = append(oks, k)
		}
		sort.Strings(oks)
		for _, k := range oks {
			r.OK(ruleName, k, "-", fmt.Sprintf("%d site(s): legal for every dynamic type of the domain that reaches it", seqOK[k]))
		}
		r.Note("%s: %d abstract runs, %d contexts, %d panic-capable reflect/assertion sites evaluated, domain: %s", ruleName, nRuns, di.ctxCount, len(di.checked), domainText)
		return di
	}
}

func stripDyn(s string) string {
	if i := strings.Index(s, " on a value of dynamic type"); i > 0 {
		return s[:i]
	}
	return s
}

func opName(ins ssa.Instruction) string {
	switch x := ins.(type) {
	case *ssa.TypeAssert:
		return "type assertion " + x.AssertedType.String()
	case *ssa.Call:
		return core.CalleeID(x)
	}
	return "op"
}

// kindPredicateOf answers, for a boolean function of one reflect.Kind, its truth table over the 27 kinds
// (nil when the function is not such a predicate or does not evaluate to a constant for some kind). Set by the
// interpreter so that the table is computed by the interpreter itself.
var kindPredicateOf func(g *ssa.Function) map[int]bool

func init() {
	cache := map[*ssa.Function]map[int]bool{}
	kindPredicateOf = func(g *ssa.Function) map[int]bool {
		if t, ok := cache[g]; ok {
			return t
		}
		cache[g] = nil
		if g == nil || len(g.Blocks) == 0 || len(g.Params) != 1 || g.Signature.Results().Len() != 1 {
			return nil
		}
		if b, ok := g.Signature.Results().At(0).Type().Underlying().(*types.Basic); !ok || b.Kind() != types.Bool {
			return nil
		}
		if !strings.HasSuffix(g.Params[0].Type().String(), "reflect.Kind") || kindPredProg == nil {
			return nil
		}
		tbl := map[int]bool{}
		for k := 0; k <= 26; k++ {
			if kindPredNA == nil || kindPredNAProg != kindPredProg {
				kindPredNA, kindPredNAProg = newNilAn(kindPredProg), kindPredProg
			}
			di := newRegionInterp(kindPredProg, kindPredNA)
			di.startAt = nil
			di.arith = true
			res := di.run(g, []aval{cInt(int64(k))}, 0)
			if res.k != avConst || res.c.Kind() != constant.Bool {
				return nil
			}
			tbl[k] = constant.BoolVal(res.c)
		}
		cache[g] = tbl
		return tbl
	}
}

// kindPredProg is the program the kind predicates are evaluated in (set by runDyn / the rules that use kindSetAt).
var kindPredProg *core.Prog
var kindPredNA *nilAn
var kindPredNAProg *core.Prog

// wrapInt gives integer arithmetic its machine semantics: the result of an operation on a sized integer type is
// reduced modulo 2^bits (unsigned) or wrapped in two's complement (signed) — `limit--` on a uint64 zero is
// 2^64-1, not -1.
func wrapInt(c constant.Value, t types.Type) constant.Value {
	if c.Kind() != constant.Int {
		return c
	}
	b, ok := t.Underlying().(*types.Basic)
	if !ok || b.Info()&types.IsInteger == 0 {
		return c
	}
	bits := uint(64)
	switch b.Kind() {
	case types.Int8, types.Uint8:
		bits = 8
	case types.Int16, types.Uint16:
		bits = 16
	case types.Int32, types.Uint32:
		bits = 32
	}
	mod := constant.Shift(constant.MakeInt64(1), token.SHL, bits)
	// r = c mod 2^bits, in [0, 2^bits)
	q := constant.BinaryOp(c, token.QUO_ASSIGN, mod)
	r := constant.BinaryOp(c, token.SUB, constant.BinaryOp(q, token.MUL, mod))
	if constant.Sign(r) < 0 {
		r = constant.BinaryOp(r, token.ADD, mod)
	}
	if b.Info()&types.IsUnsigned != 0 {
		return r
	}
	half := constant.Shift(constant.MakeInt64(1), token.SHL, bits-1)
	if constant.Compare(r, token.GEQ, half) {
		r = constant.BinaryOp(r, token.SUB, mod)
	}
	return r
}

// swagIsFloat64AJSONInteger is a faithful copy of github.com/go-openapi/swag@v0.23.1 convert.go
// IsFloat64AJSONInteger (a dependency is modelled, not idealised: it is NOT "f is integral" — beyond exact
// integers it accepts anything within a relative 1e-9 of float64(uint64(f)), and nothing outside ±(2^53−1)).
func swagIsFloat64AJSONInteger(f float64) bool {
	const (
		maxJSONFloat         = float64(1<<53 - 1)
		minJSONFloat         = -float64(1<<53 - 1)
		epsilon      float64 = 1e-9
	)
	if math.IsNaN(f) || math.IsInf(f, 0) || f < minJSONFloat || f > maxJSONFloat {
		return false
	}
	fa := math.Abs(f)
	g := float64(uint64(f))
	ga := math.Abs(g)
	diff := math.Abs(f - g)
	switch {
	case f == g:
		return true
	case f == float64(int64(f)) || f == float64(uint64(f)):
		return true
	case f == 0 || g == 0 || diff < math.SmallestNonzeroFloat64:
		return diff < (epsilon * math.SmallestNonzeroFloat64)
	}
	return diff/math.Min(fa+ga, math.MaxFloat64) < epsilon
}

// mapKeyCompatible: m.MapIndex(k) is safe for the key type when k is an element of m.MapKeys() itself, or of
// another map's MapKeys() under an established equality of the two key types (`a.Type().Key() == b.Type().Key()`
// held, or its negation failed, on every path to the call); keys of any other origin are not judged here.
func (di *dynInterp) mapKeyCompatible(c *ssa.Call) bool {
	m := c.Call.Args[0]
	var from ssa.Value
	if ld, isLd := c.Call.Args[1].(*ssa.UnOp); isLd {
		if ia, isIA := ld.X.(*ssa.IndexAddr); isIA {
			if kc, isKC := ia.X.(*ssa.Call); isKC {
				if kg := core.StaticCallee(kc); kg != nil && core.QualName(kg) == "reflect.Value.MapKeys" {
					from = kc.Call.Args[0]
				}
			}
		}
	}
	if from == nil || from == m {
		return true
	}
	// Key() of Type() of v
	keyOf := func(v ssa.Value) ssa.Value {
		k, ok := v.(*ssa.Call)
		if !ok || !k.Call.IsInvoke() || k.Call.Method.Name() != "Key" {
			return nil
		}
		tc, ok := k.Call.Value.(*ssa.Call)
		if !ok {
			return nil
		}
		if g := core.StaticCallee(tc); g == nil || core.QualName(g) != "reflect.Value.Type" {
			return nil
		}
		return tc.Call.Args[0]
	}
	for _, cd := range core.CondsAt(c.Block()) {
		bo, ok := cd.Value.(*ssa.BinOp)
		if !ok || (bo.Op != token.EQL && bo.Op != token.NEQ) || (bo.Op == token.EQL) != cd.Sense {
			continue
		}
		x, y := keyOf(bo.X), keyOf(bo.Y)
		if (x == m && y == from) || (x == from && y == m) {
			return true
		}
	}
	return false
}
