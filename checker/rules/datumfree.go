package rules

import (
	"fmt"
	"strings"

	"golang.org/x/tools/go/ssa"

	"verifchk/core"
)

// DATUM-FREE-ERROR — inside a validator's Validate, an error that is computed from the validator's own fields
// and constants only, and added under conditions that do not look at the datum either, is an error about the
// *schema*: it is reported for every instance, valid or not. (`{type: integer, maximum: 2.5}`: the range check
// of the constraint itself — "2.5 is not an integer" — stays in the result, so int64(2) fails.) A verdict must
// depend on the instance.
//
// EXACT-ARITH — the numeric keyword helpers decide by exact comparisons; a verdict that goes through a tolerance
// predicate of a dependency (swag.IsFloat64AJSONInteger: relative tolerance 1e-9, and false beyond ±(2^53−1)) is
// not "exact arithmetic on the mathematical values".
func DatumFree(p *core.Prog, r *core.Report) {
	const rule = "DATUM-FREE-ERROR"
	n := 0
	seq := map[string]int{}
	for _, f := range p.Funcs {
		if f.Parent() != nil || f.Name() != "Validate" || f.Signature.Recv() == nil || len(f.Params) < 2 {
			continue
		}
		recvN := core.NamedOf(f.Signature.Recv().Type())
		if recvN == nil || !strings.HasSuffix(core.KnownTypeName(recvN), "Validator") && !strings.HasSuffix(core.KnownTypeName(recvN), "validator") {
			continue
		}
		// the datum: the interface-typed parameter(s)
		var data []ssa.Value
		for _, prm := range f.Params[1:] {
			if _, isI := prm.Type().Underlying().(interface{ NumMethods() int }); isI {
				data = append(data, prm)
			}
		}
		if len(data) == 0 {
			continue
		}
		memo := map[ssa.Value]bool{}
		var dep func(v ssa.Value, d int) bool
		dep = func(v ssa.Value, d int) bool {
			if v == nil || d > 14 {
				return false
			}
			if got, ok := memo[v]; ok {
				return got
			}
			memo[v] = false
			for _, dv := range data {
				if v == dv {
					memo[v] = true
					return true
				}
			}
			res := false
			switch x := v.(type) {
			case *ssa.Phi:
				for _, e := range x.Edges {
					if dep(e, d+1) {
						res = true
					}
				}
				// a φ also depends on what selects its edges
				for _, cd := range core.ControlConds(x.Block()) {
					if dep(cd.Value, d+1) {
						res = true
					}
				}
			case *ssa.UnOp:
				if al, ok := x.X.(*ssa.Alloc); ok {
					for _, ref := range core.Refs(al) {
						if st, ok := ref.(*ssa.Store); ok && st.Addr == ssa.Value(al) && dep(st.Val, d+1) {
							res = true
						}
					}
				} else {
					res = dep(x.X, d+1)
				}
			case ssa.Instruction:
				for _, op := range x.Operands(nil) {
					if op != nil && *op != nil && dep(*op, d+1) {
						res = true
					}
				}
			}
			memo[v] = res
			return res
		}
		core.EachInstr(f, func(i ssa.Instruction) {
			c, ok := i.(*ssa.Call)
			if !ok {
				return
			}
			g := core.StaticCallee(c)
			if g == nil || g.Name() != "AddErrors" || len(c.Call.Args) < 2 {
				return
			}
			// the variadic slice: find the element stores
			var errs []ssa.Value
			if sl, ok := c.Call.Args[1].(*ssa.Slice); ok {
				if al, ok := sl.X.(*ssa.Alloc); ok {
					for _, ref := range core.Refs(al) {
						if ia, ok := ref.(*ssa.IndexAddr); ok {
							for _, r2 := range core.Refs(ia) {
								if st, ok := r2.(*ssa.Store); ok && st.Addr == ssa.Value(ia) {
									errs = append(errs, st.Val)
								}
							}
						}
					}
				}
			}
			for _, e := range errs {
				n++
				call := e
				for {
					if mi, ok := call.(*ssa.MakeInterface); ok {
						call = mi.X
						continue
					}
					if ci, ok := call.(*ssa.ChangeInterface); ok {
						call = ci.X
						continue
					}
					break
				}
				ec, isCall := call.(*ssa.Call)
				if !isCall {
					continue
				}
				base := core.FuncName(f) + ":" + core.CalleeID(ec)
				for _, a := range ec.Call.Args {
					if k, ok := a.(*ssa.Const); ok && k.Value != nil && strings.HasPrefix(k.Value.ExactString(), "\"") {
						base += ":" + strings.Trim(k.Value.ExactString(), "\"")
						break
					}
				}
				seq[base]++
				key := base
				if seq[base] > 1 {
					key = fmt.Sprintf("%s#%d", base, seq[base])
				}
				valueDep := dep(ec, 0)
				ctrlDep := false
				for _, cd := range core.ControlConds(c.Block()) {
					if dep(cd.Value, 0) {
						ctrlDep = true
					}
				}
				if valueDep || ctrlDep {
					r.OK(rule, key, p.Pos(c.Pos()), "the error depends on the instance (through its arguments or the conditions it is added under)")
				} else {
					r.Bad(rule, key, p.Pos(c.Pos()), "an error computed from the validator's own fields only ("+core.CalleeID(ec)+" of the constraint) is added to the result under conditions that do not look at the instance: when the constraint does not fit the declared type/format, every instance is rejected — {type: integer, maximum: 2.5} fails int64(2), {type: integer, format: int32, maximum: 3e9} fails int32(5), {format: uint32, minimum: -1} fails uint32(5)")
				}
			}
		})
	}
	r.Count("adderrors_in_validate", n)
	r.Floor("adderrors_in_validate", 8)

	ExactArith(p, r)
}

// ExactArith is the EXACT-ARITH part on its own (C01: multipleOf in the JSON value domain).
func ExactArith(p *core.Prog, r *core.Report) {
	// EXACT-ARITH
	const rule2 = "EXACT-ARITH"
	nn := 0
	for _, name := range []string{"MultipleOf", "MultipleOfInt", "MultipleOfUint", "Maximum", "MaximumInt", "MaximumUint", "Minimum", "MinimumInt", "MinimumUint"} {
		f := p.Func(name)
		if f == nil {
			r.Unk(rule2, name, "-", "helper not found")
			continue
		}
		nn++
		tol := ""
		core.EachInstr(f, func(i ssa.Instruction) {
			if c, ok := i.(ssa.CallInstruction); ok {
				if g := core.StaticCallee(c); g != nil && !p.InSubject(g) && strings.Contains(core.QualName(g), "IsFloat64AJSONInteger") {
					tol = p.Pos(c.Pos())
				}
			}
		})
		if tol != "" {
			r.Bad(rule2, name+":tolerance", tol, name+" decides through swag.IsFloat64AJSONInteger of a float64 quotient: a relative tolerance of 1e-9 and a hard limit at ±(2^53−1) instead of exact arithmetic — 0.29, 0.57, 1.15, 4.35, 19.99 are rejected as multiples of 0.01 and 3.3 of 1.1 (the quotient is truncated, not rounded); float64(1000000001) and 1000000000.5 are accepted as multiples of 2 resp. 1 (quotient > 5e8) while int64(1000000001) is rejected; float64(1<<53) is rejected as a multiple of 1, 1e14 of 0.01")
		} else {
			r.OK(rule2, name+":tolerance", p.Pos(f.Pos()), "no tolerance predicate decides")
		}
	}
	// the `type` keyword decides integer-ness of a float through the same tolerance predicate
	if f := p.Func("(*typeValidator).Validate"); f != nil {
		tol := ""
		core.EachInstr(f, func(i ssa.Instruction) {
			if c, ok := i.(ssa.CallInstruction); ok {
				if g := core.StaticCallee(c); g != nil && !p.InSubject(g) && strings.Contains(core.QualName(g), "IsFloat64AJSONInteger") {
					tol = p.Pos(c.Pos())
				}
			}
		})
		if tol != "" {
			r.Bad(rule2, "typeValidator:tolerance", tol, "`type: integer` decides whether a float64 is an integer through swag.IsFloat64AJSONInteger (relative tolerance 1e-9, nothing beyond ±(2^53−1)): {\"type\":\"integer\"} accepts 250000001.5, 1000000000.5 and 1.0000000001 and rejects -1000000000.5; {\"not\":{\"type\":\"integer\"}} and oneOf[integer, number] come out wrong accordingly")
		} else {
			r.OK(rule2, "typeValidator:tolerance", p.Pos(f.Pos()), "no tolerance predicate decides integer-ness")
		}
	}
	r.Count("numeric_helpers", nn)
	r.Floor("numeric_helpers", 9)
}
