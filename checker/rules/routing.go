package rules

import (
	"fmt"
	"go/constant"
	"go/token"
	"go/types"
	"os"
	"sort"
	"strconv"
	"strings"

	"golang.org/x/tools/go/ssa"

	"verifchk/core"
)

// ROUTING — exact decision, over the finite space of configurations, of *which* sub-validation a generic
// member of an object receives (C01: properties / patternProperties / additionalProperties).
//
// The entry function is executed symbolically on its control flow only: every branch condition is reduced to
// a structural atom (an access path relative to the receiver and to the generic member (K,V) of the instance:
// `recv.AdditionalProperties==nil`, `has(recv.Properties,K)`, the boolean results of the pattern matcher …);
// the first time an atom is met the run forks on its two values, afterwards the value is fixed, so every
// complete run is one consistent configuration. Methods of the same receiver are inlined (bounded depth),
// every `range` is taken for one generic element, counted loops are bounded. Nothing of the subject is run
// and no solver is involved: it is an enumeration of at most a few hundred paths.
// For each complete run that ends in a normal return the set of sub-validations applied to the generic
// member is compared with what draft 4 requires in that configuration:
//   - the member is handed to the pattern matcher (which validates it against every matching pattern schema)
//     in every configuration — two edits that each look like the removal of a redundant second check are
//     together a configuration in which the pattern schemas are never applied;
//   - a member that is neither a declared property nor matched by a pattern is validated against
//     additionalProperties when that is a schema.

type routeRun struct {
	lastBool  bool // boolean result of the frame that returned last
	decisions []bool
	cursor    int
	atoms     map[string]bool
	events    []string
	abort     string
	ret       string
	steps     int
}

type routeFrame struct {
	fn     *ssa.Function
	args   []string
	phi    map[*ssa.Phi]string
	phiB   map[*ssa.Phi]bool
	visits map[*ssa.BasicBlock]int
	ranges map[ssa.Value]int
	cells  map[*ssa.Alloc]string
	calls  map[*ssa.Call]bool // answers of inlined boolean helpers
	depth  int
}

type router struct {
	relevant  func(g *ssa.Function) bool // callees worth inlining (they can produce an event of interest)
	p         *core.Prog
	recvType  *types.Named
	primitive map[*ssa.Function]string // not inlined; call recorded as event with this name
	run       *routeRun
}

func (rt *router) decide(atom string) bool {
	neg := false
	for strings.HasPrefix(atom, "!") {
		atom = atom[1:]
		neg = !neg
	}
	v, ok := rt.run.atoms[atom]
	if !ok {
		if rt.run.cursor < len(rt.run.decisions) {
			v = rt.run.decisions[rt.run.cursor]
		} else {
			v = false
			rt.run.decisions = append(rt.run.decisions, false)
		}
		rt.run.cursor++
		rt.run.atoms[atom] = v
	}
	return v != neg
}

func (rt *router) desc(fr *routeFrame, v ssa.Value, d int) string {
	if d > 10 {
		return "…"
	}
	switch x := v.(type) {
	case *ssa.Const:
		if x.Value == nil {
			return "nil"
		}
		if x.Value.Kind() == constant.String {
			return fmt.Sprintf("%q", constant.StringVal(x.Value))
		}
		return x.Value.ExactString()
	case *ssa.Parameter:
		for k, prm := range fr.fn.Params {
			if prm == x && k < len(fr.args) {
				return fr.args[k]
			}
		}
		return "param?"
	case *ssa.FreeVar:
		return "free:" + x.Name()
	case *ssa.Global:
		return "global:" + x.Name()
	case *ssa.FieldAddr:
		_, fn, _ := core.FieldOf(x)
		return rt.desc(fr, x.X, d+1) + "." + fn
	case *ssa.Field:
		_, fn, _ := core.FieldOf(x)
		return rt.desc(fr, x.X, d+1) + "." + fn
	case *ssa.IndexAddr:
		return rt.desc(fr, x.X, d+1) + "[" + rt.desc(fr, x.Index, d+1) + "]"
	case *ssa.Index:
		return rt.desc(fr, x.X, d+1) + "[" + rt.desc(fr, x.Index, d+1) + "]"
	case *ssa.UnOp:
		if x.Op == token.MUL {
			if al, ok := x.X.(*ssa.Alloc); ok {
				if cv, ok := fr.cells[al]; ok {
					return cv
				}
				// a local cell: the last value stored (cells are rare after lifting; take the unique store)
				var vals []string
				for _, ref := range core.Refs(al) {
					if st, ok := ref.(*ssa.Store); ok && st.Addr == ssa.Value(al) {
						vals = append(vals, rt.desc(fr, st.Val, d+1))
					}
				}
				vals = uniq(vals)
				if len(vals) == 1 {
					return vals[0]
				}
				return "cell{" + strings.Join(vals, ",") + "}"
			}
			return rt.desc(fr, x.X, d+1)
		}
		return x.Op.String() + rt.desc(fr, x.X, d+1)
	case *ssa.Alloc:
		if cv, ok := fr.cells[x]; ok {
			return cv // an addressable local: named by the value last stored in it
		}
		return "local:" + typeShort(x.Type())
	case *ssa.Phi:
		if s, ok := fr.phi[x]; ok {
			return s
		}
		return "phi?"
	case *ssa.TypeAssert:
		return rt.desc(fr, x.X, d+1)
	case *ssa.MakeInterface:
		return rt.desc(fr, x.X, d+1)
	case *ssa.ChangeType:
		return rt.desc(fr, x.X, d+1)
	case *ssa.ChangeInterface:
		return rt.desc(fr, x.X, d+1)
	case *ssa.Convert:
		return rt.desc(fr, x.X, d+1)
	case *ssa.Slice:
		return rt.desc(fr, x.X, d+1)
	case *ssa.Lookup:
		return rt.desc(fr, x.X, d+1) + "[" + rt.desc(fr, x.Index, d+1) + "]"
	case *ssa.Extract:
		switch t := x.Tuple.(type) {
		case *ssa.Next:
			if rg, ok := t.Iter.(*ssa.Range); ok {
				return []string{"ok", "K", "V"}[x.Index] + "(" + rt.desc(fr, rg.X, d+1) + ")"
			}
		case *ssa.Lookup:
			if x.Index == 1 {
				return "has(" + rt.desc(fr, t.X, d+1) + "," + rt.desc(fr, t.Index, d+1) + ")"
			}
			return rt.desc(fr, t.X, d+1) + "[" + rt.desc(fr, t.Index, d+1) + "]"
		case *ssa.TypeAssert:
			if x.Index == 1 {
				return "is(" + rt.desc(fr, t.X, d+1) + "," + typeShort(t.AssertedType) + ")"
			}
			return rt.desc(fr, t.X, d+1)
		case *ssa.Call:
			return fmt.Sprintf("ret%d:%s", x.Index, rt.callDesc(fr, t, d+1))
		}
		return fmt.Sprintf("#%d(%s)", x.Index, rt.desc(fr, x.Tuple, d+1))
	case *ssa.Call:
		return "ret0:" + rt.callDesc(fr, x, d+1)
	case *ssa.BinOp:
		a, b := rt.desc(fr, x.X, d+1), rt.desc(fr, x.Y, d+1)
		// fold integer arithmetic on literals (the rotated `for i := range` loop starts at -1+1)
		if x.Op == token.ADD || x.Op == token.SUB {
			if ia, errA := strconv.ParseInt(a, 10, 64); errA == nil {
				if ib, errB := strconv.ParseInt(b, 10, 64); errB == nil {
					if x.Op == token.ADD {
						return strconv.FormatInt(ia+ib, 10)
					}
					return strconv.FormatInt(ia-ib, 10)
				}
			}
		}
		return "(" + a + x.Op.String() + b + ")"
	case *ssa.MakeMap, *ssa.MakeSlice:
		return "new:" + typeShort(v.Type())
	case *ssa.Range:
		return "range(" + rt.desc(fr, x.X, d+1) + ")"
	}
	return "?"
}

// callDesc names a call by its callee and its first two non-result arguments (the result accumulator
// that most helpers take last is irrelevant to which member is concerned).
func (rt *router) callDesc(fr *routeFrame, c *ssa.Call, d int) string {
	name := core.CalleeID(c)
	name = name[strings.LastIndex(name, ".")+1:]
	args := c.Call.Args
	recvPrefix := ""
	if g := core.StaticCallee(c); g != nil && g.Signature.Recv() != nil && len(args) > 0 {
		if !rt.p.InSubject(g) {
			// a method of a foreign value (reflect.Value.Index(i).Interface()): the receiver is part of what is named
			recvPrefix = rt.desc(fr, args[0], d+1) + "."
		}
		args = args[1:]
	}
	var as []string
	for k, a := range args {
		if k >= 2 {
			break
		}
		if isResultPtr(a.Type()) {
			continue
		}
		as = append(as, rt.desc(fr, a, d+1))
	}
	if c.Call.IsInvoke() {
		return rt.desc(fr, c.Call.Value, d+1) + "." + name + "(" + strings.Join(as, ",") + ")"
	}
	return recvPrefix + name + "(" + strings.Join(as, ",") + ")"
}

func (rt *router) evalBool(fr *routeFrame, v ssa.Value) bool {
	if c, ok := v.(*ssa.Call); ok {
		if b, known := fr.calls[c]; known {
			return b // the inlined helper's own answer in this configuration
		}
	}
	switch x := v.(type) {
	case *ssa.Const:
		return x.Value != nil && constant.BoolVal(x.Value)
	case *ssa.UnOp:
		if x.Op == token.NOT {
			return !rt.evalBool(fr, x.X)
		}
	case *ssa.Phi:
		if b, ok := fr.phiB[x]; ok {
			return b
		}
	case *ssa.BinOp:
		l, r := rt.desc(fr, x.X, 0), rt.desc(fr, x.Y, 0)
		if li, err1 := strconv.ParseInt(l, 10, 64); err1 == nil {
			if ri, err2 := strconv.ParseInt(r, 10, 64); err2 == nil {
				switch x.Op {
				case token.EQL:
					return li == ri
				case token.NEQ:
					return li != ri
				case token.LSS:
					return li < ri
				case token.LEQ:
					return li <= ri
				case token.GTR:
					return li > ri
				case token.GEQ:
					return li >= ri
				}
			}
		}
		switch x.Op {
		case token.EQL:
			if l == r {
				return true
			}
			if l > r && r != "nil" || l == "nil" {
				l, r = r, l
			}
			return rt.decide(l + "==" + r)
		case token.NEQ:
			if l == r {
				return false
			}
			if l > r && r != "nil" || l == "nil" {
				l, r = r, l
			}
			return !rt.decide(l + "==" + r)
		case token.LSS:
			return rt.decide(l + "<" + r)
		case token.GEQ:
			return !rt.decide(l + "<" + r)
		case token.GTR:
			return rt.decide(r + "<" + l)
		case token.LEQ:
			return !rt.decide(r + "<" + l)
		}
	case *ssa.Extract:
		if nx, ok := x.Tuple.(*ssa.Next); ok && x.Index == 0 {
			// one generic element per range
			fr.ranges[nx.Iter]++
			return fr.ranges[nx.Iter] == 1
		}
	}
	return rt.decide(rt.desc(fr, v, 0))
}

func (rt *router) simulate(fr *routeFrame) {
	b := fr.fn.Blocks[0]
	var prev *ssa.BasicBlock
	for rt.run.abort == "" {
		rt.run.steps++
		fr.visits[b]++
		if fr.visits[b] > 6 || rt.run.steps > 5000 {
			rt.run.abort = "loop bound exceeded in " + core.FuncName(fr.fn)
			return
		}
		// φs (parallel assignment from the edge taken)
		if prev != nil {
			pi := -1
			for k, pp := range b.Preds {
				if pp == prev {
					pi = k
				}
			}
			newS := map[*ssa.Phi]string{}
			newB := map[*ssa.Phi]bool{}
			for _, i := range b.Instrs {
				ph, ok := i.(*ssa.Phi)
				if !ok {
					break
				}
				if pi < 0 {
					continue
				}
				if bt, ok := ph.Type().Underlying().(*types.Basic); ok && bt.Kind() == types.Bool {
					newB[ph] = rt.evalBool(fr, ph.Edges[pi])
				} else {
					newS[ph] = rt.desc(fr, ph.Edges[pi], 0)
				}
			}
			for k, v := range newS {
				fr.phi[k] = v
			}
			for k, v := range newB {
				fr.phiB[k] = v
			}
		}
		for _, i := range b.Instrs {
			switch x := i.(type) {
			case *ssa.Call:
				rt.call(fr, x)
				if rt.run.abort != "" {
					return
				}
			case *ssa.Store:
				if al, ok := x.Addr.(*ssa.Alloc); ok {
					fr.cells[al] = rt.desc(fr, x.Val, 0)
				}
			case *ssa.If:
				var c bool
				if stay, ok := loopStaySucc(b, x.Cond); ok {
					// a condition on the induction variable of a counted / slice-range loop (loop test or
					// bounds break): one generic iteration — first time stay in the loop, afterwards leave
					fr.ranges[x.Cond]++
					if fr.ranges[x.Cond] == 1 {
						c = stay == 0
					} else {
						c = stay != 0
					}
				} else {
					c = rt.evalBool(fr, x.Cond)
				}
				prev = b
				if c {
					b = b.Succs[0]
				} else {
					b = b.Succs[1]
				}
			case *ssa.Jump:
				prev = b
				b = b.Succs[0]
			case *ssa.Return:
				if len(x.Results) == 1 {
					if bt, ok := x.Results[0].Type().Underlying().(*types.Basic); ok && bt.Kind() == types.Bool {
						rt.run.lastBool = rt.evalBool(fr, x.Results[0])
						if fr.depth == 0 {
							rt.run.ret = fmt.Sprint(rt.run.lastBool)
						}
						return
					}
				}
				if fr.depth == 0 {
					if len(x.Results) > 0 {
						if bt, ok := x.Results[0].Type().Underlying().(*types.Basic); ok && bt.Kind() == types.Bool {
							rt.run.ret = fmt.Sprint(rt.evalBool(fr, x.Results[0]))
							return
						}
						rt.run.ret = rt.desc(fr, x.Results[0], 0)
					} else {
						rt.run.ret = "return"
					}
				}
				return
			case *ssa.Panic:
				rt.run.abort = "panic"
				return
			}
		}
	}
}

func (rt *router) call(fr *routeFrame, c *ssa.Call) {
	g := core.StaticCallee(c)
	// a sub-validation: <constructor>(schema, …).Validate(data)
	if name := c.Call.Method; (name != nil && name.Name() == "Validate") || (g != nil && g.Name() == "Validate" && g.Signature.Recv() != nil) {
		var recv ssa.Value
		var data ssa.Value
		if c.Call.IsInvoke() {
			recv = c.Call.Value
			if len(c.Call.Args) > 0 {
				data = c.Call.Args[0]
			}
		} else if len(c.Call.Args) > 1 {
			recv, data = c.Call.Args[0], c.Call.Args[1]
		}
		if ctor, ok := recv.(*ssa.Call); ok && data != nil && len(ctor.Call.Args) > 0 {
			rt.run.events = append(rt.run.events, "VALIDATE["+rt.desc(fr, ctor.Call.Args[0], 0)+"]("+rt.desc(fr, data, 0)+")")
		}
		return
	}
	if g != nil && g.Pkg != nil && strings.HasSuffix(g.Pkg.Pkg.Path(), "go-openapi/errors") {
		rt.run.events = append(rt.run.events, "ERROR["+g.Name()+"]")
		return
	}
	if g == nil || !rt.p.InSubject(g) {
		return
	}
	if strings.HasSuffix(g.Name(), "Msg") && g.Signature.Recv() == nil {
		rt.run.events = append(rt.run.events, "MSG["+g.Name()+"]")
		return
	}
	if name, ok := rt.primitive[g]; ok {
		args := c.Call.Args
		if g.Signature.Recv() != nil {
			args = args[1:]
		}
		var as []string
		for k, a := range args {
			if k < 2 {
				as = append(as, rt.desc(fr, a, 0))
			}
		}
		rt.run.events = append(rt.run.events, name+"("+strings.Join(as, ",")+")")
		return
	}
	// inline methods of the same receiver type
	if g.Signature.Recv() == nil || core.NamedOf(g.Signature.Recv().Type()) != rt.recvType || fr.depth >= 3 || len(g.Blocks) == 0 {
		return
	}
	if rt.relevant != nil && !rt.relevant(g) {
		// boolean predicates of the same receiver (an extracted search loop) are always followed: their
		// conditions are what the configuration is made of
		if !(g.Signature.Results().Len() == 1 && g.Signature.Results().At(0).Type().String() == "bool") {
			return
		}
	}
	nf := &routeFrame{fn: g, phi: map[*ssa.Phi]string{}, phiB: map[*ssa.Phi]bool{}, visits: map[*ssa.BasicBlock]int{}, ranges: map[ssa.Value]int{}, cells: map[*ssa.Alloc]string{}, depth: fr.depth + 1}
	for _, a := range c.Call.Args {
		nf.args = append(nf.args, rt.desc(fr, a, 0))
	}
	rt.simulate(nf)
	if g.Signature.Results().Len() == 1 && g.Signature.Results().At(0).Type().String() == "bool" && rt.run.abort == "" {
		if fr.calls == nil {
			fr.calls = map[*ssa.Call]bool{}
		}
		fr.calls[c] = rt.run.lastBool
	}
}

// enumerate runs every consistent configuration once.
func (rt *router) enumerate(entry *ssa.Function, args []string, each func(run *routeRun)) int {
	var decisions []bool
	n := 0
	for {
		rt.run = &routeRun{decisions: append([]bool{}, decisions...), atoms: map[string]bool{}}
		fr := &routeFrame{fn: entry, args: args, phi: map[*ssa.Phi]string{}, phiB: map[*ssa.Phi]bool{}, visits: map[*ssa.BasicBlock]int{}, ranges: map[ssa.Value]int{}, cells: map[*ssa.Alloc]string{}}
		rt.simulate(fr)
		n++
		each(rt.run)
		// next: flip the last false decision
		decisions = rt.run.decisions[:min(len(rt.run.decisions), rt.run.cursor)]
		k := len(decisions) - 1
		for k >= 0 && decisions[k] {
			k--
		}
		if k < 0 || n > 20000 {
			return n
		}
		decisions = append(append([]bool{}, decisions[:k]...), true)
	}
}

func ObjectRouting(p *core.Prog, r *core.Report) {
	const rule = "ROUTING"
	entry := p.Func("(*objectValidator).Validate")
	if entry == nil {
		r.Unk(rule, "object:entry", "-", "(*objectValidator).Validate not found")
		return
	}
	recvT := core.NamedOf(entry.Signature.Recv().Type())
	fProps := keywordFieldOf(p, "newObjectValidator", "Properties")
	fPat := keywordFieldOf(p, "newObjectValidator", "PatternProperties")
	fAdd := keywordFieldOf(p, "newObjectValidator", "AdditionalProperties")
	if fProps == "" || fPat == "" || fAdd == "" {
		r.Unk(rule, "object:keyword-fields", p.Pos(entry.Pos()), "cannot resolve the fields of the object validator that hold properties / patternProperties / additionalProperties")
		return
	}
	// the pattern matcher: the method of the type that ranges over recv.PatternProperties and validates its
	// own value parameter with a schema validator built inside that range
	var matcher *ssa.Function
	for _, f := range p.Funcs {
		if f.Parent() != nil || f.Signature.Recv() == nil || core.NamedOf(f.Signature.Recv().Type()) != recvT || len(f.Params) < 3 {
			continue
		}
		rangesPatterns, validatesParam := false, false
		core.EachInstr(f, func(i ssa.Instruction) {
			if rg, ok := i.(*ssa.Range); ok {
				if pth, ok := core.StablePath(rg.X); ok && strings.HasSuffix(pth, "."+fPat) {
					rangesPatterns = true
				}
			}
			if c, ok := i.(*ssa.Call); ok {
				if (c.Call.Method != nil && c.Call.Method.Name() == "Validate") || (core.StaticCallee(c) != nil && core.StaticCallee(c).Name() == "Validate") {
					for _, a := range c.Call.Args {
						for _, prm := range f.Params[1:] {
							if a == ssa.Value(prm) {
								validatesParam = true
							}
						}
					}
				}
			}
		})
		if rangesPatterns && validatesParam {
			matcher = f
		}
	}
	if matcher == nil {
		r.Unk(rule, "object:pattern-matcher", p.Pos(entry.Pos()), "cannot identify the method that validates a member against the matching patternProperties")
		return
	}
	// callees that can hand the member to the matcher or validate it against additionalProperties
	interesting := map[*ssa.Function]bool{}
	for _, f := range p.Funcs {
		core.EachInstr(f, func(i ssa.Instruction) {
			c, ok := i.(*ssa.Call)
			if !ok {
				return
			}
			if core.StaticCallee(c) == matcher {
				interesting[f] = true
			}
			if g := core.StaticCallee(c); g != nil && g.Name() == "PropertyNotAllowed" {
				interesting[f] = true
			}
			for _, a := range c.Call.Args {
				if pth, ok := core.StablePath(a); ok && strings.HasSuffix(pth, fAdd+".Schema") {
					interesting[f] = true
				}
			}
		})
	}
	for changed := true; changed; {
		changed = false
		for _, f := range p.Funcs {
			if interesting[f] || f.Signature.Recv() == nil || core.NamedOf(f.Signature.Recv().Type()) != recvT {
				continue
			}
			core.EachInstr(f, func(i ssa.Instruction) {
				if c, ok := i.(*ssa.Call); ok {
					if g := core.StaticCallee(c); g != nil && g != matcher && interesting[g] && g.Signature.Recv() != nil && core.NamedOf(g.Signature.Recv().Type()) == recvT && !interesting[f] {
						interesting[f], changed = true, true
					}
				}
			})
		}
	}
	rt := &router{p: p, recvType: recvT, primitive: map[*ssa.Function]string{matcher: "PATTERNS"}, relevant: func(g *ssa.Function) bool { return interesting[g] }}
	recorder := p.Func("(*Result).mergeForField")
	if recorder != nil {
		rt.primitive[recorder] = "RECORD"
	}
	const K, V = "K(arg1)", "V(arg1)"
	patEvent := "PATTERNS(" + K + "," + V + ")"
	addEvent := "VALIDATE[recv." + fAdd + ".Schema](" + V + ")"
	nRuns, nNormal := 0, 0
	var missPat, missAdd, missForbid, spuriousForbid, aborted, missRecord []string
	config := func(run *routeRun) string {
		var ks []string
		for a, v := range run.atoms {
			if v {
				ks = append(ks, a)
			} else {
				ks = append(ks, "!"+a)
			}
		}
		sort.Strings(ks)
		return strings.Join(ks, " ∧ ")
	}
	total := rt.enumerate(entry, []string{"recv", "arg1"}, func(run *routeRun) {
		nRuns++
		if run.abort == "panic" {
			return
		}
		if run.abort != "" {
			aborted = append(aborted, run.abort)
			return
		}
		// premise: a generic member exists and the run ends in the normal return (not an early error return)
		if strings.HasPrefix(run.ret, "ret0:sErr") {
			return
		}
		has := func(ev string) bool {
			for _, e := range run.events {
				if e == ev {
					return true
				}
			}
			return false
		}
		if v, ok := run.atoms["arg1==nil"]; ok && v {
			return // no members
		}
		if v, ok := run.atoms["is(arg1,map[string]interface{})"]; ok && !v {
			return
		}
		nNormal++
		if !has(patEvent) {
			missPat = append(missPat, config(run))
		}
		// what the post-processors go by: a member that a pattern property (not a declared one) or the schema of
		// additionalProperties describes is recorded for its key — without a record, Prune removes a described member
		if recorder != nil {
			rec := has("RECORD(arg1," + K + ")")
			reg, regK := run.atoms["has(recv."+fProps+","+K+")"]
			matched, mK := run.atoms["ret0:"+matcher.Name()+"("+K+","+V+")"]
			infeasible := false
			for a, v := range run.atoms {
				if strings.HasPrefix(a, "has(recv.") && strings.Contains(a, "ret2:"+matcher.Name()) && !v {
					infeasible = true // a pattern the matcher just reported is a key of the pattern properties
				}
			}
			if regK && !reg && mK && matched && !infeasible && !rec {
				missRecord = append(missRecord, "matched by a pattern property: "+config(run))
			}
			if has(addEvent) && !rec {
				missRecord = append(missRecord, "validated by the additionalProperties schema: "+config(run))
			}
		}
		// additionalProperties as a schema: required for a member that is neither declared nor matched
		enabled := true
		need := map[string]bool{
			"has(recv." + fProps + "," + K + ")":                false,
			"recv." + fAdd + "==nil":                            false,
			"recv." + fAdd + ".Schema==nil":                     false,
			"recv." + fAdd + ".Allows":                          true,
			"ret0:validatePatternProperty(" + K + "," + V + ")": false,
			"ret1:validatePatternProperty(" + K + "," + V + ")": false,
		}
		for a, want := range need {
			if strings.HasPrefix(a, "ret") {
				a = strings.Replace(a, "validatePatternProperty", matcher.Name(), 1)
			}
			if got, ok := run.atoms[a]; ok && got != want {
				enabled = false
			}
		}
		if enabled && !has(addEvent) {
			missAdd = append(missAdd, config(run))
		}
		// additionalProperties: false — an undeclared member that no pattern matches is an error, and only then
		at := func(a string) (bool, bool) { v, ok := run.atoms[a]; return v, ok }
		forbidden := false
		if n, ok := at("recv." + fAdd + "==nil"); ok && !n {
			if al, ok := at("recv." + fAdd + ".Allows"); ok && !al {
				forbidden = true
			}
		}
		regular, regKnown := at("has(recv." + fProps + "," + K + ")")
		matchedByPattern := false
		for a, v := range run.atoms {
			if strings.Contains(a, "MatchString(") && v {
				matchedByPattern = true
			}
		}
		special := false
		for _, name := range []string{"\"$schema\"", "\"id\""} {
			if v, ok := at(name + "==" + K); ok && v {
				special = true
			}
		}
		if forbidden && regKnown && !regular && !matchedByPattern && !special && !has("ERROR[PropertyNotAllowed]") {
			missForbid = append(missForbid, config(run))
		}
		if has("ERROR[PropertyNotAllowed]") && (!forbidden || regular || matchedByPattern) {
			spuriousForbid = append(spuriousForbid, config(run))
		}
	})
	if total > 20000 {
		r.Unk(rule, "object:enumeration:complete", p.Pos(entry.Pos()), "more than 20000 configurations: the enumeration was cut off")
	}
	r.Count("routing_configurations", nRuns)
	r.Count("routing_configurations_normal_return", nNormal)
	r.Floor("routing_configurations_normal_return", 8)
	if recorder != nil {
		if len(missRecord) > 0 {
			r.Bad(rule, "object:member-recorded", p.Pos(entry.Pos()), fmt.Sprintf("a member described by a pattern property or by the schema of additionalProperties is validated but not recorded under its key in %d configuration(s), e.g. %s — Prune removes it although a schema describes it", len(missRecord), missRecord[0]))
		} else {
			r.OK(rule, "object:member-recorded", p.Pos(entry.Pos()), "in every configuration a member matched by a pattern property (and not declared) or validated by the additionalProperties schema is recorded under its key")
		}
	}
	if len(aborted) > 0 {
		r.Unk(rule, "object:enumeration", p.Pos(entry.Pos()), "some runs could not be completed: "+strings.Join(uniq(aborted), "; "))
	}
	if len(missPat) == 0 {
		r.OK(rule, "object:patternProperties:every-member", p.Pos(entry.Pos()), fmt.Sprintf("in each of the %d configurations that reach the normal return, the generic member (K,V) of the instance is handed to %s, which validates it against every matching pattern schema", nNormal, matcher.Name()))
	} else {
		r.Bad(rule, "object:patternProperties:every-member", p.Pos(entry.Pos()), fmt.Sprintf("in %d of %d configurations a member of the instance is never checked against patternProperties — e.g. when %s", len(missPat), nNormal, missPat[0]))
	}
	if len(missForbid) == 0 {
		r.OK(rule, "object:additionalProperties:false", p.Pos(entry.Pos()), "with additionalProperties:false every member that is neither declared, nor matched by a pattern, nor one of the ignored names $schema / id raises 'property not allowed'")
	} else {
		r.Bad(rule, "object:additionalProperties:false", p.Pos(entry.Pos()), fmt.Sprintf("in %d configurations an undeclared, unmatched member passes although additionalProperties is false — e.g. when %s", len(missForbid), missForbid[0]))
	}
	if len(spuriousForbid) == 0 {
		r.OK(rule, "object:additionalProperties:false:only-then", p.Pos(entry.Pos()), "'property not allowed' is raised only when additionalProperties is false and the member is neither declared nor matched")
	} else {
		r.Bad(rule, "object:additionalProperties:false:only-then", p.Pos(entry.Pos()), fmt.Sprintf("in %d configurations 'property not allowed' is raised for a declared or matched member, or although additional properties are allowed — e.g. when %s", len(spuriousForbid), spuriousForbid[0]))
	}
	if len(missAdd) == 0 {
		r.OK(rule, "object:additionalProperties:schema", p.Pos(entry.Pos()), "a member that is neither a declared property nor matched by a pattern is validated against additionalProperties whenever that is a schema")
	} else {
		r.Bad(rule, "object:additionalProperties:schema", p.Pos(entry.Pos()), fmt.Sprintf("in %d configurations an undeclared, unmatched member is not validated against the additionalProperties schema — e.g. when %s", len(missAdd), missAdd[0]))
	}
}

// loopCond: the condition of a loop header that depends on a φ of a loop (the induction variable).
func loopCond(b *ssa.BasicBlock, cond ssa.Value) bool {
	bo, ok := cond.(*ssa.BinOp)
	if !ok {
		return false
	}
	var dep func(v ssa.Value, d int) bool
	dep = func(v ssa.Value, d int) bool {
		if d > 3 {
			return false
		}
		switch x := v.(type) {
		case *ssa.Phi:
			// a φ with an incoming edge from a block it dominates (back edge)
			for _, pr := range x.Block().Preds {
				if x.Block().Dominates(pr) {
					return true
				}
			}
		case *ssa.BinOp:
			return dep(x.X, d+1) || dep(x.Y, d+1)
		}
		return false
	}
	switch bo.Op {
	case token.LSS, token.LEQ, token.GTR, token.GEQ:
		return dep(bo.X, 0) || dep(bo.Y, 0)
	}
	return false
}

// loopStaySucc: for a branch on the induction variable of a loop, the successor index that stays in the loop.
func loopStaySucc(b *ssa.BasicBlock, cond ssa.Value) (int, bool) {
	if !loopCond(b, cond) {
		return 0, false
	}
	// smallest natural loop containing b
	var loop map[*ssa.BasicBlock]bool
	for _, L := range allLoopsOf(b.Parent()) {
		if L[b] && (loop == nil || len(L) < len(loop)) {
			loop = L
		}
	}
	if loop == nil || len(b.Succs) != 2 {
		return 0, false
	}
	in0, in1 := loop[b.Succs[0]], loop[b.Succs[1]]
	switch {
	case in0 && !in1:
		return 0, true
	case in1 && !in0:
		return 1, true
	}
	return 0, false
}

// SliceRouting — the same enumeration for (*schemaSliceValidator).Validate: which schema a generic element is
// validated against in every configuration of items (single schema / tuple) and additionalItems.
func SliceRouting(p *core.Prog, r *core.Report) {
	const rule = "ROUTING"
	entry := p.Func("(*schemaSliceValidator).Validate")
	if entry == nil {
		r.Unk(rule, "slice:entry", "-", "(*schemaSliceValidator).Validate not found")
		return
	}
	fItems := keywordFieldOf(p, "newSliceValidator", "Items")
	fAddI := keywordFieldOf(p, "newSliceValidator", "AdditionalItems")
	if fItems == "" || fAddI == "" {
		r.Unk(rule, "slice:keyword-fields", p.Pos(entry.Pos()), "cannot resolve the fields of the array validator that hold items / additionalItems")
		return
	}
	rt := &router{p: p, recvType: core.NamedOf(entry.Signature.Recv().Type()), primitive: map[*ssa.Function]string{}, relevant: func(*ssa.Function) bool { return false }}
	// record the message constructors of the package as events too
	type viol struct{ what, cfg string }
	var viols []viol
	nNormal := 0
	var aborted []string
	total := rt.enumerate(entry, []string{"recv", "arg1"}, func(run *routeRun) {
		if run.abort == "panic" {
			return
		}
		if run.abort != "" {
			aborted = append(aborted, run.abort)
			return
		}
		if v, ok := run.atoms["arg1==nil"]; ok && v {
			return
		}
		nNormal++
		if os.Getenv("VCHK_ROUTE") != "" {
			for _, e := range run.events {
				fmt.Println("EVENT", e)
			}
		}
		at := func(a string) (val, known bool) { val, known = run.atoms[a]; return }
		find := func(sub string) (string, bool, bool) {
			for a, v := range run.atoms {
				if strings.Contains(a, sub) {
					return a, v, true
				}
			}
			return "", false, false
		}
		hasEv := func(prefix string) bool {
			for _, e := range run.events {
				if strings.HasPrefix(e, prefix) {
					return true
				}
			}
			return false
		}
		var ks []string
		for a, v := range run.atoms {
			if v {
				ks = append(ks, a)
			} else {
				ks = append(ks, "!"+a)
			}
		}
		sort.Strings(ks)
		cfg := strings.Join(ks, " ∧ ")
		// possibly(a, want): the configuration does not contradict atom a == want
		possibly := func(a string, want bool) bool { v, known := at(a); return !known || v == want }
		itemsSet := possibly("recv."+fItems+"==nil", false)
		list := itemsSet && possibly("recv."+fItems+".Schema==nil", false)
		_, tupV, tupKnown := find("0<ret0:len(recv." + fItems + ".Schemas)")
		tuple := itemsSet && (!tupKnown || tupV)
		tupleSure := tupKnown && tupV
		if n, known := at("recv." + fItems + "==nil"); !known || n {
			tupleSure = false
		}
		// items: one schema for every element
		if v, known := at("recv." + fItems + ".Schema==nil"); known && !v {
			if n, k := at("recv." + fItems + "==nil"); k && !n && !hasEv("VALIDATE[recv."+fItems+".Schema](") {
				viols = append(viols, viol{"items-as-schema: elements are not validated against items", cfg})
			}
		}
		_ = list
		// tuple: element i against Schemas[i]
		if tupleSure && !hasEv("VALIDATE[recv."+fItems+".Schemas[") {
			viols = append(viols, viol{"items-as-tuple: the element at a position inside the tuple is not validated against the schema of that position", cfg})
		}
		// additionalItems
		_, moreV, moreKnown := find(".Len()")
		addSet, addKnown := at("recv." + fAddI + "==nil")
		addPresent := addKnown && !addSet
		more := moreKnown && moreV
		if v, known := at("recv." + fAddI + ".Schema==nil"); known && !v && addPresent && more && tupleSure {
			if !hasEv("VALIDATE[recv." + fAddI + ".Schema](") {
				viols = append(viols, viol{"additionalItems-as-schema: an element beyond the tuple is not validated against additionalItems", cfg})
			}
		}
		// first element of each loop: the list and the tuple start at 0, additionalItems right after the tuple
		for _, e := range run.events {
			switch {
			case strings.HasPrefix(e, "VALIDATE[recv."+fItems+".Schema]("), strings.HasPrefix(e, "VALIDATE[recv."+fItems+".Schemas["):
				if !strings.Contains(e, ".Index(0).") {
					viols = append(viols, viol{"items loop does not start at the first element: " + e, cfg})
				}
			case strings.HasPrefix(e, "VALIDATE[recv."+fAddI+".Schema]("):
				if !strings.Contains(e, ".Index(ret0:len(recv."+fItems+".Schemas)).") {
					viols = append(viols, viol{"additionalItems loop does not start at the element that follows the tuple: " + e, cfg})
				}
			}
		}
		if hasEv("VALIDATE[recv."+fAddI+".Schema](") && !(addPresent && tuple) {
			viols = append(viols, viol{"additionalItems applied although there is no tuple (it only constrains the elements following a tuple)", cfg})
		}
		if al, known := at("recv." + fAddI + ".Allows"); known && !al && addPresent && more && tupleSure && !hasEv("MSG[") {
			viols = append(viols, viol{"additionalItems:false: an element beyond the tuple is not rejected", cfg})
		}
		if hasEv("MSG[") {
			al, known := at("recv." + fAddI + ".Allows")
			if !(addPresent && more && tuple && known && !al) {
				viols = append(viols, viol{"'additional items not allowed' is raised although additionalItems allows them, there is no tuple, or there is no element beyond it", cfg})
			}
		}
	})
	if total > 20000 {
		r.Unk(rule, "slice:enumeration:complete", p.Pos(entry.Pos()), "more than 20000 configurations: the enumeration was cut off")
	}
	if len(aborted) > 0 {
		r.Unk(rule, "slice:enumeration", p.Pos(entry.Pos()), "some runs could not be completed: "+strings.Join(uniq(aborted), "; "))
	}
	r.Count("slice_routing_configurations", nNormal)
	r.Floor("slice_routing_configurations", 8)
	byWhat := map[string][]string{}
	for _, v := range viols {
		byWhat[v.what] = append(byWhat[v.what], v.cfg)
	}
	clauses := []string{"items-as-schema", "items-as-tuple", "additionalItems-as-schema", "additionalItems applied although", "additionalItems:false", "'additional items not allowed' is raised", "items loop does not start", "additionalItems loop does not start"}
	names := []string{"items:schema", "items:tuple", "additionalItems:schema", "additionalItems:only-after-tuple", "additionalItems:false", "additionalItems:false:only-then", "items:from-first-element", "additionalItems:from-tuple-length"}
	for k, cl := range clauses {
		var hit string
		n := 0
		for w, cfgs := range byWhat {
			if strings.HasPrefix(w, cl) {
				hit, n = w+" — e.g. when "+cfgs[0], len(cfgs)
			}
		}
		if n == 0 {
			r.OK(rule, "slice:"+names[k], p.Pos(entry.Pos()), fmt.Sprintf("holds in each of the %d configurations enumerated", nNormal))
		} else {
			r.Bad(rule, "slice:"+names[k], p.Pos(entry.Pos()), fmt.Sprintf("in %d configurations: %s", n, hit))
		}
	}
}

// keywordFieldOf: the field of the sub-validator built by ctor that receives the schema keyword specField
// (resolved from the constructor call in the package, so that a rename of the validator's field is followed).
func keywordFieldOf(p *core.Prog, ctor, specField string) string {
	g := p.Func(ctor)
	if g == nil {
		return ""
	}
	found := ""
	for _, f := range p.Funcs {
		core.EachInstr(f, func(i ssa.Instruction) {
			c, ok := i.(*ssa.Call)
			if !ok || core.StaticCallee(c) != g {
				return
			}
			for k, a := range c.Call.Args {
				if pth, ok := core.StablePath(a); ok && strings.HasSuffix(pth, "."+specField) {
					if fs := ctorParamFields(g, k); len(fs) == 1 {
						found = fs[0]
					}
				}
			}
		})
	}
	return found
}

// runConfig renders the configuration of a run.
func runConfig(run *routeRun) string {
	var ks []string
	for a, v := range run.atoms {
		if v {
			ks = append(ks, a)
		} else {
			ks = append(ks, "!"+a)
		}
	}
	sort.Strings(ks)
	return strings.Join(ks, " ∧ ")
}

func runHasEvent(run *routeRun, prefix string) bool {
	for _, e := range run.events {
		if strings.HasPrefix(e, prefix) {
			return true
		}
	}
	return false
}

// atomsMatching returns the atoms of the run whose name starts with prefix.
func atomsMatching(run *routeRun, prefix string) map[string]bool {
	out := map[string]bool{}
	for a, v := range run.atoms {
		if strings.HasPrefix(a, prefix) {
			out[a] = v
		}
	}
	return out
}

// KeywordRouting — `required` and `dependencies` decided over configurations with the same engine.
func KeywordRouting(p *core.Prog, r *core.Report) {
	const rule = "ROUTING"
	report := func(key string, pos string, n int, viol []string, okMsg, badMsg string) {
		if len(viol) == 0 {
			r.OK(rule, key, pos, fmt.Sprintf("%s (each of the %d configurations enumerated)", okMsg, n))
		} else {
			r.Bad(rule, key, pos, fmt.Sprintf("%s in %d of %d configurations — e.g. when %s", badMsg, len(viol), n, viol[0]))
		}
	}
	// ---- required ----------------------------------------------------------------------
	if f := p.Func("(*objectValidator).validatePropertiesSchema"); f == nil {
		r.Unk(rule, "required:entry", "-", "(*objectValidator).validatePropertiesSchema not found")
	} else {
		fReq := keywordFieldOf(p, "newObjectValidator", "Required")
		fProps := keywordFieldOf(p, "newObjectValidator", "Properties")
		rt := &router{p: p, recvType: core.NamedOf(f.Signature.Recv().Type()), primitive: map[*ssa.Function]string{}, relevant: func(*ssa.Function) bool { return false }}
		recorder := p.Func("(*Result).mergeForField")
		if recorder != nil {
			rt.primitive[recorder] = "RECORD"
		}
		var missing, spurious, unvalidated, unrecorded, aborted []string
		n := 0
		total := rt.enumerate(f, []string{"recv", "arg1", "res"}, func(run *routeRun) {
			if run.abort != "" {
				if run.abort != "panic" {
					aborted = append(aborted, run.abort)
				}
				return
			}
			n++
			// the generic required name k: present in the instance? created from a default?
			inData := atomsMatching(run, "has(arg1,recv."+fReq+"[")
			fromDefault := atomsMatching(run, "has(new:")
			errd := runHasEvent(run, "ERROR[Required]")
			if len(inData) == 1 {
				absent := false
				for _, v := range inData {
					absent = !v
				}
				def := false
				for a, v := range fromDefault {
					if strings.Contains(a, "recv."+fReq+"[") && v {
						def = true
					}
				}
				if absent && !def && !errd {
					missing = append(missing, runConfig(run))
				}
				if errd && (!absent || def) {
					spurious = append(spurious, runConfig(run))
				}
			} else if errd {
				spurious = append(spurious, runConfig(run))
			} else if empty, known := run.atoms["0==ret0:len(recv."+fReq+")"]; !(known && empty) {
				// the list of required names is not empty in this configuration, yet no name was examined
				missing = append(missing, runConfig(run))
			}
			// a declared property that is present is validated (with the value stored under its own name)
			if v, ok := run.atoms["has(arg1,K(recv."+fProps+"))"]; ok && v && !runHasEvent(run, "VALIDATE[") {
				unvalidated = append(unvalidated, runConfig(run))
			}
			// … and recorded under its own name (what Prune and ApplyDefaults go by)
			if v, ok := run.atoms["has(arg1,K(recv."+fProps+"))"]; ok && v && recorder != nil && !runHasEvent(run, "RECORD(arg1,K(recv."+fProps+"))") {
				unrecorded = append(unrecorded, runConfig(run))
			}
		})
		pos := p.Pos(f.Pos())
		if total > 20000 || len(aborted) > 0 {
			r.Unk(rule, "required:enumeration", pos, "enumeration incomplete: "+strings.Join(uniq(aborted), "; "))
		}
		if fReq == "" || fProps == "" {
			r.Unk(rule, "required:keyword-fields", pos, "cannot resolve the fields holding required / properties")
		}
		r.Count("required_routing_configurations", n)
		r.Floor("required_routing_configurations", 8)
		report("required:missing-is-an-error", pos, n, missing, "a required name that is neither a member of the instance nor created from a default raises 'required'", "a missing required member is not reported")
		report("required:only-then", pos, n, spurious, "'required' is raised only for a name that is absent and not created from a default", "'required' is raised for a member that is present or defaulted")
		report("properties:present-is-validated", pos, n, unvalidated, "a declared property that is present is validated against its schema", "a declared, present property is not validated")
		if recorder != nil {
			report("properties:present-is-recorded", pos, n, unrecorded, "the result of a declared property that is present is recorded under that property's name", "a declared, present property is validated but not recorded under its name (Prune removes it although it is declared)")
		}
	}
	// ---- dependencies ------------------------------------------------------------------
	if f := p.Func("(*schemaPropsValidator).validateDependencies"); f == nil {
		r.Unk(rule, "dependencies:entry", "-", "(*schemaPropsValidator).validateDependencies not found")
	} else {
		fDep := keywordFieldOf(p, "newSchemaPropsValidator", "Dependencies")
		// (methods of the same validator are followed: the body of the loop may live in one)
		rt := &router{p: p, recvType: core.NamedOf(f.Signature.Recv().Type()), primitive: map[*ssa.Function]string{}, relevant: func(*ssa.Function) bool { return true }}
		var noSchema, noProp, spurious, aborted []string
		n := 0
		K := "K(arg1)"
		total := rt.enumerate(f, []string{"recv", "arg1", "res"}, func(run *routeRun) {
			if run.abort != "" {
				if run.abort != "panic" {
					aborted = append(aborted, run.abort)
				}
				return
			}
			n++
			has, hasKnown := run.atoms["has(recv."+fDep+","+K+")"]
			schemaNil, snKnown := run.atoms["recv."+fDep+"["+K+"].Schema==nil"]
			val := runHasEvent(run, "VALIDATE[recv."+fDep+"["+K+"].Schema](arg1)")
			msg := runHasEvent(run, "MSG[")
			depMissing := false
			for a, v := range atomsMatching(run, "has(arg1,recv."+fDep+"["+K+"].Property[") {
				_ = a
				if !v {
					depMissing = true
				}
			}
			if hasKnown && has && snKnown && !schemaNil && !val {
				noSchema = append(noSchema, runConfig(run))
			}
			if hasKnown && has && snKnown && schemaNil && depMissing && !msg {
				noProp = append(noProp, runConfig(run))
			}
			if (val || msg) && !(hasKnown && has) {
				spurious = append(spurious, runConfig(run))
			}
			if msg && !depMissing {
				spurious = append(spurious, runConfig(run))
			}
		})
		pos := p.Pos(f.Pos())
		if total > 20000 || len(aborted) > 0 {
			r.Unk(rule, "dependencies:enumeration", pos, "enumeration incomplete: "+strings.Join(uniq(aborted), "; "))
		}
		if fDep == "" {
			r.Unk(rule, "dependencies:keyword-field", pos, "cannot resolve the field holding dependencies")
		}
		r.Count("dependencies_routing_configurations", n)
		r.Floor("dependencies_routing_configurations", 3)
		report("dependencies:schema", pos, n, noSchema, "a member with a schema dependency makes the whole instance validate against that schema", "a schema dependency of a present member is not applied")
		report("dependencies:property", pos, n, noProp, "a member with property dependencies raises an error for each dependency that is absent", "an absent property dependency of a present member is not reported")
		report("dependencies:only-then", pos, n, spurious, "dependencies are applied only for members that are present and declare them, and an error only for an absent dependency", "a dependency is applied or reported although the member is absent / declares none / the dependency is present")
	}
}
