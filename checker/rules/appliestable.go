package rules

import (
	"fmt"
	"go/constant"
	"reflect"
	"sort"
	"strings"

	"golang.org/x/tools/go/ssa"

	"verifchk/core"
)

// APPLIES-TABLE — a keyword group is consulted only for the kinds of data its Applies method admits. For the
// groups that hold kind-specific keywords the admitted kinds are decided exactly: Applies is evaluated by
// constant propagation for every reflect.Kind (the source left unknown) and must be possibly-true for every
// kind the keywords govern and constant false for every other kind:
//
//	string keywords (maxLength…)  : String                      number keywords (maximum…) : every Int*, Uint*, Float*
//	object keywords (maxProperties…): Map (Struct tolerated)     array keywords (maxItems…) : Slice (Array tolerated)
//
// The group is identified by the schema keyword its constructor receives (spec field names), not by its name.
func AppliesTable(p *core.Prog, r *core.Report) {
	const rule = "APPLIES-TABLE"
	roleOf := map[string]string{".MaxLength": "string", ".Maximum": "number", ".MaxProperties": "object", ".MaxItems": "array"}
	type grp struct {
		T    string
		role string
	}
	seen := map[string]bool{}
	var groups []grp
	for _, f := range p.Funcs {
		core.EachInstr(f, func(i ssa.Instruction) {
			c, ok := i.(*ssa.Call)
			if !ok {
				return
			}
			g := core.StaticCallee(c)
			if g == nil || !p.InSubject(g) || g.Signature.Results().Len() != 1 {
				return
			}
			T := core.NamedOf(g.Signature.Results().At(0).Type())
			if T == nil {
				return
			}
			for _, a := range c.Call.Args {
				pth, ok := core.StablePath(a)
				if !ok {
					continue
				}
				for suf, role := range roleOf {
					if strings.HasSuffix(pth, suf) && !seen[core.KnownTypeName(T)+role] {
						seen[core.KnownTypeName(T)+role] = true
						groups = append(groups, grp{core.KnownTypeName(T), role})
					}
				}
			}
		})
	}
	sort.Slice(groups, func(i, j int) bool { return groups[i].T < groups[j].T })
	na := newNilAn(p)
	kinds := []reflect.Kind{reflect.Bool, reflect.Int, reflect.Int8, reflect.Int16, reflect.Int32, reflect.Int64, reflect.Uint, reflect.Uint8, reflect.Uint16, reflect.Uint32, reflect.Uint64, reflect.Float32, reflect.Float64, reflect.String, reflect.Slice, reflect.Array, reflect.Map, reflect.Struct, reflect.Ptr, reflect.Interface}
	must := map[string]func(k reflect.Kind) (want, tolerated bool){
		"string": func(k reflect.Kind) (bool, bool) { return k == reflect.String, false },
		"number": func(k reflect.Kind) (bool, bool) {
			return (k >= reflect.Int && k <= reflect.Uint64) || k == reflect.Float32 || k == reflect.Float64, false
		},
		"object": func(k reflect.Kind) (bool, bool) { return k == reflect.Map, k == reflect.Struct },
		"array":  func(k reflect.Kind) (bool, bool) { return k == reflect.Slice, k == reflect.Array },
	}
	n := 0
	for _, g := range groups {
		af := p.Func("(*" + g.T + ").Applies")
		if af == nil || len(af.Params) != 3 {
			continue // not a dispatched group (e.g. an outer validator)
		}
		n++
		var bad []string
		for _, k := range kinds {
			di := &dynInterp{p: p, na: na, memo: map[string]aval{}, open: map[string]bool{}, issues: map[string]*dynIssue{}, atoms: map[string]map[string]bool{}, checked: map[ssa.Instruction]bool{}, dataPos: map[*ssa.Function]map[int]bool{}, reached: map[*ssa.BasicBlock]bool{}, analysed: map[*ssa.Function]bool{}, arith: true}
			res := di.run(af, []aval{{k: avValid}, top, cInt(int64(k))}, 0)
			never := res.k == avConst && res.c.Kind() == constant.Bool && !constant.BoolVal(res.c)
			want, tol := must[g.role](k)
			switch {
			case want && never:
				bad = append(bad, fmt.Sprintf("never applies to kind %s (its %s keywords are skipped for such values)", k, g.role))
			case !want && !tol && !never:
				bad = append(bad, fmt.Sprintf("may apply to kind %s (%s keywords on a value they do not govern)", k, g.role))
			}
		}
		key := g.T + ":" + g.role
		if len(bad) > 0 {
			r.Bad(rule, key, p.Pos(af.Pos()), g.T+".Applies: "+strings.Join(bad, "; "))
		} else {
			r.OK(rule, key, p.Pos(af.Pos()), fmt.Sprintf("admits exactly the kinds the %s keywords govern (%d kinds evaluated)", g.role, len(kinds)))
		}
	}
	r.Count("applies_tables", n)
	r.Floor("applies_tables", 5)
}
