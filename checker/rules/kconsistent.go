package rules

import (
	"fmt"
	"go/constant"
	"go/token"
	"go/types"
	"sort"
	"strings"

	"golang.org/x/tools/go/ssa"

	"verifchk/core"
)

// K-CONSISTENT — at every site where a container validator validates one member, the same SSA value K
// is (1) what extends the parent's path, (2) what selects the member's data, (3) the key under which
// the child's result is merged; and the validation of a present member is not filtered by the member's
// value or by comparisons of the key with constants (MEMBER-GUARD).

type pathParts struct {
	hasPath bool        // a load of <receiver>.Path
	keys    []ssa.Value // non-constant leaves other than the path
	consts  []string
	ok      bool
}

func leafOf(v ssa.Value) ssa.Value {
	for {
		switch x := v.(type) {
		case *ssa.MakeInterface:
			v = x.X
		case *ssa.ChangeType:
			v = x.X
		case *ssa.Convert:
			v = x.X
		default:
			return v
		}
	}
}

func decomposePath(v ssa.Value, recv ssa.Value, depth int) pathParts {
	out := pathParts{ok: true}
	if depth > 8 {
		return pathParts{}
	}
	v = leafOf(v)
	if b, isB := v.Type().Underlying().(*types.Basic); !isB || b.Info()&types.IsString == 0 {
		// indices and other non-string values are atomic parts of a path
		if _, isC := v.(*ssa.Const); !isC {
			out.keys = append(out.keys, v)
		}
		return out
	}
	switch x := v.(type) {
	case *ssa.Const:
		if x.Value != nil && x.Value.Kind() == constant.String {
			out.consts = append(out.consts, constant.StringVal(x.Value))
		}
		return out
	case *ssa.BinOp:
		if x.Op == token.ADD {
			a, b := decomposePath(x.X, recv, depth+1), decomposePath(x.Y, recv, depth+1)
			return mergeParts(a, b)
		}
	case *ssa.Phi:
		// alternatives (e.g. Path == "" ? K : Path+"."+K): keys must agree
		var acc *pathParts
		for _, e := range x.Edges {
			p := decomposePath(e, recv, depth+1)
			if acc == nil {
				acc = &p
				continue
			}
			acc.hasPath = acc.hasPath || p.hasPath
			acc.keys = append(acc.keys, p.keys...)
			acc.ok = acc.ok && p.ok
		}
		if acc != nil {
			return *acc
		}
	case *ssa.Call:
		if g := core.StaticCallee(x); g != nil && core.QualName(g) == "fmt.Sprintf" {
			out := pathParts{ok: true}
			if k, ok := x.Call.Args[0].(*ssa.Const); ok && k.Value != nil {
				out.consts = append(out.consts, constant.StringVal(k.Value))
			}
			var verbs []byte
			if len(out.consts) == 1 {
				f := out.consts[0]
				for i := 0; i+1 < len(f); i++ {
					if f[i] == '%' {
						if f[i+1] != '%' {
							verbs = append(verbs, f[i+1])
						}
						i++
					}
				}
			}
			for k, e := range varargElems(x.Call.Args[1]) {
				part := decomposePath(e, recv, depth+1)
				// the arguments stand where the format expects them: the parent path first, and each under a verb of
				// its own type ("%s.%d" given (i, path) prints %!s(int=0).%!d(string=…))
				if part.hasPath && k != 0 {
					out.ok = false
				}
				if k < len(verbs) {
					t := e.Type()
					if mi, isMI := e.(*ssa.MakeInterface); isMI {
						t = mi.X.Type()
					}
					if b, isB := t.Underlying().(*types.Basic); isB {
						switch {
						case b.Info()&types.IsString != 0 && verbs[k] != 's' && verbs[k] != 'v' && verbs[k] != 'q':
							out.ok = false
						case b.Info()&types.IsInteger != 0 && verbs[k] != 'd' && verbs[k] != 'v':
							out.ok = false
						}
					}
				}
				out = mergeParts(out, part)
			}
			return out
		}
	case *ssa.UnOp:
		if fa, ok := x.X.(*ssa.FieldAddr); ok && x.Op == token.MUL {
			_, fn, _ := core.FieldOf(fa)
			if (fn == "Path" || fn == "path") && sameRecv(fa.X, recv) {
				out.hasPath = true
				return out
			}
		}
	}
	out.keys = append(out.keys, v)
	return out
}

func sameRecv(v, recv ssa.Value) bool {
	if v == recv {
		return true
	}
	if ld, ok := v.(*ssa.UnOp); ok {
		if al, ok := ld.X.(*ssa.Alloc); ok {
			for _, ref := range core.Refs(al) {
				if st, ok := ref.(*ssa.Store); ok && st.Addr == ssa.Value(al) && st.Val == recv {
					return true
				}
			}
		}
	}
	return false
}

func mergeParts(a, b pathParts) pathParts {
	return pathParts{hasPath: a.hasPath || b.hasPath, keys: append(append([]ssa.Value{}, a.keys...), b.keys...), consts: append(append([]string{}, a.consts...), b.consts...), ok: a.ok && b.ok}
}

func uniqVals(vs []ssa.Value) []ssa.Value {
	var out []ssa.Value
	for _, v := range vs {
		dup := false
		for _, o := range out {
			if o == v {
				dup = true
			}
		}
		if !dup {
			out = append(out, v)
		}
	}
	return out
}

// memberKey: which key/index selected the data value m? Returns (container, key).
func memberKey(m ssa.Value) (ssa.Value, ssa.Value, string) {
	m = leafOf(m)
	switch x := m.(type) {
	case *ssa.Extract:
		switch t := x.Tuple.(type) {
		case *ssa.Lookup:
			if x.Index == 0 {
				return t.X, t.Index, "lookup"
			}
		case *ssa.Next:
			if x.Index == 2 {
				// the key is Extract #1 of the same Next
				for _, ref := range core.Refs(t) {
					if e, ok := ref.(*ssa.Extract); ok && e.Index == 1 {
						if rg, ok := t.Iter.(*ssa.Range); ok {
							return rg.X, e, "range"
						}
					}
				}
				if rg, ok := t.Iter.(*ssa.Range); ok {
					return rg.X, nil, "range" // key discarded
				}
			}
		}
	case *ssa.Lookup:
		return x.X, x.Index, "lookup"
	case *ssa.Call:
		if g := core.StaticCallee(x); g != nil && core.QualName(g) == "reflect.Value.Interface" {
			if ic, ok := x.Call.Args[0].(*ssa.Call); ok {
				if ig := core.StaticCallee(ic); ig != nil && core.QualName(ig) == "reflect.Value.Index" {
					return ic.Call.Args[0], ic.Call.Args[1], "index"
				}
			}
		}
	case *ssa.Parameter:
		return nil, x, "param"
	}
	return nil, nil, ""
}

func KConsistent(p *core.Prog, r *core.Report) {
	const rule = "K-CONSISTENT"
	containerTypes := map[string]bool{"objectValidator": true, "schemaSliceValidator": true}
	nSites := 0
	seq := map[string]int{}
	for _, f := range p.Funcs {
		top := core.EnclosingTop(f)
		if top.Signature.Recv() == nil {
			continue
		}
		T := core.NamedOf(top.Signature.Recv().Type())
		if T == nil || !containerTypes[core.KnownTypeName(T)] {
			continue
		}
		recv := top.Params[0]
		fn := core.FuncName(f)
		core.EachInstr(f, func(i ssa.Instruction) {
			c, ok := i.(*ssa.Call)
			if !ok {
				return
			}
			g := core.StaticCallee(c)
			if g == nil || core.FuncName(g) != "(*SchemaValidator).Validate" {
				return
			}
			// the receiver: a constructor call, possibly re-pathed by SetPath
			ctor, ok := c.Call.Args[0].(*ssa.Call)
			if !ok {
				return
			}
			cg := core.StaticCallee(ctor)
			if cg == nil || core.FuncName(cg) != "newSchemaValidator" {
				return
			}
			nSites++
			schemaDesc := describe(ctor.Call.Args[0])
			base := fn + ":member validated against " + schemaDesc
			seq[base]++
			site := base
			if seq[base] > 1 {
				site = fmt.Sprintf("%s#%d", base, seq[base])
			}
			// (1) path
			pp := decomposePath(ctor.Call.Args[2], recv, 0)
			var setPath *ssa.Call
			for _, ref := range core.Refs(ctor) {
				if sc, ok := ref.(*ssa.Call); ok {
					if sg := core.StaticCallee(sc); sg != nil && sg.Name() == "SetPath" && sc.Call.Args[0] == ssa.Value(ctor) {
						setPath = sc
					}
				}
			}
			listItems := strings.HasSuffix(schemaDesc, ".Items.Schema") && !strings.HasSuffix(schemaDesc, "AdditionalItems.Schema")
			finalParts := pp
			if setPath != nil {
				finalParts = decomposePath(setPath.Call.Args[1], recv, 0)
			}
			keys := uniqVals(finalParts.keys)
			// (2) member
			cont, mk, how := memberKey(c.Call.Args[1])
			// (3) merge
			m, _, mcall := mergedInto(c)
			var mergeKey, mergeObj ssa.Value
			if mcall != nil {
				mc := mcall.(*ssa.Call)
				switch m {
				case "mergeForField", "mergeForSlice":
					mergeObj, mergeKey = mc.Call.Args[1], mc.Call.Args[2]
				}
			}
			isParamSite := how == "param"
			switch {
			case !finalParts.ok:
				r.Bad(rule, site+":path", p.Pos(ctor.Pos()), "the child's path is formatted with its arguments in the wrong places (the parent path is not the first argument, or an argument stands under a verb of another type): the path printed is not <parent path>.<key>")
				return
			case !finalParts.hasPath || len(keys) != 1:
				r.Bad(rule, site+":path", p.Pos(ctor.Pos()), fmt.Sprintf("the child's path is not <parent path> extended by exactly one member key/index (found %d variable parts, parent path used: %v)", len(keys), finalParts.hasPath))
				return
			case mk == nil:
				r.Bad(rule, site+":member", p.Pos(c.Pos()), "cannot relate the validated value to a member selected by a key or index of the instance")
				return
			}
			K := keys[0]
			if isParamSite {
				// key and value are parameters: their pairing is checked at the call sites below
			} else if leafOf(mk) != leafOf(K) {
				r.Bad(rule, site+":member", p.Pos(c.Pos()), "the value validated is selected by a different key/index ("+describe(mk)+") than the one that names it in the path ("+describe(K)+"): errors are reported against the wrong member")
			} else {
				r.OK(rule, site+":member", p.Pos(c.Pos()), "path suffix and member selector are the same value ("+how+")")
			}
			// constructor path vs SetPath: children are built with the constructor's path
			if setPath != nil {
				ck := uniqVals(pp.keys)
				if len(ck) == 1 && leafOf(ck[0]) == leafOf(K) {
					r.OK(rule, site+":ctor-path", p.Pos(ctor.Pos()), "constructor and SetPath use the same path")
				} else if listItems {
					r.OK(rule, site+":ctor-path", p.Pos(ctor.Pos()), "reviewed: single-schema `items` — the sub-validators are built with the array's path and only the outer validator is re-pathed per element; C17 does not claim location accuracy for list items (properties, pattern/additional properties and tuple items only)")
				} else {
					r.Bad(rule, site+":ctor-path", p.Pos(ctor.Pos()), "the child validator is constructed with a path that lacks the member key and only re-pathed with SetPath afterwards: SetPath changes the outer validator only, the sub-validators that emit the errors keep the constructor's path")
				}
			}
			switch m {
			case "mergeForField", "mergeForSlice":
				if leafOf(mergeKey) != leafOf(K) {
					r.Bad(rule, site+":merge-key", p.Pos(mcall.Pos()), "the child's result is filed under "+describe(mergeKey)+" instead of the member's own key/index "+describe(K)+": defaults are applied to / pruning decides on the wrong member")
				} else if cont != nil && !sameContainer(mergeObj, cont) {
					r.Bad(rule, site+":merge-key", p.Pos(mcall.Pos()), "the child's result is filed under another container than the one the member was taken from")
				} else {
					r.OK(rule, site+":merge-key", p.Pos(mcall.Pos()), m+"(container, K, result) with the same K")
				}
			case "Merge":
				if isParamSite {
					r.OK(rule, site+":merge-key", p.Pos(c.Pos()), "helper merges into its caller's result; the keyed merge is done by the caller (checked at the call sites)")
				} else {
					r.Bad(rule, site+":merge-key", p.Pos(c.Pos()), "a member's result is merged without its (container, key): its schemata are lost for defaults/pruning")
				}
			default:
				r.Bad(rule, site+":merge-key", p.Pos(c.Pos()), "the result of validating a member is not merged")
			}
			// parameters: bound to a matching (key, value) pair at every call site
			if isParamSite {
				kp, okK := leafOf(K).(*ssa.Parameter)
				vp := leafOf(c.Call.Args[1]).(*ssa.Parameter)
				if !okK {
					r.Bad(rule, site+":binding", p.Pos(c.Pos()), "the member value is a parameter but the key is not")
				} else {
					ki, vi := -1, -1
					for idx, prm := range f.Params {
						if prm == kp {
							ki = idx
						}
						if prm == vp {
							vi = idx
						}
					}
					for _, caller := range p.Funcs {
						core.EachInstr(caller, func(j ssa.Instruction) {
							cc, ok := j.(*ssa.Call)
							if !ok || core.StaticCallee(cc) != f {
								return
							}
							_, kk, _ := memberKey(cc.Call.Args[vi])
							key := site + ":binding:" + core.FuncName(caller)
							if kk != nil && leafOf(kk) == leafOf(cc.Call.Args[ki]) {
								r.OK(rule, key, p.Pos(cc.Pos()), "called with a (key, value) pair of the same range step")
							} else {
								r.Bad(rule, key, p.Pos(cc.Pos()), "called with a key and a value that do not belong to the same member")
							}
						})
					}
				}
			}
			// MEMBER-GUARD
			member := leafOf(c.Call.Args[1])
			for _, cd := range core.CondsAt(c.Block()) {
				bo, ok := cd.Value.(*ssa.BinOp)
				if !ok {
					continue
				}
				x, y := leafOf(bo.X), leafOf(bo.Y)
				if x == member || y == member {
					r.Bad("MEMBER-GUARD", site+":value-filter", p.Pos(c.Pos()), "whether a present member is validated depends on a test of its own value ("+bo.String()+"): e.g. a null-valued member is treated as absent")
				}
				_, xc := x.(*ssa.Const)
				_, yc := y.(*ssa.Const)
				if (x == leafOf(K) && yc && !core.IsNilConst(y)) || (y == leafOf(K) && xc && !core.IsNilConst(x)) {
					if bo.X.Type().String() == "string" {
						r.Bad("MEMBER-GUARD", site+":key-filter", p.Pos(c.Pos()), "whether a member is validated depends on comparing its name with a constant ("+bo.String()+"): members with that name escape validation")
					}
				}
			}
			r.OK("MEMBER-GUARD", site, p.Pos(c.Pos()), "validation of the member is not conditioned on its value nor on its name being a particular constant")
		})
	}
	r.Count("member_validation_sites", nSites)
	r.Floor("member_validation_sites", 5)
	leafGroupPaths(p, r)

	// missing required member: named <Path>.<k> with k the very element of Required that was looked up
	if f := p.Func("(*objectValidator).validatePropertiesSchema"); f != nil {
		ok := false
		core.EachInstr(f, func(i ssa.Instruction) {
			c, is := core.IsCallTo(i, "errors.Required")
			if !is {
				return
			}
			pp := decomposePath(c.Common().Args[0], f.Params[0], 0)
			keys := uniqVals(pp.keys)
			if !pp.hasPath || len(keys) != 1 {
				return
			}
			// the same k must index val in a comma-ok lookup whose !ok edge leads here
			for _, cd := range core.CondsAt(c.(ssa.Instruction).Block()) {
				if ex, isEx := cd.Value.(*ssa.Extract); isEx && ex.Index == 1 && !cd.Sense {
					if lk, isLk := ex.Tuple.(*ssa.Lookup); isLk && leafOf(lk.Index) == leafOf(keys[0]) {
						ok = true
					}
				}
			}
		})
		if ok {
			r.OK(rule, "required:missing-member-path", p.Pos(f.Pos()), "errors.Required(<Path>.<k>) for the k that was not found in the instance")
		} else {
			r.Bad(rule, "required:missing-member-path", p.Pos(f.Pos()), "the error for a missing required member is not named <path>.<that member>")
		}
	}
	// every key of the instance is looked at by the additional-properties pass: the loop over val has no continue on key constants (checked above) —
	r.Note("K-CONSISTENT: %d member-validation sites in the object and slice validators", nSites)
}

func sameContainer(a, b ssa.Value) bool {
	a, b = leafOf(a), leafOf(b)
	if a == b {
		return true
	}
	// both are (checked or unchecked) assertions of the same interface value
	src := func(v ssa.Value) ssa.Value {
		switch x := v.(type) {
		case *ssa.TypeAssert:
			return x.X
		case *ssa.Extract:
			if ta, ok := x.Tuple.(*ssa.TypeAssert); ok {
				return ta.X
			}
		case *ssa.Phi:
			for _, e := range x.Edges {
				if ex, ok := e.(*ssa.Extract); ok {
					if ta, ok := ex.Tuple.(*ssa.TypeAssert); ok {
						return ta.X
					}
				}
			}
		case *ssa.Parameter:
			return x
		}
		return nil
	}
	sa, sb := src(a), src(b)
	if sa != nil && sa == sb {
		return true
	}
	// a parameter map vs the caller's map is checked at call sites; accept parameter containers
	_, pa := a.(*ssa.Parameter)
	_, pb := b.(*ssa.Parameter)
	return pa && pb && a == b
}

// leafGroupPaths — LEAF-PATH: the keyword groups an outer validator builds for itself (type, enum, string, number,
// format, slice, object, schema-props validators) all report under the outer validator's own path: inside the
// methods of one outer type, every call of a group constructor passes the same path expression (sibling
// agreement), and for the schema validator that expression is the receiver's path. A group built with another
// path (e.g. "") names its errors after nothing.
func leafGroupPaths(p *core.Prog, r *core.Report) {
	const rule = "K-CONSISTENT"
	pi := discoverPools(p)
	ctors := ctorsOf(p, pi)
	type site struct {
		call *ssa.Call
		desc string
		fn   string
	}
	byOuter := map[string][]site{}
	for _, f := range p.Funcs {
		if f.Signature.Recv() == nil || f.Parent() != nil {
			continue
		}
		T := core.NamedOf(f.Signature.Recv().Type())
		if T == nil {
			continue
		}
		outer := core.KnownTypeName(T)
		switch outer {
		case "SchemaValidator", "ParamValidator", "HeaderValidator":
			// (the items validator re-paths its groups with SetPath for every element: not covered)
		default:
			continue
		}
		core.EachInstr(f, func(i ssa.Instruction) {
			c, ok := i.(*ssa.Call)
			if !ok {
				return
			}
			g := core.StaticCallee(c)
			if g == nil || ctors[g] == nil || len(g.Params) == 0 || g.Params[0].Type().String() != "string" {
				return
			}
			// only the validator's own groups: the call's value is returned by a builder method of the outer type
			if len(c.Call.Args) == 0 {
				return
			}
			byOuter[outer] = append(byOuter[outer], site{c, opDesc(c.Call.Args[0], 0), core.FuncName(f)})
		})
	}
	n := 0
	var outers []string
	for o := range byOuter {
		outers = append(outers, o)
	}
	sort.Strings(outers)
	for _, outer := range outers {
		sites := byOuter[outer]
		count := map[string]int{}
		for _, s := range sites {
			count[s.desc]++
		}
		major, best := "", 0
		for d, c := range count {
			if c > best || (c == best && d < major) {
				major, best = d, c
			}
		}
		for _, s := range sites {
			n++
			key := "leaf-path:" + s.fn + ":" + core.StaticCallee(s.call).Name()
			switch {
			case s.desc != major:
				r.Bad(rule, key, p.Pos(s.call.Pos()), fmt.Sprintf("this keyword group is built with path %s while the %d sibling groups of %s are built with %s: its errors are not located under the validator's path", s.desc, best, outer, major))
			case outer == "SchemaValidator" && !strings.HasSuffix(major, ".Path"):
				r.Bad(rule, key, p.Pos(s.call.Pos()), "the groups of the schema validator are not built with the validator's own path")
			default:
				r.OK(rule, key, p.Pos(s.call.Pos()), "built with "+major+" like its "+fmt.Sprint(best-1)+" siblings")
			}
		}
	}
	r.Count("leaf_group_constructions", n)
	r.Floor("leaf_group_constructions", 12)
}

// SAME-DATUM-PATH — a sub-validator that judges the *same* datum as its parent (the value the enclosing method
// received, handed on unchanged) speaks about the same location: it must be built with the parent's own path.
// A path extended by some key (`s.Path+"."+key` for the schema of a dependency, which validates the whole object)
// names a member that is not the offender — or does not exist at all: {"dependencies":{"a":{"required":["b"]}}}
// on {"a":1} reports `a.b` for the missing member `b`.
func SameDatumPath(p *core.Prog, r *core.Report) {
	const rule = "SAME-DATUM-PATH"
	n := 0
	seq := map[string]int{}
	for _, f := range p.Funcs {
		top := core.EnclosingTop(f)
		if top.Signature.Recv() == nil || len(top.Params) < 2 {
			continue
		}
		recv := top.Params[0]
		core.EachInstr(f, func(i ssa.Instruction) {
			c, ok := i.(*ssa.Call)
			if !ok {
				return
			}
			g := core.StaticCallee(c)
			if g == nil || core.FuncName(g) != "(*SchemaValidator).Validate" || len(c.Call.Args) < 2 {
				return
			}
			ctor, ok := c.Call.Args[0].(*ssa.Call)
			if !ok {
				return
			}
			cg := core.StaticCallee(ctor)
			if cg == nil || core.FuncName(cg) != "newSchemaValidator" {
				return
			}
			// the datum validated is a parameter of the enclosing method, unchanged
			datum, isParam := through(c.Call.Args[1]).(*ssa.Parameter)
			if !isParam || datum.Parent() != top {
				return
			}
			if _, isIface := datum.Type().Underlying().(*types.Interface); !isIface {
				return
			}
			pp := decomposePath(ctor.Call.Args[2], recv, 0)
			keys := uniqVals(pp.keys)
			if len(keys) == 1 {
				if kp, isP := leafOf(keys[0]).(*ssa.Parameter); isP && kp.Parent() == top {
					return // a (key, value) helper: the pairing is K-CONSISTENT's business, at its call sites
				}
			}
			n++
			base := core.FuncName(top) + ":" + describe(ctor.Call.Args[0])
			seq[base]++
			key := base
			if seq[base] > 1 {
				key = fmt.Sprintf("%s#%d", base, seq[base])
			}
			switch {
			case pp.hasPath && len(keys) == 0:
				r.OK(rule, key, p.Pos(ctor.Pos()), "validates the method's own datum under the receiver's own path")
			case !pp.hasPath:
				r.Bad(rule, key, p.Pos(ctor.Pos()), "the sub-validator judges the very datum the method received but its path ("+describe(ctor.Call.Args[2])+") is not derived from the receiver's path: its errors are no longer named by the caller's root path extended by the members leading to the offending object")
			default:
				r.Bad(rule, key, p.Pos(ctor.Pos()), "the sub-validator judges the very datum the method received but is built with the path extended by "+describe(keys[0])+": its errors name a member below that key instead of the offending one (schema dependency {a: {required:[b], properties:{c:{type:integer}}}} on {a:1, c:\"x\"} reports a.b and a.c, the offenders are b and c)")
			}
		})
	}
	r.Count("same_datum_subvalidators", n)
	r.Floor("same_datum_subvalidators", 1)
}
