package rules

import (
	"fmt"
	"go/token"
	"regexp"
	"sort"
	"strings"

	"golang.org/x/tools/go/ssa"

	"verifchk/core"
)

// TRAVERSE — defaults and examples are looked for everywhere a specification can carry them (C09).

var embeddedRe = regexp.MustCompile(`\.(SchemaProps|SwaggerSchemaProps|VendorExtensible|ExtraProps|CommonValidations|SimpleSchema|ParamProps|HeaderProps|ResponseProps|OperationProps|Refable|ItemsProps)`)
var xRe = regexp.MustCompile(`(?i)default|example`)

func cleanPath(s string) string { return embeddedRe.ReplaceAllString(s, "") }

// memberOfArg: which member of base does arg denote, and under which loop key?
func memberOfArg(arg ssa.Value, base ssa.Value) (member string, key ssa.Value, ok bool) {
	rel := func(v ssa.Value) (string, bool) {
		p, has := core.StablePath(v)
		bp, _ := core.StablePath(base)
		if !has {
			return "", false
		}
		p = cleanPath(p)
		if strings.HasPrefix(p, bp+".") {
			return strings.TrimPrefix(p, bp+"."), true
		}
		return "", false
	}
	if m, has := rel(arg); has {
		return m, nil, true
	}
	if al, isAl := arg.(*ssa.Alloc); isAl {
		for _, ref := range core.Refs(al) {
			st, isSt := ref.(*ssa.Store)
			if !isSt || st.Addr != ssa.Value(al) {
				continue
			}
			switch v := st.Val.(type) {
			case *ssa.UnOp:
				if ia, isIA := v.X.(*ssa.IndexAddr); isIA {
					if m, has := rel(ia.X); has {
						return m, ia.Index, true
					}
				}
			case *ssa.Extract:
				if nx, isNx := v.Tuple.(*ssa.Next); isNx && v.Index == 2 {
					if rg, isRg := nx.Iter.(*ssa.Range); isRg {
						if m, has := rel(rg.X); has {
							var k ssa.Value
							for _, r2 := range core.Refs(nx) {
								if e, isE := r2.(*ssa.Extract); isE && e.Index == 1 {
									k = e
								}
							}
							return m, k, true
						}
					}
				}
			}
		}
	}
	return "", nil, false
}

func guardSummary(b *ssa.BasicBlock) []string {
	var out []string
	for _, c := range core.ControlConds(b) {
		var desc string
		switch v := c.Value.(type) {
		case *ssa.BinOp:
			x, y := v.X, v.Y
			px, okx := core.StablePath(x)
			py, oky := core.StablePath(y)
			switch {
			case okx && core.IsNilConst(y):
				desc = cleanPath(px) + " " + v.Op.String() + " nil"
			case oky && core.IsNilConst(x):
				desc = cleanPath(py) + " " + v.Op.String() + " nil"
			case okx && oky:
				desc = cleanPath(px) + " " + v.Op.String() + " " + cleanPath(py)
			default:
				continue
			}
		case *ssa.Call:
			desc = core.CalleeID(v)
			if len(v.Call.Args) > 0 {
				if pa, ok := core.StablePath(v.Call.Args[0]); ok {
					desc += "(" + cleanPath(pa) + ")"
				}
			}
		default:
			if p, ok := core.StablePath(c.Value); ok {
				desc = cleanPath(p)
			} else {
				continue
			}
		}
		if !c.Sense {
			desc = "!(" + desc + ")"
		}
		desc = xRe.ReplaceAllString(desc, "X")
		if f := b.Parent(); len(f.Params) > 0 && f.Signature.Recv() != nil {
			rn := f.Params[0].Name()
			desc = regexp.MustCompile(`(^|[^A-Za-z0-9_.])`+regexp.QuoteMeta(rn)+`([.)])`).ReplaceAllString(desc, "${1}recv${2}")
		}
		out = append(out, desc)
	}
	sort.Strings(out)
	return uniq(out)
}

type travEdge struct {
	what   string // callee (normalised) + member
	guards []string
	path   string // normalised shape of the path argument
	merge  string
	at     ssa.Instruction
}

func travSummary(p *core.Prog, f *ssa.Function) []travEdge {
	var out []travEdge
	norm := func(s string) string {
		s = xRe.ReplaceAllString(s, "X")
		s = strings.ReplaceAll(s, "ex.", "d.")
		return s
	}
	core.EachInstr(f, func(i ssa.Instruction) {
		c, ok := i.(*ssa.Call)
		if !ok {
			return
		}
		g := core.StaticCallee(c)
		if g == nil || !p.InSubject(g) {
			return
		}
		name := core.FuncName(g)
		interesting := strings.Contains(name, "AgainstSchema") || strings.Contains(name, "InResponse") ||
			name == "(*ParamValidator).Validate" || name == "(*HeaderValidator).Validate" || name == "(*SchemaValidator).Validate" || name == "(*itemsValidator).Validate"
		if !interesting {
			return
		}
		var args []string
		for _, a := range c.Call.Args[1:] {
			if pa, ok := core.StablePath(a); ok && !strings.HasPrefix(pa, "d") && !strings.HasPrefix(pa, "ex") {
				args = append(args, cleanPath(pa))
			} else if al, isAl := a.(*ssa.Alloc); isAl {
				args = append(args, "&"+al.Comment)
			}
		}
		m, _, _ := mergedInto(c)
		pathShape := ""
		for _, a := range c.Call.Args[1:] {
			if a.Type().String() == "string" {
				pp := decomposePath(a, nil, 0)
				sort.Strings(pp.consts)
				pathShape = fmt.Sprintf("%v+%dvars", pp.consts, len(uniqVals(pp.keys)))
				break
			}
		}
		out = append(out, travEdge{what: norm(name + "(" + strings.Join(args, ",") + ")"), guards: guardSummary(c.Block()), path: norm(pathShape), merge: m, at: i})
	})
	return out
}

func Traverse(p *core.Prog, r *core.Report) {
	const rule = "TRAVERSE"
	pairs := [][2]string{
		{"(*defaultValidator).validateDefaultValueValidAgainstSchema", "(*exampleValidator).validateExampleValueValidAgainstSchema"},
		{"(*defaultValidator).validateDefaultInResponse", "(*exampleValidator).validateExampleInResponse"},
		{"(*defaultValidator).validateDefaultValueSchemaAgainstSchema", "(*exampleValidator).validateExampleValueSchemaAgainstSchema"},
		{"(*defaultValidator).validateDefaultValueItemsAgainstSchema", "(*exampleValidator).validateExampleValueItemsAgainstSchema"},
	}
	required := []string{"Items.Schema", "Items.Schemas", "Properties", "PatternProperties", "AdditionalProperties.Schema", "AdditionalItems.Schema", "AllOf"}
	nEdges := 0
	for _, pr := range pairs {
		fd, fe := p.Func(pr[0]), p.Func(pr[1])
		if fd == nil || fe == nil {
			r.Unk(rule, "walker:"+pr[0], "-", "walker function not found")
			continue
		}
		sd, se := travSummary(p, fd), travSummary(p, fe)
		nEdges += len(sd) + len(se)
		// every loop of a walker visits all the elements of what it ranges over: it is left only by exhaustion
		// (a `break` at the end of the body, a return from inside: only the first response / property / item is judged)
		for _, g := range []*ssa.Function{fd, fe} {
			why := ""
			for _, loop := range allLoopsOf(g) {
				var header *ssa.BasicBlock
				for b := range loop {
					dom := true
					for o := range loop {
						if !b.Dominates(o) {
							dom = false
						}
					}
					if dom {
						header = b
					}
				}
				for b := range loop {
					if b == header {
						continue
					}
					for _, sc := range b.Succs {
						if !loop[sc] {
							why = p.Pos(posOf(b.Instrs[len(b.Instrs)-1], g))
						}
					}
					if len(b.Succs) == 0 {
						if _, isPanic := b.Instrs[len(b.Instrs)-1].(*ssa.Panic); !isPanic {
							why = p.Pos(posOf(b.Instrs[len(b.Instrs)-1], g))
						}
					}
				}
			}
			// a loop whose body always leaves it is no loop in the flow graph any more: the head go/ssa builds for a
			// range / for statement has no edge coming back
			for _, b := range g.Blocks {
				isHead := strings.HasSuffix(b.Comment, ".loop")
				for _, ins := range b.Instrs {
					if _, isNext := ins.(*ssa.Next); isNext {
						isHead = true // the step of a range over a map or string: the head of that loop
					}
				}
				if !isHead {
					continue
				}
				back := false
				for _, pr := range b.Preds {
					if b.Dominates(pr) {
						back = true
					}
				}
				if !back && len(b.Instrs) > 0 {
					why = p.Pos(posOf(b.Instrs[len(b.Instrs)-1], g))
				}
			}
			key := short(core.FuncName(g)) + ":loops-exhaustive"
			if why != "" {
				r.Bad(rule, key, why, "a loop of the walker is left before every element was visited: the defaults / examples of the remaining responses, headers, properties or items are never judged")
			} else {
				r.OK(rule, key, p.Pos(g.Pos()), "every loop of the walker is left only by exhaustion")
			}
		}
		// (b) sibling agreement: every traversal step of the default walker exists in the example walker with the same guards and path shape
		idx := map[string][]travEdge{}
		for _, e := range se {
			idx[e.what] = append(idx[e.what], e)
		}
		for _, e := range sd {
			key := short(pr[0]) + ":" + e.what
			cands := idx[e.what]
			if len(cands) == 0 {
				r.Bad(rule, key+":sibling", p.Pos(e.at.Pos()), "the default walker performs this traversal step but the example walker does not (or with other arguments)")
				continue
			}
			match := false
			for _, c := range cands {
				if strings.Join(c.guards, ";") == strings.Join(e.guards, ";") && c.path == e.path {
					match = true
				}
			}
			if match {
				r.OK(rule, key+":sibling", p.Pos(e.at.Pos()), "same step, guards ["+strings.Join(e.guards, "; ")+"] and path shape in both walkers")
			} else {
				r.Bad(rule, key+":sibling", p.Pos(e.at.Pos()), fmt.Sprintf("the default and example walkers disagree on when/where this step is taken: default guards [%s] path %s, example guards [%s] path %s", strings.Join(e.guards, "; "), e.path, strings.Join(cands[0].guards, "; "), cands[0].path))
			}
		}
		// … and the other way round: a step only the example walker takes is a place where defaults are not looked for
		didx := map[string]bool{}
		for _, e := range sd {
			didx[e.what] = true
		}
		for _, e := range se {
			if didx[e.what] || !strings.Contains(e.what, "XValidator") {
				continue // leaf judgements differ by nature (response examples per media type have no default counterpart)
			}
			r.Bad(rule, short(pr[1])+":"+e.what+":sibling", p.Pos(e.at.Pos()), "the example walker performs this traversal step but the default walker does not: defaults below it are never judged")
		}
		// category: default leaf results merged as errors, example ones as warnings
		for _, spec := range []struct {
			f    *ssa.Function
			sum  []travEdge
			want string
		}{{fd, sd, "Merge"}, {fe, se, "MergeAsWarnings"}} {
			for _, e := range spec.sum {
				isLeaf := strings.Contains(e.what, "Validator).Validate")
				key := short(core.FuncName(spec.f)) + ":" + e.what + ":category"
				if !isLeaf {
					continue
				}
				// leaf results: param/header validators are merged after an explicit AddErrors/AddWarnings; schema and items validators directly
				if e.merge == spec.want || (strings.Contains(e.what, "ParamValidator") || strings.Contains(e.what, "HeaderValidator")) && (e.merge == spec.want || e.merge == "" || e.merge == "Merge" || e.merge == "MergeAsWarnings") {
					r.OK(rule, key, p.Pos(e.at.Pos()), "leaf verdict enters the result as "+spec.want)
				} else {
					r.Bad(rule, key, p.Pos(e.at.Pos()), "a value judged by its schema is merged with "+e.merge+" instead of "+spec.want+": a bad default must be an error, a bad example a warning")
				}
			}
		}
	}
	r.Count("traversal_steps", nEdges)
	r.Floor("traversal_steps", 30)

	// (a) exhaustiveness of the recursive descent, and unique visited-path per member
	for _, fn := range []string{pairs[2][0], pairs[2][1]} {
		f := p.Func(fn)
		if f == nil {
			continue
		}
		var schema, pathPrm *ssa.Parameter
		for _, prm := range f.Params {
			switch prm.Name() {
			case "schema":
				schema = prm
			case "path":
				pathPrm = prm
			}
		}
		seen := map[string]bool{}
		core.EachInstr(f, func(i ssa.Instruction) {
			c, ok := i.(*ssa.Call)
			if !ok || core.StaticCallee(c) != f {
				return
			}
			m, key, ok := memberOfArg(c.Call.Args[3], schema)
			if !ok {
				r.Unk(rule, short(fn)+":recursion:?", p.Pos(c.Pos()), "cannot relate the schema argument of a recursive call to a member of the current schema")
				return
			}
			seen[m] = true
			pp := decomposePath(c.Call.Args[1], nil, 0)
			hasPath, hasKey := false, key == nil
			for _, k := range pp.keys {
				if leafOf(k) == ssa.Value(pathPrm) {
					hasPath = true
				}
				if key != nil && leafOf(k) == leafOf(key) {
					hasKey = true
				}
			}
			k := short(fn) + ":recursion:" + m
			switch {
			case !hasPath:
				r.Bad(rule, k+":path", p.Pos(c.Pos()), "the path given to the recursive call does not extend the current path")
			case !hasKey:
				r.Bad(rule, k+":path", p.Pos(c.Pos()), "members of "+m+" are visited in a loop but the path (also the key of the visited set) does not contain the loop key/index: all members after the first count as already visited and are skipped")
			default:
				r.OK(rule, k+":path", p.Pos(c.Pos()), "path extends the current one and is distinct per member")
			}
			if mm, _, _ := mergedInto(c); mm != "Merge" {
				r.Bad(rule, k+":merged", p.Pos(c.Pos()), "the result of the recursive descent is not merged with Merge")
			}
		})
		for _, m := range required {
			if seen[m] {
				r.OK(rule, short(fn)+":descends:"+m, p.Pos(f.Pos()), "recursive call on schema."+m)
			} else {
				r.Bad(rule, short(fn)+":descends:"+m, p.Pos(f.Pos()), "the walker does not descend into schema."+m+": defaults/examples nested there are never judged")
			}
		}
		// the leaf: the schema's own default/example is validated against the schema itself
		leaf := false
		core.EachInstr(f, func(i ssa.Instruction) {
			c, ok := i.(*ssa.Call)
			if !ok {
				return
			}
			g := core.StaticCallee(c)
			if g == nil || core.FuncName(g) != "(*SchemaValidator).Validate" {
				return
			}
			if pa, has := core.StablePath(c.Call.Args[1]); has {
				cp := cleanPath(pa)
				if cp == "schema.Default" || cp == "schema.Example" {
					leaf = true
				}
			}
		})
		if leaf {
			r.OK(rule, short(fn)+":leaf", p.Pos(f.Pos()), "the value is validated by a validator built from its own schema")
		} else {
			r.Bad(rule, short(fn)+":leaf", p.Pos(f.Pos()), "the schema's own default/example is no longer validated against it")
		}
	}
	// (d) the skip predicate is exact
	if f := p.Func("isVisited"); f != nil {
		for k, ri := range returnsOf(f) {
			cst, isC := ri.val.(*ssa.Const)
			if !isC || cst.Value == nil || cst.Value.ExactString() != "true" {
				continue
			}
			found := false
			for _, c := range ri.conds {
				if ex, isEx := c.Value.(*ssa.Extract); isEx && ex.Index == 1 && c.Sense {
					if lk, isLk := ex.Tuple.(*ssa.Lookup); isLk && lk.CommaOk && lk.Index == ssa.Value(f.Params[0]) {
						found = true
					}
				}
			}
			_ = k
			if found {
				r.OK(rule, "isVisited:exact:found", p.Pos(posOf(ri.ret, f)), "true on the found edge of the lookup of this very path")
			} else {
				r.Bad(rule, "isVisited:exact:heuristic", p.Pos(posOf(ri.ret, f)), "a location is declared already visited although its path is not in the visited set (suffix-overlap heuristic): locations whose name repeats a parent's name are never judged")
			}
		}
	}
	_ = token.ADD
}

func short(fn string) string {
	fn = strings.TrimPrefix(fn, "(*")
	return strings.Replace(fn, ")", "", 1)
}
