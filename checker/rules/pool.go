package rules

import (
	"fmt"
	"go/token"
	"go/types"
	"sort"
	"strings"

	"golang.org/x/tools/go/ssa"

	"verifchk/core"
)

// poolInfo: the pool layer as discovered from the program (no names hard-coded
// except sync.Pool's own Get/Put).
type poolInfo struct {
	borrow map[*ssa.Function]types.Type // borrow function -> pooled pointer type
	redeem map[*ssa.Function]types.Type // redeem function -> pooled pointer type (param 1)
	// pooled struct types declared in the subject (validators and Result)
	pooled map[*types.Named]bool
	// the clearing function applied by the Result borrow (cleared)
	resultType *types.Named
}

func discoverPools(p *core.Prog) *poolInfo {
	pi := &poolInfo{borrow: map[*ssa.Function]types.Type{}, redeem: map[*ssa.Function]types.Type{}, pooled: map[*types.Named]bool{}}
	for _, f := range p.Funcs {
		if f.Parent() != nil {
			continue
		}
		core.EachInstr(f, func(i ssa.Instruction) {
			c, ok := i.(ssa.CallInstruction)
			if !ok {
				return
			}
			g := core.StaticCallee(c)
			if g == nil {
				return
			}
			switch core.QualName(g) {
			case "(*sync.Pool).Get":
				if f.Signature.Results().Len() == 1 {
					pi.borrow[f] = f.Signature.Results().At(0).Type()
				}
			case "(*sync.Pool).Put":
				if f.Signature.Params().Len() == 1 {
					pi.redeem[f] = f.Signature.Params().At(0).Type()
				}
			}
		})
	}
	// the release side by shape as well: the method of a pool holder that takes exactly what the holder's borrow
	// function returns and returns nothing is that pool's redeem function, also when its Put is (temporarily) gone —
	// a pool that is never refilled recycles nothing, which no property forbids
	for bf, t := range pi.borrow {
		if bf.Signature.Recv() == nil {
			continue
		}
		holder := core.NamedOf(bf.Signature.Recv().Type())
		for _, f := range p.Funcs {
			if f.Parent() != nil || f == bf || f.Signature.Recv() == nil || core.NamedOf(f.Signature.Recv().Type()) != holder {
				continue
			}
			if _, known := pi.redeem[f]; known {
				continue
			}
			if f.Signature.Results().Len() == 0 && f.Signature.Params().Len() == 1 && types.Identical(f.Signature.Params().At(0).Type(), t) {
				pi.redeem[f] = t
			}
		}
	}
	for _, t := range pi.borrow {
		if n := core.NamedOf(t); n != nil && n.Obj().Pkg() == p.Main.Pkg {
			pi.pooled[n] = true
			if core.KnownTypeName(n) == "Result" {
				pi.resultType = n
			}
		}
	}
	return pi
}

func (pi *poolInfo) isBorrowCall(i ssa.Instruction) (*ssa.Call, types.Type) {
	c, ok := i.(*ssa.Call)
	if !ok {
		return nil, nil
	}
	g := core.StaticCallee(c)
	if g == nil {
		return nil, nil
	}
	if t, ok := pi.borrow[g]; ok {
		return c, t
	}
	return nil, nil
}

func (pi *poolInfo) isRedeemCall(i ssa.Instruction) (ssa.CallInstruction, ssa.Value) {
	c, ok := i.(ssa.CallInstruction)
	if !ok {
		return nil, nil
	}
	g := core.StaticCallee(c)
	if g == nil {
		return nil, nil
	}
	if _, ok := pi.redeem[g]; ok {
		a := c.Common().Args
		return c, a[len(a)-1]
	}
	return nil, nil
}

// aliasesOf: v, phis containing an alias, and loads from single-store cells holding an alias.
func aliasesOf(v ssa.Value) map[ssa.Value]bool {
	set := map[ssa.Value]bool{v: true}
	work := []ssa.Value{v}
	for len(work) > 0 {
		x := work[len(work)-1]
		work = work[:len(work)-1]
		for _, ref := range core.Refs(x) {
			switch u := ref.(type) {
			case *ssa.Phi:
				if !set[u] {
					set[u] = true
					work = append(work, u)
				}
			case *ssa.Store:
				if u.Val == x {
					if cell, ok := u.Addr.(*ssa.Alloc); ok {
						// loads of the cell (in this function; closures see a FreeVar)
						for _, r2 := range core.Refs(cell) {
							if ld, ok := r2.(*ssa.UnOp); ok && ld.Op == token.MUL && !set[ld] {
								set[ld] = true
								work = append(work, ld)
							}
						}
					}
				}
			case *ssa.ChangeType:
				if !set[u] {
					set[u] = true
					work = append(work, u)
				}
			}
		}
	}
	return set
}

// readsOfParam computes which fields (by index) of the struct pointed to by parameter k a
// subject function reads, transitively through calls that pass the parameter on.
type readSummary struct {
	p    *core.Prog
	memo map[string]map[int]bool
	open map[string]bool
}

func (rs *readSummary) of(f *ssa.Function, k int) (map[int]bool, bool) {
	key := fmt.Sprintf("%p#%d", f, k)
	if m, ok := rs.memo[key]; ok {
		return m, true
	}
	if rs.open[key] {
		return map[int]bool{}, true
	}
	if !rs.p.InSubject(f) || k >= len(f.Params) {
		return nil, false
	}
	rs.open[key] = true
	defer delete(rs.open, key)
	out := map[int]bool{}
	known := true
	var visit func(v ssa.Value)
	visit = func(v ssa.Value) {
		for _, ref := range core.Refs(v) {
			switch u := ref.(type) {
			case *ssa.FieldAddr:
				if u.X != v {
					continue
				}
				for _, r2 := range core.Refs(u) {
					switch w := r2.(type) {
					case *ssa.Store:
						if w.Addr != ssa.Value(u) {
							out[u.Field] = true
						}
					case *ssa.DebugRef:
					default:
						out[u.Field] = true
					}
				}
			case *ssa.Field:
				out[u.Field] = true
			case *ssa.UnOp:
				// whole-struct load
				if u.Op == token.MUL {
					if st, ok := u.Type().Underlying().(*types.Struct); ok {
						for i := 0; i < st.NumFields(); i++ {
							out[i] = true
						}
					}
				}
			case ssa.CallInstruction:
				args := u.Common().Args
				g := core.StaticCallee(u)
				for j, a := range args {
					if a != v {
						continue
					}
					if g == nil {
						known = false
						continue
					}
					m, ok := rs.of(g, j)
					if !ok {
						known = false
						continue
					}
					for i := range m {
						out[i] = true
					}
				}
			case *ssa.Phi:
				visit(u)
			case *ssa.MakeClosure:
				// captured: reads inside the closure through the free variable
				if g, ok := u.Fn.(*ssa.Function); ok {
					for bi, b := range u.Bindings {
						if b == v && bi < len(g.FreeVars) {
							visit(g.FreeVars[bi])
						}
					}
				}
			case *ssa.Store:
				if u.Val == v {
					if cell, ok := u.Addr.(*ssa.Alloc); ok {
						// a local cell holding the pointer (captured receiver): follow its loads
						for _, r2 := range core.Refs(cell) {
							switch w := r2.(type) {
							case *ssa.UnOp:
								if w.Op == token.MUL {
									visit(w)
								}
							case *ssa.MakeClosure:
								if g, ok := w.Fn.(*ssa.Function); ok {
									for bi, b := range w.Bindings {
										if b == ssa.Value(cell) && bi < len(g.FreeVars) {
											for _, r3 := range core.Refs(g.FreeVars[bi]) {
												if ld, ok := r3.(*ssa.UnOp); ok && ld.Op == token.MUL {
													visit(ld)
												}
											}
										}
									}
								}
							}
						}
					} else {
						known = false // escapes into memory
					}
				}
			case *ssa.MakeInterface, *ssa.ChangeInterface:
				// converted to an interface: used through dynamic dispatch
				known = false
			}
		}
	}
	visit(f.Params[k])
	if known {
		rs.memo[key] = out
	}
	return out, known
}

// PoolCtor: a borrowed object is completely overwritten before it is used or handed out.
func PoolCtor(p *core.Prog, r *core.Report) {
	const rule = "POOL-CTOR"
	pi := discoverPools(p)
	r.Count("pool_borrow_funcs", len(pi.borrow))
	r.Count("pool_redeem_funcs", len(pi.redeem))
	r.Floor("pool_borrow_funcs", 15)
	r.Floor("pool_redeem_funcs", 15)
	rs := &readSummary{p: p, memo: map[string]map[int]bool{}, open: map[string]bool{}}

	nCtor, nScratch := 0, 0
	for _, f := range p.Funcs {
		if _, isB := pi.borrow[f]; isB {
			continue
		}
		fn := core.FuncName(f)
		core.EachInstr(f, func(i ssa.Instruction) {
			c, T := pi.isBorrowCall(i)
			if c == nil {
				return
			}
			named := core.NamedOf(T)
			if named == nil {
				r.Unk(rule, "borrow:"+fn, p.Pos(c.Pos()), "borrowed value of unnamed type")
				return
			}
			if named == pi.resultType {
				return // cleared on borrow: checked once below
			}
			al := aliasesOf(c)
			if named.Obj().Pkg() != p.Main.Pkg {
				// scratch object of a foreign type: every use must follow a whole-object store
				nScratch++
				checkScratch(p, r, rule, pi, f, c, al, named)
				return
			}
			nCtor++
			st := named.Underlying().(*types.Struct)
			// stores per field
			stores := map[int][]*ssa.Store{}
			var uses []ssa.Instruction
			for a := range al {
				for _, ref := range core.Refs(a) {
					switch u := ref.(type) {
					case *ssa.FieldAddr:
						if u.X != a {
							continue
						}
						for _, r2 := range core.Refs(u) {
							if s, ok := r2.(*ssa.Store); ok && s.Addr == ssa.Value(u) {
								stores[u.Field] = append(stores[u.Field], s)
							} else if _, ok := r2.(*ssa.DebugRef); !ok {
								uses = append(uses, r2)
							}
						}
					case *ssa.Phi, *ssa.DebugRef:
					case *ssa.Store:
						if u.Val == a {
							continue // into its cell
						}
						uses = append(uses, ref)
					default:
						uses = append(uses, ref)
					}
				}
			}
			var rets []*ssa.Return
			for _, b := range f.Blocks {
				if ret, ok := b.Instrs[len(b.Instrs)-1].(*ssa.Return); ok {
					for _, rv := range ret.Results {
						if al[rv] {
							rets = append(rets, ret)
						}
					}
				}
			}
			if len(rets) == 0 {
				r.Unk(rule, "ctor:"+fn+":"+core.KnownTypeName(named), p.Pos(c.Pos()), "a borrowed validator is not returned by the borrowing function: not a constructor shape the rule knows")
				return
			}
			for fi := 0; fi < st.NumFields(); fi++ {
				key := fn + ":" + core.KnownTypeName(named) + "." + core.FieldName(st, fi)
				ok := false
				for _, s := range stores[fi] {
					all := true
					for _, ret := range rets {
						if !core.InstrDominates(s, ret) {
							all = false
						}
					}
					if all {
						ok = true
					}
				}
				if ok {
					r.OK(rule, key, p.Pos(c.Pos()), "field assigned on every path from the borrow to the return")
				} else {
					r.Bad(rule, key, p.Pos(c.Pos()), fmt.Sprintf("field %s of a borrowed %s is not assigned on every path before the object is returned: it keeps the value of the object's previous life", core.FieldName(st, fi), core.KnownTypeName(named)))
				}
			}
			// read-before-write
			dominatedByStore := func(fi int, at ssa.Instruction) bool {
				for _, s := range stores[fi] {
					if core.InstrDominates(s, at) {
						return true
					}
				}
				return false
			}
			nReads := 0
			for _, u := range uses {
				switch x := u.(type) {
				case *ssa.UnOp: // load of a field address
					fa, ok := x.X.(*ssa.FieldAddr)
					if !ok {
						continue
					}
					nReads++
					key := fn + ":read:" + core.KnownTypeName(named) + "." + core.FieldName(st, fa.Field)
					if dominatedByStore(fa.Field, x) {
						r.OK(rule, key, p.Pos(x.Pos()), "read after the field was assigned")
					} else {
						r.Bad(rule, key, p.Pos(x.Pos()), "field of a borrowed object is read before the constructor assigned it (stale value of a previous life)")
					}
				case ssa.CallInstruction:
					if rc, _ := pi.isRedeemCall(x); rc != nil {
						continue
					}
					g := core.StaticCallee(x)
					for j, a := range x.Common().Args {
						if !al[a] {
							continue
						}
						key := fn + ":call:" + core.CalleeID(x)
						if g == nil {
							r.Unk(rule, key, p.Pos(x.Pos()), "half-initialised borrowed object passed to an unresolved callee")
							continue
						}
						m, ok := rs.of(g, j)
						if !ok {
							r.Unk(rule, key, p.Pos(x.Pos()), "half-initialised borrowed object passed to a callee whose reads cannot be summarised")
							continue
						}
						var missing []string
						for fi := range m {
							if !dominatedByStore(fi, x) {
								missing = append(missing, core.FieldName(st, fi))
							}
						}
						nReads++
						if len(missing) == 0 {
							r.OK(rule, key, p.Pos(x.Pos()), fmt.Sprintf("callee reads %d receiver fields, all assigned before the call", len(m)))
						} else {
							sort.Strings(missing)
							r.Bad(rule, key, p.Pos(x.Pos()), "callee reads fields not yet assigned on the borrowed object: "+strings.Join(missing, ","))
						}
					}
				case *ssa.Return:
				case *ssa.Store:
					r.Unk(rule, fn+":escape", p.Pos(x.Pos()), "borrowed object stored into memory inside its constructor")
				default:
					if _, ok := u.(*ssa.MakeInterface); ok {
						r.Unk(rule, fn+":escape", p.Pos(u.Pos()), "borrowed object converted to an interface inside its constructor")
					}
				}
			}
			_ = nReads
		})
	}
	r.Count("pool_ctor_sites", nCtor)
	r.Count("pool_scratch_sites", nScratch)
	r.Floor("pool_ctor_sites", 13)
	r.Floor("pool_scratch_sites", 2)

	// Result: cleared on borrow
	checkCleared(p, r, pi)
	r.Note("POOL-CTOR: %d borrow functions, %d constructor sites, %d scratch sites", len(pi.borrow), nCtor, nScratch)
}

func checkScratch(p *core.Prog, r *core.Report, rule string, pi *poolInfo, f *ssa.Function, c *ssa.Call, al map[ssa.Value]bool, named *types.Named) {
	fn := core.FuncName(f)
	var whole []*ssa.Store
	for a := range al {
		for _, ref := range core.Refs(a) {
			if s, ok := ref.(*ssa.Store); ok && s.Addr == a {
				whole = append(whole, s)
			}
		}
	}
	bad := 0
	n := 0
	for a := range al {
		for _, ref := range core.Refs(a) {
			switch u := ref.(type) {
			case *ssa.Store:
				continue // whole-object store, or store into its cell
			case *ssa.Phi, *ssa.DebugRef:
				continue
			case ssa.CallInstruction:
				if rc, _ := pi.isRedeemCall(u); rc != nil {
					continue
				}
			}
			n++
			ok := false
			for _, s := range whole {
				if core.InstrDominates(s, ref) {
					ok = true
				}
			}
			if !ok {
				bad++
				r.Bad(rule, "scratch:"+fn+":"+core.KnownTypeName(named)+":use-before-overwrite", p.Pos(ref.Pos()), "a recycled scratch object is used before being overwritten as a whole: it still holds the content of its previous use")
			}
		}
	}
	if bad == 0 {
		r.OK(rule, "scratch:"+fn+":"+core.KnownTypeName(named), p.Pos(c.Pos()), fmt.Sprintf("%d uses, each dominated by a whole-object store", n))
	}
}

// leafPaths flattens struct fields declared in the subject package.
func leafPaths(pkg *types.Package, prefix string, t types.Type, out *[]string, types_ map[string]types.Type) {
	st, ok := t.Underlying().(*types.Struct)
	n := core.NamedOf(t)
	if !ok || (n != nil && n.Obj().Pkg() != pkg) {
		*out = append(*out, prefix)
		types_[prefix] = t
		return
	}
	for i := 0; i < st.NumFields(); i++ {
		leafPaths(pkg, prefix+"."+core.FieldName(st, i), st.Field(i).Type(), out, types_)
	}
}

func checkCleared(p *core.Prog, r *core.Report, pi *poolInfo) {
	const rule = "POOL-CLEARED"
	if pi.resultType == nil {
		r.Unk(rule, "result-pool", "-", "no pool of Result objects found")
		return
	}
	var clearFn *ssa.Function
	for bf, t := range pi.borrow {
		if core.NamedOf(t) != pi.resultType {
			continue
		}
		// return value must be g(typeassert(Get()))
		ok := false
		for _, b := range bf.Blocks {
			ret, isRet := b.Instrs[len(b.Instrs)-1].(*ssa.Return)
			if !isRet {
				continue
			}
			call, isCall := unspill(ret, 0).(*ssa.Call)
			if isCall {
				if g := core.StaticCallee(call); g != nil && p.InSubject(g) && len(call.Call.Args) == 1 {
					if ta, isTA := call.Call.Args[0].(*ssa.TypeAssert); isTA {
						if gc, isGet := ta.X.(*ssa.Call); isGet && core.StaticCallee(gc) != nil && core.QualName(core.StaticCallee(gc)) == "(*sync.Pool).Get" {
							ok = true
							clearFn = g
						}
					}
				}
			}
			if !ok {
				r.Bad(rule, core.FuncName(bf)+":returns-cleared", p.Pos(ret.Pos()), "the Result borrow does not return the cleared object obtained from the pool")
			}
		}
		if ok {
			r.OK(rule, core.FuncName(bf)+":returns-cleared", p.Pos(bf.Pos()), "returns "+core.FuncName(clearFn)+"(pool.Get())")
		}
	}
	if clearFn == nil {
		return
	}
	recv := clearFn.Params[0]
	var leaves []string
	lt := map[string]types.Type{}
	leafPaths(p.Main.Pkg, "", pi.resultType, &leaves, lt)
	r.Count("result_leaf_fields", len(leaves))
	r.Floor("result_leaf_fields", 11)
	var rets []*ssa.Return
	for _, b := range clearFn.Blocks {
		if ret, ok := b.Instrs[len(b.Instrs)-1].(*ssa.Return); ok {
			rets = append(rets, ret)
			if len(ret.Results) != 1 || ret.Results[0] != ssa.Value(recv) {
				r.Bad(rule, "cleared:returns-receiver", p.Pos(ret.Pos()), "the clearing function does not return its receiver")
			}
		}
	}
	domAll := func(i ssa.Instruction) bool {
		for _, ret := range rets {
			if !core.InstrDominates(i, ret) {
				return false
			}
		}
		return true
	}
	want := "&" + recv.Name()
	for _, leaf := range leaves {
		target := want + leaf
		done := ""
		core.EachInstr(clearFn, func(i ssa.Instruction) {
			switch x := i.(type) {
			case *ssa.Store:
				pth, ok := core.Path(x.Addr)
				if !ok || pth != target || !domAll(x) {
					return
				}
				switch v := x.Val.(type) {
				case *ssa.Const:
					// the zero value — except the mark of a pooled result, which the clearing function sets
					zero := v.Value == nil || v.Value.ExactString() == "0" || v.Value.ExactString() == "false" || v.Value.ExactString() == `""`
					if zero || (strings.HasSuffix(leaf, "."+pooledMark) && v.Value.ExactString() == "true") {
						done = "stored constant " + v.String()
					}
				case *ssa.Slice:
					src, ok := core.Path(v.X)
					hi, isC := core.ConstInt(v.High)
					if ok && "&"+src == target && isC && hi == 0 {
						done = "truncated to length 0"
					}
				}
			case *ssa.Call:
				b, ok := x.Call.Value.(*ssa.Builtin)
				if !ok || b.Name() != "delete" {
					return
				}
				mp, ok := core.Path(x.Call.Args[0])
				if !ok || "&"+mp != target {
					return
				}
				ex, ok := x.Call.Args[1].(*ssa.Extract)
				if !ok || ex.Index != 1 {
					return
				}
				nx, ok := ex.Tuple.(*ssa.Next)
				if !ok {
					return
				}
				rg, ok := nx.Iter.(*ssa.Range)
				if !ok {
					return
				}
				rp, ok := core.Path(rg.X)
				if ok && "&"+rp == target && domAll(rg) {
					done = "every key deleted in a range over the same map"
				}
			}
		})
		key := "cleared:Result" + leaf
		if done != "" {
			r.OK(rule, key, p.Pos(clearFn.Pos()), done)
		} else {
			r.Bad(rule, key, p.Pos(clearFn.Pos()), "a recycled Result keeps its previous "+strings.TrimPrefix(leaf, ".")+": the clearing function does not reset it on every path")
		}
	}
}

// unspill resolves a result that was spilled to a cell because the function has defers: the value
// stored last to the cell (searching backwards from the return through single-predecessor chains).
func unspill(ret *ssa.Return, idx int) ssa.Value {
	v := ret.Results[idx]
	ld, ok := v.(*ssa.UnOp)
	if !ok || ld.Op != token.MUL {
		return v
	}
	cell, ok := ld.X.(*ssa.Alloc)
	if !ok {
		return v
	}
	b := ret.Block()
	for n := 0; n < 6 && b != nil; n++ {
		for k := len(b.Instrs) - 1; k >= 0; k-- {
			if st, ok := b.Instrs[k].(*ssa.Store); ok && st.Addr == ssa.Value(cell) {
				return st.Val
			}
		}
		if len(b.Preds) != 1 {
			break
		}
		b = b.Preds[0]
	}
	// a single store in the whole function
	var only ssa.Value
	cnt := 0
	for _, ref := range core.Refs(cell) {
		if st, ok := ref.(*ssa.Store); ok && st.Addr == ssa.Value(cell) {
			only = st.Val
			cnt++
		}
	}
	if cnt == 1 {
		return only
	}
	return v
}
