package rules

import (
	"fmt"
	"go/token"
	"go/types"
	"regexp"
	"sort"
	"strings"

	"golang.org/x/tools/go/ssa"

	"verifchk/core"
)

// GUARD-SCOPE — who may switch a rule off. Every option of the package and every path-name exemption predicate
// is documented to govern one thing; a rule message (or a check) that becomes control dependent on another
// option or exemption is silently disabled for some configurations or names. For each branch whose condition
// derives from an option field (Opts / SchemaValidatorOptions) or from an exemption predicate of the object
// validator, the effects that are control dependent on it — message constructors of the package, error
// constructors of go-openapi/errors, the swagger pre-checks, the schemata recorders — must all be in the
// reviewed scope of that guard (table below: one line per guard, with the reason).
type guardScope struct {
	guard   string // field or predicate name
	allowed string // regexp over "<function>:<callee>"
	why     string
}

var guardScopes = []guardScope{
	{"StrictPathParamUniqueness", `:pathOverlapMsg$|:pathStrippedParamGarbledMsg$|^\(\*SpecValidator\)\.validateParameters:(mapupdate\(|AddErrors$|AddWarnings$)`, "doc.go: only the uniqueness of paths up to parameter names can be relaxed (and the warning about the stripped path computed for it)"},
	{"EnableArrayMustHaveItemsCheck", `:checkArrayMustHaveItems$|^\(\*objectValidator\)\.checkArrayMustHaveItems:`, "switches the swagger pre-check 'arrays declare items'"},
	{"EnableObjectArrayTypeCheck", `:checkItemsMustBeTypeArray$|^\(\*objectValidator\)\.checkItemsMustBeTypeArray:`, "switches the swagger pre-check 'items only in arrays'"},
	{"skipSchemataResult", `:add\w*Schemata$`, "only suppresses the recording of schemata, never a verdict"},
	{"SkipSchemataResult", `^$`, "copied into the schema options; controls nothing directly"},
	{"isProperties", `^\(\*objectValidator\)\.checkItemsMustBeTypeArray:`, "a property named 'items' is not the items keyword"},
	{"isDefault", `^\(\*objectValidator\)\.checkItemsMustBeTypeArray:`, "a default value may have a member named 'items'"},
	{"isExample", `^\(\*objectValidator\)\.checkItemsMustBeTypeArray:`, "an example value may have a member named 'items'"},
}

// guardSources: the option fields / exemption predicates a condition derives from.
func guardSources(v ssa.Value, d int, out map[string]bool) {
	if d > 6 {
		return
	}
	switch x := v.(type) {
	case *ssa.UnOp:
		if x.Op == token.NOT {
			guardSources(x.X, d+1, out)
			return
		}
		if x.Op == token.MUL {
			if fa, ok := x.X.(*ssa.FieldAddr); ok {
				tn, fn, _ := core.FieldOf(fa)
				if strings.HasSuffix(tn, "Opts") || strings.HasSuffix(tn, "SchemaValidatorOptions") {
					out[fn] = true
				}
			}
		}
	case *ssa.Field:
		tn, fn, _ := core.FieldOf(x)
		if strings.HasSuffix(tn, "Opts") || strings.HasSuffix(tn, "SchemaValidatorOptions") {
			out[fn] = true
		}
	case *ssa.Phi:
		if b, ok := x.Type().Underlying().(*types.Basic); ok && b.Kind() == types.Bool {
			for _, e := range x.Edges {
				guardSources(e, d+1, out)
			}
			// the conditions selecting the edges (short-circuit || / &&)
			for _, pr := range x.Block().Preds {
				if iff, ok := pr.Instrs[len(pr.Instrs)-1].(*ssa.If); ok {
					guardSources(iff.Cond, d+1, out)
				}
			}
		}
	case *ssa.BinOp:
		guardSources(x.X, d+1, out)
		guardSources(x.Y, d+1, out)
	case *ssa.Call:
		if g := core.StaticCallee(x); g != nil {
			switch core.BaseName(g) {
			case "isProperties", "isDefault", "isExample":
				out[core.BaseName(g)] = true
			}
		}
	}
}

func GuardScope(p *core.Prog, r *core.Report) {
	const rule = "GUARD-SCOPE"
	scope := map[string]*regexp.Regexp{}
	guards := append([]guardScope{}, guardScopes...)
	for k := range guards {
		if guards[k].guard == "skipSchemataResult" {
			guards[k].guard = skipSchemataField // the field WithSkipSchemataResult sets, whatever it is called
		}
	}
	for _, g := range guards {
		scope[g.guard] = regexp.MustCompile(g.allowed)
	}
	type use struct{ ok, bad []string }
	uses := map[string]*use{}
	for _, g := range guards {
		uses[g.guard] = &use{}
	}
	nGuards := 0
	for _, f := range p.Funcs {
		if !p.InSubject(f) {
			continue
		}
		fn := core.FuncName(f)
		srcOfIf := map[*ssa.If]map[string]bool{}
		core.EachInstr(f, func(i ssa.Instruction) {
			if iff, ok := i.(*ssa.If); ok {
				s := map[string]bool{}
				guardSources(iff.Cond, 0, s)
				if len(s) > 0 {
					srcOfIf[iff] = s
					nGuards++
				}
			}
		})
		if len(srcOfIf) == 0 {
			continue
		}
		core.EachInstr(f, func(i ssa.Instruction) {
			effectName := ""
			if mu, ok := i.(*ssa.MapUpdate); ok {
				// bookkeeping that later decides a verdict (e.g. the set of members created from defaults)
				effectName = "mapupdate(" + typeShort(mu.Map.Type()) + ")"
			}
			if c, ok := i.(ssa.CallInstruction); ok {
				if g := core.StaticCallee(c); g != nil {
					switch {
					case p.InSubject(g) && strings.HasSuffix(g.Name(), "Msg"):
						effectName = g.Name()
					case g.Pkg != nil && strings.HasSuffix(g.Pkg.Pkg.Path(), "go-openapi/errors"):
						effectName = g.Name()
					case p.InSubject(g) && (strings.HasPrefix(g.Name(), "check") || strings.HasSuffix(g.Name(), "Schemata")):
						effectName = g.Name()
					case p.InSubject(g) && g.Signature.Recv() != nil && isResultPtr(g.Signature.Recv().Type()) && (strings.HasPrefix(g.Name(), "Add") || strings.HasPrefix(strings.ToLower(g.Name()), "merge")):
						effectName = g.Name()
					}
				}
			}
			if effectName == "" {
				return
			}
			for _, cond := range core.ControlConds(i.Block()) {
				for src := range srcOfIf[cond.If] {
					re, known := scope[src]
					if !known {
						continue // recycling switches and ContinueOnErrors are governed by STATELESS / SLOT-* / MODE-USE
					}
					site := fn + ":" + effectName
					if re.MatchString(site) {
						uses[src].ok = append(uses[src].ok, site)
					} else {
						uses[src].bad = append(uses[src].bad, site+" at "+p.Pos(i.Pos()))
					}
				}
			}
		})
	}
	for _, g := range guards {
		u := uses[g.guard]
		sort.Strings(u.bad)
		if len(u.bad) > 0 {
			r.Bad(rule, g.guard, "-", fmt.Sprintf("%s now also decides whether %s happens; its reviewed scope is: %s. A rule that depends on it is switched off for some configurations or member names", g.guard, strings.Join(uniq(u.bad), ", "), g.why))
		} else {
			r.OK(rule, g.guard, "-", fmt.Sprintf("controls only what it is documented to control (%d effect sites; %s)", len(uniq(u.ok)), g.why))
		}
	}
	// the exemption predicates themselves: true for every path of at least two segments that ends in the exempted
	// name (a one-segment root path never is an exemption; a top-level default of a body parameter has exactly two)
	lenAtom := regexp.MustCompile(`^(\d+)<ret0:len\(`)
	segAtom := regexp.MustCompile(`^"([^"]+)"==recv\.\w+\[\(ret0:len\(recv\.\w+\)-(\d)\)\]$`)
	// the keyword each predicate exempts (Swagger: properties, default, example / examples); the first is also the
	// name the segment before must not bear
	exemptNames := map[string][]string{"isProperties": {"properties"}, "isDefault": {"default"}, "isExample": {"example", "examples"}}
	for _, name := range []string{"isProperties", "isDefault", "isExample"} {
		f := p.Func("(*objectValidator)." + name)
		if f == nil {
			r.Unk(rule, "exemption:"+name, "-", "predicate not found")
			continue
		}
		var recvT *types.Named
		if f.Signature.Recv() != nil {
			recvT = core.NamedOf(f.Signature.Recv().Type())
		} else if len(f.Params) > 0 {
			recvT = core.NamedOf(f.Params[0].Type()) // converted into a function taking the validator first
		}
		rt := &router{p: p, recvType: recvT, primitive: map[*ssa.Function]string{}, relevant: func(*ssa.Function) bool { return false }}
		bounds := map[string]bool{}
		trueRuns, total := 0, 0
		var wrong []string
		rt.enumerate(f, []string{"recv"}, func(run *routeRun) {
			total++
			if run.ret == "true" {
				trueRuns++
			}
			// exact verdict: true iff len > 1, the last segment is (one of) the exempted name(s) and the segment
			// before it is not that name (then the word is a member name, not the keyword) — three-valued over the
			// comparisons this run made; a verdict that does not follow from them is wrong
			const (
				f3 = iota
				t3
				u3
			)
			and3 := func(a, b int) int {
				if a == f3 || b == f3 {
					return f3
				}
				if a == u3 || b == u3 {
					return u3
				}
				return t3
			}
			lenOK, last, prev := u3, f3, u3
			lastSeen := 0
			for a, v := range run.atoms {
				if lenAtom.MatchString(a) {
					if m := lenAtom.FindStringSubmatch(a); m[1] == "1" {
						lenOK = f3
						if v {
							lenOK = t3
						}
					}
					continue
				}
				m := segAtom.FindStringSubmatch(a)
				if m == nil {
					wrong = append(wrong, "a condition that is not a comparison of one of the last two segments with a name: "+a)
					continue
				}
				isName := false
				for _, nm := range exemptNames[name] {
					if nm == m[1] {
						isName = true
					}
				}
				switch m[2] {
				case "1":
					if !isName {
						wrong = append(wrong, "the last segment is compared with "+m[1])
						continue
					}
					lastSeen++
					if v {
						last = t3
					}
				case "2":
					if m[1] != exemptNames[name][0] {
						wrong = append(wrong, "the segment before the last is compared with "+m[1])
						continue
					}
					prev = f3
					if v {
						prev = t3
					}
				}
			}
			if last == f3 && lastSeen < len(exemptNames[name]) {
				last = u3 // not every name was tried
			}
			notPrev := u3
			if prev == t3 {
				notPrev = f3
			} else if prev == f3 {
				notPrev = t3
			}
			want := and3(lenOK, and3(last, notPrev))
			got := f3
			if run.ret == "true" {
				got = t3
			}
			if want == u3 {
				wrong = append(wrong, fmt.Sprintf("answers %s without having looked at what decides (%v)", run.ret, run.atoms))
			} else if want != got {
				wrong = append(wrong, fmt.Sprintf("answers %s for %v", run.ret, run.atoms))
			}
			for a := range run.atoms {
				if m := lenAtom.FindStringSubmatch(a); m != nil {
					bounds[m[1]] = true
				}
			}
		})
		var bs []string
		for b := range bounds {
			bs = append(bs, b)
		}
		sort.Strings(bs)
		if len(wrong) > 0 {
			sort.Strings(wrong)
			r.Bad(rule, "exemption:"+name+":exact", p.Pos(f.Pos()), "the exemption predicate must hold exactly for paths of two or more segments whose last segment is "+strings.Join(exemptNames[name], " or ")+" and whose segment before that is not "+exemptNames[name][0]+" (then it is a member of that name): "+strings.Join(uniq(wrong), "; ")+" — a rule of the Swagger schema pass is switched off for ordinary paths, or applied inside default / example values")
		} else {
			r.OK(rule, "exemption:"+name+":exact", p.Pos(f.Pos()), fmt.Sprintf("true exactly for len > 1, last segment in {%s}, previous segment not %s (%d runs)", strings.Join(exemptNames[name], ", "), exemptNames[name][0], total))
		}
		if len(bs) == 1 && bs[0] == "1" && trueRuns > 0 {
			r.OK(rule, "exemption:"+name+":from-two-segments", p.Pos(f.Pos()), fmt.Sprintf("the only length condition is len(path) > 1 (%d paths enumerated, %d exempting)", total, trueRuns))
		} else {
			r.Bad(rule, "exemption:"+name+":from-two-segments", p.Pos(f.Pos()), fmt.Sprintf("the exemption must hold for every path of two or more segments ending in the exempted name; the length conditions found are len > %v (exempting paths: %d): a top-level default / example of a body parameter or response (two segments) loses or gains the exemption", bs, trueRuns))
		}
	}
	// the other direction for the one shape rule that is exempted by path names: every report of
	// "items requires type array" is made only where none of the three exemptions holds (inside `properties`, a
	// default or an example value the word `items` is a member name or plain data, not the keyword)
	if f := p.Func("(*objectValidator).checkItemsMustBeTypeArray"); f != nil {
		nRep := 0
		var lacking []string
		core.EachInstr(f, func(i ssa.Instruction) {
			c, ok := i.(*ssa.Call)
			if !ok {
				return
			}
			g := core.StaticCallee(c)
			if g == nil || g.Pkg == nil || !strings.HasSuffix(g.Pkg.Pkg.Path(), "go-openapi/errors") {
				return
			}
			nRep++
			excluded := map[string]bool{}
			for _, cd := range core.CondsAt(c.Block()) {
				if pc, isCall := cd.Value.(*ssa.Call); isCall && !cd.Sense {
					if h := core.StaticCallee(pc); h != nil {
						excluded[h.Name()] = true
						// a helper answering for several predicates at once (`isExempt() = a() || b() || c()`): false
						// means each of them is false, provided it returns true as soon as one holds
						if p.InSubject(h) && len(h.Blocks) > 0 {
							core.EachInstr(h, func(j ssa.Instruction) {
								if ic, isIC := j.(*ssa.Call); isIC {
									if hh := core.StaticCallee(ic); hh != nil && disjunctOfResult(h, ic) {
										excluded[hh.Name()] = true
									}
								}
							})
						}
					}
				}
			}
			for _, name := range []string{"isProperties", "isDefault", "isExample"} {
				h := p.Func("(*objectValidator)." + name)
				if h == nil || !excluded[h.Name()] {
					lacking = append(lacking, name)
				}
			}
		})
		if nRep == 0 {
			r.Unk(rule, "exemption:items-type-array:all-three", p.Pos(f.Pos()), "the rule reports nothing any more")
		} else if len(lacking) > 0 {
			r.Bad(rule, "exemption:items-type-array:all-three", p.Pos(f.Pos()), "\"items requires type: array\" is reported without the exemption "+strings.Join(uniq(lacking), ", ")+" having been excluded: inside a default / example value or a `properties` map the word items is data, and a valid document is rejected")
		} else {
			r.OK(rule, "exemption:items-type-array:all-three", p.Pos(f.Pos()), fmt.Sprintf("all %d reports are made only where isProperties, isDefault and isExample are false", nRep))
		}
	}
	r.Count("guard_branches", nGuards)
	r.Floor("guard_branches", 5)
}

// KEY-EXEMPTION — a closed object (`additionalProperties: false`) forbids every member that is not described. A
// test of the member's *name* against string constants that lets some names through before the "forbidden
// property" error is an exemption the schema did not ask for: {"additionalProperties": false} accepts {"id": 1}.
func KeyExemption(p *core.Prog, r *core.Report) {
	const rule = "KEY-EXEMPTION"
	f := p.Func("(*objectValidator).validateNoAdditionalProperties")
	if f == nil {
		r.Unk(rule, "anchor", "-", "(*objectValidator).validateNoAdditionalProperties not found")
		return
	}
	// the instance keys: Extract #1 of a Next over a range of the method's map parameter
	isKey := func(v ssa.Value) bool {
		ex, ok := v.(*ssa.Extract)
		if !ok || ex.Index != 1 {
			return false
		}
		nx, ok := ex.Tuple.(*ssa.Next)
		if !ok {
			return false
		}
		rg, ok := nx.Iter.(*ssa.Range)
		if !ok {
			return false
		}
		_, isParam := rg.X.(*ssa.Parameter)
		return isParam
	}
	var notAllowed *ssa.Call
	core.EachInstr(f, func(i ssa.Instruction) {
		if c, ok := i.(*ssa.Call); ok {
			if g := core.StaticCallee(c); g != nil && g.Name() == "PropertyNotAllowed" {
				notAllowed = c
			}
		}
	})
	if notAllowed == nil {
		r.Unk(rule, "error", p.Pos(f.Pos()), "the forbidden-property error is not constructed here any more")
		return
	}
	var names []string
	for _, cd := range core.ControlConds(notAllowed.Block()) {
		bo, ok := cd.Value.(*ssa.BinOp)
		if !ok || (bo.Op != token.EQL && bo.Op != token.NEQ) {
			continue
		}
		for _, pair := range [][2]ssa.Value{{bo.X, bo.Y}, {bo.Y, bo.X}} {
			if k, isK := pair[1].(*ssa.Const); isK && isKey(pair[0]) && k.Value != nil {
				names = append(names, k.Value.ExactString())
			}
		}
	}
	sort.Strings(names)
	if len(names) > 0 {
		r.Bad(rule, "validateNoAdditionalProperties:names", p.Pos(notAllowed.Pos()), "the forbidden-property error is not produced for the member names "+strings.Join(names, ", ")+", whatever the schema says: {\"additionalProperties\": false} accepts {\"id\": 1}; a Swagger document with a stray \"id\" or \"$schema\" member in any closed object (root, info, a parameter, a response …) is accepted although the Swagger 2.0 schema forbids it")
	} else {
		r.OK(rule, "validateNoAdditionalProperties:names", p.Pos(notAllowed.Pos()), "no member name is exempt from additionalProperties: false")
	}
}

// disjunctOfResult: the boolean call c inside h is one of the alternatives of `return a() || b() || …` — h
// answers true as soon as c does, so that h being false means c was false.
func disjunctOfResult(h *ssa.Function, c *ssa.Call) bool {
	returned := func(phi *ssa.Phi) bool {
		for _, ref := range core.Refs(phi) {
			if ret, ok := ref.(*ssa.Return); ok && len(ret.Results) == 1 && ret.Results[0] == ssa.Value(phi) {
				return true
			}
		}
		return false
	}
	for _, ref := range core.Refs(c) {
		switch u := ref.(type) {
		case *ssa.Return:
			if len(u.Results) == 1 && u.Results[0] == ssa.Value(c) {
				return true // a single call returned as it is
			}
		case *ssa.Phi:
			if returned(u) {
				return true // the last alternative
			}
		case *ssa.If:
			if u.Cond != ssa.Value(c) {
				continue
			}
			tb := u.Block().Succs[0]
			for _, ins := range tb.Instrs {
				phi, ok := ins.(*ssa.Phi)
				if !ok {
					break
				}
				for k, pb := range tb.Preds {
					if pb == u.Block() {
						if kc, isK := phi.Edges[k].(*ssa.Const); isK && kc.Value != nil && kc.Value.ExactString() == "true" && returned(phi) {
							return true
						}
					}
				}
			}
		}
	}
	return false
}
