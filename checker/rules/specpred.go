package rules

import (
	"fmt"
	"go/constant"
	"go/token"
	"go/types"
	"regexp"
	"sort"
	"strings"

	"golang.org/x/tools/go/ssa"

	"verifchk/core"
)

// SPEC-PRED / KEYWORD-PRED — for the documented rules whose predicate is a conjunction of simple
// comparisons, the message of the rule must be control dependent on exactly those comparisons, with the
// right operands and polarity (full control dependence, operands named by access path, constant or
// call). These are necessary conditions of "reports an error as soon as the rule is broken and only
// then"; loops over collections and string processing inside the predicates are not modelled.

// operandDesc names a value structurally, without local variable names (a rename must not change it):
// parameters by position, fields by the type that declares them, locals by their type, boolean flags
// by the conditions under which they are set, integer phis by their incoming values.
func operandDesc(v ssa.Value) string { return opDesc(v, 0) }

func typeShort(t types.Type) string {
	for {
		if p, ok := t.(*types.Pointer); ok {
			t = p.Elem()
			continue
		}
		break
	}
	if n, ok := t.(*types.Named); ok {
		return core.KnownTypeName(n)
	}
	return types.TypeString(t, func(*types.Package) string { return "" })
}

func opDesc(v ssa.Value, d int) string {
	if d > 8 {
		return "…"
	}
	v = leafOf(v)
	switch x := v.(type) {
	case *ssa.Const:
		if x.Value == nil {
			return "nil"
		}
		if x.Value.Kind() == constant.String {
			return fmt.Sprintf("%q", constant.StringVal(x.Value))
		}
		return x.Value.ExactString()
	case *ssa.Parameter:
		for k, p := range x.Parent().Params {
			if p == x {
				if k == 0 && x.Parent().Signature.Recv() != nil {
					return "recv"
				}
				return fmt.Sprintf("arg%d", k)
			}
		}
	case *ssa.FreeVar:
		return "captured:" + typeShort(x.Type())
	case *ssa.Global:
		return "global:" + x.Name()
	case *ssa.Alloc:
		return typeShort(x.Type())
	case *ssa.FieldAddr:
		_, fn, _ := core.FieldOf(x)
		if embeddedRe.MatchString("." + fn) {
			return opDesc(x.X, d+1)
		}
		return opDesc(x.X, d+1) + "." + fn
	case *ssa.Field:
		_, fn, _ := core.FieldOf(x)
		if embeddedRe.MatchString("." + fn) {
			return opDesc(x.X, d+1)
		}
		return opDesc(x.X, d+1) + "." + fn
	case *ssa.IndexAddr:
		return "elem(" + opDesc(x.X, d+1) + ")"
	case *ssa.Index:
		return "elem(" + opDesc(x.X, d+1) + ")"
	case *ssa.UnOp:
		if x.Op == token.MUL {
			return opDesc(x.X, d+1)
		}
		return x.Op.String() + opDesc(x.X, d+1)
	case *ssa.Call:
		// a boolean helper of the package (an extracted search loop): described like a flag, by the conditions
		// under which it answers true
		if g := core.StaticCallee(x); g != nil && len(g.Blocks) > 0 && x.Parent() != nil && g.Pkg == x.Parent().Pkg && d < 4 {
			if g.Signature.Results().Len() == 1 && g.Signature.Results().At(0).Type().String() == "bool" {
				var sets []string
				allConst := true
				for _, b := range g.Blocks {
					ret, ok := b.Instrs[len(b.Instrs)-1].(*ssa.Return)
					if !ok {
						continue
					}
					k, isC := ret.Results[0].(*ssa.Const)
					if !isC || k.Value == nil {
						allConst = false
						continue
					}
					if k.Value.ExactString() == "true" {
						var cs []string
						for _, c := range core.CondsAt(b) {
							a := condAtomD(c, d+2)
							if !strings.Contains(a, "ok(") {
								cs = append(cs, a)
							}
						}
						sort.Strings(cs)
						sets = append(sets, strings.Join(uniq(cs), "&"))
					}
				}
				if allConst && len(sets) > 0 {
					sort.Strings(sets)
					return "flag{" + strings.Join(uniq(sets), "|") + "}"
				}
			}
		}
		name := core.CalleeID(x)
		name = name[strings.LastIndex(name, ".")+1:]
		var as []string
		for _, a := range x.Call.Args {
			as = append(as, opDesc(a, d+1))
		}
		if x.Call.IsInvoke() {
			return opDesc(x.Call.Value, d+1) + "." + name + "(" + strings.Join(as, ",") + ")"
		}
		return name + "(" + strings.Join(as, ",") + ")"
	case *ssa.Phi:
		if b, ok := x.Type().Underlying().(*types.Basic); ok && b.Kind() == types.Bool {
			return flagDesc(x, d)
		}
		if _, ok := x.Type().Underlying().(*types.Slice); ok {
			// a list variable: described by the conditions under which something is appended to it (a list
			// whose length is tested stands for the flag "something of that kind was seen")
			if ld := listDesc(x, d); ld != "" {
				return ld
			}
		}
		var es []string
		for _, e := range x.Edges {
			if dependsOn(e, x, 0) {
				continue
			}
			es = append(es, opDesc(e, d+1))
		}
		sort.Strings(es)
		return "phi(" + strings.Join(uniq(es), ",") + ")"
	case *ssa.BinOp:
		return "(" + opDesc(x.X, d+1) + x.Op.String() + opDesc(x.Y, d+1) + ")"
	case *ssa.Extract:
		if nx, ok := x.Tuple.(*ssa.Next); ok {
			if rg, ok := nx.Iter.(*ssa.Range); ok {
				what := []string{"ok", "key", "value"}[x.Index]
				return what + "(" + opDesc(rg.X, d+1) + ")"
			}
		}
		if lk, ok := x.Tuple.(*ssa.Lookup); ok {
			what := []string{"value", "found"}[x.Index]
			return what + "(" + opDesc(lk.X, d+1) + "[" + opDesc(lk.Index, d+1) + "])"
		}
		return fmt.Sprintf("#%d(%s)", x.Index, opDesc(x.Tuple, d+1))
	case *ssa.Lookup:
		return opDesc(x.X, d+1) + "[" + opDesc(x.Index, d+1) + "]"
	case *ssa.TypeAssert:
		return opDesc(x.X, d+1) + ".(" + typeShort(x.AssertedType) + ")"
	case *ssa.Slice:
		return opDesc(x.X, d+1)
	case *ssa.MakeMap, *ssa.MakeSlice:
		return "new:" + typeShort(v.Type())
	}
	return "?"
}

func dependsOn(v ssa.Value, target ssa.Value, d int) bool {
	if v == target {
		return true
	}
	if d > 4 {
		return false
	}
	if ins, ok := v.(ssa.Instruction); ok {
		if _, isPhi := v.(*ssa.Phi); isPhi && d > 0 {
			return false
		}
		for _, op := range ins.Operands(nil) {
			if op != nil && *op != nil && dependsOn(*op, target, d+1) {
				return true
			}
		}
	}
	return false
}

// flagDesc describes a boolean variable by the conditions under which it is set to true.
func flagDesc(phi *ssa.Phi, d int) string {
	var sets []string
	seen := map[*ssa.Phi]bool{}
	var visit func(p *ssa.Phi)
	visit = func(p *ssa.Phi) {
		if seen[p] {
			return
		}
		seen[p] = true
		outer := map[string]bool{}
		for _, c := range core.ControlConds(p.Block()) {
			outer[condAtomD(c, d+1)] = true
		}
		for i, e := range p.Edges {
			switch ev := e.(type) {
			case *ssa.Phi:
				visit(ev)
			case *ssa.Const:
				if ev.Value != nil && ev.Value.ExactString() == "true" {
					var cs []string
					for _, c := range core.CondsAt(p.Block().Preds[i]) {
						a := condAtomD(c, d+1)
						if !outer[a] && !strings.Contains(a, "ok(") {
							cs = append(cs, a)
						}
					}
					sort.Strings(cs)
					sets = append(sets, strings.Join(uniq(cs), "&"))
				}
			default:
				sets = append(sets, "="+opDesc(e, d+1))
			}
		}
	}
	visit(phi)
	sort.Strings(sets)
	return "flag{" + strings.Join(uniq(sets), "|") + "}"
}

// stickyFlagOf: a boolean φ that controls the block and carries its value around a loop that contains the
// block (declared outside the loop and never reset inside): the per-element decision depends on earlier elements.
func stickyFlagOf(site *ssa.BasicBlock) *ssa.Phi {
	loops := allLoopsOf(site.Parent())
	for _, c := range core.ControlConds(site) {
		v := c.Value
		for {
			if u, ok := v.(*ssa.UnOp); ok && u.Op == token.NOT {
				v = u.X
				continue
			}
			break
		}
		phi, ok := v.(*ssa.Phi)
		if !ok {
			continue
		}
		if b, ok := phi.Type().Underlying().(*types.Basic); !ok || b.Kind() != types.Bool {
			continue
		}
		closure := map[*ssa.Phi]bool{}
		var visit func(q *ssa.Phi)
		visit = func(q *ssa.Phi) {
			if closure[q] {
				return
			}
			closure[q] = true
			for _, e := range q.Edges {
				if eq, ok := e.(*ssa.Phi); ok {
					visit(eq)
				}
			}
		}
		visit(phi)
		for q := range closure {
			for _, L := range loops {
				if !L[site] || !L[q.Block()] {
					continue
				}
				for i, e := range q.Edges {
					pr := q.Block().Preds[i]
					if !L[pr] || !q.Block().Dominates(pr) {
						continue // not a back edge of this loop
					}
					// header of L? (q's block must dominate every block of L)
					isHeader := true
					for b := range L {
						if !q.Block().Dominates(b) {
							isHeader = false
						}
					}
					if !isHeader {
						continue
					}
					if _, isConst := e.(*ssa.Const); !isConst {
						return q
					}
				}
			}
		}
	}
	return nil
}

// listDesc describes a slice variable by the conditions under which it grows.
func listDesc(phi *ssa.Phi, d int) string {
	var sets []string
	seen := map[*ssa.Phi]bool{}
	var visit func(p *ssa.Phi)
	visit = func(p *ssa.Phi) {
		if seen[p] {
			return
		}
		seen[p] = true
		outer := map[string]bool{}
		for _, c := range core.ControlConds(p.Block()) {
			outer[condAtomD(c, d+1)] = true
		}
		for _, e := range p.Edges {
			switch ev := e.(type) {
			case *ssa.Phi:
				visit(ev)
			case *ssa.Call:
				if b, ok := ev.Call.Value.(*ssa.Builtin); ok && b.Name() == "append" {
					var cs []string
					for _, c := range core.CondsAt(ev.Block()) {
						a := condAtomD(c, d+1)
						if !outer[a] && !strings.Contains(a, "ok(") {
							cs = append(cs, a)
						}
					}
					sort.Strings(cs)
					sets = append(sets, strings.Join(uniq(cs), "&"))
					if q, ok := ev.Call.Args[0].(*ssa.Phi); ok {
						visit(q)
					}
				}
			}
		}
	}
	visit(phi)
	if len(sets) == 0 {
		return ""
	}
	sort.Strings(sets)
	return "list{" + strings.Join(uniq(sets), "|") + "}"
}

// condAtom renders a branch condition with the sense folded into the operator.
func condAtom(c core.Cond) string { return condAtomD(c, 0) }

func condAtomD(c core.Cond, d int) string {
	if d > 6 {
		return "…"
	}
	if bo, ok := c.Value.(*ssa.BinOp); ok {
		op := bo.Op
		if !c.Sense {
			neg := map[token.Token]token.Token{token.EQL: token.NEQ, token.NEQ: token.EQL, token.LSS: token.GEQ, token.GEQ: token.LSS, token.GTR: token.LEQ, token.LEQ: token.GTR}
			if n, ok := neg[op]; ok {
				op = n
			} else {
				return "!(" + opDesc(bo, d+1) + ")"
			}
		}
		x, y := opDesc(bo.X, d+1), opDesc(bo.Y, d+1)
		// constants to the right
		if _, isC := leafOf(bo.X).(*ssa.Const); isC {
			flip := map[token.Token]token.Token{token.LSS: token.GTR, token.GTR: token.LSS, token.LEQ: token.GEQ, token.GEQ: token.LEQ, token.EQL: token.EQL, token.NEQ: token.NEQ}
			x, y, op = y, x, flip[op]
		}
		return x + " " + op.String() + " " + y
	}
	ds := opDesc(c.Value, d+1)
	if !c.Sense {
		return "!" + ds
	}
	return ds
}

func controlAtoms(b *ssa.BasicBlock) []string {
	var out []string
	for _, c := range core.ControlConds(b) {
		out = append(out, condAtom(c))
	}
	sort.Strings(out)
	return uniq(out)
}

type predClause struct {
	fn      string   // function holding the message
	msg     string   // message constructor (callee name)
	need    []string // atoms that must control the message (substring match on the atom)
	forbid  []string // atoms that must not (polarity flips)
	explain string
}

func checkPredClauses(p *core.Prog, r *core.Report, rule string, clauses []predClause) int {
	n := 0
	for _, cl := range clauses {
		f := p.Func(cl.fn)
		key := cl.fn + ":" + cl.msg
		if f == nil {
			r.Unk(rule, key, "-", "function not found")
			continue
		}
		// the message may be produced in the rule function itself or in a helper it calls (extracted method):
		// the control conditions of the call chain are then part of what controls the message
		type msgSite struct {
			call  *ssa.Call
			outer []string          // control atoms of the call sites on the way from the rule function
			subst map[string]string // parameters of the helper the message sits in -> what the rule function passes
		}
		var sites []msgSite
		var search func(g *ssa.Function, outer []string, depth int, seen map[*ssa.Function]bool)
		var curSubst map[string]string
		search = func(g *ssa.Function, outer []string, depth int, seen map[*ssa.Function]bool) {
			if depth > 3 || seen[g] {
				return
			}
			seen[g] = true
			core.EachInstr(g, func(i ssa.Instruction) {
				c, ok := i.(*ssa.Call)
				if !ok {
					return
				}
				h := core.StaticCallee(c)
				if h == nil {
					return
				}
				if core.BaseName(h) == cl.msg {
					sites = append(sites, msgSite{c, outer, curSubst})
					return
				}
				sameRecv := h.Signature.Recv() != nil && f.Signature.Recv() != nil && core.NamedOf(h.Signature.Recv().Type()) == core.NamedOf(f.Signature.Recv().Type())
				plainHelper := h.Signature.Recv() == nil && h.Object() != nil && !h.Object().Exported()
				if p.InSubject(h) && len(h.Blocks) > 0 && (sameRecv || plainHelper) {
					// inside the helper, a parameter stands for what this call site passes (one level)
					saved := curSubst
					if depth == 0 {
						curSubst = map[string]string{}
						for k, a := range c.Call.Args {
							if k < len(h.Params) {
								curSubst[opDesc(h.Params[k], 0)] = opDesc(a, 1)
							}
						}
					}
					search(h, append(append([]string{}, outer...), controlAtoms(c.Block())...), depth+1, seen)
					curSubst = saved
				}
			})
		}
		search(f, nil, 0, map[*ssa.Function]bool{})
		if len(sites) == 0 {
			r.Bad(rule, key, p.Pos(f.Pos()), "the message of this rule is no longer produced here: "+cl.explain)
			continue
		}
		for _, ms := range sites {
			s := ms.call
			n++
			if fl := stickyFlagOf(s.Block()); fl != nil {
				r.Bad(rule, key+":per-element-flag", p.Pos(s.Pos()), fmt.Sprintf("%s: the message is decided per element of a loop by a flag (%s) that is not reset for each element — once it has been set for one element it stays set for all later ones, so their violations are no longer reported", cl.explain, fl.Comment))
			} else {
				r.OK(rule, key+":per-element-flag", p.Pos(s.Pos()), "no flag controlling this message is carried over from one element of the enclosing loop to the next")
			}
			inner := controlAtoms(s.Block())
			if len(ms.subst) > 0 {
				// longest parameter names first (arg10 before arg1)
				var names []string
				for k := range ms.subst {
					names = append(names, k)
				}
				sort.Slice(names, func(i, j int) bool { return len(names[i]) > len(names[j]) })
				for k, a := range inner {
					for _, nm := range names {
						if nm == ms.subst[nm] {
							continue
						}
						a = regexp.MustCompile(`\b`+regexp.QuoteMeta(nm)+`\b`).ReplaceAllString(a, strings.ReplaceAll(ms.subst[nm], "$", "$$"))
					}
					inner[k] = a
				}
			}
			atoms := uniq(append(append([]string{}, ms.outer...), inner...))
			// a positive flag / boolean helper with a single way of answering true stands for the conjunction of
			// its member conditions
			for _, a := range atoms {
				if strings.HasPrefix(a, "flag{") && strings.HasSuffix(a, "}") && !strings.Contains(a, "|") {
					for _, m := range strings.Split(a[5:len(a)-1], "&") {
						if m != "" {
							atoms = append(atoms, m)
						}
					}
				}
			}
			atoms = uniq(atoms)
			joined := strings.Join(atoms, " ; ")
			var missing, wrong []string
			for _, need := range cl.need {
				found := false
				re := regexp.MustCompile(need)
				for _, a := range atoms {
					if re.MatchString(a) {
						found = true
					}
				}
				if !found {
					missing = append(missing, need)
				}
			}
			for _, fb := range cl.forbid {
				re := regexp.MustCompile(fb)
				for _, a := range atoms {
					if re.MatchString(a) {
						wrong = append(wrong, fb)
					}
				}
			}
			if len(missing) == 0 && len(wrong) == 0 {
				r.OK(rule, key, p.Pos(s.Pos()), "controlled by: "+strings.Join(cl.need, " && ")+" — "+cl.explain)
			} else {
				r.Bad(rule, key, p.Pos(s.Pos()), fmt.Sprintf("%s: the message must be controlled by [%s]; missing %v, contradicting %v; actual control conditions: %s", cl.explain, strings.Join(cl.need, " && "), missing, wrong, joined))
			}
		}
	}
	return n
}

func SpecPred(p *core.Prog, r *core.Report) {
	const rule = "SPEC-PRED"
	vp := "(*SpecValidator).validateParameters"
	clauses := []predClause{
		{vp, "bothFormDataAndBodyMsg", []string{`^flag\{.*In == "body".*\}$|^len\(list\{.*In == "body".*\}\) > 0$`, `^flag\{.*In == "formData".*\}$|^len\(list\{.*In == "formData".*\}\) > 0$`}, []string{`^!flag\{.*In == "body"`, `^!flag\{.*In == "formData"`}, "body and formData parameters are mutually exclusive"},
		{vp, "multipleBodyParamMsg", []string{`^len\(.*\) > 1$`}, nil, "at most one body parameter"},
		{vp, "pathParamRequiredMsg", []string{`\.In == "path"$`, `^!.*Required$`}, nil, "a path parameter must be required"},
		{vp, "pathParamNotUniqueMsg", []string{` > `, ` == `}, nil, "a placeholder may appear once in a path (p == q at a later position)"},
		{vp, "pathOverlapMsg", []string{`^found\(`}, nil, "two paths of one method that only differ by parameter names overlap"},
		{vp, "invalidPatternInParamMsg", []string{`!= nil$`}, []string{`\.(Type|In|Format|Required|MaxLength|MinLength|Items|Schema)\b`}, "parameter patterns must compile, whatever the parameter's type, location or other keywords"},
		{"(*SpecValidator).validateDuplicateOperationIDs", "nonUniqueOperationIDMsg", []string{` > 1$`}, nil, "an operation id used more than once"},
		{"(*SpecValidator).checkUniqueParams", "duplicateParamNameMsg", []string{`^found\(`}, []string{`^!found\(`}, "a (location, name) pair already seen for this operation"},
		{"(*SpecValidator).validatePathParamPresence", "noParameterInPathMsg", []string{`^!flag\{.* == .*\}$`}, nil, "a placeholder of the path has no declared path parameter"},
		{"(*SpecValidator).validatePathParamPresence", "pathParamNotInPathMsg", []string{`^!flag\{.* == .*\}$`}, nil, "a declared path parameter has no placeholder in the path"},
		{"(*SpecValidator).validateRequiredProperties", "requiredButNotDefinedMsg", []string{`^!flag\{found\(.*Properties\[`, `^!flag\{.*MatchString`, `^!flag\{.*AdditionalProperties\.Allows`, `^!flag\{.*\|[^|]*\(recv,[^|]*AdditionalProperties\.Schema\)`}, nil, "a required property is defined by properties, patternProperties or additionalProperties (allowed without a schema, or — recursively — defined by the schema of the additional properties)"},
		{"(*SpecValidator).validateRequiredProperties", "validateRequiredProperties", []string{`^!flag\{found\(.*Properties\[`, `^!flag\{.*MatchString`}, nil, "the schema of additionalProperties is only consulted (and its complaints merged) for a name that neither properties nor patternProperties define"},
		{"(*SpecValidator).validateItems", "arrayInParamRequiresItemsMsg", []string{`TypeName\(.*\) == "array"$`, `ItemsTypeName\(.*\) == ""$`}, nil, "an array parameter declares its items"},
		{"(*SpecValidator).validateItems", "arrayInHeaderRequiresItemsMsg", []string{`TypeName\(.*\) == "array"$`, `ItemsTypeName\(.*\) == ""$`}, nil, "an array header declares its items"},
		{"(*SpecValidator).validateSchemaItems", "arrayRequiresItemsMsg", []string{`^Contains\(.*"array"\)$`}, []string{`^!Contains\(.*"array"\)$`}, "an array schema declares its items"},
		{"(*SpecValidator).validateReferencesValid", "invalidRefMsg", []string{`^!IsValidURI`}, nil, "a reference must be a valid URI"},
		{"(*SpecValidator).validateReferencesValid", "unresolvedReferencesMsg", []string{`!= nil$`}, nil, "references must resolve"},
		{"(*SpecValidator).validateNonEmptyPathParamNames", "emptyPathParameterMsg", []string{`^Contains\(.*"\{\}"\)$`}, []string{`^!Contains`}, "an empty placeholder {} in a path"},
		{"(*SpecValidator).validateDuplicatePropertyNames", "duplicatePropertiesMsg", []string{`validateSchemaPropertyNames.* > 0$`}, nil, "a definition redeclares a property of an ancestor"},
		{"(*SpecValidator).validateDuplicatePropertyNames", "circularAncestryDefinitionMsg", []string{`validateCircularAncestry.* > 0$`}, nil, "circular allOf ancestry"},
	}
	n := checkPredClauses(p, r, rule, clauses)
	// every one of these rules is an error rule: its message enters a result through AddErrors (as a warning it
	// leaves the document valid)
	nCat := 0
	for _, cl := range clauses {
		if !strings.HasSuffix(cl.msg, "Msg") {
			continue // not a message constructor (a recursive check whose result is merged)
		}
		for _, f := range p.Funcs {
			if !p.InSubject(f) {
				continue
			}
			core.EachInstr(f, func(i ssa.Instruction) {
				c, ok := i.(*ssa.Call)
				if !ok {
					return
				}
				g := core.StaticCallee(c)
				if g == nil || g.Name() != cl.msg || !p.InSubject(g) {
					return
				}
				nCat++
				sink := messageSink(c, 0)
				key := core.FuncName(f) + ":" + cl.msg + ":as-error"
				switch sink {
				case "AddErrors":
					r.OK(rule, key, p.Pos(c.Pos()), "reported as an error")
				case "":
					r.OK(rule, key, p.Pos(c.Pos()), "handed on (returned or stored): not added to a result here")
				default:
					r.Bad(rule, key, p.Pos(c.Pos()), cl.explain+": the message of this rule is added with "+sink+" instead of AddErrors — a document that breaks the rule stays valid")
				}
			})
		}
	}
	r.Count("spec_message_categories", nCat)
	r.Floor("spec_message_categories", 15)
	r.Count("spec_predicate_sites", n)
	r.Floor("spec_predicate_sites", 18)
	// operations without an id do not take part in the uniqueness rule: the count of an id is only incremented for
	// a non-empty id (counted, two anonymous operations would be "duplicates" of one another)
	if f := p.Func("(*SpecValidator).validateDuplicateOperationIDs"); f != nil {
		nUpd, bad := 0, ""
		core.EachInstr(f, func(i ssa.Instruction) {
			mu, ok := i.(*ssa.MapUpdate)
			if !ok {
				return
			}
			nUpd++
			nonEmpty := false
			for _, cd := range core.CondsAt(mu.Block()) {
				bo, isBo := cd.Value.(*ssa.BinOp)
				if !isBo || (bo.Op != token.EQL && bo.Op != token.NEQ) {
					continue
				}
				var other ssa.Value
				if bo.X == mu.Key {
					other = bo.Y
				} else if bo.Y == mu.Key {
					other = bo.X
				}
				if k, isK := other.(*ssa.Const); isK && k.Value != nil && k.Value.ExactString() == `""` && (bo.Op == token.NEQ) == cd.Sense {
					nonEmpty = true
				}
			}
			if !nonEmpty {
				bad = p.Pos(mu.Pos())
			}
		})
		if nUpd > 0 && bad == "" {
			r.OK(rule, "validateDuplicateOperationIDs:only-named", p.Pos(f.Pos()), "only non-empty operation ids are counted")
		} else if nUpd > 0 {
			r.Bad(rule, "validateDuplicateOperationIDs:only-named", bad, "the empty operation id is counted like any other: two operations without an id make the document invalid")
		}
	}
	// … in every response: the list of responses the rule walks is fed with the default response and with each
	// response of the status-code map
	if f := p.Func("(*SpecValidator).validateItems"); f != nil {
		var mentions func(v ssa.Value, suffix string, d int) bool
		mentions = func(v ssa.Value, suffix string, d int) bool {
			if v == nil || d > 6 {
				return false
			}
			if pth, ok := core.Path(v); ok && strings.Contains(pth, suffix) {
				return true
			}
			switch x := v.(type) {
			case *ssa.UnOp:
				if al, isAl := x.X.(*ssa.Alloc); isAl {
					for _, ref := range core.Refs(al) {
						switch u := ref.(type) {
						case *ssa.Store:
							if u.Addr == ssa.Value(al) && mentions(u.Val, suffix, d+1) {
								return true
							}
						case *ssa.IndexAddr:
							for _, r2 := range core.Refs(u) {
								if st, isSt := r2.(*ssa.Store); isSt && st.Addr == ssa.Value(u) && mentions(st.Val, suffix, d+1) {
									return true
								}
							}
						}
					}
				}
				return mentions(x.X, suffix, d+1)
			case *ssa.Slice:
				return mentions(x.X, suffix, d+1)
			case *ssa.Alloc:
				for _, ref := range core.Refs(x) {
					if ia, isIA := ref.(*ssa.IndexAddr); isIA {
						for _, r2 := range core.Refs(ia) {
							if st, isSt := r2.(*ssa.Store); isSt && st.Addr == ssa.Value(ia) && mentions(st.Val, suffix, d+1) {
								return true
							}
						}
					}
				}
			case *ssa.Extract:
				return mentions(x.Tuple, suffix, d+1)
			case *ssa.Next:
				return mentions(x.Iter, suffix, d+1)
			case *ssa.Range:
				return mentions(x.X, suffix, d+1)
			}
			return false
		}
		hasDefault, hasCodes := false, false
		// in the rule itself or in a helper of the package it calls (the collection extracted into a function)
		scope := []*ssa.Function{f}
		core.EachInstr(f, func(i ssa.Instruction) {
			if c, ok := i.(*ssa.Call); ok {
				if h := core.StaticCallee(c); h != nil && h != f && p.InSubject(h) && len(h.Blocks) > 0 {
					scope = append(scope, h)
				}
			}
		})
		eachScope := func(visit func(i ssa.Instruction)) {
			for _, g := range scope {
				core.EachInstr(g, visit)
			}
		}
		eachScope(func(i ssa.Instruction) {
			c, ok := i.(*ssa.Call)
			if !ok || len(c.Call.Args) < 2 {
				return
			}
			if b, isB := c.Call.Value.(*ssa.Builtin); !isB || b.Name() != "append" {
				return
			}
			if mentions(c.Call.Args[1], "Props.Default", 0) || mentions(c.Call.Args[1], "Responses.Default", 0) {
				hasDefault = true
			}
			if mentions(c.Call.Args[1], "StatusCodeResponses", 0) {
				hasCodes = true
			}
		})
		if hasDefault && hasCodes {
			r.OK(rule, "validateItems:all-responses", p.Pos(f.Pos()), "the default response and every status-code response are collected")
		} else {
			r.Bad(rule, "validateItems:all-responses", p.Pos(f.Pos()), fmt.Sprintf("the array-requires-items rule no longer looks at every response (default collected: %v, status codes collected: %v): array headers and schemas of the others are not checked", hasDefault, hasCodes))
		}
	}
	// arrays declare items at every depth: the schema walk of the rule descends into the items schema by calling
	// itself where that schema is there (an array of arrays whose inner array has no items is reported)
	if f := p.Func("(*SpecValidator).validateSchemaItems"); f != nil {
		descends := false
		core.EachInstr(f, func(i ssa.Instruction) {
			c, ok := i.(*ssa.Call)
			if !ok || core.StaticCallee(c) != f {
				return
			}
			for _, cd := range core.CondsAt(c.Block()) {
				if pth, has := core.Path(condOperand(cd)); has && strings.HasSuffix(pth, ".Items.Schema") && isNonNilCond(cd) {
					descends = true
				}
			}
		})
		if descends {
			r.OK(rule, "validateSchemaItems:descends", p.Pos(f.Pos()), "the array-requires-items walk calls itself on the items schema where there is one")
		} else {
			r.Bad(rule, "validateSchemaItems:descends", p.Pos(f.Pos()), "the array-requires-items walk no longer descends into the items schema: an array of arrays whose inner array declares no items passes")
		}
	}

	// the path-template helpers: placeholders are recognised by the same constant expression, segment by segment
	for _, h := range []struct{ fn, method string }{{"(*pathHelper).stripParametersInPath", "ReplaceAllString"}, {"(*pathHelper).extractPathParams", "FindAllStringSubmatch"}} {
		f := p.Func(h.fn)
		if f == nil {
			r.Unk(rule, h.fn, "-", "helper not found")
			continue
		}
		okRe, okSplit, okUse := false, false, false
		core.EachInstr(f, func(i ssa.Instruction) {
			c, is := i.(*ssa.Call)
			if !is {
				return
			}
			g := core.StaticCallee(c)
			if g == nil {
				return
			}
			switch {
			case core.BaseName(g) == "mustCompileRegexp":
				if k, isK := c.Call.Args[0].(*ssa.Const); isK && k.Value != nil && constant.StringVal(k.Value) == `{[^{}]+?}` {
					okRe = true
				}
			case core.QualName(g) == "strings.Split":
				if k, isK := c.Call.Args[1].(*ssa.Const); isK && k.Value != nil && constant.StringVal(k.Value) == "/" && c.Call.Args[0] == ssa.Value(paramNamed(f, "path")) {
					okSplit = true
				}
			case g.Name() == h.method:
				if rc, isRC := c.Call.Args[0].(*ssa.Call); isRC {
					if rg := core.StaticCallee(rc); rg != nil && core.BaseName(rg) == "mustCompileRegexp" {
						okUse = true
					}
				}
			}
		})
		if okRe && okSplit && okUse {
			r.OK(rule, h.fn, p.Pos(f.Pos()), "each '/'-segment of the path is processed with the placeholder expression {[^{}]+?} ("+h.method+")")
		} else {
			r.Bad(rule, h.fn, p.Pos(f.Pos()), "placeholders are no longer found with the path-parameter expression in every '/'-segment of the path (a placeholder embedded in a segment next to literal text would be missed)")
		}
	}
}

// KeywordPred — the same for the object / array keyword groups of schema validation (C01).
func KeywordPred(p *core.Prog, r *core.Report) {
	const rule = "KEYWORD-PRED"
	ov := "(*objectValidator).Validate"
	rng := "IsValueValidAgainstRange"
	clauses := []predClause{
		{ov, "TooFewProperties", []string{`^len\(.*\) < .*MinProperties$`}, nil, "minProperties: fewer keys than the minimum"},
		{ov, "TooManyProperties", []string{`^len\(.*\) > .*MaxProperties$`}, nil, "maxProperties: more keys than the maximum"},
		{"(*objectValidator).validateNoAdditionalProperties", "PropertyNotAllowed", []string{`^!found\(`, `^!flag\{.*MatchString`}, nil, "additionalProperties:false — a key that is neither a declared property nor matched by a pattern"},
		{"(*objectValidator).validatePropertiesSchema", "Required", []string{`^!found\(`}, nil, "required: the member is absent (and not created from a default)"},
		{"(*schemaPropsValidator).validateDependencies", "hasADependencyMsg", []string{`^!found\(`}, nil, "property dependencies: a dependent key is missing"},
		{"(*schemaSliceValidator).Validate", "arrayDoesNotAllowAdditionalItemsMsg", []string{`^phi\(.*\) < Len\(`, `^!.*Allows$`}, nil, "additionalItems:false — more elements than the tuple"},
		// numeric formats: each (type, format) pair is range-checked by the conversion of that very width
		{rng, "ConvertInt32", []string{`^arg1 == "integer"$`, `^arg2 == "int32"$`}, nil, "integer/int32 values must fit 32 signed bits"},
		{rng, "ConvertUint32", []string{`^arg1 == "integer"$`, `^arg2 == "uint32"$`}, nil, "integer/uint32 values must fit 32 unsigned bits"},
		{rng, "ConvertUint64", []string{`^arg1 == "integer"$`, `^arg2 == "uint64"$`}, nil, "integer/uint64 values must fit 64 unsigned bits"},
		{rng, "ConvertInt64", []string{`^arg1 == "integer"$`}, []string{`^arg2 == "int32"$`, `^arg2 == "uint32"$`, `^arg2 == "uint64"$`}, "integer with format int64 or none must fit 64 signed bits"},
		{rng, "ConvertFloat32", []string{`^arg1 != "integer"$`, `^arg2 == "float(32)?"$`}, nil, "number/float values must fit a float32"},
	}
	n := checkPredClauses(p, r, rule, clauses)
	r.Count("keyword_predicate_sites", n)
	r.Floor("keyword_predicate_sites", 8)
}

// messageSink: the method of Result that a freshly built message is handed to (through the slice of a variadic
// call and interface conversions); "" when it goes elsewhere.
func messageSink(v ssa.Value, d int) string {
	if d > 6 {
		return ""
	}
	for _, ref := range core.Refs(v) {
		switch u := ref.(type) {
		case *ssa.MakeInterface:
			if s := messageSink(u, d+1); s != "" {
				return s
			}
		case *ssa.ChangeInterface:
			if s := messageSink(u, d+1); s != "" {
				return s
			}
		case *ssa.Store:
			if ia, ok := u.Addr.(*ssa.IndexAddr); ok && u.Val == v {
				if s := messageSink(ia.X, d+1); s != "" {
					return s
				}
			}
		case *ssa.Slice:
			if s := messageSink(u, d+1); s != "" {
				return s
			}
		case *ssa.Call:
			if g := core.StaticCallee(u); g != nil && g.Signature.Recv() != nil {
				if n := core.NamedOf(g.Signature.Recv().Type()); n != nil && core.KnownTypeName(n) == "Result" {
					return g.Name()
				}
			}
		}
	}
	return ""
}
