package rules

import (
	"fmt"
	"go/token"
	"go/types"
	"strings"

	"golang.org/x/tools/go/ssa"

	"verifchk/core"
)

// MAP-ORDER — results do not depend on Go's randomised map iteration order (C10).
//
// (a) a `range` over a map may be left before exhaustion (return/break/goto) only by a pure search loop,
//     i.e. one whose body performs no call that adds messages or mutates results; otherwise which
//     messages are produced depends on the order.
// (b) a slice filled while ranging over a map (directly, through a callee, or by ranging over such a
//     slice) must be sorted before it is handed as a whole to a message constructor / fmt / strings.Join.

type mapLoop struct {
	rng    *ssa.Range
	next   *ssa.Next
	header *ssa.BasicBlock
	body   map[*ssa.BasicBlock]bool
	done   *ssa.BasicBlock
}

func mapLoops(f *ssa.Function) []mapLoop {
	var out []mapLoop
	core.EachInstr(f, func(i ssa.Instruction) {
		rg, ok := i.(*ssa.Range)
		if !ok {
			return
		}
		if _, isMap := rg.X.Type().Underlying().(*types.Map); !isMap {
			return
		}
		for _, ref := range core.Refs(rg) {
			nx, ok := ref.(*ssa.Next)
			if !ok {
				continue
			}
			h := nx.Block()
			ifi, ok := h.Instrs[len(h.Instrs)-1].(*ssa.If)
			if !ok {
				continue
			}
			_ = ifi
			done := h.Succs[1]
			// natural loop of the back edges into h: nodes that reach a latch without passing through h
			in := map[*ssa.BasicBlock]bool{}
			var stack []*ssa.BasicBlock
			for _, pr := range h.Preds {
				if h.Dominates(pr) && pr != h {
					if !in[pr] {
						in[pr] = true
						stack = append(stack, pr)
					}
				}
			}
			for len(stack) > 0 {
				b := stack[len(stack)-1]
				stack = stack[:len(stack)-1]
				for _, pr := range b.Preds {
					if pr != h && !in[pr] && h.Dominates(pr) {
						in[pr] = true
						stack = append(stack, pr)
					}
				}
			}
			out = append(out, mapLoop{rg, nx, h, in, done})
		}
	})
	return out
}

func MapOrder(scopeEntries ...string) Rule {
	return func(p *core.Prog, r *core.Report) {
		const rule = "MAP-ORDER"
		cg := core.BuildCallGraph(p)
		reach, _ := cg.Reachable(scopeEntries...)
		nLoops, nExits := 0, 0
		// effectful callees: anything that may add messages or mutate a Result (computed: functions that
		// reach an AddErrors/AddWarnings/Merge* call or a store to a Result field)
		effectful := map[*ssa.Function]bool{}
		for _, f := range p.Funcs {
			core.EachInstr(f, func(i ssa.Instruction) {
				if st, ok := i.(*ssa.Store); ok {
					if fa, ok := st.Addr.(*ssa.FieldAddr); ok && isResultPtr(fa.X.Type()) {
						effectful[f] = true
					}
				}
			})
		}
		for changed := true; changed; {
			changed = false
			for _, f := range p.Funcs {
				if effectful[f] {
					continue
				}
				for _, g := range cg.Out[f] {
					if effectful[g] {
						effectful[f] = true
						changed = true
						break
					}
				}
			}
		}
		seq := map[string]int{}
		for _, f := range p.Funcs {
			if !reach[f] {
				continue
			}
			fn := core.FuncName(f)
			for _, ml := range mapLoops(f) {
				nLoops++
				over := describe(ml.rng.X)
				// exits
				var exits []*ssa.BasicBlock
				for b := range ml.body {
					for _, s := range b.Succs {
						if s != ml.header && !ml.body[s] && !endsInPanic(s) {
							exits = append(exits, b)
						}
					}
				}
				base := fn + ":range " + over
				seq[base]++
				key := base
				if seq[base] > 1 {
					key = fmt.Sprintf("%s#%d", base, seq[base])
				}
				// (c) carried state: a message produced inside the loop must not depend on what earlier iterations of
				// the same loop stored in a container that outlives one iteration (first-come bookkeeping: with three
				// overlapping paths, which pairs are reported depends on which path was met first)
				if carried, what := carriedState(ml, f); carried {
					r.Bad(rule, key+":carried-state", p.Pos(ml.rng.Pos()), "inside this range over a map, whether a message is produced depends on a lookup in "+what+", which the same loop fills as it goes: with three or more interacting keys the set of messages depends on Go's random iteration order (paths /a/{x}, /a/{y}, /a/{z}: the overlaps reported vary among {x~y,x~z}, {x~y,y~z}, {x~z,y~z})")
				} else {
					r.OK(rule, key+":carried-state", p.Pos(ml.rng.Pos()), "no message depends on a container filled by earlier iterations of the same loop")
				}
				if len(exits) == 0 {
					r.OK(rule, key, p.Pos(ml.rng.Pos()), "map range runs to exhaustion")
					continue
				}
				nExits++
				// pure search?
				pure := true
				why := ""
				for b := range ml.body {
					for _, ins := range b.Instrs {
						switch x := ins.(type) {
						case ssa.CallInstruction:
							cc := x.Common()
							if cc.IsInvoke() {
								for _, g := range cg.Out[f] {
									if g.Name() == cc.Method.Name() && effectful[g] {
										pure, why = false, "calls "+cc.Method.Name()
									}
								}
								continue
							}
							if g := cc.StaticCallee(); g != nil && p.InSubject(g) && effectful[g] {
								pure, why = false, "calls "+core.FuncName(g)
							}
						case *ssa.Store:
							if fa, ok := x.Addr.(*ssa.FieldAddr); ok && isResultPtr(fa.X.Type()) {
								pure, why = false, "writes a Result"
							}
						case *ssa.MapUpdate:
							pure, why = false, "updates a map"
						}
					}
				}
				if pure {
					r.OK(rule, key, p.Pos(ml.rng.Pos()), "left early, but a pure search loop (no message is produced inside it)")
				} else {
					r.Bad(rule, key, p.Pos(posOf(exits[0].Instrs[len(exits[0].Instrs)-1], f)), "a range over a map is left before exhaustion while its body "+why+": which messages are reported depends on Go's random map iteration order")
				}
			}
		}
		r.Count("map_range_loops", nLoops)
		r.Count("map_range_early_exits", nExits)
		specScope := false
		for _, e := range scopeEntries {
			if strings.Contains(e, "SpecValidator") {
				specScope = true
			}
		}
		if specScope {
			r.Floor("map_range_loops", 30)
			r.Floor("order_tainted_lists_rendered", 2)
		} else {
			r.Floor("map_range_loops", 8)
		}
		orderTaint(p, r, reach, effectful)
		if specScope {
			sortedPairs(p, r, reach)
		}
		r.Note("MAP-ORDER: %d map ranges in %d functions reachable from %v, %d with early exits", nLoops, len(reach), scopeEntries, nExits)
	}
}

// endsInPanic: every path from b ends in a panic without returning (straight-line check).
func endsInPanic(b *ssa.BasicBlock) bool {
	for n := 0; n < 8; n++ {
		if _, ok := b.Instrs[len(b.Instrs)-1].(*ssa.Panic); ok {
			return true
		}
		if len(b.Succs) != 1 {
			return false
		}
		b = b.Succs[0]
	}
	return false
}

func orderTaint(p *core.Prog, r *core.Report, reach map[*ssa.Function]bool, effectful map[*ssa.Function]bool) {
	const rule = "MAP-ORDER"
	returnsTainted := map[*ssa.Function]map[int]bool{}
	isSlice := func(t types.Type) bool { _, ok := t.Underlying().(*types.Slice); return ok }
	taintOf := func(f *ssa.Function) map[ssa.Value]bool {
		t := map[ssa.Value]bool{}
		loops := mapLoops(f)
		inMapLoop := func(b *ssa.BasicBlock) bool {
			for _, ml := range loops {
				if ml.body[b] {
					return true
				}
			}
			return false
		}
		// slice-range loops over tainted slices also taint what is appended inside
		for changed := true; changed; {
			changed = false
			mark := func(v ssa.Value) {
				if !t[v] {
					t[v] = true
					changed = true
				}
			}
			core.EachInstr(f, func(i ssa.Instruction) {
				switch x := i.(type) {
				case *ssa.Call:
					if b, ok := x.Call.Value.(*ssa.Builtin); ok && b.Name() == "append" {
						if inMapLoop(x.Block()) || t[x.Call.Args[0]] || (len(x.Call.Args) > 1 && t[x.Call.Args[1]]) {
							mark(x)
						}
						// appended element derives from an element of a tainted slice
						for _, e := range varargElems(x.Call.Args[1]) {
							if fromTaintedElem(e, t, 0) {
								mark(x)
							}
						}
						return
					}
					if g := core.StaticCallee(x); g != nil && isSlice(x.Type()) && returnsTainted[g][0] {
						mark(x)
					}
				case *ssa.Extract:
					if c, ok := x.Tuple.(*ssa.Call); ok && isSlice(x.Type()) {
						if g := core.StaticCallee(c); g != nil && returnsTainted[g][x.Index] {
							mark(x)
						}
					}
				case *ssa.Phi:
					for _, e := range x.Edges {
						if t[e] {
							mark(x)
						}
					}
				case *ssa.Slice:
					if t[x.X] {
						mark(x)
					}
				}
			})
		}
		return t
	}
	for iter := 0; iter < 6; iter++ {
		changed := false
		for _, f := range p.Funcs {
			t := taintOf(f)
			for _, b := range f.Blocks {
				if ret, ok := b.Instrs[len(b.Instrs)-1].(*ssa.Return); ok {
					for k, v := range ret.Results {
						if t[v] && !returnsTainted[f][k] {
							if returnsTainted[f] == nil {
								returnsTainted[f] = map[int]bool{}
							}
							returnsTainted[f][k] = true
							changed = true
						}
					}
				}
			}
		}
		if !changed {
			break
		}
	}
	isSink := func(g *ssa.Function) bool {
		if g == nil {
			return false
		}
		q := core.QualName(g)
		switch q {
		case "fmt.Sprintf", "fmt.Errorf", "strings.Join", "fmt.Sprint", "fmt.Sprintln":
			return true
		}
		if p.InSubject(g) {
			// a message constructor of the package: returns the errors package's Error built from its arguments
			return g.Signature.Results().Len() == 1 && strings.HasSuffix(g.Signature.Results().At(0).Type().String(), "errors.Error") && g.Signature.Recv() == nil
		}
		return strings.HasPrefix(q, "errors.") && g.Pkg != nil && g.Pkg.Pkg.Path() == "github.com/go-openapi/errors"
	}
	n := 0
	for _, f := range p.Funcs {
		if !reach[f] {
			continue
		}
		t := taintOf(f)
		if len(t) == 0 {
			continue
		}
		fn := core.FuncName(f)
		core.EachInstr(f, func(i ssa.Instruction) {
			c, ok := i.(*ssa.Call)
			if !ok {
				return
			}
			g := core.StaticCallee(c)
			if !isSink(g) {
				return
			}
			for _, a := range c.Call.Args {
				if !t[a] {
					if mi, ok := a.(*ssa.MakeInterface); !ok || !t[mi.X] {
						continue
					}
					a = a.(*ssa.MakeInterface).X
				}
				n++
				key := fn + ":" + core.CalleeID(c) + ":" + describeTaint(a)
				// sorted before?
				sorted := false
				core.EachInstr(f, func(j ssa.Instruction) {
					sc, ok := j.(*ssa.Call)
					if !ok || !core.InstrDominates(sc, c) {
						return
					}
					sg := core.StaticCallee(sc)
					if sg == nil {
						return
					}
					switch core.QualName(sg) {
					case "sort.Strings", "sort.Slice", "sort.SliceStable", "sort.Sort", "sort.Stable", "slices.Sort":
						if sc.Call.Args[0] == a {
							sorted = true
						}
						if mi, ok := sc.Call.Args[0].(*ssa.MakeInterface); ok && mi.X == a {
							sorted = true
						}
					}
				})
				if sorted {
					r.OK(rule, key, p.Pos(c.Pos()), "list built in map order is sorted before it is rendered")
				} else {
					r.Bad(rule, key, p.Pos(c.Pos()), "a list filled while iterating over a map is rendered into a message without being sorted: the message text differs from run to run")
				}
			}
		})
	}
	r.Count("order_tainted_lists_rendered", n)
	// (c) a loop over a list that was filled in map order inherits the order dependence: it may be left before
	//     exhaustion only when its body produces no message (same rule as for ranges over maps)
	nT := 0
	seqT := map[string]int{}
	for _, f := range p.Funcs {
		if !reach[f] {
			continue
		}
		t := taintOf(f)
		if len(t) == 0 {
			continue
		}
		fn := core.FuncName(f)
		for _, L := range allLoopsOf(f) {
			// header: the block of L that dominates all others; its condition compares with len(tainted)
			var h *ssa.BasicBlock
			for b := range L {
				dom := true
				for c := range L {
					if !b.Dominates(c) {
						dom = false
						break
					}
				}
				if dom {
					h = b
				}
			}
			if h == nil {
				continue
			}
			iff, ok := h.Instrs[len(h.Instrs)-1].(*ssa.If)
			if !ok {
				continue
			}
			bo, ok := iff.Cond.(*ssa.BinOp)
			if !ok {
				continue
			}
			var list ssa.Value
			for _, side := range []ssa.Value{bo.X, bo.Y} {
				if c, ok := side.(*ssa.Call); ok {
					if b, ok := c.Call.Value.(*ssa.Builtin); ok && b.Name() == "len" && t[c.Call.Args[0]] {
						list = c.Call.Args[0]
					}
				}
			}
			if list == nil {
				continue
			}
			nT++
			var exit *ssa.BasicBlock
			for b := range L {
				if b == h {
					continue
				}
				for _, s := range b.Succs {
					if !L[s] && !endsInPanic(s) {
						exit = b
					}
				}
			}
			base := fn + ":range over a list built in map order (" + describeTaint(list) + ")"
			seqT[base]++
			key := base
			if seqT[base] > 1 {
				key = fmt.Sprintf("%s#%d", base, seqT[base])
			}
			if exit == nil {
				r.OK(rule, key, p.Pos(posOf(iff, f)), "the loop over the map-ordered list runs to exhaustion")
				continue
			}
			why := ""
			for b := range L {
				for _, ins := range b.Instrs {
					switch x := ins.(type) {
					case ssa.CallInstruction:
						if g := x.Common().StaticCallee(); g != nil && p.InSubject(g) && effectful[g] {
							why = "calls " + core.FuncName(g)
						}
					case *ssa.Store:
						if fa, ok := x.Addr.(*ssa.FieldAddr); ok && isResultPtr(fa.X.Type()) {
							why = "writes a Result"
						}
					}
				}
			}
			if why == "" {
				r.OK(rule, key, p.Pos(posOf(iff, f)), "left early, but no message is produced inside the loop")
			} else {
				r.Bad(rule, key, p.Pos(posOf(exit.Instrs[len(exit.Instrs)-1], f)), "a loop over a list that was filled in map iteration order is left before exhaustion while its body "+why+": which messages are reported differs from run to run")
			}
		}
	}
	r.Count("order_tainted_list_loops", nT)
}

func fromTaintedElem(v ssa.Value, t map[ssa.Value]bool, d int) bool {
	if d > 6 {
		return false
	}
	switch x := v.(type) {
	case *ssa.UnOp:
		if ia, ok := x.X.(*ssa.IndexAddr); ok {
			return t[ia.X]
		}
		return fromTaintedElem(x.X, t, d+1)
	case *ssa.Field:
		return fromTaintedElem(x.X, t, d+1)
	case *ssa.FieldAddr:
		return fromTaintedElem(x.X, t, d+1)
	case *ssa.BinOp:
		return fromTaintedElem(x.X, t, d+1) || fromTaintedElem(x.Y, t, d+1)
	case *ssa.MakeInterface:
		return fromTaintedElem(x.X, t, d+1)
	case *ssa.Alloc:
		// a local copy of a range element
		for _, ref := range core.Refs(x) {
			if st, ok := ref.(*ssa.Store); ok && st.Addr == ssa.Value(x) && fromTaintedElem(st.Val, t, d+1) {
				return true
			}
		}
	}
	return false
}

func describeTaint(v ssa.Value) string {
	if phi, ok := v.(*ssa.Phi); ok && phi.Comment != "" {
		return phi.Comment
	}
	return describe(v)
}

// sortedPairs — the "sort the two names for a stable message" idiom: when the two arms of a branch call the
// same message constructor with two of its arguments exchanged, the branch must be an ordering test of exactly
// those two values. Otherwise which value comes first is decided by something else (typically the order in
// which a map range met them) and the message text differs from run to run.
func sortedPairs(p *core.Prog, r *core.Report, reach map[*ssa.Function]bool) {
	const rule = "MAP-ORDER"
	n := 0
	for _, f := range p.Funcs {
		if !reach[f] {
			continue
		}
		fn := core.FuncName(f)
		byCallee := map[*ssa.Function][]*ssa.Call{}
		core.EachInstr(f, func(i ssa.Instruction) {
			if c, ok := i.(*ssa.Call); ok {
				if g := core.StaticCallee(c); g != nil && p.InSubject(g) && len(c.Call.Args) >= 2 {
					byCallee[g] = append(byCallee[g], c)
				}
			}
		})
		for g, calls := range byCallee {
			for x := 0; x < len(calls); x++ {
				for y := x + 1; y < len(calls); y++ {
					c1, c2 := calls[x], calls[y]
					if c1.Block() == c2.Block() {
						continue
					}
					d1 := make([]string, len(c1.Call.Args))
					d2 := make([]string, len(c2.Call.Args))
					for k := range c1.Call.Args {
						d1[k], d2[k] = opDesc(c1.Call.Args[k], 0), opDesc(c2.Call.Args[k], 0)
					}
					si, sj := -1, -1
					same := true
					for k := range d1 {
						if d1[k] != d2[k] {
							if si < 0 {
								si = k
							} else if sj < 0 {
								sj = k
							} else {
								same = false
							}
						}
					}
					if !same || si < 0 || sj < 0 || d1[si] != d2[sj] || d1[sj] != d2[si] {
						continue
					}
					// the branch separating the two calls
					var br *ssa.BasicBlock
					for b := c1.Block().Idom(); b != nil; b = b.Idom() {
						if b.Dominates(c2.Block()) {
							br = b
							break
						}
					}
					if br == nil {
						continue
					}
					iff, ok := br.Instrs[len(br.Instrs)-1].(*ssa.If)
					if !ok {
						continue
					}
					n++
					key := fn + ":" + g.Name() + ":sorted-pair"
					a, b := d1[si], d1[sj]
					okCmp, got := false, opDesc(iff.Cond, 0)
					if bo, ok := iff.Cond.(*ssa.BinOp); ok {
						var l, rr string
						if call, ok := bo.X.(*ssa.Call); ok && len(call.Call.Args) == 2 {
							if cg := core.StaticCallee(call); cg != nil && core.QualName(cg) == "strings.Compare" {
								l, rr = opDesc(call.Call.Args[0], 0), opDesc(call.Call.Args[1], 0)
							}
						} else {
							switch bo.Op {
							case token.LSS, token.LEQ, token.GTR, token.GEQ:
								l, rr = opDesc(bo.X, 0), opDesc(bo.Y, 0)
							}
						}
						if (l == a && rr == b) || (l == b && rr == a) {
							okCmp = true
						}
					}
					if okCmp {
						r.OK(rule, key, p.Pos(c1.Pos()), "the two arms exchange arguments "+fmt.Sprint(si)+" and "+fmt.Sprint(sj)+" and the branch compares exactly these two values: the message is canonical")
					} else {
						r.Bad(rule, key, p.Pos(c1.Pos()), "the two arms of a branch call "+g.Name()+" with two arguments exchanged, but the branch ("+got+") is not an ordering test of those two values ("+a+" , "+b+"): which one is named first depends on the order in which they were met (map iteration)")
					}
				}
			}
		}
	}
	r.Count("sorted_pair_idioms", n)
	r.Floor("sorted_pair_idioms", 1)
}

// mapRoot follows nested lookups / loads to the container a map value was taken from.
func mapRoot(v ssa.Value, d int) ssa.Value {
	if d > 6 {
		return v
	}
	switch x := v.(type) {
	case *ssa.Lookup:
		return mapRoot(x.X, d+1)
	case *ssa.Extract:
		if lk, ok := x.Tuple.(*ssa.Lookup); ok {
			return mapRoot(lk.X, d+1)
		}
	case *ssa.Phi:
		if len(x.Edges) > 0 {
			return mapRoot(x.Edges[0], d+1)
		}
	}
	return v
}

// carriedState: a message call in the loop body is control dependent on a lookup into a map that the same loop
// body updates and that was created outside the body.
func carriedState(ml mapLoop, f *ssa.Function) (bool, string) {
	updated := map[ssa.Value]bool{}
	for b := range ml.body {
		for _, ins := range b.Instrs {
			if mu, ok := ins.(*ssa.MapUpdate); ok {
				root := mapRoot(mu.Map, 0)
				if ri, isInstr := root.(ssa.Instruction); isInstr && ml.body[ri.Block()] {
					continue // made inside this iteration
				}
				updated[root] = true
			}
		}
	}
	if len(updated) == 0 {
		return false, ""
	}
	var lookupOf func(v ssa.Value, d int) ssa.Value
	lookupOf = func(v ssa.Value, d int) ssa.Value {
		if d > 6 || v == nil {
			return nil
		}
		switch x := v.(type) {
		case *ssa.Lookup:
			if r := mapRoot(x, 0); updated[r] {
				return r
			}
		case *ssa.Extract:
			return lookupOf(x.Tuple, d+1)
		case *ssa.BinOp:
			if r := lookupOf(x.X, d+1); r != nil {
				return r
			}
			return lookupOf(x.Y, d+1)
		case *ssa.UnOp:
			return lookupOf(x.X, d+1)
		case *ssa.Call:
			for _, a := range x.Call.Args {
				if r := lookupOf(a, d+1); r != nil {
					return r
				}
			}
		}
		return nil
	}
	for b := range ml.body {
		for _, ins := range b.Instrs {
			c, ok := ins.(ssa.CallInstruction)
			if !ok {
				continue
			}
			g := core.StaticCallee(c)
			if g == nil || (g.Name() != "AddErrors" && g.Name() != "AddWarnings") {
				continue
			}
			for _, cd := range core.ControlConds(b) {
				if !ml.body[cd.If.Block()] {
					continue
				}
				if r := lookupOf(cd.Value, 0); r != nil {
					return true, describe(r)
				}
			}
		}
	}
	return false, ""
}
