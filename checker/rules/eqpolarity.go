package rules

import (
	"fmt"
	"go/token"
	"go/types"
	"sort"

	"golang.org/x/tools/go/ssa"

	"verifchk/core"
)

// equalityPolarity — in the equality predicates behind the value helpers (functions to bool of two operands of
// the same type, reachable from the given roots, that never order their operands), a comparison of something
// derived from the first operand only with something derived from the second operand only decides the verdict in
// one direction: the edge on which the two are *equal* never leads straight to `return false`, the edge on which
// they *differ* never straight to `return true`, and no such predicate returns the value of a cross-operand `!=`.
// (A flipped comparison in a slow path — the invalid-byte branch of the folding helper, the length test of the
// container comparison — leaves the common cases intact and turns the rare one around.)
// Returns one description per offending construct, and the number of comparisons checked.
func equalityPolarity(p *core.Prog, roots []*ssa.Function) (bad []string, checked int, preds []string) {
	seen := map[*ssa.Function]bool{}
	var cands []*ssa.Function
	var visit func(g *ssa.Function, d int)
	visit = func(g *ssa.Function, d int) {
		if g == nil || seen[g] || d > 5 || !p.InSubject(g) || len(g.Blocks) == 0 {
			return
		}
		seen[g] = true
		core.EachInstr(g, func(i ssa.Instruction) {
			if c, ok := i.(ssa.CallInstruction); ok {
				visit(core.StaticCallee(c), d+1)
			}
		})
		if d == 0 || len(g.Params) < 2 || g.Signature.Results().Len() != 1 {
			return
		}
		if b, ok := g.Signature.Results().At(0).Type().Underlying().(*types.Basic); !ok || b.Kind() != types.Bool {
			return
		}
		if !types.Identical(g.Params[0].Type(), g.Params[1].Type()) {
			return
		}
		cands = append(cands, g)
	}
	for _, f := range roots {
		visit(f, 0)
	}
	sort.Slice(cands, func(i, j int) bool { return core.FuncName(cands[i]) < core.FuncName(cands[j]) })
	for _, g := range cands {
		// which of the two operands a value derives from (bit 0 / bit 1)
		memo := map[ssa.Value]int{}
		var derive func(v ssa.Value, d int) int
		derive = func(v ssa.Value, d int) int {
			if v == nil || d > 14 {
				return 0
			}
			if m, ok := memo[v]; ok {
				return m
			}
			memo[v] = 0
			m := 0
			switch x := v.(type) {
			case *ssa.Parameter:
				if x == g.Params[0] {
					m = 1
				} else if x == g.Params[1] {
					m = 2
				}
			case *ssa.Const, *ssa.Global, *ssa.Function, *ssa.Builtin:
			case *ssa.UnOp:
				if al, ok := x.X.(*ssa.Alloc); ok && x.Op == token.MUL {
					for _, ref := range core.Refs(al) {
						if st, ok := ref.(*ssa.Store); ok && st.Addr == ssa.Value(al) {
							m |= derive(st.Val, d+1)
						}
					}
				} else {
					m = derive(x.X, d+1)
				}
			default:
				if ins, ok := v.(ssa.Instruction); ok {
					for _, op := range ins.Operands(nil) {
						if op != nil && *op != nil {
							m |= derive(*op, d+1)
						}
					}
				}
			}
			memo[v] = m
			return m
		}
		cross := func(b *ssa.BinOp) bool {
			x, y := derive(b.X, 0), derive(b.Y, 0)
			return crossOperands(x, y)
		}
		orders := false
		var eqs []*ssa.BinOp
		core.EachInstr(g, func(i ssa.Instruction) {
			b, ok := i.(*ssa.BinOp)
			if !ok {
				return
			}
			switch b.Op {
			case token.LSS, token.LEQ, token.GTR, token.GEQ:
				if cross(b) {
					orders = true
				}
			case token.EQL, token.NEQ:
				if cross(b) {
					eqs = append(eqs, b)
				}
			}
		})
		// calls that answer "equal": the library's comparisons and the package's own equality predicates
		var eqCalls []*ssa.Call
		core.EachInstr(g, func(i ssa.Instruction) {
			c, ok := i.(*ssa.Call)
			if !ok || len(c.Call.Args) < 2 {
				return
			}
			h := core.StaticCallee(c)
			if h == nil {
				return
			}
			isEq := false
			switch core.QualName(h) {
			case "strings.EqualFold", "reflect.DeepEqual", "bytes.Equal", "bytes.EqualFold":
				isEq = true
			}
			for _, cg := range cands {
				if cg == h {
					isEq = true
				}
			}
			if isValueEqualityPredicate(p, h) {
				isEq = true
			}
			x, y := derive(c.Call.Args[0], 0), derive(c.Call.Args[1], 0)
			if isEq && crossOperands(x, y) {
				eqCalls = append(eqCalls, c)
			}
		})
		if orders || len(eqs)+len(eqCalls) == 0 {
			continue
		}
		preds = append(preds, core.FuncName(g))
		// a block that does nothing but return a constant
		retConst := func(b *ssa.BasicBlock) (bool, bool) {
			for hops := 0; hops < 3; hops++ {
				if len(b.Instrs) != 1 {
					return false, false
				}
				switch t := b.Instrs[0].(type) {
				case *ssa.Return:
					if len(t.Results) == 1 {
						if k, ok := t.Results[0].(*ssa.Const); ok && k.Value != nil {
							return k.Value.ExactString() == "true", true
						}
					}
					return false, false
				case *ssa.Jump:
					b = b.Succs[0]
					continue
				}
				return false, false
			}
			return false, false
		}
		// member-wise comparison: a loop that answers false on the first difference answers true when it runs out
		loopExitFalse := func(at *ssa.BasicBlock) string {
			for h := at.Idom(); h != nil; h = h.Idom() {
				if _, isIf := h.Instrs[len(h.Instrs)-1].(*ssa.If); !isIf || len(h.Succs) != 2 {
					continue
				}
				// a loop head: reachable again from the comparison
				back := false
				seen := map[*ssa.BasicBlock]bool{}
				stack := append([]*ssa.BasicBlock{}, at.Succs...)
				for len(stack) > 0 && !back {
					x := stack[len(stack)-1]
					stack = stack[:len(stack)-1]
					if seen[x] {
						continue
					}
					seen[x] = true
					if x == h {
						back = true
						break
					}
					if h.Dominates(x) {
						stack = append(stack, x.Succs...)
					}
				}
				if !back {
					continue
				}
				for _, sx := range h.Succs {
					if sx != at && !sx.Dominates(at) {
						if v, ok := retConst(sx); ok && !v {
							return p.Pos(sx.Instrs[len(sx.Instrs)-1].Pos())
						}
					}
				}
				return ""
			}
			return ""
		}
		for _, c := range eqCalls {
			checked++
			for _, ref := range core.Refs(c) {
				u, ok := ref.(*ssa.If)
				if !ok || u.Cond != ssa.Value(c) {
					continue
				}
				if v, ok := retConst(u.Block().Succs[1]); ok && !v {
					if where := loopExitFalse(u.Block()); where != "" {
						bad = append(bad, fmt.Sprintf("%s (%s): the loop that answers false on the first pair of members that differ also answers false when it has run out of members (%s): containers with equal members are never equal", core.FuncName(g), p.Pos(c.Pos()), where))
					}
				}
				if v, ok := retConst(u.Block().Succs[0]); ok && !v {
					bad = append(bad, fmt.Sprintf("%s (%s): when %s finds the parts of the two operands equal, the predicate answers false at once", core.FuncName(g), p.Pos(c.Pos()), core.CalleeID(c)))
				}
				if v, ok := retConst(u.Block().Succs[1]); ok && v {
					bad = append(bad, fmt.Sprintf("%s (%s): when %s finds the parts of the two operands different, the predicate answers true at once", core.FuncName(g), p.Pos(c.Pos()), core.CalleeID(c)))
				}
			}
		}
		for _, b := range eqs {
			checked++
			for _, ref := range core.Refs(b) {
				switch u := ref.(type) {
				case *ssa.If:
					if u.Cond != ssa.Value(b) {
						continue
					}
					eqEdge, neEdge := u.Block().Succs[0], u.Block().Succs[1]
					if b.Op == token.NEQ {
						eqEdge, neEdge = neEdge, eqEdge
					}
					if v, ok := retConst(eqEdge); ok && !v {
						bad = append(bad, fmt.Sprintf("%s (%s): when the parts of the two operands compared here are equal, the predicate answers false at once", core.FuncName(g), p.Pos(b.Pos())))
					}
					if v, ok := retConst(neEdge); ok && v {
						bad = append(bad, fmt.Sprintf("%s (%s): when the parts of the two operands compared here differ, the predicate answers true at once", core.FuncName(g), p.Pos(b.Pos())))
					}
				case *ssa.Return:
					if b.Op == token.NEQ {
						bad = append(bad, fmt.Sprintf("%s (%s): the predicate returns the value of an inequality between its operands", core.FuncName(g), p.Pos(b.Pos())))
					}
				}
			}
		}
	}
	return bad, checked, preds
}

// crossOperands: one side derives from the first operand, the other from the second, and they are not the same
// mixture (the value a map of the second operand holds under a key of the first still stands for the second).
func crossOperands(x, y int) bool {
	return x != 0 && y != 0 && x != y && x|y == 3
}
