package rules

import (
	"fmt"
	"go/token"
	"go/types"
	"sort"
	"strings"

	"golang.org/x/tools/go/ssa"

	"verifchk/core"
)

// draft-4 keywords the library supports (from the statement of C01), by spec.SchemaProps field name
var schemaKeywords = []string{"Type", "Format", "Enum", "Maximum", "ExclusiveMaximum", "Minimum", "ExclusiveMinimum", "MultipleOf",
	"MaxLength", "MinLength", "Pattern", "MaxItems", "MinItems", "UniqueItems", "Items", "AdditionalItems",
	"MaxProperties", "MinProperties", "Required", "Properties", "PatternProperties", "AdditionalProperties", "Dependencies",
	"AllOf", "AnyOf", "OneOf", "Not"}

// simple-schema constraints (statement of C16), by spec.CommonValidations / spec.SimpleSchema field name
var simpleKeywords = []string{"Type", "Format", "Enum", "Maximum", "ExclusiveMaximum", "Minimum", "ExclusiveMinimum", "MultipleOf",
	"MaxLength", "MinLength", "Pattern", "MaxItems", "MinItems", "UniqueItems", "Items"}

type kwFlow struct {
	T     *types.Named // sub-validator type
	field string       // its field receiving the keyword
	at    ssa.Instruction
}

// lastField: the last field name of the access path of v (through conversions and composite wrappers).
func keywordOf(v ssa.Value, depth int) (string, bool) {
	if depth > 6 {
		return "", false
	}
	switch x := v.(type) {
	case *ssa.MakeInterface:
		return keywordOf(x.X, depth+1)
	case *ssa.Convert:
		return keywordOf(x.X, depth+1)
	case *ssa.ChangeType:
		return keywordOf(x.X, depth+1)
	case *ssa.UnOp:
		if x.Op == token.MUL {
			if fa, ok := x.X.(*ssa.FieldAddr); ok {
				n := core.NamedOf(fa.X.Type())
				_, fn, _ := core.FieldOf(fa)
				if n != nil && n.Obj().Pkg() != nil && strings.HasSuffix(n.Obj().Pkg().Path(), "go-openapi/spec") {
					return fn, true
				}
				return "", false
			}
		}
	case *ssa.Slice:
		// spec.StringOrArray([]string{x.Type}): a one-element literal
		if al, ok := x.X.(*ssa.Alloc); ok {
			for _, ref := range core.Refs(al) {
				if ia, ok := ref.(*ssa.IndexAddr); ok {
					for _, r2 := range core.Refs(ia) {
						if st, ok := r2.(*ssa.Store); ok && st.Addr == ssa.Value(ia) {
							return keywordOf(st.Val, depth+1)
						}
					}
				}
			}
		}
	}
	return "", false
}

// finalCtorCall: follow thin wrapper methods down to the constructor call they return.
func finalCtorCalls(p *core.Prog, ctors map[*ssa.Function]*types.Named, v ssa.Value, depth int) []*ssa.Call {
	if depth > 4 {
		return nil
	}
	v = stripIface(v)
	c, ok := v.(*ssa.Call)
	if !ok {
		return nil
	}
	g := core.StaticCallee(c)
	if g == nil || !p.InSubject(g) {
		return nil
	}
	if _, ok := ctors[g]; ok {
		return []*ssa.Call{c}
	}
	var out []*ssa.Call
	for _, b := range g.Blocks {
		if ret, ok := b.Instrs[len(b.Instrs)-1].(*ssa.Return); ok && len(ret.Results) == 1 {
			out = append(out, finalCtorCalls(p, ctors, ret.Results[0], depth+1)...)
		}
	}
	return out
}

// ctorParamFields: the fields of the constructed object that receive parameter k of constructor g, or a
// value derived from it inside the constructor (element addresses, constructor calls on them, appends).
func ctorParamFields(g *ssa.Function, k int) []string {
	if k >= len(g.Params) {
		return nil
	}
	seen := map[ssa.Value]bool{}
	names := map[string]bool{}
	var visit func(v ssa.Value, d int)
	visit = func(v ssa.Value, d int) {
		if d > 8 || seen[v] {
			return
		}
		seen[v] = true
		for _, ref := range core.Refs(v) {
			switch u := ref.(type) {
			case *ssa.Store:
				if u.Val == v {
					switch a := u.Addr.(type) {
					case *ssa.FieldAddr:
						_, fn, _ := core.FieldOf(a)
						names[fn] = true
					case *ssa.IndexAddr:
						visit(a.X, d+1) // stored into a local array/slice (varargs)
					case *ssa.Alloc:
						visit(a, d+1)
					}
				}
			case *ssa.Phi:
				visit(u, d+1)
			case *ssa.ChangeType:
				visit(u, d+1)
			case *ssa.Convert:
				visit(u, d+1)
			case *ssa.MakeInterface:
				visit(u, d+1)
			case *ssa.IndexAddr:
				if u.X == v {
					visit(u, d+1)
				}
			case *ssa.Slice:
				visit(u, d+1)
			case *ssa.UnOp:
				visit(u, d+1)
			case *ssa.Call:
				visit(u, d+1) // result of a call taking it (child constructor, append)
			}
		}
	}
	visit(g.Params[k], 0)
	var out []string
	for n := range names {
		out = append(out, n)
	}
	sort.Strings(out)
	return out
}

// Keywords checks, for one dispatcher type, that every keyword reaches a sub-validator field that is read while validating.
func Keywords(dispatcher string, keywords []string, floorName string) Rule {
	return func(p *core.Prog, r *core.Report) {
		const rule = "KEYWORDS"
		pi := discoverPools(p)
		ctors := ctorsOf(p, pi)
		si := discoverSlots(p, pi)
		var D *types.Named
		var dctor *ssa.Function
		for g, T := range ctors {
			if core.KnownTypeName(T) == dispatcher {
				D, dctor = T, g
			}
		}
		if D == nil {
			// the type may have been renamed: its constructor is followed by the anchors (signature + fingerprint)
			if g := p.Func("new" + strings.ToUpper(dispatcher[:1]) + dispatcher[1:]); g != nil {
				if T, ok := ctors[g]; ok {
					D, dctor = T, g
				}
			}
		}
		if D == nil {
			r.Unk(rule, dispatcher+":constructor", "-", "constructor of "+dispatcher+" not found")
			return
		}
		flows := map[string][]kwFlow{}
		nCalls := 0
		core.EachInstr(dctor, func(i ssa.Instruction) {
			st, ok := i.(*ssa.Store)
			if !ok {
				return
			}
			ia, ok := st.Addr.(*ssa.IndexAddr)
			if !ok {
				return
			}
			if _, isAlloc := ia.X.(*ssa.Alloc); !isAlloc {
				return
			}
			for _, cc := range finalCtorCalls(p, ctors, st.Val, 0) {
				nCalls++
				g := core.StaticCallee(cc)
				T := ctors[g]
				for k, arg := range cc.Call.Args {
					kw, ok := keywordOf(arg, 0)
					if !ok {
						continue
					}
					flds := ctorParamFields(g, k)
					if len(flds) == 0 {
						r.Bad(rule, dispatcher+":"+kw+":stored", p.Pos(cc.Pos()), "keyword "+kw+" is passed to "+core.FuncName(g)+" but that constructor does not keep it (or anything built from it) in a field")
						continue
					}
					flows[kw] = append(flows[kw], kwFlow{T, strings.Join(flds, "|"), cc})
				}
			}
		})
		_ = si
		r.Count(floorName, nCalls)
		r.Floor(floorName, 4)
		rs := &readSummary{p: p, memo: map[string]map[int]bool{}, open: map[string]bool{}}
		for _, kw := range keywords {
			fl := flows[kw]
			if len(fl) == 0 {
				r.Bad(rule, dispatcher+":"+kw+":wired", p.Pos(dctor.Pos()), "keyword "+kw+" of the definition is not handed to any sub-validator when "+dispatcher+" is built: it is silently ignored")
				continue
			}
			for _, x := range fl {
				key := dispatcher + ":" + kw + "->" + core.KnownTypeName(x.T) + "." + x.field
				// liveness: the field is read by Validate (or a method it calls on the receiver) or by Applies
				live := false
				st := x.T.Underlying().(*types.Struct)
				fi := -1
				_ = fi
				for _, fname := range strings.Split(x.field, "|") {
					for i := 0; i < st.NumFields(); i++ {
						if core.FieldName(st, i) != fname {
							continue
						}
						for _, m := range []string{"Validate", "Applies"} {
							if f := p.Func("(*" + core.KnownTypeName(x.T) + ")." + m); f != nil {
								reads, _ := rs.of(f, 0)
								if reads[i] {
									live = true
								}
							}
						}
					}
				}
				if live {
					r.OK(rule, key, p.Pos(x.at.Pos()), "keyword wired to a sub-validator field that its Validate/Applies reads")
				} else {
					r.Bad(rule, key, p.Pos(x.at.Pos()), "keyword "+kw+" is stored in "+core.KnownTypeName(x.T)+"."+x.field+" but never read while validating: the constraint is skipped")
				}
			}
		}
		var ks []string
		for k := range flows {
			ks = append(ks, k)
		}
		sort.Strings(ks)
		r.Info["keywords_wired_"+dispatcher] = ks
	}
}

// NilPath — keyword groups that apply whatever the kind of the instance must also run for a nil instance.
func NilPath(p *core.Prog, r *core.Report) {
	const rule = "NILPATH"
	na := newNilAn(p)
	f := p.Func("(*SchemaValidator).Validate")
	if f == nil {
		r.Unk(rule, "anchor", "-", "(*SchemaValidator).Validate not found")
		return
	}
	D := core.NamedOf(f.Signature.Recv().Type())
	// kind-independent implementations: Applies does not depend on its kind parameter
	kindIndep := map[*types.Named]bool{}
	for _, vf := range na.implsByName["Validate"] {
		T := core.NamedOf(vf.Signature.Recv().Type())
		af := p.Func("(*" + core.KnownTypeName(T) + ").Applies")
		if af == nil || len(af.Params) != 3 {
			continue
		}
		if len(core.Refs(af.Params[2])) == 0 {
			kindIndep[T] = true
		}
	}
	// slots invoked on the nil path
	invoked := map[*types.Named]bool{}
	var data *ssa.Parameter
	for _, prm := range f.Params {
		if prm.Name() == "data" {
			data = prm
		}
	}
	core.EachInstr(f, func(i ssa.Instruction) {
		c, ok := i.(*ssa.Call)
		if !ok || !c.Call.IsInvoke() || c.Call.Method.Name() != "Validate" {
			return
		}
		if data == nil || !paramNilAt(data, c.Block()) {
			return
		}
		for _, g := range na.implsFor(c.Common()) {
			invoked[core.NamedOf(g.Signature.Recv().Type())] = true
		}
	})
	// all types in the slot array
	var fi int = -1
	for idx := range na.slotFields.slots[D] {
		fi = idx
	}
	n := 0
	for _, T := range na.slotElemTypes(D, fi, -1) {
		if !kindIndep[T] {
			continue
		}
		n++
		key := "SchemaValidator:" + core.KnownTypeName(T)
		if invoked[T] {
			r.OK(rule, key, p.Pos(f.Pos()), "kind-independent keyword group also runs when the instance is nil")
		} else {
			r.Bad(rule, key, p.Pos(f.Pos()), "the keyword group "+core.KnownTypeName(T)+" applies to every kind of instance but is skipped on the nil-instance path: its keywords (allOf/anyOf/oneOf/not/dependencies for schemaPropsValidator) are not enforced for null")
		}
	}
	r.Count("kind_independent_groups", n)
	r.Floor("kind_independent_groups", 2)
}

// Chain — the simple-schema dispatchers are siblings: same ordered groups, every group's result merged,
// nil data not validated, sources handled by every group, Applies decides on the validator's own keywords.
func Chain(p *core.Prog, r *core.Report) {
	const rule = "CHAIN"
	na := newNilAn(p)
	pi := na.slotFields.pi
	_ = pi
	simple := []string{"ParamValidator", "HeaderValidator", "itemsValidator"}
	var ref []string
	for _, dn := range simple {
		vf := p.Func("(*" + dn + ").Validate")
		if vf == nil {
			r.Unk(rule, dn+":Validate", "-", "not found")
			continue
		}
		D := core.NamedOf(vf.Signature.Recv().Type())
		fi := -1
		for idx := range na.slotFields.slots[D] {
			fi = idx
		}
		var order []string
		for i := 0; i < 6; i++ {
			ts := na.slotElemTypes(D, fi, i)
			if len(ts) != 1 {
				order = append(order, "?")
			} else {
				order = append(order, ts[0].Obj().Name())
			}
		}
		if ref == nil {
			ref = order
		}
		if strings.Join(order, ",") == strings.Join(ref, ",") && !strings.Contains(strings.Join(order, ","), "?") {
			r.OK(rule, dn+":groups", p.Pos(vf.Pos()), "groups in order: "+strings.Join(order, " → "))
		} else {
			r.Bad(rule, dn+":groups", p.Pos(vf.Pos()), "the keyword groups of "+dn+" ("+strings.Join(order, ",")+") differ from its siblings' ("+strings.Join(ref, ",")+")")
		}
		// every non-nil group result is merged
		core.EachInstr(vf, func(i ssa.Instruction) {
			c, ok := i.(*ssa.Call)
			if !ok || !c.Call.IsInvoke() || c.Call.Method.Name() != "Validate" {
				return
			}
			// from the call, every path to the loop header or a return passes a Merge of this result, unless the result is nil
			missed := false
			notNil := func(b *ssa.BasicBlock, succ int) bool {
				ifi, ok := b.Instrs[len(b.Instrs)-1].(*ssa.If)
				if !ok {
					return true
				}
				bo, ok := ifi.Cond.(*ssa.BinOp)
				if !ok || bo.X != ssa.Value(c) || !core.IsNilConst(bo.Y) {
					return true
				}
				if bo.Op == token.NEQ {
					return succ == 0
				}
				return succ == 1
			}
			core.Walk(c, notNil, func(x ssa.Instruction) bool {
				if mc, ok := x.(*ssa.Call); ok {
					if g := core.StaticCallee(mc); g != nil && g.Name() == "Merge" {
						for _, e := range varargElems(mc.Call.Args[1]) {
							if e == ssa.Value(c) {
								return true
							}
						}
					}
				}
				// the err == nil edge needs no merge
				if x.Block() != c.Block() && na.condIsNil(ssa.Value(c), x.Block()) {
					return true
				}
				if _, isRet := x.(*ssa.Return); isRet {
					missed = true
					return true
				}
				if x == ssa.Instruction(c) {
					missed = true // back at the call (next iteration) without merging
					return true
				}
				return false
			})
			if missed {
				r.Bad(rule, dn+":merge", p.Pos(c.Pos()), "the result of a keyword group can be dropped without being merged into the validator's result")
			} else {
				r.OK(rule, dn+":merge", p.Pos(c.Pos()), "every non-nil group result is merged")
			}
			// Applies gate on the same validator
			gated := false
			for _, cd := range core.CondsAt(c.Block()) {
				if ac, ok := cd.Value.(*ssa.Call); ok && cd.Sense && ac.Call.IsInvoke() && ac.Call.Method.Name() == "Applies" && ac.Call.Value == c.Call.Value {
					gated = true
				}
			}
			if gated {
				r.OK("SLOT-APPLIES", dn+":gate", p.Pos(c.Pos()), "Validate only on the true edge of Applies of the same group")
			} else {
				r.Bad("SLOT-APPLIES", dn+":gate", p.Pos(c.Pos()), "a keyword group runs without its Applies() having accepted the kind of the value")
			}
		})
		// nil data is not validated
		var data *ssa.Parameter
		for _, prm := range vf.Params {
			if prm.Name() == "data" {
				data = prm
			}
		}
		okNil := false
		for _, b := range vf.Blocks {
			if ret, ok := b.Instrs[len(b.Instrs)-1].(*ssa.Return); ok && data != nil && paramNilAt(data, b) {
				_ = ret
				okNil = true
			}
		}
		if okNil {
			r.OK(rule, dn+":nil-data", p.Pos(vf.Pos()), "returns at once for a nil value")
		} else {
			r.Bad(rule, dn+":nil-data", p.Pos(vf.Pos()), "a nil value is not short-circuited")
		}
	}
	// basicSliceValidator validates every element with a fresh items validator built from s.Items
	if f := p.Func("(*basicSliceValidator).Validate"); f != nil {
		ok := false
		core.EachInstr(f, func(i ssa.Instruction) {
			c, is := i.(*ssa.Call)
			if !is {
				return
			}
			g := core.StaticCallee(c)
			if g == nil || core.FuncName(g) != "(*itemsValidator).Validate" {
				return
			}
			ctor, isC := c.Call.Args[0].(*ssa.Call)
			if !isC {
				return
			}
			_, k, how := memberKey(c.Call.Args[2])
			if how == "index" && leafOf(k) == leafOf(c.Call.Args[1]) {
				if kw, has := keywordOfField(ctor.Call.Args[2]); has && kw == "Items" {
					ok = true
				}
			}
		})
		if ok {
			r.OK(rule, "basicSliceValidator:elements", p.Pos(f.Pos()), "each element i is validated as items[i] by a fresh items validator built from the validator's Items")
		} else {
			r.Bad(rule, "basicSliceValidator:elements", p.Pos(f.Pos()), "array elements are no longer validated one by one against the declared items")
		}
	}
	appliesSource(p, r, na)
}

func keywordOfField(v ssa.Value) (string, bool) {
	if ld, ok := v.(*ssa.UnOp); ok {
		if fa, ok := ld.X.(*ssa.FieldAddr); ok {
			_, fn, _ := core.FieldOf(fa)
			return fn, true
		}
	}
	return "", false
}

// condIsNil: block b executes only when v == nil.
func (a *nilAn) condIsNil(v ssa.Value, b *ssa.BasicBlock) bool {
	for _, c := range core.CondsAt(b) {
		bo, ok := c.Value.(*ssa.BinOp)
		if !ok {
			continue
		}
		var x ssa.Value
		if core.IsNilConst(bo.Y) {
			x = bo.X
		} else if core.IsNilConst(bo.X) {
			x = bo.Y
		}
		if x != v {
			continue
		}
		if (bo.Op == token.EQL && c.Sense) || (bo.Op == token.NEQ && !c.Sense) {
			return true
		}
	}
	return false
}

// appliesSource: (1) the concrete types that can arrive as `source` at each dispatcher are handled by the
// Applies of every group it holds; (2) Applies decides on the validator's own keyword fields, not on
// fields read from the source object.
func appliesSource(p *core.Prog, r *core.Report, na *nilAn) {
	const rule = "APPLIES-SOURCE"
	// concrete types flowing into an interface value (field-based, parameters joined over call sites)
	memo := map[ssa.Value]map[string]bool{}
	var typesOf func(v ssa.Value, d int) map[string]bool
	fieldStores := map[string][]ssa.Value{}
	for _, f := range p.Funcs {
		core.EachInstr(f, func(i ssa.Instruction) {
			if st, ok := i.(*ssa.Store); ok {
				if fa, ok := st.Addr.(*ssa.FieldAddr); ok {
					tn, fn, _ := core.FieldOf(fa)
					fieldStores[tn+"."+fn] = append(fieldStores[tn+"."+fn], st.Val)
				}
			}
		})
	}
	callArgs := map[*ssa.Parameter][]ssa.Value{}
	for _, f := range p.Funcs {
		core.EachInstr(f, func(i ssa.Instruction) {
			c, ok := i.(ssa.CallInstruction)
			if !ok {
				return
			}
			if g := core.StaticCallee(c); g != nil && p.InSubject(g) {
				for k, a := range c.Common().Args {
					if k < len(g.Params) {
						callArgs[g.Params[k]] = append(callArgs[g.Params[k]], a)
					}
				}
			}
		})
	}
	typesOf = func(v ssa.Value, d int) map[string]bool {
		if m, ok := memo[v]; ok {
			return m
		}
		out := map[string]bool{}
		memo[v] = out
		if d > 10 {
			return out
		}
		add := func(m map[string]bool) {
			for k := range m {
				out[k] = true
			}
		}
		switch x := v.(type) {
		case *ssa.MakeInterface:
			out[types.TypeString(x.X.Type(), func(pk *types.Package) string { return pk.Name() })] = true
		case *ssa.Phi:
			for _, e := range x.Edges {
				add(typesOf(e, d+1))
			}
		case *ssa.Parameter:
			for _, a := range callArgs[x] {
				add(typesOf(a, d+1))
			}
		case *ssa.UnOp:
			if fa, ok := x.X.(*ssa.FieldAddr); ok {
				tn, fn, _ := core.FieldOf(fa)
				for _, sv := range fieldStores[tn+"."+fn] {
					add(typesOf(sv, d+1))
				}
			}
		case *ssa.ChangeInterface:
			add(typesOf(x.X, d+1))
		}
		return out
	}
	handled := func(af *ssa.Function) (map[string]bool, bool) {
		src := af.Params[1]
		hs := map[string]bool{}
		any := false
		for _, ref := range core.Refs(src) {
			if ta, ok := ref.(*ssa.TypeAssert); ok {
				any = true
				hs[types.TypeString(ta.AssertedType, func(pk *types.Package) string { return pk.Name() })] = true
			}
		}
		return hs, any
	}
	nD := 0
	for _, f := range p.Funcs {
		fn := core.FuncName(f)
		core.EachInstr(f, func(i ssa.Instruction) {
			c, ok := i.(*ssa.Call)
			if !ok || !c.Call.IsInvoke() || c.Call.Method.Name() != "Applies" {
				return
			}
			nD++
			srcTypes := typesOf(c.Call.Args[0], 0)
			var st []string
			for t := range srcTypes {
				st = append(st, t)
			}
			sort.Strings(st)
			if len(st) == 0 {
				r.Unk(rule, fn+":source-types", p.Pos(c.Pos()), "cannot determine which definitions can arrive as the source of Applies")
				return
			}
			for _, g := range na.implsFor(c.Common()) {
				hs, any := handled(g)
				T := core.KnownTypeName(core.NamedOf(g.Signature.Recv().Type()))
				key := fn + ":" + T
				var missing []string
				if any {
					for _, t := range st {
						if !hs[t] {
							missing = append(missing, t)
						}
					}
				}
				if len(missing) == 0 {
					r.OK(rule, key, p.Pos(c.Pos()), "Applies of "+T+" handles every source type that can reach this dispatcher: "+strings.Join(st, ", "))
				} else {
					r.Bad(rule, key, p.Pos(c.Pos()), "the keyword group "+T+" never applies when the source is "+strings.Join(missing, ", ")+", which can reach this dispatcher: its constraints are silently skipped (e.g. for items of items)")
				}
			}
		})
	}
	r.Count("applies_dispatch_sites", nD)
	r.Floor("applies_dispatch_sites", 3)
	// (2) own keywords
	fallbackReads := map[string][]string{}
	defer func() {
		// (3) a fallback on the source's keyword is only sound where the source IS the definition the group was built
		// from. A dispatcher that builds its groups from one definition (i.items) and passes another as source (i.root,
		// the enclosing parameter or header) makes a group with an empty keyword take the enclosing definition's:
		// {type: array, format: date, items: {type: string}} judges the items with the format of the array.
		for _, f := range p.Funcs {
			if f.Parent() != nil || f.Signature.Recv() == nil {
				continue
			}
			rt := core.NamedOf(f.Signature.Recv().Type())
			if rt == nil {
				continue
			}
			core.EachInstr(f, func(i ssa.Instruction) {
				c, ok := i.(*ssa.Call)
				if !ok || !c.Call.IsInvoke() || c.Call.Method.Name() != "Applies" {
					return
				}
				srcPath, okS := core.StablePath(c.Call.Args[0])
				if !okS {
					return
				}
				for T, flds := range fallbackReads {
					// where this dispatcher's type builds its T group
					for _, m := range p.Funcs {
						if m.Parent() != nil || m.Signature.Recv() == nil || core.NamedOf(m.Signature.Recv().Type()) != rt {
							continue
						}
						core.EachInstr(m, func(j ssa.Instruction) {
							cc, ok := j.(*ssa.Call)
							if !ok {
								return
							}
							g := core.StaticCallee(cc)
							if g == nil || !strings.EqualFold(g.Name(), "new"+T) {
								return
							}
							for _, a := range cc.Call.Args {
								ap, okA := core.StablePath(a)
								if !okA {
									continue
								}
								for _, fld := range flds {
									// the field read off the source may be the embedded struct that holds the keyword
									if !strings.HasSuffix(ap, "."+fld) && !strings.Contains(ap, "."+fld+".") {
										continue
									}
									// (the owner as the anchors know it: a renamed type keeps its key)
									owner := core.KnownTypeName(rt)
									if fn := core.FuncName(m); strings.HasPrefix(fn, "(*") && strings.Contains(fn, ").") {
										owner = fn[2:strings.Index(fn, ").")]
									}
									key := owner + ":" + T + ":fallback:" + ap[strings.LastIndex(ap, ".")+1:]
									// same definition: the keyword path extends the source path (receiver variable names differ
									// between methods: compare from the first field on)
									tail := func(s string) string {
										if k := strings.Index(s, "."); k >= 0 {
											return s[k:]
										}
										return s
									}
									if strings.HasPrefix(tail(ap), tail(srcPath)+".") {
										r.OK(rule, key, p.Pos(c.Pos()), "the source handed to Applies is the definition the group's own "+fld+" was taken from")
									} else {
										r.Bad(rule, key, p.Pos(c.Pos()), fmt.Sprintf("%s builds its %s from %s but hands %s to Applies as the source, and Applies of %s falls back to the source's keyword when its own is empty: a nested definition without the keyword is judged with that of the enclosing parameter or header — {type: array, format: date, items: {type: string, default: \"abc\"}} reports the item as an invalid date", core.KnownTypeName(rt), T, ap, srcPath, T))
									}
								}
							}
						})
					}
				}
			})
		}
	}()
	for _, af := range na.implsByName["Applies"] {
		if len(af.Params) != 3 {
			continue
		}
		T := core.KnownTypeName(core.NamedOf(af.Signature.Recv().Type()))
		bad := false
		src := af.Params[1]
		var visit func(v ssa.Value, d int)
		visit = func(v ssa.Value, d int) {
			if d > 4 {
				return
			}
			for _, ref := range core.Refs(v) {
				switch u := ref.(type) {
				case *ssa.TypeAssert:
					visit(u, d+1)
				case *ssa.Extract:
					if u.Index == 0 {
						visit(u, d+1)
					}
				case *ssa.FieldAddr:
					_, fld, _ := core.FieldOf(u)
					// reading the source's keyword is fine as a fallback when the validator's own one is empty
					fallback := false
					for _, cd := range core.CondsAt(u.Block()) {
						bo, ok := cd.Value.(*ssa.BinOp)
						if !ok {
							continue
						}
						own := func(v ssa.Value) bool {
							ld, ok := v.(*ssa.UnOp)
							if !ok {
								return false
							}
							fa, ok := ld.X.(*ssa.FieldAddr)
							return ok && fa.X == ssa.Value(af.Params[0])
						}
						zero := func(v ssa.Value) bool {
							c, ok := v.(*ssa.Const)
							return ok && (c.Value == nil || c.Value.ExactString() == `""` || c.Value.ExactString() == "0")
						}
						isEmpty := (bo.Op == token.EQL && cd.Sense) || (bo.Op == token.NEQ && !cd.Sense)
						if isEmpty && ((own(bo.X) && zero(bo.Y)) || (own(bo.Y) && zero(bo.X))) {
							fallback = true
						}
					}
					if fallback {
						fallbackReads[T] = append(fallbackReads[T], fld)
						continue
					}
					bad = true
					r.Bad(rule, T+":own-keyword:"+fld, p.Pos(u.Pos()), "Applies of "+T+" decides on the field "+fld+" of the source definition instead of the validator's own keyword: when the validator was built for a nested definition (items of a parameter or header) the source is the enclosing definition, and the nested constraint is never enforced")
				}
			}
		}
		visit(src, 0)
		if !bad {
			r.OK(rule, T+":own-keyword", p.Pos(af.Pos()), "Applies uses the source only for its type")
		}
	}
}

// KeywordGuard — a constraint helper called from a Validate method is guarded only by the presence of its
// keyword, by the type assertion of the value, and by the outcome of earlier helpers — never by the instance.
func KeywordGuard(p *core.Prog, r *core.Report) {
	const rule = "KEYWORD-GUARD"
	helpers := map[string]bool{}
	for _, h := range []string{"MinLength", "MaxLength", "Pattern", "RequiredString", "MinItems", "MaxItems", "UniqueItems", "Enum", "EnumCase",
		"Maximum", "Minimum", "MultipleOf", "MaximumNativeType", "MinimumNativeType", "MultipleOfNativeType", "FormatOf", "IsValueValidAgainstRange"} {
		helpers[h] = true
	}
	n := 0
	seq := map[string]int{}
	for _, f := range p.Funcs {
		if f.Name() != "Validate" || f.Signature.Recv() == nil {
			continue
		}
		var data *ssa.Parameter
		for _, prm := range f.Params[1:] {
			if _, isI := prm.Type().Underlying().(*types.Interface); isI {
				data = prm
			}
		}
		if data == nil {
			continue
		}
		// values derived from the instance
		derived := map[ssa.Value]bool{data: true}
		for changed := true; changed; {
			changed = false
			core.EachInstr(f, func(i ssa.Instruction) {
				v, ok := i.(ssa.Value)
				if !ok || derived[v] {
					return
				}
				if _, isPhi := i.(*ssa.Phi); isPhi {
					return
				}
				for _, op := range i.Operands(nil) {
					if op != nil && *op != nil && derived[*op] {
						// results of package helpers and Result methods are outcomes, not the instance
						if c, isCall := i.(*ssa.Call); isCall {
							if g := core.StaticCallee(c); g != nil && (helpers[g.Name()] || isResultPtr(c.Type()) || strings.Contains(c.Type().String(), "errors.Validation") || c.Type().String() == "error") {
								return
							}
						}
						derived[v] = true
						changed = true
						return
					}
				}
			})
		}
		fn := core.FuncName(f)
		core.EachInstr(f, func(i ssa.Instruction) {
			c, ok := i.(*ssa.Call)
			if !ok {
				return
			}
			g := core.StaticCallee(c)
			if g == nil || !helpers[g.Name()] || g.Signature.Recv() != nil {
				return
			}
			n++
			base := fn + ":" + g.Name()
			seq[base]++
			key := base
			if seq[base] > 1 {
				key = fmt.Sprintf("%s#%d", base, seq[base])
			}
			var bad []string
			for _, cd := range core.CondsAt(c.Block()) {
				v := cd.Value
				if ex, ok := v.(*ssa.Extract); ok {
					if _, isTA := ex.Tuple.(*ssa.TypeAssert); isTA && ex.Index == 1 {
						continue // the type assertion of the value
					}
				}
				if bo, ok := v.(*ssa.BinOp); ok {
					if (derived[bo.X] && !core.IsNilConst(bo.Y)) || (derived[bo.Y] && !core.IsNilConst(bo.X)) {
						bad = append(bad, bo.String())
					}
					continue
				}
				if derived[v] {
					bad = append(bad, v.String())
				}
			}
			if len(bad) == 0 {
				r.OK(rule, key, p.Pos(c.Pos()), "guarded only by the presence of its keyword / earlier outcomes")
			} else {
				r.Bad(rule, key, p.Pos(c.Pos()), "the constraint check "+g.Name()+" is skipped depending on the validated value itself ("+strings.Join(bad, "; ")+"): some instances escape the declared constraint")
			}
		})
	}
	r.Count("keyword_helper_calls", n)
	r.Floor("keyword_helper_calls", 15)
}

// EnumConvert — the enum group compares the instance, converted to the type of the member at hand, with
// that member (the direction matters: converting the member to the instance's type truncates/wraps).
func EnumConvert(p *core.Prog, r *core.Report) {
	const rule = "ENUM-CONVERT"
	f := p.Func("(*basicCommonValidator).Validate")
	if f == nil {
		r.Unk(rule, "anchor", "-", "(*basicCommonValidator).Validate not found")
		return
	}
	var data *ssa.Parameter
	for _, prm := range f.Params {
		if prm.Name() == "data" {
			data = prm
		}
	}
	n, ok := 0, true
	why := ""
	viaPredicate := false
	core.EachInstr(f, func(i ssa.Instruction) {
		if pc, isCall := i.(*ssa.Call); isCall {
			if g := core.StaticCallee(pc); g != nil && isValueEqualityPredicate(p, g) {
				// valuesEqual(data, member): the instance itself against each member of the receiver's Enum
				n++
				a, b := through(pc.Call.Args[0]), through(pc.Call.Args[1])
				isMember := false
				if ld, is := b.(*ssa.UnOp); is {
					if ia, is := ld.X.(*ssa.IndexAddr); is {
						if pth, has := core.StablePath(ia.X); has && strings.HasSuffix(pth, ".Enum") {
							isMember = true
						}
					}
				}
				if a != ssa.Value(data) || !isMember {
					ok, why = false, "the equality predicate is not applied to the instance and the enum member"
				} else {
					viaPredicate = true
				}
				return
			}
		}
		c, is := core.IsCallTo(i, "reflect.DeepEqual")
		if !is {
			return
		}
		n++
		args := c.Common().Args
		a, b := through(args[0]), through(args[1])
		// b: the enum member = element of the receiver's Enum list
		member := func(v ssa.Value) bool {
			ld, is := v.(*ssa.UnOp)
			if !is {
				return false
			}
			ia, is := ld.X.(*ssa.IndexAddr)
			if !is {
				return false
			}
			pth, has := core.StablePath(ia.X)
			return has && strings.HasSuffix(pth, ".Enum")
		}
		if !member(b) {
			ok, why = false, "the second operand of DeepEqual is not the enum member"
			return
		}
		ic, is1 := isCallOf(a, "reflect.Value.Interface")
		if !is1 {
			ok, why = false, "the first operand is not a converted reflect value"
			return
		}
		cv, is2 := isCallOf(ic.Call.Args[0], "reflect.Value.Convert")
		if !is2 {
			ok, why = false, "no conversion"
			return
		}
		vo, is3 := isCallOf(cv.Call.Args[0], "reflect.ValueOf")
		tc, is4 := isCallOf(cv.Call.Args[1], "reflect.TypeOf")
		if !is3 || !is4 || through(vo.Call.Args[0]) != ssa.Value(data) || through(tc.Call.Args[0]) != b {
			ok, why = false, "the value converted is not the instance, or the target type is not the type of the member compared"
		}
	})
	// a null member (TypeOf(member) == nil) matches the null instance and nothing else
	nullOK := false
	for _, b := range f.Blocks {
		ret, isRet := b.Instrs[len(b.Instrs)-1].(*ssa.Return)
		if !isRet || len(ret.Results) != 1 || returnsErrorResult(ret.Results[0], 0) {
			continue
		}
		typeNil, dataNil := false, false
		for _, cd := range core.CondsAt(b) {
			bo, isBo := cd.Value.(*ssa.BinOp)
			if !isBo || !((bo.Op == token.EQL && cd.Sense) || (bo.Op == token.NEQ && !cd.Sense)) {
				continue
			}
			for _, pair := range [][2]ssa.Value{{bo.X, bo.Y}, {bo.Y, bo.X}} {
				if !core.IsNilConst(pair[1]) {
					continue
				}
				if _, isT := isCallOf(pair[0], "reflect.TypeOf"); isT {
					typeNil = true
				}
				if through(pair[0]) == ssa.Value(data) {
					dataNil = true
				}
			}
		}
		if typeNil && dataNil {
			nullOK = true
		}
	}
	if viaPredicate {
		nullOK = true // the predicate starts with DeepEqual(data, member): nil equals nil
	}
	if nullOK {
		r.OK(rule, "basicCommonValidator:null-member", p.Pos(f.Pos()), "a null member accepts exactly the null instance")
	} else {
		r.Bad(rule, "basicCommonValidator:null-member", p.Pos(f.Pos()), "a null enum member is skipped and never matches: {\"enum\": [null, 1]} rejects null")
	}
	// the conversion must not be able to change the value compared
	lossy := ""
	core.EachInstr(f, func(i ssa.Instruction) {
		if c, is := i.(*ssa.Call); is {
			if g := core.StaticCallee(c); g != nil && core.QualName(g) == "reflect.Value.Convert" && !convertIsExact(c) {
				lossy = p.Pos(c.Pos())
			}
		}
	})
	if lossy == "" {
		r.OK(rule, "basicCommonValidator:lossy-conversion", p.Pos(f.Pos()), "no value-changing conversion decides membership")
	} else {
		r.Bad(rule, "basicCommonValidator:lossy-conversion", lossy, "the instance is converted to the member's Go type (guarded by ConvertibleTo only) before it is compared: the conversion truncates, wraps and rounds, and turns integers into strings — int64(9007199254740993) is accepted for the enum [9007199254740992], 2.5 for [1, 2, 3] given as Go ints, int64(257) for [int8(1)], 97 for [\"a\"]")
	}
	if n > 0 && ok {
		r.OK(rule, "basicCommonValidator", p.Pos(f.Pos()), "membership: the instance compared with each member of the receiver's enum (value-equality predicate, or DeepEqual of the instance converted to the member's type)")
	} else {
		r.Bad(rule, "basicCommonValidator", p.Pos(f.Pos()), "enum membership is not decided by comparing the instance converted to the member's type with that member: "+why)
	}
}

// OneShot — AgainstSchema is NewSchemaValidator(schema, nil, "", formats, options…).Validate(data), and its
// error is the composite of exactly the errors of that result (nil iff the result has none).
func OneShot(p *core.Prog, r *core.Report) {
	const rule = "ONESHOT-EQ"
	f := p.Func("AgainstSchema")
	if f == nil {
		r.Unk(rule, "anchor", "-", "AgainstSchema not found")
		return
	}
	var val *ssa.Call
	core.EachInstr(f, func(i ssa.Instruction) {
		if c, ok := core.IsCallTo(i, "(*validate.SchemaValidator).Validate"); ok {
			val = c.(*ssa.Call)
		}
	})
	ok := false
	if val != nil && val.Call.Args[1] == ssa.Value(paramNamed(f, "data")) {
		if ctor, is := val.Call.Args[0].(*ssa.Call); is {
			if g := core.StaticCallee(ctor); g != nil && g.Name() == "NewSchemaValidator" &&
				ctor.Call.Args[0] == ssa.Value(paramNamed(f, "schema")) && core.IsNilConst(ctor.Call.Args[1]) && ctor.Call.Args[3] == ssa.Value(paramNamed(f, "formats")) {
				if k, isK := ctor.Call.Args[2].(*ssa.Const); isK && k.Value != nil && k.Value.ExactString() == `""` {
					ok = true
				}
			}
		}
	}
	if ok {
		r.OK(rule, "AgainstSchema:delegates", p.Pos(f.Pos()), "NewSchemaValidator(schema, nil, \"\", formats, options…).Validate(data)")
	} else {
		r.Bad(rule, "AgainstSchema:delegates", p.Pos(f.Pos()), "the one-shot entry point no longer validates data with a validator built from the same schema, root and formats")
	}
	if val == nil {
		return
	}
	// the result may live in a cell (captured by the deferred release)
	isRes := func(v ssa.Value) bool {
		if v == ssa.Value(val) {
			return true
		}
		if cell := cellOf(v); cell != nil {
			for _, ref := range core.Refs(cell) {
				if st, is := ref.(*ssa.Store); is && st.Addr == ssa.Value(cell) && st.Val == ssa.Value(val) {
					return true
				}
			}
		}
		return false
	}
	good := true
	n := 0
	for _, ri := range returnsOf(f) {
		n++
		hasErr, noErr := false, false
		for _, c := range ri.conds {
			if call, is := c.Value.(*ssa.Call); is {
				if g := core.StaticCallee(call); g != nil && core.FuncName(g) == "(*Result).HasErrors" && isRes(call.Call.Args[0]) {
					hasErr, noErr = hasErr || c.Sense, noErr || !c.Sense
				}
			}
		}
		if ri.nilRes {
			if !noErr {
				good = false
			}
			continue
		}
		comp, is := isCallOf(ri.val, "errors.CompositeValidationError")
		if !is || !hasErr {
			good = false
			continue
		}
		ld, isLd := comp.Call.Args[0].(*ssa.UnOp)
		if !isLd {
			good = false
			continue
		}
		fa, isFA := ld.X.(*ssa.FieldAddr)
		if !isFA || !isRes(fa.X) {
			good = false
			continue
		}
		if _, fld, _ := core.FieldOf(fa); fld != "Errors" {
			good = false
		}
	}
	if good && n == 2 {
		r.OK(rule, "AgainstSchema:error", p.Pos(f.Pos()), "nil on !res.HasErrors(), otherwise CompositeValidationError(res.Errors...) of the same result")
	} else {
		r.Bad(rule, "AgainstSchema:error", p.Pos(f.Pos()), "the error returned by AgainstSchema is not exactly the composite of the errors of the underlying result (nil iff none)")
	}
}

// KeywordPosition — KEYWORD-POSITION: the four outer validators (schema, parameter, header, items) build the same
// keyword groups through the same constructors; a keyword must arrive at the same parameter position of a
// constructor from every outer validator (sibling agreement). Two keywords crossed at one call site (maximum's
// exclusivity handed in as the minimum's) still "reach a field that is read", but mean something else there.
func KeywordPosition(p *core.Prog, r *core.Report) {
	const rule = "KEYWORD-POSITION"
	kw := map[string]bool{}
	for _, k := range schemaKeywords {
		kw[k] = true
	}
	pi := discoverPools(p)
	ctors := ctorsOf(p, pi)
	type use struct {
		call *ssa.Call
		kw   string
		fn   string
	}
	at := map[string][]use{} // "<ctor>#<pos>"
	for _, f := range p.Funcs {
		if !p.InSubject(f) {
			continue
		}
		core.EachInstr(f, func(i ssa.Instruction) {
			c, ok := i.(*ssa.Call)
			if !ok {
				return
			}
			g := core.StaticCallee(c)
			if g == nil || ctors[g] == nil {
				return
			}
			for k, a := range c.Call.Args {
				pth, ok := core.StablePath(a)
				if !ok {
					continue
				}
				name := pth[strings.LastIndex(pth, ".")+1:]
				if !kw[name] {
					continue
				}
				key := fmt.Sprintf("%s#%d", g.Name(), k)
				at[key] = append(at[key], use{c, name, core.FuncName(f)})
			}
		})
	}
	var keys []string
	for k := range at {
		keys = append(keys, k)
	}
	sort.Strings(keys)
	n := 0
	for _, key := range keys {
		uses := at[key]
		count := map[string]int{}
		for _, u := range uses {
			count[u.kw]++
		}
		major, best := "", 0
		for k, c := range count {
			if c > best || (c == best && k < major) {
				major, best = k, c
			}
		}
		for _, u := range uses {
			n++
			okey := key + ":" + u.fn
			if u.kw != major {
				r.Bad(rule, okey, p.Pos(u.call.Pos()), fmt.Sprintf("this call hands the keyword %s to position %s, where the %d sibling validators hand %s: the constraint is applied with the meaning of another keyword", u.kw, key, best, major))
			} else {
				r.OK(rule, okey, p.Pos(u.call.Pos()), "same keyword ("+major+") at this position as in the sibling validators")
			}
		}
	}
	r.Count("keyword_positions", n)
	r.Floor("keyword_positions", 40)
}

// HelperField — HELPER-FIELD: a constraint helper is applied to the value of its own keyword. Inside the validators,
// every call of an exported constraint helper (MinLength, MaxItems, MaximumNativeType …) takes its bound — and its
// exclusivity flag — from the validator fields of that very keyword: MaxLength(…, *s.MinLength) compiles, and the
// guard `s.MinLength != nil` in front of it still satisfies KEYWORD-GUARD.
func HelperField(p *core.Prog, r *core.Report) {
	const rule = "HELPER-FIELD"
	// helper-name prefix -> fields it may be given (exact field names of the keyword family)
	family := []struct {
		prefix string
		fields []string
	}{
		{"MinLength", []string{"MinLength"}}, {"MaxLength", []string{"MaxLength"}}, {"Pattern", []string{"Pattern"}},
		{"MinItems", []string{"MinItems"}}, {"MaxItems", []string{"MaxItems"}},
		{"Maximum", []string{"Maximum", "ExclusiveMaximum"}}, {"Minimum", []string{"Minimum", "ExclusiveMinimum"}},
		{"MultipleOf", []string{"MultipleOf"}},
	}
	keywordField := map[string]bool{}
	for _, k := range schemaKeywords {
		keywordField[k] = true
	}
	n := 0
	seq := map[string]int{}
	for _, f := range p.Funcs {
		if !p.InSubject(f) || f.Signature.Recv() == nil {
			continue
		}
		fn := core.FuncName(f)
		core.EachInstr(f, func(i ssa.Instruction) {
			c, ok := i.(*ssa.Call)
			if !ok {
				return
			}
			g := core.StaticCallee(c)
			if g == nil || !p.InSubject(g) || g.Signature.Recv() != nil || g.Object() == nil || !g.Object().Exported() {
				return
			}
			var allowed []string
			for _, fam := range family {
				if strings.HasPrefix(g.Name(), fam.prefix) {
					allowed = fam.fields
				}
			}
			if allowed == nil {
				return
			}
			// keyword fields of the receiver among the arguments
			var used []string
			for _, a := range c.Call.Args {
				v := a
				for d := 0; d < 3; d++ {
					if u, ok := v.(*ssa.UnOp); ok && u.Op == token.MUL {
						v = u.X
						continue
					}
					break
				}
				if fa, ok := v.(*ssa.FieldAddr); ok {
					if _, name, _ := core.FieldOf(fa); keywordField[name] {
						used = append(used, name)
					}
				}
			}
			if len(used) == 0 {
				return
			}
			n++
			base := fn + ":" + g.Name()
			seq[base]++
			key := base
			if seq[base] > 1 {
				key = fmt.Sprintf("%s#%d", base, seq[base])
			}
			var foreign []string
			for _, u := range used {
				ok := false
				for _, a := range allowed {
					if a == u {
						ok = true
					}
				}
				if !ok {
					foreign = append(foreign, u)
				}
			}
			if len(foreign) > 0 {
				r.Bad(rule, key, p.Pos(c.Pos()), fmt.Sprintf("%s is applied to the value of another keyword (%s): the instance is checked against the wrong bound", g.Name(), strings.Join(foreign, ", ")))
			} else {
				r.OK(rule, key, p.Pos(c.Pos()), g.Name()+" takes its bound from "+strings.Join(used, ", "))
			}
		})
	}
	r.Count("helper_field_sites", n)
	r.Floor("helper_field_sites", 9)
}
