package rules

import (
	"fmt"
	"go/token"
	"go/types"
	"os"
	"sort"
	"strings"

	"golang.org/x/tools/go/ssa"

	"verifchk/core"
)

// INPUT-RO — the package never writes into memory owned by its caller (C12).
//
// Whole-package taint propagation on SSA. A value is
//   T1(kind)  when it is a pointer/map/slice/interface that points INTO caller-owned memory of that kind
//             (schema, instance, document), and
//   T2(kind)  when it is the address of a local shallow COPY of such memory: writing the copy is fine, but
//             every pointer, map or slice loaded out of it still aliases the original and is T1 again.
// Sources: the schema / data / param / header / document parameters of the exported entry points and
// (*loads.Document).Spec(). Parameters of package functions receive the join over their call sites;
// results the join over returns. A write is a store through an address whose base is T1, a map update or
// delete on a T1 map, an append to a T1 slice, or a T1 argument of an external mutator.

type taint uint16

const (
	tSchema taint = 1 << iota // T1
	tInstance
	tDoc
	tDefn   // parameter / header definitions
	tShared // reachable from a package-level variable (process-wide state, rule SHARED-REACH of C05)
	cSchema // T2 (shallow copies)
	cInstance
	cDoc
	cDefn
	cShared
)

const t1Mask = tSchema | tInstance | tDoc | tDefn | tShared

func (t taint) t1() taint       { return t & t1Mask }
func (t taint) asCopy() taint   { return (t & t1Mask) << 5 }
func (t taint) fromCopy() taint { return (t >> 5) & t1Mask }

func (t taint) String() string {
	var s []string
	names := []string{"schema", "instance", "document", "definition", "process-shared"}
	for i, n := range names {
		if t&(1<<uint(i)) != 0 {
			s = append(s, n)
		}
	}
	return strings.Join(s, "+")
}

// external functions that mutate the object passed at the given argument index
var extMutators = map[string]int{
	"spec.ExpandSchema":             0,
	"spec.ExpandSchemaWithBasePath": 0,
	"spec.ExpandParameter":          0,
	"spec.ExpandParameterWithRoot":  0,
	"spec.ExpandResponse":           0,
	"spec.ExpandResponseWithRoot":   0,
	"spec.ExpandSpec":               0,
	"sort.Strings":                  0,
	"sort.Slice":                    0,
	"sort.Sort":                     0,
	"sort.Ints":                     0,
	"json.Unmarshal":                1,
	"(*gob.Decoder).Decode":         1,
}

// mutators that also write through pointers held by their argument (ExpandParameter ends with
// *param.Schema = *expanded): a shallow copy of a caller's object is not enough to protect the caller.
var extDeepMutators = map[string]bool{
	"spec.ExpandParameter": true, "spec.ExpandParameterWithRoot": true,
	"spec.ExpandResponse": true, "spec.ExpandResponseWithRoot": true,
}

// package-level variables whose referents are governed by a dedicated rule
var sharedExempt = map[string]bool{
	"emptyResult": true, // EMPTY-IMMUTABLE: never written, refused by RedeemResult
	"init$guard":  true,
}

// external functions returning memory that is private to the caller (deep copies / fresh values)
var extFresh = map[string]bool{
	"swag.ToDynamicJSON": true, "(*loads.Document).Expanded": true, "analysis.New": false,
}

func pointerish(t types.Type) bool {
	switch t.Underlying().(type) {
	case *types.Pointer, *types.Map, *types.Slice, *types.Interface:
		return true
	}
	return false
}

// holdsPointers: does a value of this type contain pointers/maps/slices (so that a shallow copy aliases)?
func holdsPointers(t types.Type, depth int) bool {
	if depth > 6 {
		return true
	}
	switch u := t.Underlying().(type) {
	case *types.Pointer, *types.Map, *types.Slice, *types.Interface, *types.Chan, *types.Signature:
		return true
	case *types.Struct:
		for i := 0; i < u.NumFields(); i++ {
			if holdsPointers(u.Field(i).Type(), depth+1) {
				return true
			}
		}
	case *types.Array:
		return holdsPointers(u.Elem(), depth+1)
	}
	return false
}

type roAnalysis struct {
	p   *core.Prog
	fld map[string]taint // field-based heap: "Type.field" -> what was ever stored there (T1: a pointer into caller memory; T2: a struct value that aliases it)
	val map[ssa.Value]taint
	ret map[*ssa.Function]map[int]taint
	why map[ssa.Value]string
	cg  *core.CallGraph
}

func (a *roAnalysis) get(v ssa.Value) taint {
	switch x := v.(type) {
	case *ssa.Const, *ssa.Function, *ssa.Builtin:
		return 0
	case *ssa.Global:
		_ = x
		return 0
	}
	return a.val[v]
}

func (a *roAnalysis) add(v ssa.Value, t taint, why string) bool {
	if t == 0 {
		return false
	}
	old := a.val[v]
	if old|t == old {
		return false
	}
	a.val[v] = old | t
	if _, ok := a.why[v]; !ok && why != "" {
		a.why[v] = why
	}
	return true
}

// fieldKey names the struct field addressed by a FieldAddr ("objectValidator.Properties").
func fieldKey(fa *ssa.FieldAddr) string {
	t := fa.X.Type()
	if p, ok := t.Underlying().(*types.Pointer); ok {
		t = p.Elem()
	}
	name := types.TypeString(t, func(*types.Package) string { return "" })
	if st, ok := t.Underlying().(*types.Struct); ok && fa.Field < st.NumFields() {
		return name + "." + core.FieldName(st, fa.Field)
	}
	return name + fmt.Sprintf(".#%d", fa.Field)
}

func (a *roAnalysis) addField(k string, t taint) bool {
	if a.fld[k]|t == a.fld[k] {
		return false
	}
	a.fld[k] |= t
	return true
}

// baseOfAddr follows FieldAddr/IndexAddr chains to the value whose pointee is addressed.
func baseOfAddr(v ssa.Value) ssa.Value {
	for d := 0; d < 20; d++ {
		switch x := v.(type) {
		case *ssa.FieldAddr:
			v = x.X
		case *ssa.IndexAddr:
			v = x.X
		default:
			return v
		}
	}
	return v
}

// roRun computes the taint fixpoint shared by INPUT-RO (C12) and SHARED-REACH (C05).
func roRun(p *core.Prog, r *core.Report, rule string) *roAnalysis {
	a := &roAnalysis{p: p, fld: map[string]taint{}, val: map[ssa.Value]taint{}, ret: map[*ssa.Function]map[int]taint{}, why: map[ssa.Value]string{}, cg: core.BuildCallGraph(p)}
	// ---- sources ------------------------------------------------------------------
	type src struct {
		fn, param string
		t         taint
	}
	sources := []src{
		{"AgainstSchema", "schema", tSchema}, {"AgainstSchema", "data", tInstance},
		{"NewSchemaValidator", "schema", tSchema}, {"NewSchemaValidator", "rootSchema", tSchema},
		{"(*SchemaValidator).Validate", "data", tInstance},
		{"NewParamValidator", "param", tDefn}, {"NewHeaderValidator", "header", tDefn},
		{"(*ParamValidator).Validate", "data", tInstance}, {"(*HeaderValidator).Validate", "data", tInstance},
		{"Spec", "doc", tDoc}, {"(*SpecValidator).Validate", "data", tDoc},
		{"NewSpecValidator", "schema", tSchema},
	}
	nSrc := 0
	for _, s := range sources {
		f := p.Func(s.fn)
		if f == nil {
			r.Unk(rule, "source:"+s.fn, "-", "entry point not found")
			continue
		}
		for _, prm := range f.Params {
			if prm.Name() == s.param {
				a.add(prm, s.t, "parameter "+s.param+" of "+s.fn)
				nSrc++
			}
		}
	}
	r.Count("input_sources", nSrc)
	r.Floor("input_sources", 8)

	// expandedAnalyzer(): for a document whose references resolve (any accepted document) this is the analyzer of
	// the validator's private expanded copy; the fallback to the caller's document is only taken after reference
	// errors. Its result is therefore not caller-owned for the claim of C12 — provided the function still prefers
	// the expanded copy, which is checked structurally.
	expAn := p.Func("(*SpecValidator).expandedAnalyzer")
	expPref := expandedPreferred(p)
	if expAn != nil {
		if expPref {
			r.OK(rule, "expandedAnalyzer:prefers-private-copy", p.Pos(expAn.Pos()), "returns s.expanded.Analyzer under the test of s.expanded: operations, parameters and responses walked by the semantic rules belong to the private expanded copy for every document whose references resolve")
		} else {
			r.Bad(rule, "expandedAnalyzer:prefers-private-copy", p.Pos(expAn.Pos()), "expandedAnalyzer() no longer prefers the validator's private expanded copy: the rules that expand parameters and responses in place now work on the caller's document")
		}
	}
	// ---- propagation to a fixpoint ------------------------------------------------------
	for iter := 0; iter < 40; iter++ {
		changed := false
		for _, f := range p.Funcs {
			if f.Pkg != p.Main {
				if f.Parent() == nil || core.EnclosingTop(f).Pkg != p.Main {
					continue
				}
			}
			core.EachInstr(f, func(i ssa.Instruction) {
				v, isVal := i.(ssa.Value)
				switch x := i.(type) {
				case *ssa.FieldAddr:
					t := a.get(x.X)
					if !inputTyped(x.X.Type()) { // a field of one of the package's own objects: what the package stored there
						if pt, ok := x.Type().Underlying().(*types.Pointer); ok && !pointerish(pt.Elem()) {
							t |= a.fld[fieldKey(x)] &^ t1Mask // struct-valued field: its storage may be a shallow copy
						}
					}
					if a.add(x, t, "") { // the address carries the flags of its base
						changed = true
					}
				case *ssa.IndexAddr:
					if a.add(x, a.get(x.X), "") {
						changed = true
					}
				case *ssa.UnOp:
					if x.Op != token.MUL {
						return
					}
					t := a.get(x.X)
					var nt taint
					if pointerish(x.Type()) {
						// loading a pointer/map/slice out of caller-owned memory or out of a shallow copy of it
						nt = t.t1() | t.fromCopy()
					} else if holdsPointers(x.Type(), 0) {
						// a struct value loaded from such memory: still carries aliasing pointers inside
						nt = t.t1() | t.fromCopy()
					}
					// value loaded from a field of a package object: whatever the package ever stored in that field
					if fa, ok := x.X.(*ssa.FieldAddr); ok && !inputTyped(fa.X.Type()) {
						ft := a.fld[fieldKey(fa)]
						if pointerish(x.Type()) {
							nt |= ft // the pointer that was stored: into caller memory (T1) or to a shallow copy (T2)
						} else if holdsPointers(x.Type(), 0) {
							nt |= ft.fromCopy()
						}
					}
					// a reference loaded out of a package-level variable points to process-wide state
					if g, ok := baseOfAddr(x.X).(*ssa.Global); ok && pointerish(x.Type()) && g.Pkg == p.Main && !sharedExempt[g.Name()] {
						nt |= tShared
						if _, has := a.why[x]; !has {
							a.why[x] = "loaded from the package-level variable " + g.Name()
						}
					}
					// value loaded from a local cell: whatever was stored there
					if al, ok := x.X.(*ssa.Alloc); ok {
						for _, ref := range core.Refs(al) {
							if st, ok := ref.(*ssa.Store); ok && st.Addr == ssa.Value(al) {
								nt |= a.get(st.Val)
							}
						}
					}
					if a.add(x, nt, "loaded from "+describe(x.X)) {
						changed = true
					}
				case *ssa.Store:
					if fa, ok := x.Addr.(*ssa.FieldAddr); ok && !inputTyped(fa.X.Type()) {
						t := a.get(x.Val)
						if pointerish(x.Val.Type()) {
							if a.addField(fieldKey(fa), t) {
								changed = true
							}
						} else if holdsPointers(x.Val.Type(), 0) {
							if a.addField(fieldKey(fa), (t.t1() | t.fromCopy()).asCopy()) {
								changed = true
							}
						}
					}
					// an element store makes a package-owned slice a container of caller pointers (a shallow copy)
					if ia, ok := x.Addr.(*ssa.IndexAddr); ok && a.get(ia.X).t1() == 0 {
						t := a.get(x.Val)
						if c := (t.t1() | t.fromCopy()).asCopy(); c != 0 && (pointerish(x.Val.Type()) || holdsPointers(x.Val.Type(), 0)) {
							if a.add(ia.X, c, "") {
								changed = true
							}
						}
					}
					// storing a struct value that aliases caller memory into a local makes the local a shallow copy
					if al := baseOfAddr(x.Addr); al != nil {
						if alloc, ok := al.(*ssa.Alloc); ok {
							t := a.get(x.Val)
							if !pointerish(x.Val.Type()) && t.t1() != 0 {
								if a.add(alloc, t.t1().asCopy(), "") {
									changed = true
								}
							}
						}
					}
				case *ssa.Field:
					t := a.get(x.X)
					if pointerish(x.Type()) || holdsPointers(x.Type(), 0) {
						if a.add(x, t.t1()|t.fromCopy(), "") {
							changed = true
						}
					}
				case *ssa.Index:
					if a.add(x, a.get(x.X).t1(), "") {
						changed = true
					}
				case *ssa.MapUpdate:
					if a.get(x.Map).t1() == 0 {
						t := a.get(x.Value)
						if c := (t.t1() | t.fromCopy()).asCopy(); c != 0 && (pointerish(x.Value.Type()) || holdsPointers(x.Value.Type(), 0)) {
							if a.add(x.Map, c, "") {
								changed = true
							}
						}
					}
				case *ssa.Lookup:
					t := a.get(x.X)
					if pointerish(x.Type()) || holdsPointers(x.Type(), 0) || x.CommaOk {
						if a.add(x, t.t1()|t.fromCopy(), "element of "+describe(x.X)) {
							changed = true
						}
					}
				case *ssa.Range:
					if a.add(x, a.get(x.X).t1(), "") {
						changed = true
					}
				case *ssa.Next:
					if a.add(x, a.get(x.Iter), "") {
						changed = true
					}
				case *ssa.Extract:
					t := a.get(x.Tuple)
					if c, ok := x.Tuple.(*ssa.Call); ok {
						if g := core.StaticCallee(c); g != nil && p.InSubject(g) {
							t = a.ret[g][x.Index]
						} else {
							t = a.extResult(c)
						}
					}
					if pointerish(x.Type()) || holdsPointers(x.Type(), 0) {
						if a.add(x, t.t1(), "") {
							changed = true
						}
					}
				case *ssa.Phi:
					var t taint
					for _, e := range x.Edges {
						t |= a.get(e)
					}
					if a.add(x, t, "") {
						changed = true
					}
				case *ssa.TypeAssert:
					if a.add(x, a.get(x.X), "") {
						changed = true
					}
				case *ssa.MakeInterface, *ssa.ChangeInterface, *ssa.ChangeType, *ssa.Slice, *ssa.Convert:
					var in ssa.Value
					switch y := x.(type) {
					case *ssa.MakeInterface:
						in = y.X
					case *ssa.ChangeInterface:
						in = y.X
					case *ssa.ChangeType:
						in = y.X
					case *ssa.Slice:
						in = y.X
					case *ssa.Convert:
						in = y.X
					}
					if a.add(v, a.get(in), "") {
						changed = true
					}
				case *ssa.Call:
					cc := x.Common()
					// arguments -> parameters
					var callees []*ssa.Function
					if g := cc.StaticCallee(); g != nil {
						callees = []*ssa.Function{g}
					} else if cc.IsInvoke() {
						for _, g := range a.cg.Out[f] {
							if g.Name() == cc.Method.Name() && g.Signature.Recv() != nil && types.Identical(g.Signature.Params(), cc.Signature().Params()) {
								callees = append(callees, g)
							}
						}
					}
					for _, g := range callees {
						if !p.InSubject(g) {
							continue
						}
						off := 0
						args := cc.Args
						if cc.IsInvoke() {
							off = 1
						}
						for k, arg := range args {
							if k+off < len(g.Params) {
								if a.add(g.Params[k+off], a.get(arg), fmt.Sprintf("argument of the call at %s in %s", p.Pos(x.Pos()), core.FuncName(f))) {
									changed = true
								}
							}
						}
						if mc, ok := cc.Value.(*ssa.MakeClosure); ok {
							for k, b := range mc.Bindings {
								if k < len(g.FreeVars) {
									if a.add(g.FreeVars[k], a.get(b), "") {
										changed = true
									}
								}
							}
						}
					}
					// result
					var t taint
					if g := cc.StaticCallee(); g != nil {
						if p.InSubject(g) {
							t = a.ret[g][0]
						} else {
							t = a.extResult(x)
						}
					} else if b, ok := cc.Value.(*ssa.Builtin); ok {
						if b.Name() == "append" {
							t = a.get(cc.Args[0]).t1()
							if len(cc.Args) > 1 {
								t |= a.get(cc.Args[1]).t1()
							}
						}
					} else if cc.IsInvoke() {
						for _, g := range callees {
							t |= a.ret[g][0]
						}
					}
					if x.Call.Signature().Results().Len() == 1 {
						if a.add(x, t, "") {
							changed = true
						}
					} else if x.Call.Signature().Results().Len() > 1 {
						// tuple handled at Extract
					}
				case *ssa.MakeClosure:
					for k, b := range x.Bindings {
						g := x.Fn.(*ssa.Function)
						if k < len(g.FreeVars) {
							if a.add(g.FreeVars[k], a.get(b), "") {
								changed = true
							}
						}
					}
				case *ssa.Return:
					if f == expAn && expPref {
						return // reviewed summary: the private expanded copy whenever it exists (see the obligation below)
					}
					if a.ret[f] == nil {
						a.ret[f] = map[int]taint{}
					}
					for k, rv := range x.Results {
						t := a.get(rv)
						// returning a struct by value from a shallow copy still aliases
						nt := t.t1()
						if !pointerish(rv.Type()) {
							nt = t.t1() | t.fromCopy()
						}
						if a.ret[f][k]|nt != a.ret[f][k] {
							a.ret[f][k] |= nt
							changed = true
						}
					}
				}
				_ = isVal
			})
		}
		if !changed {
			break
		}
	}

	return a
}

func InputRO(p *core.Prog, r *core.Report) {
	const rule = "INPUT-RO"
	a := roRun(p, r, rule)
	expAn := p.Func("(*SpecValidator).expandedAnalyzer")
	_ = expAn
	if dbg := os.Getenv("VCHK_TAINT"); dbg != "" {
		for _, f := range p.Funcs {
			core.EachInstr(f, func(i ssa.Instruction) {
				if c, ok := i.(ssa.CallInstruction); ok {
					if g := core.StaticCallee(c); g != nil && core.FuncName(g) == dbg {
						for k, arg := range c.Common().Args {
							if t := a.get(arg); t != 0 {
								fmt.Printf("TAINT %s arg%d %s(t1) %s(copy) at %s in %s: %s\n", dbg, k, t.t1(), t.fromCopy(), p.Pos(c.Pos()), core.FuncName(f), a.why[arg])
							}
						}
					}
				}
			})
		}
		var ks []string
		for k, t := range a.fld {
			ks = append(ks, fmt.Sprintf("FIELD %s %s(t1) %s(copy)", k, t.t1(), t.fromCopy()))
		}
		sort.Strings(ks)
		fmt.Println(strings.Join(ks, "\n"))
	}
	// ---- writes -----------------------------------------------------------------------------
	n, nBad := 0, 0
	seq := map[string]int{}
	mk := func(base string) string {
		seq[base]++
		if seq[base] > 1 {
			return fmt.Sprintf("%s#%d", base, seq[base])
		}
		return base
	}
	report := func(f *ssa.Function, at ssa.Instruction, target ssa.Value, what string) {
		n++
		t := a.get(target).t1() &^ tShared
		key := mk(core.FuncName(f) + ":" + what)
		if t == 0 {
			r.OK(rule, key, p.Pos(posOf(at, f)), "written object is private to the package (local, freshly allocated, pooled scratch, deep clone, or a shallow copy written at top level)")
			return
		}
		// exception (i): lazy expansion of a caller's schema, only when it carries an id or a $ref
		if what == "spec.ExpandSchema(#0)" && t == tSchema && guardedByRefTest(at) {
			r.OK(rule, key, p.Pos(posOf(at, f)), "reviewed exception: a caller-supplied schema is expanded in place only under the test of its ID/$ref (C12 excludes schemas containing references)")
			return
		}
		// exception (ii): operation parameters rewritten on the expanded copy of the document
		if core.FuncName(f) == "(*paramHelper).safeExpandedParamsFor" && strings.HasPrefix(what, "store to") && expandedPreferred(p) {
			r.OK(rule, key, p.Pos(posOf(at, f)), "reviewed exception: the operation comes from expandedAnalyzer(), which prefers the validator's private expanded copy; the fallback to the original is only taken after reference errors (document not accepted)")
			return
		}
		nBad++
		why := a.why[target]
		if why == "" {
			why = a.why[baseOfAddr(target)]
		}
		r.Bad(rule, key, p.Pos(posOf(at, f)), fmt.Sprintf("%s writes into caller-owned memory (%s): %s reaches this point (%s)", what, t, describe(target), why))
	}
	for _, f := range p.Funcs {
		if core.EnclosingTop(f).Pkg != p.Main {
			continue // package post mutates the data by contract
		}
		core.EachInstr(f, func(i ssa.Instruction) {
			switch x := i.(type) {
			case *ssa.Store:
				base := baseOfAddr(x.Addr)
				if _, ok := base.(*ssa.Alloc); ok {
					return
				}
				if _, ok := base.(*ssa.Global); ok {
					return
				}
				if base == x.Addr {
					// *p = v : whole-object store through a pointer value
					if !inputTyped(x.Addr.Type()) {
						return
					}
					report(f, i, x.Addr, "whole-object store through "+shortType(x.Addr.Type()))
					return
				}
				if !inputTyped(base.Type()) {
					return
				}
				report(f, i, base, "store to a field/element of "+shortType(base.Type()))
			case *ssa.MapUpdate:
				if inputTyped(x.Map.Type()) {
					report(f, i, x.Map, "map update of "+shortType(x.Map.Type()))
				}
			case *ssa.Call:
				if b, ok := x.Call.Value.(*ssa.Builtin); ok {
					switch b.Name() {
					case "delete":
						if inputTyped(x.Call.Args[0].Type()) {
							report(f, i, x.Call.Args[0], "delete on "+shortType(x.Call.Args[0].Type()))
						}
					case "append":
						if inputTyped(x.Call.Args[0].Type()) && a.get(x.Call.Args[0]).t1()&^tShared != 0 {
							report(f, i, x.Call.Args[0], "append to "+shortType(x.Call.Args[0].Type()))
						}
					case "copy":
						if inputTyped(x.Call.Args[0].Type()) {
							report(f, i, x.Call.Args[0], "copy into "+shortType(x.Call.Args[0].Type()))
						}
					}
					return
				}
				g := core.StaticCallee(x)
				if g == nil || p.InSubject(g) {
					return
				}
				if k, ok := extMutators[core.QualName(g)]; ok && k < len(x.Call.Args) {
					arg := x.Call.Args[k]
					if mi, ok := arg.(*ssa.MakeInterface); ok {
						arg = mi.X
					}
					if extDeepMutators[core.QualName(g)] && a.get(arg).t1()&^tShared == 0 && a.get(arg).fromCopy()&^tShared != 0 {
						n++
						nBad++
						r.Bad(rule, mk(core.FuncName(f)+":"+core.QualName(g)+fmt.Sprintf("(#%d)", k)), p.Pos(x.Pos()), fmt.Sprintf("%s also writes through the pointers held by its argument (the schema of a parameter / response): the argument is only a shallow copy of caller-owned memory (%s), so the caller's object is rewritten", core.QualName(g), a.get(arg).fromCopy()))
						return
					}
					if _, isAlloc := baseOfAddr(arg).(*ssa.Alloc); isAlloc && a.get(arg).t1()&^tShared == 0 {
						n++
						r.OK(rule, mk(core.FuncName(f)+":"+core.QualName(g)+fmt.Sprintf("(#%d)", k)), p.Pos(x.Pos()), "mutator applied to a local object")
						return
					}
					report(f, i, arg, fmt.Sprintf("%s(#%d)", core.QualName(g), k))
				}
			}
		})
	}
	r.Count("input_typed_writes", n)
	r.Floor("input_typed_writes", 12)
	// what reached where: evidence
	var tp []string
	for _, f := range p.Funcs {
		for _, prm := range f.Params {
			if t := a.get(prm).t1() &^ tShared; t != 0 {
				tp = append(tp, fmt.Sprintf("%s#%s:%s", core.FuncName(f), prm.Name(), t))
			}
		}
	}
	sort.Strings(tp)
	r.Info["caller_owned_parameters"] = tp
	r.Note("INPUT-RO: %d writes / mutator calls on input-typed memory examined, %d through caller-owned memory; %d parameters carry caller-owned memory", n, nBad, len(tp))
}

func (a *roAnalysis) extResult(c *ssa.Call) taint {
	g := core.StaticCallee(c)
	if g == nil {
		return 0
	}
	q := core.QualName(g)
	switch q {
	case "(*loads.Document).Spec", "(*loads.Document).Raw":
		return tDoc
	case "(*loads.Document).Schema":
		return tSchema // the Swagger meta-schema the caller hands in: a schema in the sense of C12
	case "analysis.New":
		return a.get(c.Call.Args[0]).t1() // the analyzer indexes the document it was given
	case "swag.ToDynamicJSON", "(*loads.Document).Expanded":
		return 0
	}
	if strings.HasPrefix(q, "(*analysis.Spec).") && len(c.Call.Args) > 0 {
		return a.get(c.Call.Args[0]).t1()
	}
	if strings.HasPrefix(q, "reflect.") && len(c.Call.Args) > 0 {
		return a.get(c.Call.Args[0]).t1()
	}
	return 0
}

// inputTyped: spec.* structs behind pointers/slices/maps, and the dynamic JSON containers.
func inputTyped(t types.Type) bool {
	switch u := t.Underlying().(type) {
	case *types.Pointer:
		return inputTyped(u.Elem()) || isSpecStruct(u.Elem())
	case *types.Slice:
		return isIfaceAny(u.Elem()) || isSpecStruct(u.Elem()) || inputTyped(u.Elem())
	case *types.Map:
		return isIfaceAny(u.Elem()) || isSpecStruct(u.Elem()) || inputTyped(u.Elem())
	case *types.Array:
		return isSpecStruct(u.Elem())
	}
	return isSpecStruct(t)
}

func isIfaceAny(t types.Type) bool {
	it, ok := t.Underlying().(*types.Interface)
	return ok && it.NumMethods() == 0
}

func isSpecStruct(t types.Type) bool {
	n, ok := t.(*types.Named)
	if !ok || n.Obj().Pkg() == nil {
		return false
	}
	pk := n.Obj().Pkg().Path()
	return strings.HasSuffix(pk, "go-openapi/spec") || strings.HasSuffix(pk, "go-openapi/loads")
}

func shortType(t types.Type) string {
	return types.TypeString(t, func(p *types.Package) string { return p.Name() })
}

// guardedByRefTest: the instruction executes only after a test of the schema's ID / Ref.
func guardedByRefTest(at ssa.Instruction) bool {
	b := at.Block()
	f := b.Parent()
	// the block must not be reachable from the entry without passing an If whose condition mentions ID or Ref
	for _, blk := range f.Blocks {
		ifi, ok := blk.Instrs[len(blk.Instrs)-1].(*ssa.If)
		if !ok {
			continue
		}
		mentions := false
		var walk func(v ssa.Value, d int)
		walk = func(v ssa.Value, d int) {
			if d > 6 || v == nil {
				return
			}
			if pth, ok := core.StablePath(v); ok && (strings.Contains(pth, ".ID") || strings.Contains(pth, ".Ref")) {
				mentions = true
			}
			if ins, ok := v.(ssa.Instruction); ok {
				for _, op := range ins.Operands(nil) {
					if op != nil && *op != nil {
						walk(*op, d+1)
					}
				}
			}
		}
		walk(ifi.Cond, 0)
		if mentions && blk.Dominates(b) && blk != b {
			return true
		}
	}
	return false
}

// expandedPreferred: expandedAnalyzer() returns the analyzer of s.expanded whenever it exists.
func expandedPreferred(p *core.Prog) bool {
	f := p.Func("(*SpecValidator).expandedAnalyzer")
	if f == nil {
		return false
	}
	ok := false
	for _, b := range f.Blocks {
		if ret, isRet := b.Instrs[len(b.Instrs)-1].(*ssa.Return); isRet {
			if pth, has := core.StablePath(ret.Results[0]); has && strings.HasSuffix(pth, "expanded.Analyzer") {
				for _, c := range core.CondsAt(b) {
					if cp, has := core.StablePath(condOperand(c)); has && strings.HasSuffix(cp, "s.expanded") {
						ok = true
					}
				}
			}
		}
	}
	return ok
}

func condOperand(c core.Cond) ssa.Value {
	if bo, ok := c.Value.(*ssa.BinOp); ok {
		if core.IsNilConst(bo.Y) {
			return bo.X
		}
		return bo.Y
	}
	return c.Value
}
