package rules

import (
	"fmt"
	"go/token"
	"go/types"

	"golang.org/x/tools/go/ssa"

	"verifchk/core"
)

// STATELESS — a validator built without recycling is never written while it validates.
//
// A "validator-state write" is a store into a field (or an element of an array/slice/map held in a
// field) of one of the pooled validator types, outside that type's constructor. Each must be
//
//	(i)   guarded by the recycle option (directly, or because the enclosing function is only ever
//	      entered from guarded code), or
//	(ii)  applied to an object constructed in the same activation, or
//	(iii) applied to (a child of) an ephemeral type: one whose every instance is created, run once and dropped.
func Stateless(p *core.Prog, r *core.Report) {
	const rule = "STATELESS"
	pi := discoverPools(p)
	si := discoverSlots(p, pi)
	ctors := ctorsOf(p, pi)

	isVal := func(t types.Type) *types.Named {
		n := core.NamedOf(t)
		if n != nil && pi.pooled[n] && n != pi.resultType {
			return n
		}
		return nil
	}

	// --- recycle-only functions -------------------------------------------------
	type site struct {
		in      *ssa.Function
		guarded bool
	}
	sites := map[*ssa.Function][]site{}
	byName := map[string][]*ssa.Function{} // method name -> implementations on validator types
	for _, f := range p.Funcs {
		if f.Signature.Recv() != nil && isVal(f.Signature.Recv().Type()) != nil {
			byName[f.Name()] = append(byName[f.Name()], f)
		}
	}
	for _, f := range p.Funcs {
		core.EachInstr(f, func(i ssa.Instruction) {
			g := core.GuardedByPath(i.Block(), recycleSuffix, true)
			switch x := i.(type) {
			case ssa.CallInstruction:
				cc := x.Common()
				if cc.IsInvoke() {
					for _, impl := range byName[cc.Method.Name()] {
						sites[impl] = append(sites[impl], site{f, g})
					}
					return
				}
				if callee := cc.StaticCallee(); callee != nil {
					sites[callee] = append(sites[callee], site{f, g})
				}
			}
		})
	}
	// greatest fixpoint (recursion among redeemChildren implementations): assume every function with
	// call sites is recycle-only, then remove those entered from an unguarded site of a function that is not.
	recycleOnly := map[*ssa.Function]bool{}
	for _, f := range p.Funcs {
		if len(sites[f]) == 0 {
			continue
		}
		if f.Parent() == nil {
			if o := f.Object(); o != nil && o.Exported() {
				continue
			}
		}
		recycleOnly[f] = true
	}
	for changed := true; changed; {
		changed = false
		for f := range recycleOnly {
			for _, s := range sites[f] {
				if !s.guarded && !recycleOnly[s.in] {
					delete(recycleOnly, f)
					changed = true
					break
				}
			}
		}
	}
	var ro []string
	for f := range recycleOnly {
		ro = append(ro, core.FuncName(f))
	}
	sortStrings(ro)
	r.Info["recycle_only_functions"] = ro

	// --- ephemeral types ---------------------------------------------------------
	ephemeral := map[*types.Named]bool{}
	for ctor, T := range ctors {
		eph := true
		if o := ctor.Object(); o != nil && o.Exported() {
			eph = false
		}
		nCalls := 0
		for _, f := range p.Funcs {
			core.EachInstr(f, func(i ssa.Instruction) {
				c, ok := i.(*ssa.Call)
				if !ok || core.StaticCallee(c) != ctor {
					return
				}
				nCalls++
				for _, ref := range core.Refs(c) {
					switch u := ref.(type) {
					case ssa.CallInstruction:
						rv, m := recvOf(u)
						if rv == ssa.Value(c) && m == "Validate" {
							continue
						}
						eph = false
					case *ssa.DebugRef:
					default:
						eph = false
					}
				}
			})
		}
		if nCalls == 0 {
			eph = false
		}
		if prev, ok := ephemeral[T]; ok {
			ephemeral[T] = prev && eph
		} else {
			ephemeral[T] = eph
		}
	}
	var eph []string
	for T, e := range ephemeral {
		if e {
			eph = append(eph, core.KnownTypeName(T))
		}
	}
	sortStrings(eph)
	r.Info["ephemeral_validator_types"] = eph

	// --- classification of the written object -------------------------------------
	// returns (class, detail): "fresh", "receiver", "slot-of-ephemeral", "slot", "other"
	var classify func(f *ssa.Function, x ssa.Value, d int) (string, *types.Named)
	classify = func(f *ssa.Function, x ssa.Value, d int) (string, *types.Named) {
		if d > 8 {
			return "other", nil
		}
		if producesValidator(p, ctors, x, 0) {
			return "fresh", nil
		}
		if ref, ok := si.origin(x, 0); ok {
			if ephemeral[ref.parent] {
				return "slot-of-ephemeral", ref.parent
			}
			return "slot", ref.parent
		}
		switch v := x.(type) {
		case *ssa.Parameter:
			if len(f.Params) > 0 && v == f.Params[0] && f.Signature.Recv() != nil {
				return "receiver", nil
			}
		case *ssa.UnOp:
			if v.Op == token.MUL {
				switch c := v.X.(type) {
				case *ssa.Alloc:
					for _, ref := range core.Refs(c) {
						if st, ok := ref.(*ssa.Store); ok && st.Addr == ssa.Value(c) {
							return classify(f, st.Val, d+1)
						}
					}
				case *ssa.FreeVar:
					// receiver captured by a closure
					par := f.Parent()
					if par != nil && par.Signature.Recv() != nil {
						return "receiver-of-parent", nil
					}
				}
			}
		case *ssa.Phi:
			cls := ""
			for _, e := range v.Edges {
				c, _ := classify(f, e, d+1)
				if cls == "" {
					cls = c
				} else if cls != c {
					return "other", nil
				}
			}
			return cls, nil
		case *ssa.TypeAssert:
			return classify(f, v.X, d+1)
		case *ssa.Extract:
			if ta, ok := v.Tuple.(*ssa.TypeAssert); ok {
				return classify(f, ta.X, d+1)
			}
		case *ssa.MakeInterface:
			return classify(f, v.X, d+1)
		case *ssa.ChangeInterface:
			return classify(f, v.X, d+1)
		}
		return "other", nil
	}

	// --- direct writes -----------------------------------------------------------
	// base object of a state address
	baseOf := func(addr ssa.Value) (ssa.Value, *types.Named, string) {
		switch a := addr.(type) {
		case *ssa.FieldAddr:
			if T := isVal(a.X.Type()); T != nil {
				_, fn, _ := core.FieldOf(a)
				return a.X, T, fn
			}
		case *ssa.IndexAddr:
			switch b := a.X.(type) {
			case *ssa.FieldAddr:
				if T := isVal(b.X.Type()); T != nil {
					_, fn, _ := core.FieldOf(b)
					return b.X, T, fn + "[]"
				}
			case *ssa.UnOp:
				if fa, ok := b.X.(*ssa.FieldAddr); ok && b.Op == token.MUL {
					if T := isVal(fa.X.Type()); T != nil {
						_, fn, _ := core.FieldOf(fa)
						return fa.X, T, fn + "[]"
					}
				}
			}
		}
		return nil, nil, ""
	}
	mutatesRecv := map[*ssa.Function]bool{}
	type pending struct {
		f       *ssa.Function
		at      ssa.Instruction
		obj     ssa.Value
		T       *types.Named
		what    string
		viaCall bool
	}
	var writes []pending
	for _, f := range p.Funcs {
		if T, isCtor := ctors[f]; isCtor {
			_ = T
		}
		core.EachInstr(f, func(i ssa.Instruction) {
			switch x := i.(type) {
			case *ssa.Store:
				if obj, T, fld := baseOf(x.Addr); obj != nil {
					if ctors[f] == T && !core.IsNilConst(x.Val) {
						if _, isFresh := classify(f, obj, 0); isFresh == nil {
							// constructor initialising its own object (phi of borrow/new)
							if _, ok := obj.(*ssa.Phi); ok {
								return
							}
						}
					}
					if ctors[f] == T {
						if _, ok := obj.(*ssa.Phi); ok {
							return
						}
					}
					writes = append(writes, pending{f, i, obj, T, "store to " + core.KnownTypeName(T) + "." + fld, false})
				}
			case *ssa.MapUpdate:
				if ld, ok := x.Map.(*ssa.UnOp); ok && ld.Op == token.MUL {
					if fa, ok := ld.X.(*ssa.FieldAddr); ok {
						if T := isVal(fa.X.Type()); T != nil {
							_, fn, _ := core.FieldOf(fa)
							writes = append(writes, pending{f, i, fa.X, T, "map update of " + core.KnownTypeName(T) + "." + fn, false})
						}
					}
				}
			}
		})
	}
	// fixpoint: mutatesRecv
	unguarded := func(w pending) bool {
		return !core.GuardedByPath(w.at.Block(), recycleSuffix, true) && !recycleOnly[w.f]
	}
	for _, w := range writes {
		if !unguarded(w) {
			continue
		}
		if cls, _ := classify(w.f, w.obj, 0); cls == "receiver" {
			mutatesRecv[w.f] = true
		}
	}
	// calls to mutating methods
	collectCalls := func() []pending {
		var out []pending
		for _, f := range p.Funcs {
			core.EachInstr(f, func(i ssa.Instruction) {
				c, ok := i.(ssa.CallInstruction)
				if !ok {
					return
				}
				cc := c.Common()
				if cc.IsInvoke() {
					mut := false
					for _, impl := range byName[cc.Method.Name()] {
						if mutatesRecv[impl] {
							mut = true
						}
					}
					if mut {
						out = append(out, pending{f, i, cc.Value, nil, "call of mutating method " + cc.Method.Name() + " (interface)", true})
					}
					return
				}
				g := cc.StaticCallee()
				if g != nil && mutatesRecv[g] && len(cc.Args) > 0 {
					out = append(out, pending{f, i, cc.Args[0], isVal(cc.Args[0].Type()), "call of mutating method " + core.FuncName(g), true})
				}
			})
		}
		return out
	}
	for iter := 0; iter < 6; iter++ {
		grew := false
		for _, w := range collectCalls() {
			if !unguarded(w) {
				continue
			}
			if cls, _ := classify(w.f, w.obj, 0); cls == "receiver" && !mutatesRecv[w.f] {
				mutatesRecv[w.f] = true
				grew = true
			}
		}
		if !grew {
			break
		}
	}
	all := append(writes, collectCalls()...)
	r.Count("validator_state_writes", len(all))
	r.Floor("validator_state_writes", 25)
	var mnames []string
	for f := range mutatesRecv {
		mnames = append(mnames, core.FuncName(f))
	}
	sortStrings(mnames)
	r.Info["receiver_mutating_methods"] = mnames

	protocol := map[string]bool{"Validate": true, "Applies": true}
	seq := map[string]int{}
	for _, w := range all {
		fn := core.FuncName(w.f)
		base := fn + ":" + w.what
		seq[base]++
		key := base
		if seq[base] > 1 {
			key = fmt.Sprintf("%s#%d", base, seq[base])
		}
		pos := p.Pos(posOf(w.at, w.f))
		if core.GuardedByPath(w.at.Block(), recycleSuffix, true) {
			r.OK(rule, key, pos, "(i) only executed under the recycle option")
			continue
		}
		if recycleOnly[w.f] {
			r.OK(rule, key, pos, "(i) enclosing function is only entered from code guarded by the recycle option")
			continue
		}
		cls, par := classify(w.f, w.obj, 0)
		switch cls {
		case "fresh":
			r.OK(rule, key, pos, "(ii) object constructed in this activation")
		case "slot-of-ephemeral":
			r.OK(rule, key, pos, "(iii) child of the ephemeral type "+core.KnownTypeName(par)+" (every instance is created, run once, dropped)")
		case "receiver":
			T := isVal(w.f.Signature.Recv().Type())
			if T != nil && ephemeral[T] {
				r.OK(rule, key, pos, "(iii) receiver type "+core.KnownTypeName(T)+" is ephemeral")
			} else if protocol[w.f.Name()] {
				r.Bad(rule, key, pos, "a validator writes to itself while validating, also when recycling is off: a long-lived validator keeps state between calls (and two goroutines sharing it race)")
			} else {
				r.OK(rule, key, pos, "receiver write in a helper method: obligation moves to its call sites ("+fn+" is summarised as receiver-mutating)")
			}
		case "receiver-of-parent":
			r.Bad(rule, key, pos, "a closure of a validator method writes to the validator outside the recycle guard")
		case "slot":
			r.Bad(rule, key, pos, "a child validator held in a slot of a long-lived parent ("+core.KnownTypeName(par)+") is modified during validation without the recycle guard: the next call (or a concurrent one) sees the modification")
		default:
			r.Unk(rule, key, pos, "cannot establish that the written validator is private to this activation")
		}
	}
	r.Note("STATELESS: %d state writes / mutating calls classified; %d recycle-only functions; ephemeral types %v", len(all), len(ro), eph)
}
