package rules

import (
	"fmt"
	"go/token"
	"go/types"

	"golang.org/x/tools/go/ssa"

	"verifchk/core"
)

// ERR-VALUE — a value delivered together with an error (or, for nil-able values, together with an "ok" boolean)
// by a call is meaningful on the success side only: `i, err := n.Int64()` leaves i == 0 when err != nil,
// `r, ok := new(big.Rat).SetString(s)` leaves r == nil when !ok. Every use of such a value that is known to sit on
// the failure side of the test of its companion (the `err != nil` / `!ok` edge) is reported; uses that no test
// of the companion dominates either way are not judged here (errcheck's business), and a companion that is
// discarded (`_`) puts the value out of scope.
func ErrValue(p *core.Prog, r *core.Report) {
	const rule = "ERR-VALUE"
	n := 0
	seq := map[string]int{}
	for _, f := range p.Funcs {
		if !p.InSubject(f) {
			continue
		}
		fn := core.FuncName(f)
		core.EachInstr(f, func(i ssa.Instruction) {
			c, ok := i.(*ssa.Call)
			if !ok {
				return
			}
			tup, ok := c.Type().(*types.Tuple)
			if !ok || tup.Len() < 2 {
				return
			}
			last := tup.At(tup.Len() - 1).Type()
			isErr := types.Identical(last, types.Universe.Lookup("error").Type())
			isOK := false
			if b, isB := last.Underlying().(*types.Basic); isB && b.Kind() == types.Bool && tup.Len() == 2 {
				switch tup.At(0).Type().Underlying().(type) {
				case *types.Pointer, *types.Interface, *types.Map, *types.Slice:
					isOK = true
				}
			}
			if !isErr && !isOK {
				return
			}
			var comp *ssa.Extract
			var vals []*ssa.Extract
			for _, ref := range core.Refs(c) {
				if ex, isEx := ref.(*ssa.Extract); isEx {
					if ex.Index == tup.Len()-1 {
						comp = ex
					} else {
						vals = append(vals, ex)
					}
				}
			}
			if comp == nil || len(vals) == 0 {
				return
			}
			n++
			base := fn + ":" + core.CalleeID(c)
			seq[base]++
			key := base
			if seq[base] > 1 {
				key = fmt.Sprintf("%s#%d", base, seq[base])
			}
			// is the block on the failure side of the companion's test?
			failed := func(b *ssa.BasicBlock) bool {
				for _, cd := range core.CondsAt(b) {
					if isErr {
						bo, isBo := cd.Value.(*ssa.BinOp)
						if !isBo || (bo.Op != token.EQL && bo.Op != token.NEQ) {
							continue
						}
						if !((bo.X == ssa.Value(comp) && core.IsNilConst(bo.Y)) || (bo.Y == ssa.Value(comp) && core.IsNilConst(bo.X))) {
							continue
						}
						if (bo.Op == token.EQL) != cd.Sense {
							return true // err != nil holds here
						}
					} else if cd.Value == ssa.Value(comp) && !cd.Sense {
						return true
					}
				}
				return false
			}
			bad := ""
			for _, v := range vals {
				for _, u := range core.Refs(v) {
					if _, isPhi := u.(*ssa.Phi); isPhi {
						continue
					}
					if _, isDbg := u.(*ssa.DebugRef); isDbg {
						continue
					}
					if failed(u.Block()) {
						bad = p.Pos(u.Pos())
						if bad == "-" || bad == "" {
							bad = p.Pos(c.Pos())
						}
					}
				}
			}
			what := "error"
			if isOK {
				what = "ok flag"
			}
			if bad != "" {
				r.Bad(rule, key, bad, fmt.Sprintf("the value delivered by %s is used where its %s says the call failed: it is the zero value there (0, nil), not a result — a number that does not fit reads as 0, a nil pointer is dereferenced", core.CalleeID(c), what))
			} else {
				r.OK(rule, key, p.Pos(c.Pos()), "the value is never used on the failure side of its "+what)
			}
		})
	}
	r.Count("err_value_calls", n)
	r.Floor("err_value_calls", 10)
}
