package rules

import (
	"fmt"
	"go/token"
	"go/types"
	"reflect"
	"strings"

	"golang.org/x/tools/go/ssa"

	"verifchk/core"
)

// NARROW — no lossy numeric conversion on a comparison path (C13).
//
// Every ssa.Convert between numeric types is classified. A conversion that can change the mathematical
// value (float→integer, signed↔unsigned, to a narrower type) must be
//   (a) dominated by a guard that makes it exact: an integrality test of the operand
//       (x == math.Trunc(x) / math.Floor(x); the tolerance test swag.IsFloat64AJSONInteger is not accepted) together with a range test against constants,
//       possibly packaged in a one-parameter predicate function of the package, or a sign test for
//       signed↔unsigned of the same width; or
//   (b) unreachable for every Go numeric carrier type (abstract runs of the D-DYN interpreter from the
//       numeric entry points: the lossy branches of the as* helpers are only entered under the wrong kind).

func basicOf(t types.Type) *types.Basic {
	b, _ := t.Underlying().(*types.Basic)
	return b
}

func numClass(b *types.Basic) (kind string, bits int) {
	switch b.Kind() {
	case types.Int8:
		return "int", 8
	case types.Int16:
		return "int", 16
	case types.Int32:
		return "int", 32
	case types.Int, types.Int64:
		return "int", 64
	case types.Uint8:
		return "uint", 8
	case types.Uint16:
		return "uint", 16
	case types.Uint32:
		return "uint", 32
	case types.Uint, types.Uint64, types.Uintptr:
		return "uint", 64
	case types.Float32:
		return "float", 32
	case types.Float64:
		return "float", 64
	}
	return "", 0
}

// lossy: can the conversion change the mathematical value (within ±2^53 for int→float)?
func lossy(from, to *types.Basic) (bool, string) {
	fk, fb := numClass(from)
	tk, tb := numClass(to)
	if fk == "" || tk == "" {
		return false, ""
	}
	switch {
	case fk == "float" && tk != "float":
		return true, "float→integer truncates fractions and is undefined out of range"
	case fk == "float" && tk == "float":
		return tb < fb, "float64→float32 rounds"
	case tk == "float":
		return false, "" // exact within ±2^53 (domain assumption of C13)
	case fk == "int" && tk == "uint":
		return true, "signed→unsigned wraps negative values"
	case fk == "uint" && tk == "int":
		return tb <= fb, "unsigned→signed wraps values above the signed maximum"
	default:
		return tb < fb, "narrowing drops high bits"
	}
}

func Narrow(p *core.Prog, r *core.Report) {
	const rule = "NARROW"
	// abstract runs over the Go numeric carriers: which blocks are reachable at all
	numeric := []atom{aFloat32, aFloat64, aInt, aInt8, aInt16, aInt32, aInt64, aUint, aUint8, aUint16, aUint32, aUint64}
	entries := []DynEntry{
		{Func: "MaximumNativeType", DataArg: 2}, {Func: "MinimumNativeType", DataArg: 2}, {Func: "MultipleOfNativeType", DataArg: 2},
		{Func: "IsValueValidAgainstRange", DataArg: 0}, {Func: "(*numberValidator).Validate", DataArg: 1},
	}
	sub := core.NewReport()
	di := runDyn(p, sub, "D-DYN", entries, numeric, "Go numeric carrier types")
	for _, o := range sub.Obls {
		if o.Status != core.Discharged {
			r.Obls = append(r.Obls, o)
		}
	}
	total, nLossy := 0, 0
	seq := map[string]int{}
	for _, f := range p.Funcs {
		fn := core.FuncName(f)
		core.EachInstr(f, func(i ssa.Instruction) {
			cv, ok := i.(*ssa.Convert)
			if !ok {
				return
			}
			from, to := basicOf(cv.X.Type()), basicOf(cv.Type())
			if from == nil || to == nil {
				return
			}
			if fk, _ := numClass(from); fk == "" {
				return
			}
			if tk, _ := numClass(to); tk == "" {
				return
			}
			total++
			isLossy, why := lossy(from, to)
			base := fmt.Sprintf("%s:%s(%s)", fn, to.Name(), describeNum(cv.X))
			seq[base]++
			key := base
			if seq[base] > 1 {
				key = fmt.Sprintf("%s#%d", base, seq[base])
			}
			if !isLossy {
				r.OK(rule, key, p.Pos(cv.Pos()), "value-preserving conversion ("+from.Name()+"→"+to.Name()+")")
				return
			}
			nLossy++
			if _, isConst := cv.X.(*ssa.Const); isConst {
				r.OK(rule, key, p.Pos(cv.Pos()), "constant operand")
				return
			}
			if g := exactGuard(p, cv, from, to); g != "" {
				r.OK(rule, key, p.Pos(cv.Pos()), "exact under the dominating guard: "+g)
				return
			}
			if di.analysed[f] && !di.reached[cv.Block()] {
				r.OK(rule, key, p.Pos(cv.Pos()), "unreachable for every Go numeric carrier type (the enclosing kind switch never selects this branch for a value it would change)")
				return
			}
			if sameKindIdentity(cv, di) {
				r.OK(rule, key, p.Pos(cv.Pos()), "only reached under the kind cases for which the conversion is the identity")
				return
			}
			r.Bad(rule, key, p.Pos(cv.Pos()), fmt.Sprintf("lossy conversion %s→%s of %s on a comparison path without a guard making it exact (%s): the verdict depends on the Go type carrying the number", from.Name(), to.Name(), describeNum(cv.X), why))
		})
	}
	// NATIVE-ARG: the typed facades dispatch on the Go kind of the value they receive, so every caller inside
	// the package must hand them the datum it was given — not a copy normalised to float64, which makes the
	// integer branches unreachable and loses exactness above 2^53 before the dispatch.
	facades := map[string]bool{"MaximumNativeType": true, "MinimumNativeType": true, "MultipleOfNativeType": true}
	nNative := 0
	for _, f := range p.Funcs {
		fn := core.FuncName(f)
		core.EachInstr(f, func(i ssa.Instruction) {
			c, ok := i.(ssa.CallInstruction)
			if !ok {
				return
			}
			g := core.StaticCallee(c)
			if g == nil || !p.InSubject(g) || !facades[core.FuncName(g)] || len(c.Common().Args) < 3 {
				return
			}
			nNative++
			base := fn + ":" + core.FuncName(g) + ":value-argument"
			seq[base]++
			key := base
			if seq[base] > 1 {
				key = fmt.Sprintf("%s#%d", base, seq[base])
			}
			arg := c.Common().Args[2]
			why := normalisedToFloat(arg, 0)
			if why != "" {
				r.Bad(rule, key, p.Pos(c.Pos()), "the typed facade receives "+why+" instead of the datum itself: integer carriers are compared as float64 (inexact above 2^53) and the kind dispatch never takes its integer branches")
			} else {
				r.OK(rule, key, p.Pos(c.Pos()), "the facade receives the caller's datum unchanged")
			}
		})
	}
	// NATIVE-SELECT: where a validator chooses between a typed facade (exact arithmetic per carrier) and the float64
	// fallback according to a validity test of a result, the facade sits on the "valid" side: crossed, every integer
	// whose constraint fits its type is compared as float64 (inexact above 2^53).
	nSel := 0
	for _, f := range p.Funcs {
		fn := core.FuncName(f)
		core.EachInstr(f, func(i ssa.Instruction) {
			c, ok := i.(ssa.CallInstruction)
			if !ok {
				return
			}
			g := core.StaticCallee(c)
			if g == nil || !p.InSubject(g) || !facades[core.FuncName(g)] {
				return
			}
			for _, cd := range core.ControlConds(c.(ssa.Instruction).Block()) {
				vc, isCall := cd.Value.(*ssa.Call)
				if !isCall {
					continue
				}
				h := core.StaticCallee(vc)
				if h == nil || h.Signature.Recv() == nil || core.NamedOf(h.Signature.Recv().Type()) == nil || core.KnownTypeName(core.NamedOf(h.Signature.Recv().Type())) != "Result" {
					continue
				}
				// which way does the predicate answer for a result without errors? read off its body: validity is
				// `len(Errors) == 0` (RESULT-ALGEBRA decides that): IsValid answers true, HasErrors false
				validWhenTrue, known := false, false
				switch h.Name() {
				case "IsValid":
					validWhenTrue, known = true, true
				case "HasErrors", "HasErrorsOrWarnings":
					validWhenTrue, known = false, true
				}
				if !known {
					continue
				}
				nSel++
				key := fn + ":" + core.FuncName(g) + ":selected-when-valid"
				if cd.Sense == validWhenTrue {
					r.OK(rule, key, p.Pos(c.Pos()), "the typed facade runs where the range check of the constraint passed")
				} else {
					r.Bad(rule, key, p.Pos(c.Pos()), "the typed facade runs where the range check of the constraint FAILED, the float64 fallback where it passed: every value whose constraint fits its type is compared as float64 (int64(2^53+1) is a multiple of 2, equals its neighbour for maximum/minimum)")
				}
			}
		})
	}
	r.Count("native_select_sites", nSel)
	r.Floor("native_select_sites", 2)
	// NATIVE-DISPATCH: evaluated (constant propagation over the kind of the datum, nothing runs) for each Go
	// numeric carrier type separately, every facade must reach the comparator of the matching exact arithmetic:
	// signed kinds the int64 one, unsigned kinds the uint64 one, floats only the float64 one. A kind that falls
	// through to the float64 comparator (a half-open range `kind < reflect.Uint64`, a case list missing one
	// kind) is compared with a division and a relative tolerance: the verdict depends on the carrier type.
	{
		na := newNilAn(p)
		nDisp := 0
		carriers := []struct {
			a    atom
			want string
		}{
			{aInt, "int64"}, {aInt8, "int64"}, {aInt16, "int64"}, {aInt32, "int64"}, {aInt64, "int64"},
			{aUint, "uint64"}, {aUint8, "uint64"}, {aUint16, "uint64"}, {aUint32, "uint64"}, {aUint64, "uint64"},
			{aFloat32, "float64"}, {aFloat64, "float64"},
		}
		for _, fname := range []string{"MaximumNativeType", "MinimumNativeType", "MultipleOfNativeType"} {
			f := p.Func(fname)
			if f == nil || len(f.Params) < 3 {
				r.Unk(rule, "native-dispatch:"+fname, "-", "facade not found")
				continue
			}
			var wrong []string
			for _, cr := range carriers {
				di := newRegionInterp(p, na)
				args := make([]aval, len(f.Params))
				for k := range args {
					args[k] = top
				}
				args[2] = dyn(cr.a)
				di.run(f, args, 0)
				got := map[string]bool{}
				for _, t := range di.trace {
					name := t.callee
					if k := strings.LastIndex(name, "."); k >= 0 && !strings.HasPrefix(name, "(") {
						name = name[k+1:]
					}
					g := p.Func(name)
					if g == nil || g == f || g.Signature.Recv() != nil || len(g.Params) < 3 || g.Signature.Results().Len() != 1 {
						continue
					}
					if !strings.HasSuffix(g.Signature.Results().At(0).Type().String(), "errors.Validation") {
						continue
					}
					if b := basicOf(g.Params[2].Type()); b != nil {
						got[b.Name()] = true
					}
				}
				nDisp++
				bad := ""
				switch {
				case !got[cr.want]:
					bad = "never reaches the " + cr.want + " comparator"
				case cr.want == "int64" && got["uint64"], cr.want == "uint64" && got["int64"]:
					bad = "reaches the comparator of the other signedness"
				case cr.want == "float64" && (got["int64"] || got["uint64"]):
					bad = "reaches an integer comparator"
				}
				if bad != "" {
					wrong = append(wrong, cr.a.String()+" "+bad)
				}
			}
			if len(wrong) > 0 {
				r.Bad(rule, "native-dispatch:"+fname, p.Pos(f.Pos()), fname+" does not dispatch every Go numeric kind to its exact arithmetic: "+strings.Join(wrong, "; ")+" — such values are compared as float64 (division and relative tolerance for multipleOf, rounding above 2^53), so the verdict depends on the Go type carrying the number")
			} else {
				r.OK(rule, "native-dispatch:"+fname, p.Pos(f.Pos()), "each of the 12 numeric carrier kinds reaches the comparator of its own exact arithmetic")
			}
		}
		// the range check of a constraint / datum against (type, format) accepts every numeric carrier as a number:
		// evaluated per carrier kind, its kind switch never ends in the "not a numeric value" error (a case list
		// that loses a kind makes every uint64 — or int16 … — datum invalid whatever its value)
		if f := p.Func("IsValueValidAgainstRange"); f != nil && len(f.Params) >= 1 {
			var wrong []string
			for _, cr := range carriers {
				di := newRegionInterp(p, na)
				args := make([]aval, len(f.Params))
				for k := range args {
					args[k] = top
				}
				args[0] = dyn(cr.a)
				di.run(f, args, 0)
				nDisp++
				// the arm that gives up at once: a block that builds an error with fmt.Errorf and returns it
				core.EachInstr(f, func(i ssa.Instruction) {
					c, ok := i.(*ssa.Call)
					if !ok || !di.reached[c.Block()] {
						return
					}
					if h := core.StaticCallee(c); h == nil || core.QualName(h) != "fmt.Errorf" {
						return
					}
					if _, isRet := c.Block().Instrs[len(c.Block().Instrs)-1].(*ssa.Return); isRet {
						wrong = append(wrong, cr.a.String())
					}
				})
			}
			if len(wrong) > 0 {
				r.Bad(rule, "native-dispatch:IsValueValidAgainstRange", p.Pos(f.Pos()), "the range check does not take these Go numeric kinds for numbers: "+strings.Join(uniq(wrong), ", ")+" — a datum of such a type is invalid whatever its value")
			} else {
				r.OK(rule, "native-dispatch:IsValueValidAgainstRange", p.Pos(f.Pos()), "each of the 12 numeric carrier kinds is taken for a number by the range check")
			}
		}
		r.Count("native_dispatch_cases", nDisp)
		r.Floor("native_dispatch_cases", 36)
	}
	r.Count("native_facade_calls", nNative)
	r.Floor("native_facade_calls", 2)
	r.Count("numeric_conversions", total)
	r.Count("numeric_conversions_lossy", nLossy)
	r.Floor("numeric_conversions", 15)

	// json.Number: Int64() exactly when the schema type contains integer, else Float64(); errors reported
	if f := p.Func("(*SchemaValidator).Validate"); f != nil {
		// the conversion may live in a helper split off Validate: take the function that holds it
		hasI64 := func(g *ssa.Function) bool {
			found := false
			core.EachInstr(g, func(i ssa.Instruction) {
				if _, ok := core.IsCallTo(i, "json.Number.Int64"); ok {
					found = true
				}
			})
			return found
		}
		if !hasI64(f) {
			core.EachInstr(f, func(i ssa.Instruction) {
				if c, ok := i.(ssa.CallInstruction); ok {
					if g := core.StaticCallee(c); g != nil && p.InSubject(g) && len(g.Blocks) > 0 && hasI64(g) {
						f = g
					}
				}
			})
		}
		var i64, f64 *ssa.Call
		core.EachInstr(f, func(i ssa.Instruction) {
			if c, ok := core.IsCallTo(i, "json.Number.Int64"); ok {
				i64 = c.(*ssa.Call)
			}
			if c, ok := core.IsCallTo(i, "json.Number.Float64"); ok {
				f64 = c.(*ssa.Call)
			}
		})
		containsInteger := func(b *ssa.BasicBlock, sense bool) bool {
			for _, c := range core.CondsAt(b) {
				call, ok := c.Value.(*ssa.Call)
				if !ok || c.Sense != sense {
					continue
				}
				g := core.StaticCallee(call)
				if g == nil || core.QualName(g) != "spec.StringOrArray.Contains" {
					continue
				}
				if k, ok := call.Call.Args[1].(*ssa.Const); ok && k.Value != nil && k.Value.ExactString() == `"integer"` {
					return true
				}
			}
			return false
		}
		switch {
		case i64 == nil || f64 == nil:
			r.Bad(rule, "json.Number:conversion", p.Pos(f.Pos()), "json.Number is no longer converted with Int64()/Float64() according to the declared type")
		case !containsInteger(i64.Block(), true):
			r.Bad(rule, "json.Number:integer", p.Pos(i64.Pos()), "the loss-free Int64() conversion is not selected exactly when the declared type contains integer")
		case !containsInteger(f64.Block(), false):
			r.Bad(rule, "json.Number:integer", p.Pos(f64.Pos()), "Float64() (lossy above 2^53) can be selected although the declared type contains integer")
		default:
			r.OK(rule, "json.Number:integer", p.Pos(i64.Pos()), "Int64() on the Contains(integer) edge, Float64() on its negation")
		}
		for _, c := range []*ssa.Call{i64, f64} {
			if c == nil {
				continue
			}
			// the error edge returns a result that received an error
			var errV ssa.Value
			for _, ref := range core.Refs(c) {
				if e, ok := ref.(*ssa.Extract); ok && e.Index == 1 {
					errV = e
				}
			}
			okErr := false
			if errV != nil {
				core.EachInstr(f, func(i ssa.Instruction) {
					if ac, ok := core.IsCallTo(i, "(*validate.Result).AddErrors"); ok && errIsNonNilAt(ac.(ssa.Instruction).Block(), errV) {
						okErr = true
					}
					// a helper hands the error back to its caller, which reports it
					if ret, ok := i.(*ssa.Return); ok && errIsNonNilAt(ret.Block(), errV) {
						for ri, rv := range ret.Results {
							if rv != errV {
								continue
							}
							for _, caller := range p.Funcs {
								core.EachInstr(caller, func(j ssa.Instruction) {
									hc, ok := j.(*ssa.Call)
									if !ok || core.StaticCallee(hc) != f {
										return
									}
									for _, ref := range core.Refs(hc) {
										if e, ok := ref.(*ssa.Extract); ok && e.Index == ri {
											core.EachInstr(caller, func(k ssa.Instruction) {
												if ac, ok := core.IsCallTo(k, "(*validate.Result).AddErrors"); ok && errIsNonNilAt(ac.(ssa.Instruction).Block(), e) {
													okErr = true
												}
											})
										}
									}
								})
							}
						}
					}
				})
			}
			name := core.CalleeID(c)
			if okErr {
				r.OK(rule, "json.Number:error:"+name, p.Pos(c.Pos()), "a failed conversion adds an error to the result")
			} else {
				r.Bad(rule, "json.Number:error:"+name, p.Pos(c.Pos()), "a failed json.Number conversion is not reported")
			}
		}
	}
	r.Note("NARROW: %d numeric conversions, %d potentially lossy", total, nLossy)
}

func describeNum(v ssa.Value) string {
	if c, ok := v.(*ssa.Call); ok {
		return core.CalleeID(c) + "()"
	}
	return describe(v)
}

// sameKindIdentity: int64(v.Uint()) style conversions inside a kind switch are fine when the switch case
// restricts the kinds so that source and destination have the same signedness... not the case for the
// lossy ones; kept for float(v.Float()) etc.
func sameKindIdentity(cv *ssa.Convert, di *dynInterp) bool { return false }

// exactGuard returns a description of the guard making cv exact, or "".
func exactGuard(p *core.Prog, cv *ssa.Convert, from, to *types.Basic) string {
	x := cv.X
	conds := core.CondsAt(cv.Block())
	fk, _ := numClass(from)
	tk, _ := numClass(to)
	sameVal := func(v ssa.Value) bool {
		if v == x {
			return true
		}
		pa, oka := core.Path(v)
		pb, okb := core.Path(x)
		return oka && okb && pa == pb
	}
	integral, lo, hi := false, false, false
	var parts []string
	scan := func(cs []core.Cond, self func(ssa.Value) bool) {
		for _, c := range cs {
			switch v := c.Value.(type) {
			case *ssa.BinOp:
				// x == math.Trunc(x)
				if v.Op == token.EQL && c.Sense {
					for _, pair := range [][2]ssa.Value{{v.X, v.Y}, {v.Y, v.X}} {
						if call, ok := pair[1].(*ssa.Call); ok && self(pair[0]) {
							if g := core.StaticCallee(call); g != nil && (core.QualName(g) == "math.Trunc" || core.QualName(g) == "math.Floor") && self(call.Call.Args[0]) {
								integral = true
								parts = append(parts, "x == math.Trunc(x)")
							}
						}
					}
				}
				// range tests against constants
				var op token.Token
				var okc bool
				if self(v.X) {
					_, okc = v.Y.(*ssa.Const)
					op = v.Op
				} else if self(v.Y) {
					_, okc = v.X.(*ssa.Const)
					switch v.Op {
					case token.LSS:
						op = token.GTR
					case token.GTR:
						op = token.LSS
					case token.LEQ:
						op = token.GEQ
					case token.GEQ:
						op = token.LEQ
					}
				}
				if !okc {
					continue
				}
				if !c.Sense {
					switch op {
					case token.LSS:
						op = token.GEQ
					case token.LEQ:
						op = token.GTR
					case token.GTR:
						op = token.LEQ
					case token.GEQ:
						op = token.LSS
					}
				}
				switch op {
				case token.GEQ, token.GTR:
					lo = true
					parts = append(parts, "lower bound test")
				case token.LSS, token.LEQ:
					hi = true
					parts = append(parts, "upper bound test")
				}
			case *ssa.Call:
				g := core.StaticCallee(v)
				if g == nil || !c.Sense {
					continue
				}
				// swag.IsFloat64AJSONInteger is a tolerance test (|x-round(x)| below a relative epsilon): it
				// accepts 1000000000.5, so it is NOT an integrality guard for a value-changing conversion.
			}
		}
	}
	scan(conds, sameVal)
	// one-parameter predicate of the package: inline its "return true" conditions
	for _, c := range conds {
		call, ok := c.Value.(*ssa.Call)
		if !ok || !c.Sense {
			continue
		}
		g := core.StaticCallee(call)
		if g == nil || !p.InSubject(g) || len(g.Params) != 1 || len(call.Call.Args) != 1 || !sameVal(call.Call.Args[0]) {
			continue
		}
		if g.Signature.Results().Len() != 1 || g.Signature.Results().At(0).Type().String() != "bool" {
			continue
		}
		// blocks from which true can be returned
		prm := g.Params[0]
		self := func(v ssa.Value) bool { return v == ssa.Value(prm) }
		for _, b := range g.Blocks {
			ret, ok := b.Instrs[len(b.Instrs)-1].(*ssa.Return)
			if !ok {
				continue
			}
			res := ret.Results[0]
			var trueBlocks []*ssa.BasicBlock
			var extra []core.Cond
			switch rv := res.(type) {
			case *ssa.Const:
				if rv.Value != nil && rv.Value.ExactString() == "true" {
					trueBlocks = append(trueBlocks, b)
				}
			case *ssa.Phi:
				for k, e := range rv.Edges {
					if kc, ok := e.(*ssa.Const); ok {
						if kc.Value != nil && kc.Value.ExactString() == "true" {
							trueBlocks = append(trueBlocks, rv.Block().Preds[k])
						}
						continue
					}
					// the last conjunct evaluated in the predecessor
					trueBlocks = append(trueBlocks, rv.Block().Preds[k])
					extra = append(extra, core.Cond{Value: e, Sense: true})
				}
			default:
				trueBlocks = append(trueBlocks, b)
				extra = append(extra, core.Cond{Value: res, Sense: true})
			}
			for _, tb := range trueBlocks {
				scan(append(core.CondsAt(tb), extra...), self)
			}
		}
		parts = append(parts, "via "+core.FuncName(g))
	}
	switch {
	case fk == "float" && tk != "float":
		if integral && lo && hi {
			return strings.Join(uniq(parts), ", ")
		}
	case fk == "int" && tk == "uint":
		if lo {
			return "non-negative by a dominating test"
		}
	case fk == "uint" && tk == "int":
		if hi {
			return "upper bound test"
		}
	default:
		if lo && hi {
			return "range test"
		}
	}
	return ""
}

var _ = reflect.Int

// normalisedToFloat: does the interface value wrap a float64 obtained by converting something else
// (asFloat64 helper or a numeric conversion)? Returns a description, or "" when the value is the datum itself.
func normalisedToFloat(v ssa.Value, d int) string {
	if d > 6 {
		return ""
	}
	switch x := v.(type) {
	case *ssa.ChangeInterface:
		return normalisedToFloat(x.X, d+1)
	case *ssa.MakeInterface:
		b := basicOf(x.X.Type())
		if b == nil || b.Kind() != types.Float64 {
			return ""
		}
		return floatOrigin(x.X, d+1)
	case *ssa.Phi:
		for _, e := range x.Edges {
			if w := normalisedToFloat(e, d+1); w != "" {
				return w
			}
		}
	}
	return ""
}

func floatOrigin(v ssa.Value, d int) string {
	if d > 6 {
		return ""
	}
	switch x := v.(type) {
	case *ssa.Convert:
		return "a value converted to float64 (" + x.X.Type().String() + "→float64)"
	case *ssa.Call:
		if g := core.StaticCallee(x); g != nil {
			for _, a := range x.Call.Args {
				if types.IsInterface(a.Type()) {
					return "the float64 computed by " + core.FuncName(g) + " from the datum"
				}
			}
		}
	case *ssa.Phi:
		for _, e := range x.Edges {
			if w := floatOrigin(e, d+1); w != "" {
				return w
			}
		}
	}
	return ""
}
