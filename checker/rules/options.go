package rules

import (
	"fmt"
	"go/token"
	"go/types"
	"sort"
	"strings"

	"golang.org/x/tools/go/ssa"

	"verifchk/core"
)

// OPTIONS-ROUNDTRIP — SchemaValidatorOptions.Options() is the only way for a caller to replay the
// configuration of one validator onto another. Every element of the list it returns must be an option
// constructor applied to the receiver's field F whose closure stores its argument into that same field F
// (and nothing else), and every field of the options struct must be replayed. A crossed pair (recycling
// switched on by the value of another flag) silently turns a long-lived validator into a one-shot one.
func OptionsRoundTrip(p *core.Prog, r *core.Report) {
	const rule = "OPTIONS-ROUNDTRIP"
	f := p.Func("SchemaValidatorOptions.Options")
	if f == nil {
		r.Unk(rule, "Options", "-", "(SchemaValidatorOptions).Options not found")
		return
	}
	recvT := f.Params[0].Type()
	st, ok := recvT.Underlying().(*types.Struct)
	if !ok {
		r.Unk(rule, "Options", p.Pos(f.Pos()), "receiver is not a struct value")
		return
	}
	// field read off the receiver value
	recvField := func(v ssa.Value) (string, bool) {
		switch x := v.(type) {
		case *ssa.Field:
			if x.X == ssa.Value(f.Params[0]) {
				return core.FieldName(st, x.Field), true
			}
		case *ssa.UnOp:
			if x.Op == token.MUL {
				if fa, ok := x.X.(*ssa.FieldAddr); ok {
					if al, ok := fa.X.(*ssa.Alloc); ok {
						for _, ref := range core.Refs(al) {
							if s, ok := ref.(*ssa.Store); ok && s.Addr == ssa.Value(al) && s.Val == ssa.Value(f.Params[0]) {
								return core.FieldName(st, fa.Field), true
							}
						}
					}
				}
			}
		}
		return "", false
	}
	// what an option constructor's closure writes: field -> source ("arg" for the constructor's parameter)
	writes := func(g *ssa.Function) (map[string]string, bool) {
		out := map[string]string{}
		var clos *ssa.Function
		var mc *ssa.MakeClosure
		core.EachInstr(g, func(i ssa.Instruction) {
			if m, ok := i.(*ssa.MakeClosure); ok {
				mc = m
				clos, _ = m.Fn.(*ssa.Function)
			}
		})
		if clos == nil || len(g.Params) != 1 {
			return nil, false
		}
		okAll := true
		core.EachInstr(clos, func(i ssa.Instruction) {
			s, ok := i.(*ssa.Store)
			if !ok {
				return
			}
			fa, ok := s.Addr.(*ssa.FieldAddr)
			if !ok || len(clos.Params) != 1 || fa.X != ssa.Value(clos.Params[0]) {
				okAll = false
				return
			}
			src := "?"
			val := s.Val
			if u, ok := val.(*ssa.UnOp); ok && u.Op == token.MUL {
				val = u.X // captured by reference: the closure reads the cell
			}
			if fv, ok := val.(*ssa.FreeVar); ok {
				for k, v := range clos.FreeVars {
					if v != fv || k >= len(mc.Bindings) {
						continue
					}
					b := mc.Bindings[k]
					if b == ssa.Value(g.Params[0]) {
						src = "arg"
					}
					if cell, ok := b.(*ssa.Alloc); ok {
						stores, fromParam := 0, false
						for _, ref := range core.Refs(cell) {
							if cs, ok := ref.(*ssa.Store); ok && cs.Addr == ssa.Value(cell) {
								stores++
								fromParam = cs.Val == ssa.Value(g.Params[0])
							}
						}
						if stores == 1 && fromParam {
							src = "arg"
						}
					}
				}
			}
			out[core.FieldName(st, fa.Field)] = src
		})
		return out, okAll
	}
	replayed := map[string]bool{}
	n := 0
	core.EachInstr(f, func(i ssa.Instruction) {
		c, ok := i.(*ssa.Call)
		if !ok {
			return
		}
		g := core.StaticCallee(c)
		if g == nil || !p.InSubject(g) || len(c.Call.Args) != 1 {
			return
		}
		if nt, ok := c.Type().(*types.Named); !ok || core.KnownTypeName(nt) != "Option" {
			return
		}
		n++
		key := "Options:" + g.Name()
		from, isField := recvField(c.Call.Args[0])
		w, clean := writes(g)
		if !isField || !clean || len(w) == 0 {
			r.Unk(rule, key, p.Pos(c.Pos()), "cannot resolve the argument to a receiver field or the option to a single field store")
			return
		}
		var bad []string
		for fld, src := range w {
			if src != "arg" || fld != from {
				bad = append(bad, fmt.Sprintf("%s := %s (called with svo.%s)", fld, src, from))
			}
			if src == "arg" && fld == from {
				replayed[fld] = true
			}
		}
		sort.Strings(bad)
		if len(bad) > 0 {
			r.Bad(rule, key, p.Pos(c.Pos()), "the replayed option does not restore the field it was read from: "+strings.Join(bad, "; ")+" — a validator configured from another one's Options() gets a different configuration")
		} else {
			r.OK(rule, key, p.Pos(c.Pos()), fmt.Sprintf("%s(svo.%s) stores its argument into %s only", g.Name(), from, from))
		}
	})
	for k := 0; k < st.NumFields(); k++ {
		name := core.FieldName(st, k)
		if replayed[name] {
			r.OK(rule, "Options:field:"+name, p.Pos(f.Pos()), "replayed by Options()")
		} else {
			r.Bad(rule, "Options:field:"+name, p.Pos(f.Pos()), "field "+name+" of SchemaValidatorOptions is not replayed by Options(): a validator configured from Options() differs from its model")
		}
	}
	r.Count("options_replayed", n)
	r.Floor("options_replayed", 5)
}

// DEFAULTS-FIELDWISE — the package-level defaults (a struct-valued package variable initialised with a
// composite literal) are a set of independent switches: outside package initialisation they may only be changed
// one field at a time. A whole-value store (`defaultOpts = Opts{ContinueOnErrors: c}`) resets every other
// default — here StrictPathParamUniqueness — so one call of a setter changes which rules the next validator
// enforces, in both modes.
func DefaultsFieldwise(p *core.Prog, r *core.Report) {
	const rule = "DEFAULTS-FIELDWISE"
	n := 0
	for _, m := range p.Main.Members {
		g, ok := m.(*ssa.Global)
		if !ok {
			continue
		}
		pt, ok := g.Type().(*types.Pointer)
		if !ok {
			continue
		}
		nt := core.NamedOf(pt.Elem())
		if nt == nil || nt.Obj().Pkg() != p.Main.Pkg {
			continue
		}
		if _, isPtr := pt.Elem().(*types.Pointer); isPtr {
			continue
		}
		st, ok := nt.Underlying().(*types.Struct)
		if !ok || st.NumFields() < 2 {
			continue
		}
		// read by a spec-validation constructor: a copy is taken as the configuration of a validator
		n++
		var bad []string
		for _, f := range p.Funcs {
			if f.Name() == "init" || strings.HasPrefix(f.Name(), "init#") || f.Synthetic != "" {
				continue
			}
			core.EachInstr(f, func(i ssa.Instruction) {
				if s, ok := i.(*ssa.Store); ok && s.Addr == ssa.Value(g) {
					bad = append(bad, fmt.Sprintf("%s at %s", core.FuncName(f), p.Pos(s.Pos())))
				}
			})
		}
		sort.Strings(bad)
		key := "global:" + g.Name()
		if len(bad) > 0 {
			r.Bad(rule, key, p.Pos(g.Pos()), "the package-level defaults "+g.Name()+" are replaced as a whole outside initialisation ("+strings.Join(bad, "; ")+"): every field the assignment does not mention falls back to its zero value, not to its default, so a setter for one switch silently changes the others for every validator built afterwards")
		} else {
			r.OK(rule, key, p.Pos(g.Pos()), fmt.Sprintf("%s (%d fields) is only updated field by field outside package initialisation", g.Name(), st.NumFields()))
		}
	}
	r.Count("struct_defaults", n)
	r.Floor("struct_defaults", 1)
}
