package rules

import "sort"

func sortStrings(s []string) { sort.Strings(s) }
