package rules

import (
	"fmt"
	"go/constant"
	"go/token"
	"strings"

	"golang.org/x/tools/go/ssa"

	"verifchk/core"
)

// EQUAL-TABLE — the value-equality predicate behind enum and uniqueItems is decided exactly on a finite table:
// it is evaluated by the D-DYN interpreter (constant propagation with exact arithmetic, nothing runs) on every
// pair of typed numeric constants below — each value exactly representable in its carrier — and must answer
// "equal" exactly when the two mathematical values are equal, whatever the two Go types. The values sit on the
// edges where a conversion would go wrong: fractions against integers, negatives against unsigned, 2^53±1,
// 2^63, 2^64−1 and 2^64.
func EqualTable(p *core.Prog, r *core.Report) {
	const rule = "EQUAL-TABLE"
	// found by shape, not by name: the function of two interface{} values to bool that starts with their DeepEqual
	var f *ssa.Function
	for _, g := range p.Funcs {
		if g.Parent() == nil && isValueEqualityPredicate(p, g) {
			f = g
		}
	}
	if f == nil || len(f.Params) != 2 {
		r.Unk(rule, "anchor", "-", "the value-equality predicate (valuesEqual) was not found: enum and uniqueItems do not compare numbers by value")
		return
	}
	type tv struct {
		a atom
		c constant.Value
	}
	mk := func(a atom, lit string) tv {
		c := constant.MakeFromLiteral(lit, token.FLOAT, 0)
		if !strings.ContainsAny(lit, ".ep") {
			c = constant.MakeFromLiteral(lit, token.INT, 0)
		}
		return tv{a, c}
	}
	neg := func(t tv) tv { return tv{t.a, constant.UnaryOp(token.SUB, t.c, 0)} }
	vals := []tv{
		mk(aInt8, "1"), neg(mk(aInt8, "1")), mk(aInt8, "0"),
		mk(aInt, "2"), mk(aInt32, "97"), mk(aInt16, "2"), mk(aUint, "2"), mk(aUint32, "97"),
		mk(aInt64, "1"), neg(mk(aInt64, "1")), mk(aInt64, "9007199254740992"), mk(aInt64, "9007199254740993"), mk(aInt64, "9223372036854775807"), neg(mk(aInt64, "9223372036854775808")),
		mk(aUint8, "1"), mk(aUint8, "255"), mk(aUint16, "256"), mk(aUint8, "0"), mk(aUint64, "0"), mk(aInt64, "0"),
		mk(aUint64, "1"), mk(aUint64, "9007199254740993"), mk(aUint64, "9223372036854775808"), mk(aUint64, "18446744073709551615"),
		mk(aFloat32, "1.0"), mk(aFloat32, "1.5"), neg(mk(aFloat32, "1.0")), mk(aFloat32, "256.0"),
		mk(aFloat64, "1.0"), mk(aFloat64, "1.5"), mk(aFloat64, "2.5"), neg(mk(aFloat64, "1.0")), mk(aFloat64, "0.0"), mk(aFloat64, "97.0"),
		mk(aFloat64, "9007199254740992.0"), mk(aFloat64, "9223372036854775808.0"), neg(mk(aFloat64, "9223372036854775808.0")), mk(aFloat64, "18446744073709551616.0"),
	}
	na := newNilAn(p)
	n := 0
	var bad, undet []string
	for _, x := range vals {
		for _, y := range vals {
			n++
			di := newRegionInterp(p, na)
			di.startAt = nil
			di.arith = true
			res := di.run(f, []aval{{k: avDyn, a: x.a, c: x.c}, {k: avDyn, a: y.a, c: y.c}}, 0)
			want := constant.Compare(constant.ToFloat(x.c), token.EQL, constant.ToFloat(y.c))
			name := fmt.Sprintf("%s(%s) vs %s(%s)", x.a, x.c.ExactString(), y.a, y.c.ExactString())
			switch {
			case res.k != avConst || res.c.Kind() != constant.Bool:
				undet = append(undet, name)
			case constant.BoolVal(res.c) != want:
				if want {
					bad = append(bad, name+": equal numbers reported different")
				} else {
					bad = append(bad, name+": different numbers reported equal")
				}
			}
		}
	}
	r.Count("equal_table_pairs", n)
	r.Floor("equal_table_pairs", 900)
	pos := p.Pos(f.Pos())
	short := func(l []string) string {
		more := ""
		if len(l) > 4 {
			more = fmt.Sprintf(" … %d more", len(l)-4)
			l = l[:4]
		}
		return strings.Join(l, "; ") + more
	}
	if len(undet) > 0 {
		r.Unk(rule, "valuesEqual:determined", pos, "the outcome could not be determined by constant propagation for: "+short(undet))
	} else {
		r.OK(rule, "valuesEqual:determined", pos, fmt.Sprintf("all %d pairs evaluate to a single outcome", n))
	}
	if len(bad) > 0 {
		r.Bad(rule, "valuesEqual:exact", pos, "the value-equality predicate disagrees with exact arithmetic: "+short(bad))
	} else {
		r.OK(rule, "valuesEqual:exact", pos, fmt.Sprintf("numbers are equal exactly when their mathematical values are, on all %d typed pairs", n))
	}
	// the element level: the members of slices and maps are not compared by the predicate itself but by the helper
	// it delegates to (its two operands handed on as the first two arguments); that helper never sees the
	// predicate's own DeepEqual shortcut, so it is put through a table of its own — scalars of every JSON type
	// (null, booleans, strings) besides a sample of the numeric pairs: equal exactly when same JSON value.
	var elems []*ssa.Function
	core.EachInstr(f, func(i ssa.Instruction) {
		c, ok := i.(*ssa.Call)
		if !ok || len(c.Call.Args) < 2 {
			return
		}
		h := core.StaticCallee(c)
		if h == nil || h == f || !p.InSubject(h) || len(h.Params) < 2 || len(h.Blocks) == 0 {
			return
		}
		if through(c.Call.Args[0]) != ssa.Value(f.Params[0]) || through(c.Call.Args[1]) != ssa.Value(f.Params[1]) {
			return
		}
		for _, e := range elems {
			if e == h {
				return
			}
		}
		elems = append(elems, h)
	})
	type sv struct {
		name string
		v    aval
		// JSON identity: type tag + value
		tag string
		c   constant.Value
	}
	scal := []sv{
		{"nil", dyn(aNil), "null", nil},
		{"true", aval{k: avDyn, a: aBool, c: constant.MakeBool(true)}, "bool", constant.MakeBool(true)},
		{"false", aval{k: avDyn, a: aBool, c: constant.MakeBool(false)}, "bool", constant.MakeBool(false)},
		{`"a"`, aval{k: avDyn, a: aString, c: constant.MakeString("a")}, "string", constant.MakeString("a")},
		{`"b"`, aval{k: avDyn, a: aString, c: constant.MakeString("b")}, "string", constant.MakeString("b")},
		{`"1"`, aval{k: avDyn, a: aString, c: constant.MakeString("1")}, "string", constant.MakeString("1")},
		{"float64(1)", aval{k: avDyn, a: aFloat64, c: constant.MakeFloat64(1)}, "number", constant.MakeFloat64(1)},
		{"int64(1)", aval{k: avDyn, a: aInt64, c: constant.MakeInt64(1)}, "number", constant.MakeFloat64(1)},
		{"uint8(0)", aval{k: avDyn, a: aUint8, c: constant.MakeInt64(0)}, "number", constant.MakeFloat64(0)},
		{"float64(1.5)", aval{k: avDyn, a: aFloat64, c: constant.MakeFloat64(1.5)}, "number", constant.MakeFloat64(1.5)},
	}
	targets := append([]*ssa.Function{f}, elems...)
	m := 0
	var ebad, eundet []string
	for _, g := range targets {
		for _, x := range scal {
			for _, y := range scal {
				m++
				di := newRegionInterp(p, na)
				di.startAt = nil
				di.arith = true
				args := []aval{x.v, y.v}
				for k := 2; k < len(g.Params); k++ {
					args = append(args, aval{k: avValid})
				}
				res := di.run(g, args, 0)
				want := x.tag == y.tag && (x.c == nil || constant.Compare(x.c, token.EQL, y.c))
				name := fmt.Sprintf("%s(%s, %s)", core.FuncName(g), x.name, y.name)
				switch {
				case res.k != avConst || res.c.Kind() != constant.Bool:
					eundet = append(eundet, name)
				case constant.BoolVal(res.c) != want:
					if want {
						ebad = append(ebad, name+": the same JSON value reported different")
					} else {
						ebad = append(ebad, name+": different JSON values reported equal")
					}
				}
			}
		}
	}
	r.Count("equal_table_scalar_pairs", m)
	r.Floor("equal_table_scalar_pairs", 100)
	if len(eundet) > 0 {
		r.Unk(rule, "valuesEqual:scalars-determined", pos, "the outcome could not be determined by constant propagation for: "+short(eundet))
	} else {
		r.OK(rule, "valuesEqual:scalars-determined", pos, fmt.Sprintf("all %d scalar pairs (predicate and its element-level helper) evaluate to a single outcome", m))
	}
	if len(ebad) > 0 {
		r.Bad(rule, "valuesEqual:scalars", pos, "the value-equality predicate or the helper that compares the members of slices and maps for it disagrees with JSON equality on scalars: "+short(ebad))
	} else {
		r.OK(rule, "valuesEqual:scalars", pos, fmt.Sprintf("null, booleans, strings and numbers are equal exactly when they are the same JSON value, on all %d pairs, at the top and at the element level (%d helper(s))", m, len(elems)))
	}
}

// DATA-WALK — the equality predicate descends into slices and maps by recursion; Go values may contain themselves
// (`a := []interface{}{nil}; a[0] = a`), which reflect.DeepEqual survives thanks to its visited set. A recursive
// descent of its own must carry one too: in the recursive function, every recursive call is dominated by an
// insertion into a map parameter that is handed on unchanged, that insertion by a look-up of the same key with a
// return on "seen", and the key is built from the identities (reflect.Value.Pointer) of both containers.
// Without it UniqueItems / Enum on a self-containing value die with a fatal stack overflow.
func DataWalk(p *core.Prog, r *core.Report) {
	const rule = "DATA-WALK"
	var root *ssa.Function
	for _, g := range p.Funcs {
		if g.Parent() == nil && isValueEqualityPredicate(p, g) {
			root = g
		}
	}
	if root == nil {
		r.OK(rule, "recursion", "-", "no value-equality predicate of the package: element comparison is reflect.DeepEqual's (which keeps a visited set)")
		return
	}
	// recursive functions reachable from the predicate that descend into containers
	seen := map[*ssa.Function]bool{}
	var recs []*ssa.Function
	var visit func(g *ssa.Function, d int)
	visit = func(g *ssa.Function, d int) {
		if g == nil || seen[g] || d > 4 || !p.InSubject(g) {
			return
		}
		seen[g] = true
		self, descends := false, false
		core.EachInstr(g, func(i ssa.Instruction) {
			c, ok := i.(ssa.CallInstruction)
			if !ok {
				return
			}
			h := core.StaticCallee(c)
			if h == nil {
				return
			}
			if h == g {
				self = true
			}
			switch core.QualName(h) {
			case "reflect.Value.Index", "reflect.Value.MapIndex", "reflect.Value.Elem", "reflect.Value.Field":
				descends = true
			}
			visit(h, d+1)
		})
		if self && descends {
			recs = append(recs, g)
		}
	}
	visit(root, 0)
	// mutual recursion root -> root through containers (the predicate calling itself) counts as well
	if len(recs) == 0 {
		r.OK(rule, "recursion", p.Pos(root.Pos()), "the equality predicate does not descend into containers by recursion of its own")
		return
	}
	for _, g := range recs {
		key := core.FuncName(g) + ":visited"
		var recCalls []*ssa.Call
		core.EachInstr(g, func(i ssa.Instruction) {
			if c, ok := i.(*ssa.Call); ok && core.StaticCallee(c) == g {
				recCalls = append(recCalls, c)
			}
		})
		// the descent reaches the members of slices and of maps: one recursive call is fed from Index, one from
		// MapIndex (an arm that answers before it gets there compares no members at all)
		feeds := map[string]bool{}
		// (an arm may have been moved into a helper that calls back: those calls count for this clause)
		memberCalls := append([]*ssa.Call{}, recCalls...)
		core.EachInstr(g, func(i ssa.Instruction) {
			c, ok := i.(*ssa.Call)
			if !ok {
				return
			}
			h := core.StaticCallee(c)
			if h == nil || h == g || !p.InSubject(h) {
				return
			}
			core.EachInstr(h, func(j ssa.Instruction) {
				if c2, ok := j.(*ssa.Call); ok && core.StaticCallee(c2) == g {
					memberCalls = append(memberCalls, c2)
				}
			})
		})
		for _, rc := range memberCalls {
			for _, a := range rc.Call.Args {
				var walk func(v ssa.Value, d int)
				walk = func(v ssa.Value, d int) {
					if v == nil || d > 5 {
						return
					}
					if c, ok := v.(*ssa.Call); ok {
						if h := core.StaticCallee(c); h != nil {
							switch core.QualName(h) {
							case "reflect.Value.Index":
								feeds["slices"] = true
							case "reflect.Value.MapIndex":
								feeds["maps"] = true
							}
						}
						for _, x := range c.Call.Args {
							walk(x, d+1)
						}
					}
				}
				walk(a, 0)
			}
		}
		if feeds["slices"] && feeds["maps"] {
			r.OK(rule, key+":members", p.Pos(g.Pos()), "the members of slices and the members of maps are compared by recursive calls")
		} else {
			r.Bad(rule, key+":members", p.Pos(g.Pos()), fmt.Sprintf("the descent no longer compares the members of both kinds of containers (slices: %v, maps: %v): containers whose members are equal by value but not identical are never equal", feeds["slices"], feeds["maps"]))
		}
		var vp *ssa.Parameter
		for k, prm := range g.Params {
			if !strings.HasPrefix(prm.Type().Underlying().String(), "map[") {
				continue
			}
			all := true
			for _, rc := range recCalls {
				if k >= len(rc.Call.Args) || rc.Call.Args[k] != ssa.Value(prm) {
					all = false
				}
			}
			if all {
				vp = prm
			}
		}
		if vp == nil {
			r.Bad(rule, key, p.Pos(g.Pos()), core.FuncName(g)+" descends into slices and maps by calling itself without a visited set handed down the recursion: a value that contains itself (a := []interface{}{nil, 1}; a[0] = a) is unfolded for ever — UniqueItems([a, b]) and Enum(m, [m2]) on such values end in a fatal stack overflow, where reflect.DeepEqual terminates")
			continue
		}
		okAll := true
		why := ""
		seenAnswersFalse := ""
		for _, rc := range recCalls {
			marked := false
			core.EachInstr(g, func(i ssa.Instruction) {
				mu, ok := i.(*ssa.MapUpdate)
				if !ok || mu.Map != ssa.Value(vp) || !core.InstrDominates(mu, rc) {
					return
				}
				// a look-up of the same key dominates the insertion and returns on "seen"
				looked := false
				core.EachInstr(g, func(j ssa.Instruction) {
					lk, ok := j.(*ssa.Lookup)
					if !ok || lk.X != ssa.Value(vp) || !core.InstrDominates(lk, mu) {
						return
					}
					if lk.Index == mu.Key || sameLoadedCell(lk.Index, mu.Key) {
						looked = true
						// … and a pair met again is taken for equal (like reflect.DeepEqual): the comma-ok of the look-up
						// leads to `return true`
						for _, ref := range core.Refs(lk) {
							ex, isEx := ref.(*ssa.Extract)
							if !isEx || ex.Index != 1 {
								continue
							}
							for _, r2 := range core.Refs(ex) {
								if ifi, isIf := r2.(*ssa.If); isIf && ifi.Cond == ssa.Value(ex) {
									tb := ifi.Block().Succs[0]
									if ret, isRet := tb.Instrs[len(tb.Instrs)-1].(*ssa.Return); isRet && len(ret.Results) == 1 {
										if k, isK := ret.Results[0].(*ssa.Const); isK && k.Value != nil && k.Value.ExactString() == "false" {
											seenAnswersFalse = p.Pos(ret.Pos())
										}
									}
								}
							}
						}
					}
				})
				// the key carries the identity of both containers
				nPtr := 0
				var ptrOf []ssa.Value
				var walk func(v ssa.Value, d int)
				walk = func(v ssa.Value, d int) {
					if v == nil || d > 8 {
						return
					}
					if c, ok := v.(*ssa.Call); ok {
						if h := core.StaticCallee(c); h != nil && (core.QualName(h) == "reflect.Value.Pointer" || core.QualName(h) == "reflect.Value.UnsafePointer") {
							// of two different containers: the identity of one of them taken twice makes every later
							// partner of that container "seen"
							fresh := true
							for _, o := range ptrOf {
								if o == c.Call.Args[0] {
									fresh = false
								}
							}
							if fresh {
								ptrOf = append(ptrOf, c.Call.Args[0])
								nPtr++
							}
							return
						}
					}
					if ld, ok := v.(*ssa.UnOp); ok {
						if al, ok := ld.X.(*ssa.Alloc); ok {
							for _, ref := range core.Refs(al) {
								switch x := ref.(type) {
								case *ssa.Store:
									if x.Addr == ssa.Value(al) {
										walk(x.Val, d+1)
									}
								case *ssa.IndexAddr:
									for _, r2 := range core.Refs(x) {
										if st, ok := r2.(*ssa.Store); ok && st.Addr == ssa.Value(x) {
											walk(st.Val, d+1)
										}
									}
								}
							}
							return
						}
					}
					if ins, ok := v.(ssa.Instruction); ok {
						for _, op := range ins.Operands(nil) {
							if op != nil && *op != nil {
								walk(*op, d+1)
							}
						}
					}
				}
				walk(mu.Key, 0)
				if looked && nPtr >= 2 {
					marked = true
				}
			})
			if !marked {
				okAll = false
				why = p.Pos(rc.Pos())
			}
		}
		if seenAnswersFalse != "" {
			r.Bad(rule, key+":answer", seenAnswersFalse, "a pair of containers met again during the descent is answered `false`: a value that contains itself is then different from an identical one (and from itself, one level down), where reflect.DeepEqual — and the predicate's own shortcut at the top — say equal")
		} else {
			r.OK(rule, key+":answer", p.Pos(g.Pos()), "a pair met again is taken for equal")
		}
		if okAll {
			r.OK(rule, key, p.Pos(g.Pos()), fmt.Sprintf("every recursive call (%d) is preceded by a look-up and an insertion of the pair of container identities in the visited set handed down", len(recCalls)))
		} else {
			r.Bad(rule, key, why, "a recursive descent of "+core.FuncName(g)+" is not preceded by a look-up and an insertion of the two containers' identities in the visited set: self-containing values are unfolded for ever (fatal stack overflow)")
		}
	}
}

// sameLoadedCell: two loads of the same local cell (a composite key built once and used for look-up and insertion).
func sameLoadedCell(a, b ssa.Value) bool {
	la, ok1 := a.(*ssa.UnOp)
	lb, ok2 := b.(*ssa.UnOp)
	return ok1 && ok2 && la.X == lb.X
}

// MULTIPLE-TABLE — `multipleOf` decided exactly on a finite table: MultipleOf / MultipleOfInt / MultipleOfUint are
// evaluated by the D-DYN interpreter (exact constant arithmetic, the dependency's integrality predicate modelled
// faithfully, nothing runs) on pairs (value, factor) whose quotient is either an integer or has a fractional part
// of at least 1/8 at a magnitude below 10^6 — far away from the tolerance of the predicate (the known finding
// about that tolerance concerns quotients beyond 10^8) — and must accept exactly the pairs where the factor
// divides the value, and reject every factor that is not positive.
func MultipleTable(p *core.Prog, r *core.Report) {
	const rule = "MULTIPLE-TABLE"
	na := newNilAn(p)
	str := aval{k: avConst, c: constant.MakeString("p")}
	n := 0
	var bad, undet []string
	run := func(f *ssa.Function, name string, data, factor constant.Value, want bool) {
		n++
		di := newRegionInterp(p, na)
		di.startAt = nil
		di.arith = true
		res := di.run(f, []aval{str, str, {k: avConst, c: data}, {k: avConst, c: factor}}, 0)
		var got bool
		switch {
		case res.k == avValid:
			got = false // an error value
		case res.k == avNilPtr, res.k == avDyn && res.a == aNil:
			got = true
		default:
			undet = append(undet, fmt.Sprintf("%s → %s", name, res))
			return
		}
		if got != want {
			if want {
				bad = append(bad, name+": rejected although the factor divides the value")
			} else {
				bad = append(bad, name+": accepted although the factor does not divide the value (or is not positive)")
			}
		}
	}
	if f := p.Func("MultipleOf"); f != nil && len(f.Params) == 4 {
		datas := []float64{0, 0.75, 1.5, 3, 4, 7, 10, -3, -4.5, 2.25, 100, 1000.5, 65536}
		factors := []float64{0.125, 0.25, 0.5, 1, 1.5, 2, 2.5, 3, 7, 1024, 0, -2}
		for _, d := range datas {
			for _, fc := range factors {
				want := false
				if fc > 0 {
					q := d / fc // exact for these operands or far from an integer
					want = q == float64(int64(q))
				}
				run(f, fmt.Sprintf("MultipleOf(%v, %v)", d, fc), constant.MakeFloat64(d), constant.MakeFloat64(fc), want)
			}
		}
	} else {
		r.Unk(rule, "MultipleOf", "-", "MultipleOf(path, in, data, factor) not found")
	}
	if f := p.Func("MultipleOfInt"); f != nil && len(f.Params) == 4 {
		for _, d := range []int64{0, 1, 6, 7, -6, -7, 1 << 40, 1<<40 + 1} {
			for _, fc := range []int64{1, 2, 3, 7, 0, -1, -3} {
				run(f, fmt.Sprintf("MultipleOfInt(%d, %d)", d, fc), constant.MakeInt64(d), constant.MakeInt64(fc), fc > 0 && d%fc == 0)
			}
		}
	} else {
		r.Unk(rule, "MultipleOfInt", "-", "MultipleOfInt(path, in, data, factor) not found")
	}
	if f := p.Func("MultipleOfUint"); f != nil && len(f.Params) == 4 {
		for _, d := range []uint64{0, 1, 6, 7, 1 << 40, 1<<40 + 1, 1<<63 + 2} {
			for _, fc := range []uint64{1, 2, 3, 7, 0} {
				run(f, fmt.Sprintf("MultipleOfUint(%d, %d)", d, fc), constant.MakeUint64(d), constant.MakeUint64(fc), fc > 0 && d%fc == 0)
			}
		}
	} else {
		r.Unk(rule, "MultipleOfUint", "-", "MultipleOfUint(path, in, data, factor) not found")
	}
	r.Count("multiple_table_cases", n)
	r.Floor("multiple_table_cases", 200)
	short := func(l []string) string {
		more := ""
		if len(l) > 4 {
			more = fmt.Sprintf(" … %d more", len(l)-4)
			l = l[:4]
		}
		return strings.Join(l, "; ") + more
	}
	if len(undet) > 0 {
		r.Unk(rule, "determined", "-", "the outcome could not be determined by constant propagation for: "+short(undet))
	} else {
		r.OK(rule, "determined", "-", fmt.Sprintf("all %d cases evaluate to a single outcome", n))
	}
	if len(bad) > 0 {
		r.Bad(rule, "exact", "-", "multipleOf disagrees with exact divisibility: "+short(bad))
	} else {
		r.OK(rule, "exact", "-", fmt.Sprintf("a value is accepted exactly when the (positive) factor divides it, on all %d cases", n))
	}
}
