package rules

import (
	"fmt"
	"go/constant"
	"go/token"
	"strings"

	"golang.org/x/tools/go/ssa"

	"verifchk/core"
)

// EQUAL-TABLE — the value-equality predicate behind enum and uniqueItems is decided exactly on a finite table:
// it is evaluated by the D-DYN interpreter (constant propagation with exact arithmetic, nothing runs) on every
// pair of typed numeric constants below — each value exactly representable in its carrier — and must answer
// "equal" exactly when the two mathematical values are equal, whatever the two Go types. The values sit on the
// edges where a conversion would go wrong: fractions against integers, negatives against unsigned, 2^53±1,
// 2^63, 2^64−1 and 2^64.
func EqualTable(p *core.Prog, r *core.Report) {
	const rule = "EQUAL-TABLE"
	// found by shape, not by name: the function of two interface{} values to bool that starts with their DeepEqual
	var f *ssa.Function
	for _, g := range p.Funcs {
		if g.Parent() == nil && isValueEqualityPredicate(p, g) {
			f = g
		}
	}
	if f == nil || len(f.Params) != 2 {
		r.Unk(rule, "anchor", "-", "the value-equality predicate (valuesEqual) was not found: enum and uniqueItems do not compare numbers by value")
		return
	}
	type tv struct {
		a atom
		c constant.Value
	}
	mk := func(a atom, lit string) tv {
		c := constant.MakeFromLiteral(lit, token.FLOAT, 0)
		if !strings.ContainsAny(lit, ".ep") {
			c = constant.MakeFromLiteral(lit, token.INT, 0)
		}
		return tv{a, c}
	}
	neg := func(t tv) tv { return tv{t.a, constant.UnaryOp(token.SUB, t.c, 0)} }
	vals := []tv{
		mk(aInt8, "1"), neg(mk(aInt8, "1")), mk(aInt8, "0"),
		mk(aInt, "2"), mk(aInt32, "97"),
		mk(aInt64, "1"), neg(mk(aInt64, "1")), mk(aInt64, "9007199254740992"), mk(aInt64, "9007199254740993"), mk(aInt64, "9223372036854775807"), neg(mk(aInt64, "9223372036854775808")),
		mk(aUint8, "1"), mk(aUint8, "255"), mk(aUint16, "256"),
		mk(aUint64, "1"), mk(aUint64, "9007199254740993"), mk(aUint64, "9223372036854775808"), mk(aUint64, "18446744073709551615"),
		mk(aFloat32, "1.0"), mk(aFloat32, "1.5"), neg(mk(aFloat32, "1.0")), mk(aFloat32, "256.0"),
		mk(aFloat64, "1.0"), mk(aFloat64, "1.5"), mk(aFloat64, "2.5"), neg(mk(aFloat64, "1.0")), mk(aFloat64, "0.0"), mk(aFloat64, "97.0"),
		mk(aFloat64, "9007199254740992.0"), mk(aFloat64, "9223372036854775808.0"), neg(mk(aFloat64, "9223372036854775808.0")), mk(aFloat64, "18446744073709551616.0"),
	}
	na := newNilAn(p)
	n := 0
	var bad, undet []string
	for _, x := range vals {
		for _, y := range vals {
			n++
			di := newRegionInterp(p, na)
			di.startAt = nil
			di.arith = true
			res := di.run(f, []aval{{k: avDyn, a: x.a, c: x.c}, {k: avDyn, a: y.a, c: y.c}}, 0)
			want := constant.Compare(constant.ToFloat(x.c), token.EQL, constant.ToFloat(y.c))
			name := fmt.Sprintf("%s(%s) vs %s(%s)", x.a, x.c.ExactString(), y.a, y.c.ExactString())
			switch {
			case res.k != avConst || res.c.Kind() != constant.Bool:
				undet = append(undet, name)
			case constant.BoolVal(res.c) != want:
				if want {
					bad = append(bad, name+": equal numbers reported different")
				} else {
					bad = append(bad, name+": different numbers reported equal")
				}
			}
		}
	}
	r.Count("equal_table_pairs", n)
	r.Floor("equal_table_pairs", 900)
	pos := p.Pos(f.Pos())
	short := func(l []string) string {
		more := ""
		if len(l) > 4 {
			more = fmt.Sprintf(" … %d more", len(l)-4)
			l = l[:4]
		}
		return strings.Join(l, "; ") + more
	}
	if len(undet) > 0 {
		r.Unk(rule, "valuesEqual:determined", pos, "the outcome could not be determined by constant propagation for: "+short(undet))
	} else {
		r.OK(rule, "valuesEqual:determined", pos, fmt.Sprintf("all %d pairs evaluate to a single outcome", n))
	}
	if len(bad) > 0 {
		r.Bad(rule, "valuesEqual:exact", pos, "the value-equality predicate disagrees with exact arithmetic: "+short(bad))
	} else {
		r.OK(rule, "valuesEqual:exact", pos, fmt.Sprintf("numbers are equal exactly when their mathematical values are, on all %d typed pairs", n))
	}
	_ = core.FuncName
}

// DATA-WALK — the equality predicate descends into slices and maps by recursion; Go values may contain themselves
// (`a := []interface{}{nil}; a[0] = a`), which reflect.DeepEqual survives thanks to its visited set. A recursive
// descent of its own must carry one too: in the recursive function, every recursive call is dominated by an
// insertion into a map parameter that is handed on unchanged, that insertion by a look-up of the same key with a
// return on "seen", and the key is built from the identities (reflect.Value.Pointer) of both containers.
// Without it UniqueItems / Enum on a self-containing value die with a fatal stack overflow.
func DataWalk(p *core.Prog, r *core.Report) {
	const rule = "DATA-WALK"
	var root *ssa.Function
	for _, g := range p.Funcs {
		if g.Parent() == nil && isValueEqualityPredicate(p, g) {
			root = g
		}
	}
	if root == nil {
		r.OK(rule, "recursion", "-", "no value-equality predicate of the package: element comparison is reflect.DeepEqual's (which keeps a visited set)")
		return
	}
	// recursive functions reachable from the predicate that descend into containers
	seen := map[*ssa.Function]bool{}
	var recs []*ssa.Function
	var visit func(g *ssa.Function, d int)
	visit = func(g *ssa.Function, d int) {
		if g == nil || seen[g] || d > 4 || !p.InSubject(g) {
			return
		}
		seen[g] = true
		self, descends := false, false
		core.EachInstr(g, func(i ssa.Instruction) {
			c, ok := i.(ssa.CallInstruction)
			if !ok {
				return
			}
			h := core.StaticCallee(c)
			if h == nil {
				return
			}
			if h == g {
				self = true
			}
			switch core.QualName(h) {
			case "reflect.Value.Index", "reflect.Value.MapIndex", "reflect.Value.Elem", "reflect.Value.Field":
				descends = true
			}
			visit(h, d+1)
		})
		if self && descends {
			recs = append(recs, g)
		}
	}
	visit(root, 0)
	// mutual recursion root -> root through containers (the predicate calling itself) counts as well
	if len(recs) == 0 {
		r.OK(rule, "recursion", p.Pos(root.Pos()), "the equality predicate does not descend into containers by recursion of its own")
		return
	}
	for _, g := range recs {
		key := core.FuncName(g) + ":visited"
		var recCalls []*ssa.Call
		core.EachInstr(g, func(i ssa.Instruction) {
			if c, ok := i.(*ssa.Call); ok && core.StaticCallee(c) == g {
				recCalls = append(recCalls, c)
			}
		})
		var vp *ssa.Parameter
		for k, prm := range g.Params {
			if !strings.HasPrefix(prm.Type().Underlying().String(), "map[") {
				continue
			}
			all := true
			for _, rc := range recCalls {
				if k >= len(rc.Call.Args) || rc.Call.Args[k] != ssa.Value(prm) {
					all = false
				}
			}
			if all {
				vp = prm
			}
		}
		if vp == nil {
			r.Bad(rule, key, p.Pos(g.Pos()), core.FuncName(g)+" descends into slices and maps by calling itself without a visited set handed down the recursion: a value that contains itself (a := []interface{}{nil, 1}; a[0] = a) is unfolded for ever — UniqueItems([a, b]) and Enum(m, [m2]) on such values end in a fatal stack overflow, where reflect.DeepEqual terminates")
			continue
		}
		okAll := true
		why := ""
		for _, rc := range recCalls {
			marked := false
			core.EachInstr(g, func(i ssa.Instruction) {
				mu, ok := i.(*ssa.MapUpdate)
				if !ok || mu.Map != ssa.Value(vp) || !core.InstrDominates(mu, rc) {
					return
				}
				// a look-up of the same key dominates the insertion and returns on "seen"
				looked := false
				core.EachInstr(g, func(j ssa.Instruction) {
					lk, ok := j.(*ssa.Lookup)
					if !ok || lk.X != ssa.Value(vp) || !core.InstrDominates(lk, mu) {
						return
					}
					if lk.Index == mu.Key || sameLoadedCell(lk.Index, mu.Key) {
						looked = true
					}
				})
				// the key carries the identity of both containers
				nPtr := 0
				var walk func(v ssa.Value, d int)
				walk = func(v ssa.Value, d int) {
					if v == nil || d > 8 {
						return
					}
					if c, ok := v.(*ssa.Call); ok {
						if h := core.StaticCallee(c); h != nil && (core.QualName(h) == "reflect.Value.Pointer" || core.QualName(h) == "reflect.Value.UnsafePointer") {
							nPtr++
							return
						}
					}
					if ld, ok := v.(*ssa.UnOp); ok {
						if al, ok := ld.X.(*ssa.Alloc); ok {
							for _, ref := range core.Refs(al) {
								switch x := ref.(type) {
								case *ssa.Store:
									if x.Addr == ssa.Value(al) {
										walk(x.Val, d+1)
									}
								case *ssa.IndexAddr:
									for _, r2 := range core.Refs(x) {
										if st, ok := r2.(*ssa.Store); ok && st.Addr == ssa.Value(x) {
											walk(st.Val, d+1)
										}
									}
								}
							}
							return
						}
					}
					if ins, ok := v.(ssa.Instruction); ok {
						for _, op := range ins.Operands(nil) {
							if op != nil && *op != nil {
								walk(*op, d+1)
							}
						}
					}
				}
				walk(mu.Key, 0)
				if looked && nPtr >= 2 {
					marked = true
				}
			})
			if !marked {
				okAll = false
				why = p.Pos(rc.Pos())
			}
		}
		if okAll {
			r.OK(rule, key, p.Pos(g.Pos()), fmt.Sprintf("every recursive call (%d) is preceded by a look-up and an insertion of the pair of container identities in the visited set handed down", len(recCalls)))
		} else {
			r.Bad(rule, key, why, "a recursive descent of "+core.FuncName(g)+" is not preceded by a look-up and an insertion of the two containers' identities in the visited set: self-containing values are unfolded for ever (fatal stack overflow)")
		}
	}
}

// sameLoadedCell: two loads of the same local cell (a composite key built once and used for look-up and insertion).
func sameLoadedCell(a, b ssa.Value) bool {
	la, ok1 := a.(*ssa.UnOp)
	lb, ok2 := b.(*ssa.UnOp)
	return ok1 && ok2 && la.X == lb.X
}
