package rules

import (
	"fmt"
	"go/constant"
	"go/token"
	"strings"

	"golang.org/x/tools/go/ssa"

	"verifchk/core"
)

// EQUAL-TABLE — the value-equality predicate behind enum and uniqueItems is decided exactly on a finite table:
// it is evaluated by the D-DYN interpreter (constant propagation with exact arithmetic, nothing runs) on every
// pair of typed numeric constants below — each value exactly representable in its carrier — and must answer
// "equal" exactly when the two mathematical values are equal, whatever the two Go types. The values sit on the
// edges where a conversion would go wrong: fractions against integers, negatives against unsigned, 2^53±1,
// 2^63, 2^64−1 and 2^64.
func EqualTable(p *core.Prog, r *core.Report) {
	const rule = "EQUAL-TABLE"
	// found by shape, not by name: the function of two interface{} values to bool that starts with their DeepEqual
	var f *ssa.Function
	for _, g := range p.Funcs {
		if g.Parent() == nil && isValueEqualityPredicate(p, g) {
			f = g
		}
	}
	if f == nil || len(f.Params) != 2 {
		r.Unk(rule, "anchor", "-", "the value-equality predicate (valuesEqual) was not found: enum and uniqueItems do not compare numbers by value")
		return
	}
	type tv struct {
		a atom
		c constant.Value
	}
	mk := func(a atom, lit string) tv {
		c := constant.MakeFromLiteral(lit, token.FLOAT, 0)
		if !strings.ContainsAny(lit, ".ep") {
			c = constant.MakeFromLiteral(lit, token.INT, 0)
		}
		return tv{a, c}
	}
	neg := func(t tv) tv { return tv{t.a, constant.UnaryOp(token.SUB, t.c, 0)} }
	vals := []tv{
		mk(aInt8, "1"), neg(mk(aInt8, "1")), mk(aInt8, "0"),
		mk(aInt, "2"), mk(aInt32, "97"),
		mk(aInt64, "1"), neg(mk(aInt64, "1")), mk(aInt64, "9007199254740992"), mk(aInt64, "9007199254740993"), mk(aInt64, "9223372036854775807"), neg(mk(aInt64, "9223372036854775808")),
		mk(aUint8, "1"), mk(aUint8, "255"), mk(aUint16, "256"),
		mk(aUint64, "1"), mk(aUint64, "9007199254740993"), mk(aUint64, "9223372036854775808"), mk(aUint64, "18446744073709551615"),
		mk(aFloat32, "1.0"), mk(aFloat32, "1.5"), neg(mk(aFloat32, "1.0")), mk(aFloat32, "256.0"),
		mk(aFloat64, "1.0"), mk(aFloat64, "1.5"), mk(aFloat64, "2.5"), neg(mk(aFloat64, "1.0")), mk(aFloat64, "0.0"), mk(aFloat64, "97.0"),
		mk(aFloat64, "9007199254740992.0"), mk(aFloat64, "9223372036854775808.0"), neg(mk(aFloat64, "9223372036854775808.0")), mk(aFloat64, "18446744073709551616.0"),
	}
	na := newNilAn(p)
	n := 0
	var bad, undet []string
	for _, x := range vals {
		for _, y := range vals {
			n++
			di := newRegionInterp(p, na)
			di.startAt = nil
			di.arith = true
			res := di.run(f, []aval{{k: avDyn, a: x.a, c: x.c}, {k: avDyn, a: y.a, c: y.c}}, 0)
			want := constant.Compare(constant.ToFloat(x.c), token.EQL, constant.ToFloat(y.c))
			name := fmt.Sprintf("%s(%s) vs %s(%s)", x.a, x.c.ExactString(), y.a, y.c.ExactString())
			switch {
			case res.k != avConst || res.c.Kind() != constant.Bool:
				undet = append(undet, name)
			case constant.BoolVal(res.c) != want:
				if want {
					bad = append(bad, name+": equal numbers reported different")
				} else {
					bad = append(bad, name+": different numbers reported equal")
				}
			}
		}
	}
	r.Count("equal_table_pairs", n)
	r.Floor("equal_table_pairs", 900)
	pos := p.Pos(f.Pos())
	short := func(l []string) string {
		more := ""
		if len(l) > 4 {
			more = fmt.Sprintf(" … %d more", len(l)-4)
			l = l[:4]
		}
		return strings.Join(l, "; ") + more
	}
	if len(undet) > 0 {
		r.Unk(rule, "valuesEqual:determined", pos, "the outcome could not be determined by constant propagation for: "+short(undet))
	} else {
		r.OK(rule, "valuesEqual:determined", pos, fmt.Sprintf("all %d pairs evaluate to a single outcome", n))
	}
	if len(bad) > 0 {
		r.Bad(rule, "valuesEqual:exact", pos, "the value-equality predicate disagrees with exact arithmetic: "+short(bad))
	} else {
		r.OK(rule, "valuesEqual:exact", pos, fmt.Sprintf("numbers are equal exactly when their mathematical values are, on all %d typed pairs", n))
	}
	_ = core.FuncName
}
