package rules

import (
	"fmt"
	"go/token"
	"go/types"
	"strings"

	"golang.org/x/tools/go/ssa"

	"verifchk/core"
)

// SCHEMATA — the (object, member) → schemata bookkeeping that ApplyDefaults and Prune consume (C18, C19).
func Schemata(p *core.Prog, r *core.Report) {
	const rule = "SCHEMATA"
	// (a) the per-field / per-item lists of a Result only receive appends to themselves, fresh slices or
	//     re-slices of themselves (never the list of another result), and each recorded entry holds cloned schemata
	nSt := 0
	seq := map[string]int{}
	for _, f := range p.Funcs {
		fn := core.FuncName(f)
		core.EachInstr(f, func(i ssa.Instruction) {
			st, ok := i.(*ssa.Store)
			if !ok {
				return
			}
			fa, ok := st.Addr.(*ssa.FieldAddr)
			if !ok || !isResultPtr(fa.X.Type()) {
				return
			}
			_, name, _ := core.FieldOf(fa)
			if name != "fieldSchemata" && name != "itemSchemata" {
				return
			}
			nSt++
			base := fn + ":store-" + name
			seq[base]++
			key := fmt.Sprintf("%s#%d", base, seq[base])
			if storedFresh(st.Val, fa, name) {
				r.OK(rule, key, p.Pos(st.Pos()), "append to itself / fresh slice / re-slice of itself")
			} else {
				r.Bad(rule, key, p.Pos(st.Pos()), "the "+name+" list of a result receives a slice that belongs to another result: when that result is recycled its next user overwrites the records the live result still holds")
			}
		})
	}
	// (a') the accessors report every recorded entry: inside FieldSchemata / ItemSchemata the write into the
	// returned map depends on nothing but the loop and on which of the two schemata representations is filled —
	// never on the member's name, index or container (a filter on fs.field == "" drops the legal member name "")
	nAcc := 0
	for _, an := range []string{"(*Result).FieldSchemata", "(*Result).ItemSchemata"} {
		f := p.Func(an)
		if f == nil {
			r.Unk(rule, "accessor:"+an, "-", "accessor not found")
			continue
		}
		core.EachInstr(f, func(i ssa.Instruction) {
			mu, ok := i.(*ssa.MapUpdate)
			if !ok {
				return
			}
			nAcc++
			var bad []string
			for _, c := range core.ControlConds(mu.Block()) {
				a := condAtom(c)
				if strings.Contains(a, "ok(") || strings.Contains(a, ".schemata.") || strings.HasPrefix(a, "recv.cached") || loopCond(c.If.Block(), c.Value) {
					continue
				}
				if paramNilTest(c, f.Params[0]) {
					continue // a nil result has recorded nothing
				}
				bad = append(bad, a)
			}
			key := fmt.Sprintf("accessor:%s:total#%d", an, nAcc)
			if len(bad) > 0 {
				r.Bad(rule, key, p.Pos(mu.Pos()), "an entry recorded during validation is reported by the accessor only when "+strings.Join(bad, " and ")+": members filtered out here have no schemata for the post-processors (pruned although described, never defaulted)")
			} else {
				r.OK(rule, key, p.Pos(mu.Pos()), "every recorded entry is reported (the write depends only on the loop and on which schemata representation is filled)")
			}
		})
	}
	// (a'') merges carry over every entry of the operand: an append to the receiver's list inside a loop over
	// another result's list depends on nothing but the loop and the nil tests of the lists
	nCarry := 0
	for _, f := range p.Funcs {
		if !p.InSubject(f) {
			continue
		}
		fn := core.FuncName(f)
		core.EachInstr(f, func(i ssa.Instruction) {
			c, ok := i.(*ssa.Call)
			if !ok {
				return
			}
			b, ok := c.Call.Value.(*ssa.Builtin)
			if !ok || b.Name() != "append" {
				return
			}
			pth, ok := core.StablePath(c.Call.Args[0])
			if !ok || !(strings.HasSuffix(pth, ".fieldSchemata") || strings.HasSuffix(pth, ".itemSchemata")) {
				return
			}
			// inside a loop over the same kind of list of another object?
			inCopyLoop := false
			for _, cd := range core.ControlConds(c.Block()) {
				if strings.Contains(condAtom(cd), "ok(") || loopCond(cd.If.Block(), cd.Value) {
					inCopyLoop = true
				}
			}
			if !inCopyLoop {
				return
			}
			nCarry++
			var bad []string
			for _, cd := range core.ControlConds(c.Block()) {
				a := condAtom(cd)
				if strings.Contains(a, "ok(") || loopCond(cd.If.Block(), cd.Value) || strings.HasSuffix(a, "Schemata != nil") || strings.HasSuffix(a, "Schemata == nil") || strings.Contains(a, "len(") {
					continue
				}
				if strings.HasPrefix(a, "arg") && (strings.HasSuffix(a, "!= nil") || strings.HasSuffix(a, "== nil")) {
					continue // nil operand
				}
				bad = append(bad, a)
			}
			key := fmt.Sprintf("carry-over:%s:%s", fn, pth[strings.LastIndex(pth, ".")+1:])
			if len(bad) > 0 {
				r.Bad(rule, key, p.Pos(c.Pos()), "an entry of the merged result's schemata is carried over only when "+strings.Join(bad, " and ")+": the members filtered out lose their schemata (never defaulted, pruned although described)")
			} else {
				r.OK(rule, key, p.Pos(c.Pos()), "every entry of the operand is carried over")
			}
		})
	}
	r.Count("schemata_carry_over_loops", nCarry)
	r.Floor("schemata_carry_over_loops", 2)
	r.Count("schemata_accessor_writes", nAcc)
	r.Floor("schemata_accessor_writes", 3)
	r.Count("schemata_list_stores", nSt)
	r.Floor("schemata_list_stores", 8)
	// appended entries carry cloned schemata
	nApp := 0
	for _, f := range p.Funcs {
		fn := core.FuncName(f)
		core.EachInstr(f, func(i ssa.Instruction) {
			c, ok := i.(*ssa.Call)
			if !ok {
				return
			}
			b, ok := c.Call.Value.(*ssa.Builtin)
			if !ok || b.Name() != "append" || len(c.Call.Args) < 2 {
				return
			}
			ts := c.Type().String()
			// (the element type by the name the rules know it: a renamed type keeps its old name)
			if sl, isSl := c.Type().Underlying().(*types.Slice); isSl {
				if en := core.NamedOf(sl.Elem()); en != nil {
					ts = "validate." + core.KnownTypeName(en)
				}
			}
			if !strings.HasSuffix(ts, "validate.fieldSchemata") && !strings.HasSuffix(ts, "validate.itemSchemata") {
				return
			}
			for _, e := range varargElems(c.Call.Args[1]) {
				nApp++
				base := fn + ":entry"
				seq[base]++
				key := fmt.Sprintf("%s#%d", base, seq[base])
				if entryCloned(e) {
					r.OK(rule, key, p.Pos(c.Pos()), "the recorded schemata are a Clone() / a fresh shallow copy")
				} else {
					r.Bad(rule, key, p.Pos(c.Pos()), "an entry is recorded with schemata that are not cloned: they are shared with a result about to be recycled, or with the caller's schema")
				}
			}
		})
	}
	r.Count("schemata_entries_appended", nApp)
	r.Floor("schemata_entries_appended", 3)

	// (b) an absent member with a default is recorded, unless schemata are switched off
	if f := p.Func("(*objectValidator).validatePropertiesSchema"); f != nil {
		ok := false
		core.EachInstr(f, func(i ssa.Instruction) {
			c, is := core.IsCallTo(i, "(*validate.Result).addPropertySchemata")
			if !is {
				return
			}
			hasDefault, notSkipped, absent := false, false, false
			for _, cd := range core.CondsAt(c.(ssa.Instruction).Block()) {
				if pth, has := core.StablePath(condOperand(cd)); has {
					if strings.HasSuffix(pth, ".Default") && isNonNilCond(cd) {
						hasDefault = true
					}
					if strings.HasSuffix(pth, "."+skipSchemataField) && !cd.Sense {
						notSkipped = true
					}
				}
				if ex, isEx := cd.Value.(*ssa.Extract); isEx && ex.Index == 1 && !cd.Sense {
					if _, isLk := ex.Tuple.(*ssa.Lookup); isLk {
						absent = true
					}
				}
			}
			args := c.Common().Args
			// (res, val, pName, pSchema): the member name recorded is the looked-up one
			_ = args
			if hasDefault && notSkipped && absent {
				ok = true
			}
		})
		if ok {
			r.OK(rule, "absent-member-with-default", p.Pos(f.Pos()), "addPropertySchemata on the (member absent, Default != nil, !skipSchemataResult) edge")
		} else {
			r.Bad(rule, "absent-member-with-default", p.Pos(f.Pos()), "an absent member whose schema has a default is no longer recorded exactly when it should: ApplyDefaults cannot fill it (or fills present ones)")
		}
	}
	// (c) every result of a schema validation carries its own schema as root schemata, also for nil data
	if f := p.Func("(*SchemaValidator).Validate"); f != nil {
		var call *ssa.Call
		core.EachInstr(f, func(i ssa.Instruction) {
			if c, is := core.IsCallTo(i, "(*validate.Result).addRootObjectSchemata"); is {
				call = c.(*ssa.Call)
			}
		})
		if call == nil {
			r.Bad(rule, "root-schemata", p.Pos(f.Pos()), "the validated schema is no longer recorded as root schemata of the result")
		} else {
			// the guard block of the call must dominate every return except the nil-receiver one
			guard := call.Block()
			for len(guard.Preds) == 1 && guard.Preds[0].Dominates(guard) {
				pb := guard.Preds[0]
				if _, isIf := pb.Instrs[len(pb.Instrs)-1].(*ssa.If); !isIf {
					break
				}
				// stop at the first guard that is not about Schema/skipSchemataResult
				ifi := pb.Instrs[len(pb.Instrs)-1].(*ssa.If)
				pth, _ := core.StablePath(condOperand(core.Cond{Value: stripNot(ifi.Cond)}))
				if !strings.HasSuffix(pth, ".Schema") && !strings.HasSuffix(pth, "."+skipSchemataField) {
					break
				}
				guard = pb
			}
			ok := true
			for _, b := range f.Blocks {
				ret, isRet := b.Instrs[len(b.Instrs)-1].(*ssa.Return)
				if !isRet || b == f.Recover {
					continue
				}
				if paramNilAt(f.Params[0], b) {
					continue
				}
				nilRecv := false
				for _, cd := range core.CondsAt(b) {
					if bo, isBo := cd.Value.(*ssa.BinOp); isBo && bo.Op == token.EQL && cd.Sense && core.IsNilConst(bo.Y) && types.Identical(bo.X.Type(), f.Params[0].Type()) {
						nilRecv = true // nil validator: nothing was validated
					}
				}
				if nilRecv {
					continue
				}
				if !guard.Dominates(b) {
					ok = false
					r.Bad(rule, "root-schemata", p.Pos(posOf(ret, f)), "a result can be returned without the validated schema recorded as its root schemata (e.g. on the nil-data early exit): the member it was validating is later pruned / never defaulted")
				}
			}
			if ok {
				r.OK(rule, "root-schemata", p.Pos(call.Pos()), "addRootObjectSchemata(s.Schema) precedes every exit, including the nil-data one")
			}
		}
	}
	postRules(p, r)
}

func stripNot(v ssa.Value) ssa.Value {
	for {
		u, ok := v.(*ssa.UnOp)
		if ok && u.Op == token.NOT {
			v = u.X
			continue
		}
		return v
	}
}

func isNonNilCond(c core.Cond) bool {
	bo, ok := c.Value.(*ssa.BinOp)
	if !ok {
		return false
	}
	return (bo.Op == token.NEQ && c.Sense) || (bo.Op == token.EQL && !c.Sense)
}

func entryCloned(e ssa.Value) bool {
	// the entry value: a struct built in a local (composite literal) or loaded from one
	var alloc *ssa.Alloc
	switch x := e.(type) {
	case *ssa.UnOp:
		alloc, _ = x.X.(*ssa.Alloc)
	}
	if alloc == nil {
		return false
	}
	ok := false
	for _, ref := range core.Refs(alloc) {
		fa, is := ref.(*ssa.FieldAddr)
		if !is {
			continue
		}
		_, name, _ := core.FieldOf(fa)
		if name != "schemata" {
			continue
		}
		for _, r2 := range core.Refs(fa) {
			switch u := r2.(type) {
			case *ssa.Store:
				if u.Addr != ssa.Value(fa) {
					continue
				}
				if c, is := u.Val.(*ssa.Call); is {
					if g := core.StaticCallee(c); g != nil && g.Name() == "Clone" {
						ok = true
					}
				}
				if ld, is := u.Val.(*ssa.UnOp); is {
					if _, isAl := ld.X.(*ssa.Alloc); isAl {
						ok = true // a locally built schemata{one: &clone}
					}
				}
			case *ssa.FieldAddr: // schemata.one = &clone
				for _, r3 := range core.Refs(u) {
					if st, is := r3.(*ssa.Store); is {
						if _, isAl := st.Val.(*ssa.Alloc); isAl {
							ok = true
						}
					}
				}
			}
		}
	}
	// the whole struct copied from a range element whose schemata field was re-assigned with Clone()
	for _, ref := range core.Refs(alloc) {
		if st, is := ref.(*ssa.Store); is && st.Addr == ssa.Value(alloc) {
			_ = st
		}
	}
	return ok
}

// postRules — the two post-processors write exactly what C18/C19 allow.
func postRules(p *core.Prog, r *core.Report) {
	const rule = "POST"
	if p.Post == nil {
		r.Unk(rule, "package", "-", "package post not loaded")
		return
	}
	// ApplyDefaults
	if f := p.Func("ApplyDefaults"); f != nil {
		nW := 0
		okW := true
		why := ""
		// the function and the unexported helpers of its package it calls (an extracted inner loop)
		body := []*ssa.Function{f}
		seenF := map[*ssa.Function]bool{f: true}
		for k := 0; k < len(body); k++ {
			core.EachInstr(body[k], func(i ssa.Instruction) {
				if c, ok := i.(ssa.CallInstruction); ok {
					if h := core.StaticCallee(c); h != nil && !seenF[h] && len(h.Blocks) > 0 && h.Pkg == f.Pkg && h.Object() != nil && !h.Object().Exported() {
						seenF[h] = true
						body = append(body, h)
					}
				}
			})
		}
		eachBody := func(visit func(i ssa.Instruction)) {
			for _, g := range body {
				core.EachInstr(g, visit)
			}
		}
		eachBody(func(i ssa.Instruction) {
			switch x := i.(type) {
			case *ssa.MapUpdate:
				if _, fresh := x.Map.(*ssa.MakeMap); fresh {
					return // filling a map made in this activation (the copy helper)
				}
				nW++
				obj, isO := isCallOf(x.Map, "(*validate.FieldKey).Object")
				fld, isF := isCallOf(x.Key, "(*validate.FieldKey).Field")
				if !isO || !isF || obj.Call.Args[0] != fld.Call.Args[0] {
					okW, why = false, "the write is not key.Object()[key.Field()] of one key"
					return
				}
				// value: a deep copy of s.Default of a schema ranging over that key's schemata — the default itself
				// (its maps and slices) belongs to the schema: inserted by reference, the next validation of the
				// document records members of the schema's own default object and the next ApplyDefaults writes into it
				val := x.Value
				copied := false
				if cc, isCall := val.(*ssa.Call); isCall {
					if h := core.StaticCallee(cc); h != nil && seenF[h] && len(cc.Call.Args) == 1 && deepCopies(h) {
						val, copied = cc.Call.Args[0], true
					}
				}
				if pth, has := core.Path(val); !has || !strings.HasSuffix(pth, ".Default") {
					okW, why = false, "the value written is not (a copy of) the Default of one of the member's schemata"
				} else if !copied {
					okW, why = false, "the default is inserted by reference: its maps and slices are the schema's own, so later validations and defaulting of the document write into the schema (and a caller editing its document edits the schema's default)"
				}
				// guarded by: not found (comma-ok lookup of the same object/field) and Default != nil
				notFound, hasDef := false, false
				for _, cd := range core.CondsAt(x.Block()) {
					if ex, isEx := cd.Value.(*ssa.Extract); isEx && ex.Index == 1 && !cd.Sense {
						if lk, isLk := ex.Tuple.(*ssa.Lookup); isLk && lk.CommaOk {
							lo, a := isCallOf(lk.X, "(*validate.FieldKey).Object")
							lf, b := isCallOf(lk.Index, "(*validate.FieldKey).Field")
							if a && b && lo.Call.Args[0] == obj.Call.Args[0] && lf.Call.Args[0] == obj.Call.Args[0] {
								notFound = true
							}
						}
					}
					if pth, has := core.Path(condOperand(cd)); has && strings.HasSuffix(pth, ".Default") && isNonNilCond(cd) {
						hasDef = true
					}
				}
				if !notFound {
					okW, why = false, "the write is not confined to members that are absent (comma-ok lookup of the same object and field): a present member, e.g. one holding null, would be overwritten"
				}
				if !hasDef {
					okW, why = false, "the write is not confined to schemata that declare a default"
				}
			case *ssa.Store:
				if _, isMk := baseOfAddr(x.Addr).(*ssa.MakeSlice); isMk {
					return // filling a slice made in this activation (the copy helper)
				}
				if _, isAl := baseOfAddr(x.Addr).(*ssa.Alloc); !isAl {
					nW++
					okW, why = false, "a store other than the member insertion"
				}
			case *ssa.Call:
				if b, isB := x.Call.Value.(*ssa.Builtin); isB && b.Name() == "delete" {
					nW++
					okW, why = false, "ApplyDefaults deletes"
				}
			}
		})
		if nW == 1 && okW {
			r.OK(rule, "ApplyDefaults:single-write", p.Pos(f.Pos()), "the only write: key.Object()[key.Field()] = s.Default, for an absent member, s among that member's schemata with Default != nil")
		} else {
			r.Bad(rule, "ApplyDefaults:single-write", p.Pos(f.Pos()), fmt.Sprintf("ApplyDefaults performs %d write(s); %s", nW, why))
		}
		// iterates over the result's FieldSchemata()
		it := false
		eachBody(func(i ssa.Instruction) {
			if rg, is := i.(*ssa.Range); is {
				if _, isC := isCallOf(rg.X, "(*validate.Result).FieldSchemata"); isC {
					it = true
				}
			}
		})
		// the loop over the members is left only by exhaustion (a `break` of the inner search must not leave it)
		early := ""
		for _, loop := range allLoopsOf(f) {
			isMembers := false
			var header *ssa.BasicBlock
			for b := range loop {
				dom := true
				for o := range loop {
					if !b.Dominates(o) {
						dom = false
					}
				}
				if dom {
					header = b
				}
			}
			if header == nil {
				continue
			}
			for _, i := range header.Instrs {
				if nx, is := i.(*ssa.Next); is {
					if rg, is := nx.Iter.(*ssa.Range); is {
						if _, isC := isCallOf(rg.X, "(*validate.Result).FieldSchemata"); isC {
							isMembers = true
						}
					}
				}
			}
			if !isMembers {
				continue
			}
			for b := range loop {
				if b == header {
					continue
				}
				for _, sc := range b.Succs {
					if !loop[sc] {
						early = p.Pos(posOf(b.Instrs[len(b.Instrs)-1], f))
					}
				}
				if len(b.Succs) == 0 {
					early = p.Pos(posOf(b.Instrs[len(b.Instrs)-1], f))
				}
			}
		}
		if it && early != "" {
			r.Bad(rule, "ApplyDefaults:all-members", p.Pos(f.Pos()), "the loop over the recorded (object, member) pairs is left before exhaustion ("+early+"): members after the first one filled keep no default")
		} else if it {
			r.OK(rule, "ApplyDefaults:all-members", p.Pos(f.Pos()), "ranges over every (object, member) of the result's FieldSchemata(), leaving the loop only by exhaustion")
		} else {
			r.Bad(rule, "ApplyDefaults:all-members", p.Pos(f.Pos()), "does not visit every recorded (object, member)")
		}
	} else {
		r.Unk(rule, "ApplyDefaults", "-", "not found")
	}
	// Prune
	if f := p.Func("pruneObject"); f != nil {
		nW := 0
		ok := true
		why := ""
		core.EachInstr(f, func(i ssa.Instruction) {
			switch x := i.(type) {
			case *ssa.MapUpdate:
				nW++
				ok, why = false, "pruning inserts into the data"
			case *ssa.Call:
				b, isB := x.Call.Value.(*ssa.Builtin)
				if !isB || b.Name() != "delete" {
					return
				}
				nW++
				obj := f.Params[0]
				if x.Call.Args[0] != ssa.Value(obj) {
					ok, why = false, "deletes from something else than the object being pruned"
					return
				}
				_, k, how := memberKey(x.Call.Args[1])
				if how == "" {
					// the key is the range key itself
					if ex, isEx := x.Call.Args[1].(*ssa.Extract); !isEx || ex.Index != 1 {
						ok, why = false, "the deleted key is not the member being examined"
						return
					}
					k = x.Call.Args[1]
				}
				// guard: lookup of FieldSchemata()[NewFieldKey(obj, field)] absent or empty
				guarded := false
				for _, cd := range core.CondsAt(x.Block()) {
					_ = cd
				}
				core.EachInstr(f, func(j ssa.Instruction) {
					lk, isLk := j.(*ssa.Lookup)
					if !isLk || !lk.CommaOk {
						return
					}
					kc, isKC := isCallOf(lk.Index, "validate.NewFieldKey")
					if !isKC || kc.Call.Args[0] != ssa.Value(obj) || leafOf(kc.Call.Args[1]) != leafOf(k) {
						return
					}
					if _, isFS := isCallOf(lk.X, "(*validate.Result).FieldSchemata"); isFS && core.InstrDominates(lk, x) {
						guarded = true
					}
				})
				if !guarded {
					ok, why = false, "the deletion is not decided by FieldSchemata()[NewFieldKey(obj, field)] of the same object and member"
				}
			case *ssa.Store:
				if _, isAl := baseOfAddr(x.Addr).(*ssa.Alloc); !isAl {
					nW++
					ok, why = false, "a store into the data"
				}
			}
		})
		if nW == 1 && ok {
			r.OK(rule, "Prune:single-write", p.Pos(f.Pos()), "the only write: delete(obj, field) for field ranging over obj, decided by FieldSchemata()[NewFieldKey(obj, field)]")
		} else {
			r.Bad(rule, "Prune:single-write", p.Pos(f.Pos()), fmt.Sprintf("pruneObject performs %d write(s); %s", nW, why))
		}
	} else {
		r.Unk(rule, "pruneObject", "-", "not found")
	}
	if f := p.Func("prune"); f != nil {
		recMap, recSlice, callsObj := false, false, false
		core.EachInstr(f, func(i ssa.Instruction) {
			c, is := i.(*ssa.Call)
			if !is {
				return
			}
			g := core.StaticCallee(c)
			if g == nil {
				return
			}
			switch g.Name() {
			case "pruneObject":
				callsObj = true
			case "prune":
				_, _, how := memberKey(c.Call.Args[0])
				if how == "range" {
					recMap = true
				}
				if ld, isLd := leafOf(c.Call.Args[0]).(*ssa.UnOp); isLd {
					if _, isIA := ld.X.(*ssa.IndexAddr); isIA {
						recSlice = true
					}
				}
			}
		})
		// every traversal loop visits all elements: it is left only by exhaustion (no return/break from the body),
		// and the recursive call is conditional on nothing but the dynamic type of the element
		exhaustive, whyNot := true, ""
		for _, g := range []*ssa.Function{f, p.Func("pruneObject")} {
			if g == nil {
				continue
			}
			for _, loop := range allLoopsOf(g) {
				var header *ssa.BasicBlock
				for b := range loop {
					dom := true
					for o := range loop {
						if !b.Dominates(o) {
							dom = false
						}
					}
					if dom {
						header = b
					}
				}
				for b := range loop {
					if b == header {
						continue
					}
					for _, sc := range b.Succs {
						if !loop[sc] {
							exhaustive = false
							whyNot = "a traversal loop of " + g.Name() + " is left before every element was visited (" + p.Pos(posOf(b.Instrs[len(b.Instrs)-1], g)) + ")"
						}
					}
					if len(b.Succs) == 0 {
						exhaustive = false
						whyNot = "a traversal loop of " + g.Name() + " returns from its body (" + p.Pos(posOf(b.Instrs[len(b.Instrs)-1], g)) + ")"
					}
				}
				for b := range loop {
					for _, i := range b.Instrs {
						c, isC := i.(*ssa.Call)
						if !isC {
							continue
						}
						if h := core.StaticCallee(c); h == nil || (h.Name() != "prune" && h.Name() != "pruneObject") {
							continue
						}
						for _, cd := range core.ControlConds(b) {
							if !loop[cd.If.Block()] || cd.If.Block() == header {
								continue
							}
							ex, isEx := cd.Value.(*ssa.Extract)
							if isEx {
								if ta, isTA := ex.Tuple.(*ssa.TypeAssert); isTA && ta.CommaOk {
									continue
								}
							}
							exhaustive = false
							whyNot = "the recursion into an element is conditional on something other than its dynamic type (" + p.Pos(cd.If.Pos()) + ")"
						}
					}
				}
			}
		}
		if recMap && recSlice && callsObj && !exhaustive {
			r.Bad(rule, "Prune:recursion", p.Pos(f.Pos()), "pruning no longer reaches every nested object: "+whyNot)
		} else if recMap && recSlice && callsObj {
			r.OK(rule, "Prune:recursion", p.Pos(f.Pos()), "prunes each object and recurses into every map value and every slice element; the traversal loops are left only by exhaustion")
		} else {
			r.Bad(rule, "Prune:recursion", p.Pos(f.Pos()), "pruning no longer reaches every nested object (map values and slice elements)")
		}
	}
}

// deepCopies: h(v interface{}) interface{} returns, for a map[string]interface{} or []interface{} argument, a
// container made in this activation whose elements are all produced by h itself (recursion), and the argument
// unchanged only where both type tests failed.
func deepCopies(h *ssa.Function) bool {
	if len(h.Params) != 1 || h.Signature.Results().Len() != 1 || len(h.Blocks) == 0 {
		return false
	}
	prm := h.Params[0]
	madeMap, madeSlice := false, false
	ok := true
	// every update of the fresh map stores a recursive copy (a call of h)
	freshMap := func(x *ssa.MakeMap) bool {
		nUpd, good := 0, true
		for _, ref := range core.Refs(x) {
			if mu, isMU := ref.(*ssa.MapUpdate); isMU && mu.Map == ssa.Value(x) {
				nUpd++
				c, isC := mu.Value.(*ssa.Call)
				if !isC || core.StaticCallee(c) != h {
					good = false
				}
			}
		}
		return good && nUpd > 0
	}
	// the fresh slice is filled element by element with recursive copies
	freshSlice := func(x *ssa.MakeSlice) bool {
		nElem, good := 0, true
		for _, ref := range core.Refs(x) {
			// copy(out, val) fills the fresh slice with the very elements of the original: shallow
			if cc, isCall := ref.(*ssa.Call); isCall {
				if b, isB := cc.Call.Value.(*ssa.Builtin); isB && b.Name() == "copy" {
					good = false
				}
			}
			if ia, isIA := ref.(*ssa.IndexAddr); isIA {
				for _, r2 := range core.Refs(ia) {
					if st, isSt := r2.(*ssa.Store); isSt && st.Addr == ssa.Value(ia) {
						nElem++
						c, isC := st.Val.(*ssa.Call)
						if !isC || core.StaticCallee(c) != h {
							good = false
						}
					}
				}
			}
		}
		return good && nElem > 0 // nothing stored element by element: the elements are not copied recursively
	}
	var retVal func(v ssa.Value, inHelper bool)
	retVal = func(v ssa.Value, inHelper bool) {
		for {
			if mi, isMI := v.(*ssa.MakeInterface); isMI {
				v = mi.X
				continue
			}
			if ct, isCT := v.(*ssa.ChangeType); isCT {
				v = ct.X
				continue
			}
			break
		}
		switch x := v.(type) {
		case *ssa.MakeMap:
			madeMap = true
			if !freshMap(x) {
				ok = false
			}
		case *ssa.MakeSlice:
			madeSlice = true
			if !freshSlice(x) {
				ok = false
			}
		case *ssa.Call:
			// an arm moved into a helper of one parameter: it receives the argument narrowed to the container type
			// and returns a container made in its own activation, filled by calls of h
			g := core.StaticCallee(x)
			if inHelper || g == nil || g == h || g.Pkg != h.Pkg || len(g.Params) != 1 || len(x.Call.Args) != 1 || len(g.Blocks) == 0 || g.Signature.Results().Len() != 1 {
				ok = false
				return
			}
			a := x.Call.Args[0]
			if ex, isEx := a.(*ssa.Extract); isEx && ex.Index == 0 {
				a = ex.Tuple
			}
			if ta, isTA := a.(*ssa.TypeAssert); !isTA || ta.X != ssa.Value(prm) {
				ok = false
				return
			}
			for _, gb := range g.Blocks {
				if ret, isRet := gb.Instrs[len(gb.Instrs)-1].(*ssa.Return); isRet {
					retVal(ret.Results[0], true)
				}
			}
		default:
			ok = false
		}
	}
	for _, b := range h.Blocks {
		ret, isRet := b.Instrs[len(b.Instrs)-1].(*ssa.Return)
		if !isRet {
			continue
		}
		v := ret.Results[0]
		if x, isP := v.(*ssa.Parameter); isP {
			if x != prm {
				ok = false
			}
			// only where the value is neither a map nor a slice: two failed comma-ok type tests dominate
			failed := 0
			for _, cd := range core.CondsAt(b) {
				if ex, isEx := cd.Value.(*ssa.Extract); isEx && !cd.Sense {
					if ta, isTA := ex.Tuple.(*ssa.TypeAssert); isTA && ta.CommaOk && ta.X == ssa.Value(prm) {
						switch ta.AssertedType.Underlying().(type) {
						case *types.Map, *types.Slice:
							failed++
						}
					}
				}
			}
			if failed < 2 {
				ok = false
			}
			continue
		}
		retVal(v, false)
	}
	return ok && madeMap && madeSlice
}

// paramNilTest: the condition compares the parameter itself with nil.
func paramNilTest(c core.Cond, prm *ssa.Parameter) bool {
	bo, ok := c.Value.(*ssa.BinOp)
	if !ok || (bo.Op != token.EQL && bo.Op != token.NEQ) {
		return false
	}
	return (bo.X == ssa.Value(prm) && core.IsNilConst(bo.Y)) || (bo.Y == ssa.Value(prm) && core.IsNilConst(bo.X))
}

// REF-BLIND — a keyword read off a property's schema for an *absent* member must see through a reference: the
// schema of a property may be {"$ref": …} and the keyword (the default) is then declared by the target. For a
// present member the validator built for it expands the reference; for an absent one nothing does, unless the
// code resolves the reference on its scratch copy before it reads the keyword. Structural condition: in the
// function that records absent members with a default, the `.Default` read on the scratch schema is reachable
// from a reference resolution (spec.ExpandSchema / a validator constructor) applied to the same scratch schema
// under a test of its Ref.
func RefBlind(p *core.Prog, r *core.Report) {
	const rule = "REF-BLIND"
	n := 0
	for _, f := range p.Funcs {
		// the recording site: a call that records property schemata for defaulting (addPropertySchemata) under a
		// Default != nil test
		var rec *ssa.Call
		core.EachInstr(f, func(i ssa.Instruction) {
			if c, ok := i.(*ssa.Call); ok {
				if g := core.StaticCallee(c); g != nil && g.Name() == "addPropertySchemata" {
					rec = c
				}
			}
		})
		if rec == nil || len(rec.Call.Args) < 4 {
			continue
		}
		scratch := rec.Call.Args[3]
		// the Default test guarding it
		var defRead ssa.Instruction
		for _, cd := range core.CondsAt(rec.Block()) {
			if pth, ok := core.Path(condOperand(cd)); ok && strings.HasSuffix(pth, ".Default") && isNonNilCond(cd) {
				defRead = cd.If
			}
		}
		if defRead == nil {
			continue
		}
		n++
		key := core.FuncName(f) + ":Default"
		resolved := false
		// the calls of fn that resolve the reference of the schema v: spec.ExpandSchema(v, …) under a test of a
		// reference, or a helper of the package that receives v and does so (the test may sit on either side)
		var resolvers func(fn *ssa.Function, v ssa.Value, d int, tested bool) []*ssa.Call
		resolvers = func(fn *ssa.Function, v ssa.Value, d int, tested bool) []*ssa.Call {
			var out []*ssa.Call
			same := func(a ssa.Value) bool {
				if a == v {
					return true
				}
				// the scratch pointer lives in a cell (a deferred closure releases it): two loads of the same cell
				pa, okA := core.Path(a)
				pb, okB := core.Path(v)
				return okA && okB && pa == pb
			}
			core.EachInstr(fn, func(i ssa.Instruction) {
				c, ok := i.(*ssa.Call)
				if !ok {
					return
				}
				g := core.StaticCallee(c)
				if g == nil || len(c.Call.Args) == 0 {
					return
				}
				refTest := tested
				for _, cd := range core.ControlConds(c.Block()) {
					if k, isK := cd.Value.(*ssa.Const); isK && k.Value != nil && (k.Value.ExactString() == "true") != cd.Sense {
						return // behind a condition that is constantly the other way: never executed
					}
					if strings.Contains(condAtom(cd), "Ref") {
						// on the side where the reference is there: `ref != ""` held, or `ref == ""` failed (any other
						// shape of the test is taken as it is)
						if bo, isBo := cd.Value.(*ssa.BinOp); isBo && (bo.Op == token.EQL || bo.Op == token.NEQ) {
							kx, xIsK := bo.X.(*ssa.Const)
							ky, yIsK := bo.Y.(*ssa.Const)
							empty := (xIsK && kx.Value != nil && kx.Value.ExactString() == `""`) || (yIsK && ky.Value != nil && ky.Value.ExactString() == `""`)
							if empty && (bo.Op == token.NEQ) != cd.Sense {
								continue // the branch taken when there is no reference
							}
						}
						refTest = true
					}
				}
				if core.QualName(g) == "spec.ExpandSchema" {
					if same(c.Call.Args[0]) && refTest {
						out = append(out, c)
					}
					return
				}
				if d >= 2 || !p.InSubject(g) || len(g.Blocks) == 0 || len(g.Params) != len(c.Call.Args) {
					return
				}
				for j, a := range c.Call.Args {
					if same(a) && len(resolvers(g, g.Params[j], d+1, refTest)) > 0 {
						out = append(out, c)
					}
				}
			})
			return out
		}
		for _, c := range resolvers(f, scratch, 0, false) {
			// on the way to the Default test — in the same iteration, and along the edge on which the resolution
			// succeeded (a `continue` on success leaves the default of every resolvable reference unread)
			starts := resolutionSucceeded(c)
			if starts == nil {
				starts = []*ssa.BasicBlock{c.Block()}
				if c.Block() == defRead.Block() {
					resolved = true
				}
			}
			seen := map[*ssa.BasicBlock]bool{}
			var stack []*ssa.BasicBlock
			for _, st := range starts {
				if st == c.Block() {
					stack = append(stack, st.Succs...)
				} else {
					stack = append(stack, st)
				}
			}
			for len(stack) > 0 {
				x := stack[len(stack)-1]
				stack = stack[:len(stack)-1]
				if seen[x] || (x != c.Block() && x.Dominates(c.Block())) {
					continue // not through the head of the loop: that is the next member
				}
				seen[x] = true
				if x == defRead.Block() {
					resolved = true
					break
				}
				stack = append(stack, x.Succs...)
			}
		}
		if resolved {
			r.OK(rule, key, p.Pos(rec.Pos()), "a referenced property schema is resolved on the scratch copy before its default is looked at")
		} else {
			r.Bad(rule, key, p.Pos(rec.Pos()), "the default of an absent member is read off the property's schema as written: when that schema is a reference ({\"properties\": {\"a\": {\"$ref\": \"#/definitions/D\"}}}, D: {\"type\": \"integer\", \"default\": 5}) the default declared by the target is never seen — {} stays {} after ApplyDefaults, while a sibling with an inline default is filled")
		}
	}
	r.Count("absent_default_sites", n)
	r.Floor("absent_default_sites", 1)
}

// resolutionSucceeded: the blocks entered when the resolution request c is known to have succeeded — the
// `err == nil` side of the test of its error result, or, for a helper of the package answering with a boolean
// whose polarity can be read off its returns (`return spec.ExpandSchema(…) == nil`), the matching side of the test
// of that boolean. nil when the outcome is not tested in a recognised way (then plain reachability is used).
func resolutionSucceeded(c *ssa.Call) []*ssa.BasicBlock {
	var out []*ssa.BasicBlock
	isBool := false
	if b, ok := c.Type().Underlying().(*types.Basic); ok && b.Kind() == types.Bool {
		isBool = true
	}
	if !isBool {
		for _, ref := range core.Refs(c) {
			bo, ok := ref.(*ssa.BinOp)
			if !ok || (bo.Op != token.EQL && bo.Op != token.NEQ) || !(core.IsNilConst(bo.X) || core.IsNilConst(bo.Y)) {
				continue
			}
			for _, r2 := range core.Refs(bo) {
				if ifi, ok := r2.(*ssa.If); ok && ifi.Cond == ssa.Value(bo) {
					if bo.Op == token.EQL {
						out = append(out, ifi.Block().Succs[0])
					} else {
						out = append(out, ifi.Block().Succs[1])
					}
				}
			}
		}
		return out
	}
	g := core.StaticCallee(c)
	if g == nil || len(g.Blocks) == 0 {
		return nil
	}
	// polarity: what the helper answers when the request inside it succeeded
	pol, known := false, false
	for _, b := range g.Blocks {
		ret, ok := b.Instrs[len(b.Instrs)-1].(*ssa.Return)
		if !ok || len(ret.Results) != 1 {
			continue
		}
		vals := []ssa.Value{ret.Results[0]}
		if ph, isPhi := ret.Results[0].(*ssa.Phi); isPhi {
			vals = ph.Edges
		}
		for _, v := range vals {
			bo, ok := v.(*ssa.BinOp)
			if !ok || (bo.Op != token.EQL && bo.Op != token.NEQ) || !(core.IsNilConst(bo.X) || core.IsNilConst(bo.Y)) {
				continue
			}
			inner, isCall := bo.X.(*ssa.Call)
			if !isCall {
				inner, isCall = bo.Y.(*ssa.Call)
			}
			if !isCall {
				continue
			}
			if h := core.StaticCallee(inner); h == nil || core.QualName(h) != "spec.ExpandSchema" {
				continue
			}
			p := bo.Op == token.EQL
			if known && p != pol {
				return nil
			}
			pol, known = p, true
		}
	}
	if !known {
		return nil
	}
	for _, ref := range core.Refs(c) {
		if ifi, ok := ref.(*ssa.If); ok && ifi.Cond == ssa.Value(c) {
			if pol {
				out = append(out, ifi.Block().Succs[0])
			} else {
				out = append(out, ifi.Block().Succs[1])
			}
		}
	}
	return out
}
