package rules

import (
	"fmt"
	"go/token"
	"go/types"
	"strings"

	"golang.org/x/tools/go/ssa"

	"verifchk/core"
)

// PoolAPI — who may touch sync.Pool, the redeem functions and the shared empty result.
func PoolAPI(p *core.Prog, r *core.Report) {
	const rule = "POOL-API"
	pi := discoverPools(p)
	si := discoverSlots(p, pi)
	wrappers := si.releaseWrappers(p)
	initOnly := initOnlyFuncs(p)

	// (a) Get/Put only inside borrow/redeem functions
	nGP := 0
	for _, f := range p.Funcs {
		core.EachInstr(f, func(i ssa.Instruction) {
			c, ok := i.(ssa.CallInstruction)
			if !ok {
				return
			}
			g := core.StaticCallee(c)
			if g == nil {
				return
			}
			q := core.QualName(g)
			if q != "(*sync.Pool).Get" && q != "(*sync.Pool).Put" {
				return
			}
			nGP++
			top := core.EnclosingTop(f)
			_, isB := pi.borrow[top]
			_, isR := pi.redeem[top]
			if (q == "(*sync.Pool).Get" && isB) || (q == "(*sync.Pool).Put" && isR) {
				r.OK(rule, "raw-pool:"+core.FuncName(f)+":"+g.Name(), p.Pos(i.Pos()), "sync.Pool used inside the pool layer")
			} else {
				r.Bad(rule, "raw-pool:"+core.FuncName(f)+":"+g.Name(), p.Pos(i.Pos()), "sync.Pool."+g.Name()+" is called outside the Borrow*/Redeem* functions: objects enter or leave a pool without the layer's guarantees (clearing, empty-result guard)")
			}
		})
	}
	r.Count("raw_pool_calls", nGP)
	r.Floor("raw_pool_calls", 20)

	// (b)(c) callers of the redeem functions and of (*T).redeem
	nRedeemSites := 0
	for _, f := range p.Funcs {
		fn := core.FuncName(f)
		core.EachInstr(f, func(i ssa.Instruction) {
			c, ok := i.(ssa.CallInstruction)
			if !ok {
				return
			}
			g := core.StaticCallee(c)
			if g == nil {
				return
			}
			if T, ok := pi.redeem[g]; ok {
				n := core.NamedOf(T)
				nRedeemSites++
				switch {
				case n == pi.resultType:
					// enumerated by NO-DROP / RES-LINEAR
				case n != nil && pi.pooled[n]:
					want := "(*" + core.KnownTypeName(n) + ").redeem"
					// by type, not by spelling (the type may have been renamed; names of functions are followed by anchors)
					isOwn := f.Signature.Recv() != nil && core.NamedOf(f.Signature.Recv().Type()) == n && strings.HasSuffix(fn, ").redeem")
					if fn == want || isOwn {
						r.OK(rule, "redeem-caller:"+fn, p.Pos(i.Pos()), "pool redeem called from the type's own redeem()")
					} else {
						r.Bad(rule, "redeem-caller:"+fn+":"+g.Name()+":"+core.KnownTypeName(n), p.Pos(i.Pos()), "a validator is put in its pool directly, bypassing "+want+" and the slot protocol")
					}
				default:
					// scratch objects (spec.Schema): must be released in a deferred closure of the function that borrowed them
					top := core.EnclosingTop(f)
					borrowed := false
					core.EachInstr(top, func(j ssa.Instruction) {
						if bc, bt := pi.isBorrowCall(j); bc != nil && types.Identical(bt, T) {
							borrowed = true
						}
					})
					if f.Parent() != nil && borrowed {
						r.OK(rule, "scratch-release:"+fn, p.Pos(i.Pos()), "scratch object released by a deferred closure of the borrowing function")
					} else {
						r.Bad(rule, "scratch-release:"+fn, p.Pos(i.Pos()), "scratch object released outside a deferred closure of the function that borrowed it")
					}
				}
				return
			}
			// (*T).redeem callers
			if g.Name() == "redeem" && g.Signature.Recv() != nil {
				n := core.NamedOf(g.Signature.Recv().Type())
				if n == nil || !pi.pooled[n] {
					return
				}
				key := "self-redeem-caller:" + fn + ":" + core.KnownTypeName(n)
				parentIsOwnValidate := false
				if par := f.Parent(); par != nil && par.Signature.Recv() != nil && core.NamedOf(par.Signature.Recv().Type()) == n && strings.HasSuffix(core.FuncName(par), ").Validate") {
					parentIsOwnValidate = true
				}
				if f.Parent() != nil && (core.FuncName(f.Parent()) == "(*"+core.KnownTypeName(n)+").Validate" || parentIsOwnValidate) {
					r.OK(rule, key, p.Pos(i.Pos()), "called from the deferred closure of the type's Validate")
					return
				}
				if _, ok := si.origin(c.Common().Args[0], 0); ok {
					r.OK(rule, key, p.Pos(i.Pos()), "called on a child taken from a slot (SLOT-POSTCLEAR covers the slot)")
					return
				}
				// inside a release wrapper: every call site must hand it the children of a slot
				if k, isW := wrappers[f]; isW {
					all, nCalls := true, 0
					for _, h := range p.Funcs {
						core.EachInstr(h, func(j ssa.Instruction) {
							if cj, ok := j.(ssa.CallInstruction); ok && core.StaticCallee(cj) == f {
								nCalls++
								if _, ok := si.wrapperRelease(cj, wrappers); !ok {
									all = false
								}
							}
						})
					}
					_ = k
					if all && nCalls > 0 {
						r.OK(rule, key, p.Pos(i.Pos()), fmt.Sprintf("release helper: each of its %d call sites passes the children of a slot (SLOT-POSTCLEAR covers the slots at the call sites)", nCalls))
						return
					}
				}
				r.Bad(rule, key, p.Pos(i.Pos()), "redeem() is called on an object that is neither the receiver of the running Validate (deferred) nor a child held in a slot: ownership of the released object is not established")
			}
		})
	}
	r.Count("redeem_call_sites", nRedeemSites)
	r.Floor("redeem_call_sites", 30)

	// (d) resetPools only during initialisation
	if rp := p.Func("resetPools"); rp != nil {
		if initOnly[rp] {
			r.OK(rule, "resetPools", p.Pos(rp.Pos()), "only reachable from package initialisation")
		} else {
			r.Bad(rule, "resetPools", p.Pos(rp.Pos()), "resetPools is callable at run time: it replaces the pools while other goroutines use them")
		}
	} else {
		r.Unk(rule, "resetPools", "-", "pool initialiser not found")
	}

	// (e) the Result redeem refuses the shared empty result
	for g, T := range pi.redeem {
		if core.NamedOf(T) != pi.resultType {
			continue
		}
		var put ssa.Instruction
		core.EachInstr(g, func(i ssa.Instruction) {
			if c, ok := core.IsCallTo(i, "(*sync.Pool).Put"); ok {
				put = c
			}
		})
		if put == nil {
			continue
		}
		prm := g.Params[len(g.Params)-1]
		guarded := false
		for _, c := range core.CondsAt(put.Block()) {
			bo, ok := c.Value.(*ssa.BinOp)
			if !ok {
				continue
			}
			var other ssa.Value
			if bo.X == ssa.Value(prm) {
				other = bo.Y
			} else if bo.Y == ssa.Value(prm) {
				other = bo.X
			}
			if other == nil {
				continue
			}
			if ld, ok := other.(*ssa.UnOp); ok && ld.Op == token.MUL {
				if gl, ok := ld.X.(*ssa.Global); ok && gl.Name() == "emptyResult" {
					if (bo.Op == token.EQL && !c.Sense) || (bo.Op == token.NEQ && c.Sense) {
						guarded = true
					}
				}
			}
		}
		if guarded {
			r.OK(rule, "empty-guard:"+core.FuncName(g), p.Pos(put.Pos()), "Put is only reached when the result is not the shared emptyResult")
		} else {
			r.Bad(rule, "empty-guard:"+core.FuncName(g), p.Pos(put.Pos()), "the shared immutable emptyResult can be put in the pool: a later borrower clears and fills it, changing what every 'empty' validation returns")
		}
	}
	emptyImmutable(p, r, pi)
	deferInit(p, r, pi)
}

// mutatesReceiver: methods of Result that write through their receiver (transitively).
func mutatingResultMethods(p *core.Prog, res *types.Named) map[*ssa.Function]bool {
	out := map[*ssa.Function]bool{}
	var cands []*ssa.Function
	for _, f := range p.Funcs {
		if f.Signature.Recv() != nil && core.NamedOf(f.Signature.Recv().Type()) == res && f.Parent() == nil {
			cands = append(cands, f)
		}
	}
	derived := func(f *ssa.Function) map[ssa.Value]bool {
		set := map[ssa.Value]bool{f.Params[0]: true}
		work := []ssa.Value{f.Params[0]}
		for len(work) > 0 {
			x := work[len(work)-1]
			work = work[:len(work)-1]
			for _, ref := range core.Refs(x) {
				switch u := ref.(type) {
				case *ssa.FieldAddr:
					if !set[u] {
						set[u] = true
						work = append(work, u)
					}
				case *ssa.Phi:
					if !set[u] {
						set[u] = true
						work = append(work, u)
					}
				}
			}
		}
		return set
	}
	for changed := true; changed; {
		changed = false
		for _, f := range cands {
			if out[f] {
				continue
			}
			d := derived(f)
			mut := false
			core.EachInstr(f, func(i ssa.Instruction) {
				switch x := i.(type) {
				case *ssa.Store:
					if d[x.Addr] {
						if _, isFA := x.Addr.(*ssa.FieldAddr); isFA {
							mut = true
						}
					}
				case *ssa.MapUpdate:
					mut = mut || false
				case ssa.CallInstruction:
					g := core.StaticCallee(x)
					if g != nil && out[g] && len(x.Common().Args) > 0 && d[x.Common().Args[0]] {
						mut = true
					}
					// delete(r.cached..., k)
					if b, ok := x.Common().Value.(*ssa.Builtin); ok && b.Name() == "delete" {
						if ld, ok := x.Common().Args[0].(*ssa.UnOp); ok && d[ld.X] {
							mut = true
						}
					}
					// method on an embedded struct field through its address (rootObjectSchemata.Append)
					if g != nil && g.Signature.Recv() != nil && len(x.Common().Args) > 0 && d[x.Common().Args[0]] && x.Common().Args[0] != ssa.Value(f.Params[0]) {
						if _, isPtr := g.Signature.Recv().Type().(*types.Pointer); isPtr && writesThroughRecv(g) {
							mut = true
						}
					}
				}
			})
			if mut {
				out[f] = true
				changed = true
			}
		}
	}
	return out
}

func writesThroughRecv(g *ssa.Function) bool {
	if g.Blocks == nil || len(g.Params) == 0 {
		return false
	}
	w := false
	core.EachInstr(g, func(i ssa.Instruction) {
		if st, ok := i.(*ssa.Store); ok {
			if st.Addr == ssa.Value(g.Params[0]) {
				w = true
			}
			if fa, ok := st.Addr.(*ssa.FieldAddr); ok && fa.X == ssa.Value(g.Params[0]) {
				w = true
			}
		}
	})
	return w
}

// emptyImmutable: a value that may be the shared emptyResult is never mutated.
func emptyImmutable(p *core.Prog, r *core.Report, pi *poolInfo) {
	const rule = "EMPTY-IMMUTABLE"
	res := pi.resultType
	if res == nil {
		return
	}
	mut := mutatingResultMethods(p, res)
	r.Count("result_mutating_methods", len(mut))
	r.Floor("result_mutating_methods", 10)
	isRes := func(t types.Type) bool {
		pt, ok := t.(*types.Pointer)
		if !ok {
			return false
		}
		n, ok := pt.Elem().(*types.Named)
		return ok && n == res
	}
	// functions that may return the shared empty result
	returnsEmpty := map[*ssa.Function]bool{}
	isEmptyLoad := func(v ssa.Value) bool {
		ld, ok := v.(*ssa.UnOp)
		if !ok || ld.Op != token.MUL {
			return false
		}
		g, ok := ld.X.(*ssa.Global)
		return ok && g.Name() == "emptyResult"
	}
	var mayBeEmpty func(v ssa.Value, seen map[ssa.Value]bool) bool
	mayBeEmpty = func(v ssa.Value, seen map[ssa.Value]bool) bool {
		if seen[v] {
			return false
		}
		seen[v] = true
		if isEmptyLoad(v) {
			return true
		}
		switch x := v.(type) {
		case *ssa.Phi:
			for _, e := range x.Edges {
				if mayBeEmpty(e, seen) {
					return true
				}
			}
		case *ssa.Call:
			if x.Call.IsInvoke() {
				return x.Call.Method.Name() == "Validate"
			}
			if g := core.StaticCallee(x); g != nil {
				return returnsEmpty[g]
			}
		case *ssa.UnOp:
			if x.Op == token.MUL {
				if al, ok := x.X.(*ssa.Alloc); ok {
					for _, ref := range core.Refs(al) {
						if st, ok := ref.(*ssa.Store); ok && st.Addr == ssa.Value(al) && mayBeEmpty(st.Val, seen) {
							return true
						}
					}
				}
			}
		}
		return false
	}
	for changed := true; changed; {
		changed = false
		for _, f := range p.Funcs {
			if returnsEmpty[f] || f.Signature.Results().Len() != 1 || !isRes(f.Signature.Results().At(0).Type()) {
				continue
			}
			for _, b := range f.Blocks {
				if ret, ok := b.Instrs[len(b.Instrs)-1].(*ssa.Return); ok && mayBeEmpty(ret.Results[0], map[ssa.Value]bool{}) {
					returnsEmpty[f] = true
					changed = true
				}
			}
		}
	}
	var names []string
	for f := range returnsEmpty {
		names = append(names, core.FuncName(f))
	}
	sortStrings(names)
	r.Info["may_return_emptyResult"] = names
	// EMPTY-ESCAPE: the shared empty result never leaves the package. A caller that receives it from an
	// exported entry point owns what it was given: one AddErrors / Merge / Inc on it and every later
	// "nothing to report" of the whole process carries the stray message.
	nAPI := 0
	for _, f := range p.Funcs {
		if f.Parent() != nil || f.Object() == nil || !f.Object().Exported() || f.Signature.Results().Len() != 1 || !isRes(f.Signature.Results().At(0).Type()) {
			continue
		}
		if rc := f.Signature.Recv(); rc != nil {
			if n := core.NamedOf(rc.Type()); n == nil || !n.Obj().Exported() {
				continue
			}
		}
		nAPI++
		if returnsEmpty[f] {
			var where string
			for _, b := range f.Blocks {
				if ret, ok := b.Instrs[len(b.Instrs)-1].(*ssa.Return); ok && mayBeEmpty(ret.Results[0], map[ssa.Value]bool{}) {
					where = p.Pos(ret.Pos())
				}
			}
			r.Bad(rule, "escape:"+core.FuncName(f), p.Pos(f.Pos()), "the exported "+core.FuncName(f)+" can return the package's shared emptyResult itself ("+where+"): a caller adding an error or merging into the result it was given changes what every later empty validation reports, in every goroutine")
		} else {
			r.OK(rule, "escape:"+core.FuncName(f), p.Pos(f.Pos()), "never returns the shared empty result")
		}
	}
	r.Count("exported_result_returners", nAPI)
	r.Floor("exported_result_returners", 4)
	r.Count("may_return_empty_funcs", len(names))
	r.Floor("may_return_empty_funcs", 1)
	n, bad := 0, 0
	for _, f := range p.Funcs {
		fn := core.FuncName(f)
		core.EachInstr(f, func(i ssa.Instruction) {
			switch x := i.(type) {
			case ssa.CallInstruction:
				g := core.StaticCallee(x)
				if g == nil || !mut[g] || len(x.Common().Args) == 0 {
					return
				}
				recv := x.Common().Args[0]
				n++
				if mayBeEmpty(recv, map[ssa.Value]bool{}) {
					bad++
					r.Bad(rule, fn+":"+g.Name(), p.Pos(i.Pos()), "a result that may be the shared emptyResult is the receiver of "+g.Name()+", which writes to it: every later validation that returns 'empty' is affected, from any goroutine")
				}
			case *ssa.Store:
				fa, ok := x.Addr.(*ssa.FieldAddr)
				if !ok || !isRes(fa.X.Type()) {
					return
				}
				n++
				if mayBeEmpty(fa.X, map[ssa.Value]bool{}) {
					bad++
					_, fname, _ := core.FieldOf(fa)
					r.Bad(rule, fn+":store:"+fname, p.Pos(i.Pos()), "a field of a result that may be the shared emptyResult is written")
				}
			}
		})
	}
	if bad == 0 {
		r.OK(rule, "all-mutations", p.Pos(p.Main.Members["emptyResult"].Pos()), fmt.Sprintf("%d mutating uses of *Result checked: none on a value that may be emptyResult (sources: the global, %s, valueValidator.Validate)", n, strings.Join(names, ", ")))
	}
	r.Count("result_mutation_sites", n)
	r.Floor("result_mutation_sites", 150)
}

// deferInit: a deferred closure that releases a variable must be registered after the variable
// was assigned, otherwise a panic in between makes it release the zero value (a typed nil in the pool).
func deferInit(p *core.Prog, r *core.Report, pi *poolInfo) {
	const rule = "DEFER-INIT"
	n := 0
	for _, f := range p.Funcs {
		fn := core.FuncName(f)
		core.EachInstr(f, func(i ssa.Instruction) {
			d, ok := i.(*ssa.Defer)
			if !ok {
				return
			}
			mc, ok := d.Call.Value.(*ssa.MakeClosure)
			if !ok {
				return
			}
			clo := mc.Fn.(*ssa.Function)
			for bi, b := range mc.Bindings {
				cell, ok := b.(*ssa.Alloc)
				if !ok {
					continue
				}
				// does the closure pass the content of this cell to a redeem function?
				releases := false
				if bi < len(clo.FreeVars) {
					fv := clo.FreeVars[bi]
					for _, ref := range core.Refs(fv) {
						ld, ok := ref.(*ssa.UnOp)
						if !ok || ld.Op != token.MUL {
							continue
						}
						for _, r2 := range core.Refs(ld) {
							if rc, arg := pi.isRedeemCall(r2); rc != nil && arg == ssa.Value(ld) {
								releases = true
							}
						}
					}
				}
				if !releases {
					continue
				}
				n++
				key := fn + ":" + cell.Comment
				// every store to the cell must dominate the defer registration (at least one must)
				assigned := false
				late := false
				for _, ref := range core.Refs(cell) {
					st, ok := ref.(*ssa.Store)
					if !ok || st.Addr != ssa.Value(cell) {
						continue
					}
					if core.InstrDominates(st, d) {
						assigned = true
					} else if core.Reaches(d, st) {
						late = true
					}
				}
				if assigned && !late {
					r.OK(rule, key, p.Pos(d.Pos()), "the released variable is assigned before the deferred release is registered")
				} else {
					r.Bad(rule, key, p.Pos(d.Pos()), "the deferred release is registered before the variable it releases is assigned: if the code in between panics, a nil pointer is put in the pool and handed to a later borrower")
				}
			}
		})
	}
	r.Count("deferred_release_sites", n)
	r.Floor("deferred_release_sites", 2)
}
