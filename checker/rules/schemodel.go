package rules

import (
	"fmt"
	"go/constant"
	"go/token"
	"go/types"
	"sort"
	"strings"

	"golang.org/x/tools/go/ssa"

	"verifchk/core"
)

// SCHEMATA-MODEL — the container that carries the schemata of a member from validation to the post-processors
// (`schemata`: zero, one or many *spec.Schema, with "one" and "multiple" as two representations) is decided
// exactly on every shape it can take: its methods are evaluated over a small symbolic heap (named schema
// objects, slices as windows on backing arrays with their capacity, so that appends alias exactly as in Go)
// for receiver and operand in {empty, one, two elements without spare capacity, two elements with spare
// capacity}, and the outcome is compared with what the container stands for:
//   Append  — afterwards the receiver holds the schemas it held plus the operand's, nothing else, and never
//             "one" together with "multiple" (the accessors look at "one" first);
//   Clone   — same number of schemas, each a fresh object holding a copy of the corresponding original;
//   Len, Slice — the number / the list of the schemas held.
// Nothing runs: this is evaluation of the function's SSA form on abstract values.

type hval struct {
	k   byte // 'n' nil pointer, 'p' pointer (s: memory key), 's' slice, 'i' int, 'b' bool, 'o' opaque object value (s: what it is a copy of), 'S' struct (fields), 'z' unknown
	s   string
	n   int64
	arr string // slice: backing array
	off int
	ln  int
	cp  int
	fs  map[string]hval
}

type heapModel struct {
	mem   map[string]hval
	fresh int
	steps int
	err   string
}

func (h *heapModel) zero(t types.Type) hval {
	switch u := t.Underlying().(type) {
	case *types.Pointer:
		return hval{k: 'n'}
	case *types.Slice:
		return hval{k: 's'}
	case *types.Basic:
		if u.Info()&types.IsBoolean != 0 {
			return hval{k: 'b'}
		}
		return hval{k: 'i'}
	case *types.Struct:
		fs := map[string]hval{}
		for i := 0; i < u.NumFields(); i++ {
			fs[core.FieldName(u, i)] = h.zero(u.Field(i).Type())
		}
		return hval{k: 'S', fs: fs}
	}
	return hval{k: 'z'}
}

// load reads the cell `key` of type t (structs are spread over one cell per field).
func (h *heapModel) load(key string, t types.Type) hval {
	if st, ok := t.Underlying().(*types.Struct); ok && isSchemataStruct(st) {
		fs := map[string]hval{}
		for i := 0; i < st.NumFields(); i++ {
			fs[core.FieldName(st, i)] = h.load(key+"."+core.FieldName(st, i), st.Field(i).Type())
		}
		return hval{k: 'S', fs: fs}
	}
	if v, ok := h.mem[key]; ok {
		return v
	}
	if _, ok := t.Underlying().(*types.Struct); ok {
		return hval{k: 'o', s: key} // the value of an object never written here: itself
	}
	return h.zero(t)
}

func (h *heapModel) store(key string, v hval) {
	if v.k == 'S' {
		for f, fv := range v.fs {
			h.store(key+"."+f, fv)
		}
		return
	}
	h.mem[key] = v
}

func isSchemataStruct(st *types.Struct) bool {
	return st.NumFields() == 2 && core.FieldName(st, 0) == "one" && core.FieldName(st, 1) == "multiple"
}

func (h *heapModel) elems(s hval) []hval {
	var out []hval
	for i := 0; i < s.ln; i++ {
		v, ok := h.mem[fmt.Sprintf("%s[%d]", s.arr, s.off+i)]
		if !ok {
			v = hval{k: 'n'}
		}
		out = append(out, v)
	}
	return out
}

func (h *heapModel) newArray(n int) string {
	h.fresh++
	return fmt.Sprintf("arr#%d", h.fresh)
}

// run evaluates f on the given arguments; returns the results of the return reached.
func (h *heapModel) run(f *ssa.Function, args []hval) []hval {
	env := map[ssa.Value]hval{}
	for i, p := range f.Params {
		env[p] = args[i]
	}
	get := func(v ssa.Value) hval {
		if k, ok := v.(*ssa.Const); ok {
			if k.Value == nil {
				return h.zero(k.Type())
			}
			switch k.Value.Kind() {
			case constant.Int:
				n, _ := constant.Int64Val(k.Value)
				return hval{k: 'i', n: n}
			case constant.Bool:
				if constant.BoolVal(k.Value) {
					return hval{k: 'b', n: 1}
				}
				return hval{k: 'b'}
			}
			return hval{k: 'z'}
		}
		if x, ok := env[v]; ok {
			return x
		}
		h.err = "value not evaluated: " + v.Name()
		return hval{k: 'z'}
	}
	b := f.Blocks[0]
	var prev *ssa.BasicBlock
	for h.err == "" {
		var next *ssa.BasicBlock
		for _, ins := range b.Instrs {
			h.steps++
			if h.steps > 4000 {
				h.err = "evaluation does not end"
				return nil
			}
			switch x := ins.(type) {
			case *ssa.Phi:
				for i, pb := range b.Preds {
					if pb == prev {
						env[x] = get(x.Edges[i])
					}
				}
			case *ssa.Alloc:
				h.fresh++
				key := fmt.Sprintf("obj#%d", h.fresh)
				env[x] = hval{k: 'p', s: key}
			case *ssa.FieldAddr:
				base := get(x.X)
				_, name, _ := core.FieldOf(x)
				if base.k != 'p' {
					h.err = "field of a nil or unknown pointer at " + x.Name()
					break
				}
				env[x] = hval{k: 'p', s: base.s + "." + name}
			case *ssa.Field:
				base := get(x.X)
				st := x.X.Type().Underlying().(*types.Struct)
				env[x] = base.fs[core.FieldName(st, x.Field)]
			case *ssa.IndexAddr:
				base, idx := get(x.X), get(x.Index)
				switch base.k {
				case 'p':
					env[x] = hval{k: 'p', s: fmt.Sprintf("%s[%d]", base.s, idx.n)}
				case 's':
					if int(idx.n) >= base.ln || idx.n < 0 {
						h.err = fmt.Sprintf("index %d out of range (len %d)", idx.n, base.ln)
						break
					}
					env[x] = hval{k: 'p', s: fmt.Sprintf("%s[%d]", base.arr, base.off+int(idx.n))}
				default:
					h.err = "index of an unknown value"
				}
			case *ssa.UnOp:
				v := get(x.X)
				switch x.Op {
				case token.MUL:
					if v.k != 'p' {
						h.err = "load through a nil or unknown pointer at " + x.Name()
						break
					}
					env[x] = h.load(v.s, x.Type())
				case token.NOT:
					env[x] = hval{k: 'b', n: 1 - v.n}
				default:
					env[x] = hval{k: 'z'}
				}
			case *ssa.Store:
				a := get(x.Addr)
				if a.k != 'p' {
					h.err = "store through a nil or unknown pointer"
					break
				}
				h.store(a.s, get(x.Val))
			case *ssa.Slice:
				base := get(x.X)
				lo, hi := 0, -1
				if x.Low != nil {
					lo = int(get(x.Low).n)
				}
				if x.High != nil {
					hi = int(get(x.High).n)
				}
				switch base.k {
				case 'p': // pointer to array
					n := int(x.X.Type().Underlying().(*types.Pointer).Elem().Underlying().(*types.Array).Len())
					if hi < 0 {
						hi = n
					}
					env[x] = hval{k: 's', arr: base.s, off: lo, ln: hi - lo, cp: n - lo}
				case 's':
					if hi < 0 {
						hi = base.ln
					}
					if hi > base.cp || lo > hi {
						h.err = "slice bounds out of range"
						break
					}
					env[x] = hval{k: 's', arr: base.arr, off: base.off + lo, ln: hi - lo, cp: base.cp - lo}
				}
			case *ssa.MakeSlice:
				ln, cp := int(get(x.Len).n), int(get(x.Cap).n)
				if ln > cp {
					h.err = "make: len larger than cap"
					break
				}
				env[x] = hval{k: 's', arr: h.newArray(cp), ln: ln, cp: cp}
			case *ssa.BinOp:
				a, c := get(x.X), get(x.Y)
				eq := func() bool {
					if a.k == 'n' || c.k == 'n' {
						if a.k == 's' || c.k == 's' { // slice against nil
							s := a
							if a.k == 'n' {
								s = c
							}
							return s.arr == ""
						}
						return a.k == c.k
					}
					if a.k == 'p' {
						return a.s == c.s
					}
					return a.n == c.n
				}
				bv := func(t bool) hval {
					if t {
						return hval{k: 'b', n: 1}
					}
					return hval{k: 'b'}
				}
				switch x.Op {
				case token.EQL:
					env[x] = bv(eq())
				case token.NEQ:
					env[x] = bv(!eq())
				case token.LSS:
					env[x] = bv(a.n < c.n)
				case token.LEQ:
					env[x] = bv(a.n <= c.n)
				case token.GTR:
					env[x] = bv(a.n > c.n)
				case token.GEQ:
					env[x] = bv(a.n >= c.n)
				case token.ADD:
					env[x] = hval{k: 'i', n: a.n + c.n}
				case token.SUB:
					env[x] = hval{k: 'i', n: a.n - c.n}
				default:
					env[x] = hval{k: 'z'}
				}
			case *ssa.Call:
				bi, ok := x.Call.Value.(*ssa.Builtin)
				if !ok {
					h.err = "call of " + core.CalleeID(x) + " inside a container method"
					break
				}
				switch bi.Name() {
				case "len":
					env[x] = hval{k: 'i', n: int64(get(x.Call.Args[0]).ln)}
				case "cap":
					env[x] = hval{k: 'i', n: int64(get(x.Call.Args[0]).cp)}
				case "append":
					s, t := get(x.Call.Args[0]), get(x.Call.Args[1])
					add := h.elems(t)
					if s.ln+len(add) <= s.cp && s.arr != "" {
						for i, e := range add {
							h.mem[fmt.Sprintf("%s[%d]", s.arr, s.off+s.ln+i)] = e
						}
						env[x] = hval{k: 's', arr: s.arr, off: s.off, ln: s.ln + len(add), cp: s.cp}
					} else if len(add) == 0 {
						env[x] = s
					} else {
						old := h.elems(s)
						ncp := 2*s.cp + len(add)
						arr := h.newArray(ncp)
						for i, e := range append(old, add...) {
							h.mem[fmt.Sprintf("%s[%d]", arr, i)] = e
						}
						env[x] = hval{k: 's', arr: arr, ln: len(old) + len(add), cp: ncp}
					}
				case "copy":
					d, s := get(x.Call.Args[0]), get(x.Call.Args[1])
					src := h.elems(s)
					n := len(src)
					if d.ln < n {
						n = d.ln
					}
					for i := 0; i < n; i++ {
						h.mem[fmt.Sprintf("%s[%d]", d.arr, d.off+i)] = src[i]
					}
					env[x] = hval{k: 'i', n: int64(n)}
				default:
					h.err = "builtin " + bi.Name()
				}
			case *ssa.If:
				if get(x.Cond).n == 1 {
					next = b.Succs[0]
				} else {
					next = b.Succs[1]
				}
			case *ssa.Jump:
				next = b.Succs[0]
			case *ssa.Return:
				var out []hval
				for _, rv := range x.Results {
					out = append(out, get(rv))
				}
				return out
			case *ssa.DebugRef:
			default:
				if v, ok := ins.(ssa.Value); ok {
					env[v] = hval{k: 'z'}
				}
			}
			if h.err != "" {
				return nil
			}
		}
		if next == nil {
			h.err = "block without successor"
			return nil
		}
		prev, b = b, next
	}
	return nil
}

type schShape struct {
	name  string
	n     int // schemas held
	spare int // spare capacity of the multiple representation
}

var schShapes = []schShape{{"empty", 0, 0}, {"one", 1, 0}, {"two", 2, 0}, {"two+spare", 2, 3}, {"three+spare", 3, 1}}

// build puts a container of the given shape into the heap under `key` (fields key.one, key.multiple) and returns
// the names of the schema objects it holds.
func (h *heapModel) build(key, tag string, sh schShape) []string {
	var ids []string
	switch {
	case sh.n == 0:
		h.mem[key+".one"] = hval{k: 'n'}
		h.mem[key+".multiple"] = hval{k: 's'}
	case sh.n == 1:
		id := tag + "1"
		ids = append(ids, id)
		h.mem[key+".one"] = hval{k: 'p', s: id}
		h.mem[key+".multiple"] = hval{k: 's'}
	default:
		arr := tag + "arr"
		for i := 0; i < sh.n; i++ {
			id := fmt.Sprintf("%s%c", tag, 'a'+i)
			ids = append(ids, id)
			h.mem[fmt.Sprintf("%s[%d]", arr, i)] = hval{k: 'p', s: id}
		}
		h.mem[key+".one"] = hval{k: 'n'}
		h.mem[key+".multiple"] = hval{k: 's', arr: arr, ln: sh.n, cp: sh.n + sh.spare}
	}
	return ids
}

// held: the schema objects a container value stands for, and whether both representations are filled.
func (h *heapModel) held(one, multiple hval) (ids []string, both bool) {
	if one.k == 'p' {
		ids = append(ids, one.s)
	}
	for _, e := range h.elems(multiple) {
		if e.k == 'p' {
			ids = append(ids, e.s)
		} else {
			ids = append(ids, "<nil>")
		}
	}
	return ids, one.k == 'p' && multiple.ln > 0
}

func SchemataModel(p *core.Prog, r *core.Report) {
	const rule = "SCHEMATA-MODEL"
	var named *types.Named
	if p.Main != nil {
		if o := p.Main.Pkg.Scope().Lookup("schemata"); o != nil {
			named, _ = o.Type().(*types.Named)
		}
	}
	if named == nil {
		// by shape
		for _, m := range p.Main.Members {
			if t, ok := m.(*ssa.Type); ok {
				if st, ok := t.Type().Underlying().(*types.Struct); ok && isSchemataStruct(st) {
					named, _ = t.Type().(*types.Named)
				}
			}
		}
	}
	if named == nil {
		r.Unk(rule, "type", "-", "the schemata container type (one / multiple) was not found")
		return
	}
	method := func(name string) *ssa.Function {
		for _, t := range []types.Type{named, types.NewPointer(named)} {
			ms := p.SSA.MethodSets.MethodSet(t)
			for i := 0; i < ms.Len(); i++ {
				if ms.At(i).Obj().Name() == name {
					if f := p.SSA.MethodValue(ms.At(i)); f != nil && len(f.Blocks) > 0 && f.Synthetic == "" {
						return f
					}
				}
			}
		}
		return nil
	}
	recvArg := func(h *heapModel, f *ssa.Function, key string) hval {
		if _, isPtr := f.Params[0].Type().Underlying().(*types.Pointer); isPtr {
			return hval{k: 'p', s: key}
		}
		return h.load(key, f.Params[0].Type())
	}
	sorted := func(l []string) string {
		c := append([]string(nil), l...)
		sort.Strings(c)
		return strings.Join(c, ",")
	}
	cases := 0
	report := func(key string, f *ssa.Function, bad []string, good string) {
		if f == nil {
			return
		}
		if len(bad) > 0 {
			more := ""
			if len(bad) > 3 {
				more = fmt.Sprintf(" … %d more", len(bad)-3)
				bad = bad[:3]
			}
			r.Bad(rule, key, p.Pos(f.Pos()), strings.Join(bad, "; ")+more)
		} else {
			r.OK(rule, key, p.Pos(f.Pos()), good)
		}
	}
	// ---- Append ----
	if f := method("Append"); f == nil || len(f.Params) != 2 {
		r.Unk(rule, "Append", "-", "the container's Append method was not found")
	} else {
		var bad []string
		for _, s := range schShapes {
			for _, o := range schShapes {
				cases++
				h := &heapModel{mem: map[string]hval{}}
				sIDs := h.build("recv", "S", s)
				oIDs := h.build("other", "O", o)
				h.run(f, []hval{recvArg(h, f, "recv"), h.load("other", f.Params[1].Type())})
				name := fmt.Sprintf("Append(%s, %s)", s.name, o.name)
				if h.err != "" {
					bad = append(bad, name+": "+h.err)
					continue
				}
				got, both := h.held(h.load("recv.one", types.NewPointer(types.Typ[types.Int])), h.mem["recv.multiple"])
				want := append(append([]string(nil), sIDs...), oIDs...)
				if sorted(got) != sorted(want) {
					bad = append(bad, fmt.Sprintf("%s: the receiver ends up holding [%s], it must hold [%s] — schemata recorded for a member are lost or duplicated on merge, so a default declared by one of them is not applied / a described member is pruned", name, strings.Join(got, ","), strings.Join(want, ",")))
				} else if both {
					bad = append(bad, name+": both representations are filled afterwards (the accessors report `one` only)")
				}
				// the operand is left as it was
				if og, _ := h.held(h.mem["other.one"], h.mem["other.multiple"]); sorted(og) != sorted(oIDs) {
					bad = append(bad, name+": the operand is modified")
				}
			}
		}
		report("Append:total", f, bad, fmt.Sprintf("on all %d shape pairs the receiver afterwards holds exactly its schemas plus the operand's, in one representation", len(schShapes)*len(schShapes)))
	}
	// ---- Clone ----
	if f := method("Clone"); f == nil || len(f.Params) != 1 {
		r.Unk(rule, "Clone", "-", "the container's Clone method was not found")
	} else {
		var bad []string
		for _, s := range schShapes {
			cases++
			h := &heapModel{mem: map[string]hval{}}
			sIDs := h.build("recv", "S", s)
			res := h.run(f, []hval{recvArg(h, f, "recv")})
			name := fmt.Sprintf("Clone(%s)", s.name)
			if h.err != "" || len(res) != 1 || res[0].k != 'S' {
				bad = append(bad, name+": "+h.err+" (no container value returned)")
				continue
			}
			got, both := h.held(res[0].fs["one"], res[0].fs["multiple"])
			if len(got) != len(sIDs) || both {
				bad = append(bad, fmt.Sprintf("%s: the clone holds %d schema(s), the original %d", name, len(got), len(sIDs)))
				continue
			}
			for i, id := range got {
				v := h.mem[id]
				fresh := true
				for _, o := range sIDs {
					if o == id {
						fresh = false
					}
				}
				switch {
				case !fresh:
					bad = append(bad, fmt.Sprintf("%s: element %d of the clone is the original's own schema object (shared with a result about to be recycled)", name, i))
				case v.k != 'o' || v.s != sIDs[i]:
					bad = append(bad, fmt.Sprintf("%s: element %d of the clone is not a copy of element %d of the original", name, i, i))
				}
			}
			if res[0].fs["multiple"].arr != "" && res[0].fs["multiple"].arr == h.mem["recv.multiple"].arr {
				bad = append(bad, name+": the clone shares the backing array of the original")
			}
		}
		report("Clone:faithful", f, bad, "a clone holds as many schemas as the original, each a fresh object holding a copy of the corresponding one")
	}
	// ---- Len / Slice ----
	for _, mn := range []string{"Len", "Slice"} {
		f := method(mn)
		if f == nil || len(f.Params) != 1 {
			continue // not every version has them
		}
		var bad []string
		for _, s := range schShapes {
			cases++
			h := &heapModel{mem: map[string]hval{}}
			sIDs := h.build("recv", "S", s)
			res := h.run(f, []hval{recvArg(h, f, "recv")})
			name := fmt.Sprintf("%s(%s)", mn, s.name)
			if h.err != "" || len(res) != 1 {
				bad = append(bad, name+": "+h.err)
				continue
			}
			if mn == "Len" {
				if res[0].k != 'i' || int(res[0].n) != len(sIDs) {
					bad = append(bad, fmt.Sprintf("%s = %d, the container holds %d", name, res[0].n, len(sIDs)))
				}
				continue
			}
			var got []string
			for _, e := range h.elems(res[0]) {
				got = append(got, e.s)
			}
			if strings.Join(got, ",") != strings.Join(sIDs, ",") {
				bad = append(bad, fmt.Sprintf("%s = [%s], the container holds [%s]", name, strings.Join(got, ","), strings.Join(sIDs, ",")))
			}
		}
		report(mn+":exact", f, bad, mn+" agrees with the schemas held on every shape")
	}
	r.Count("schemata_model_cases", cases)
	r.Floor("schemata_model_cases", 30)
}
